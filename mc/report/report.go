// Package report is the common evidence / violation / known-finding plumbing of every check.
//
// A checker does:
//
//	r := report.New("C07", "model_checking")
//	... r.Add("evaluations", n) / r.Distinct(key) / r.Sample(x) / r.Violation(sig, what, replay)
//	r.Finish()   // writes evidence/<id>.json, prints KNOWN-FINDING / VIOLATION lines, exits
//
// Exit codes: 0 held (possibly with KNOWN-FINDING lines), 1 unlisted violation, 2 vacuous / invalid
// machinery state, 3 irreproducible violation (harness nondeterminism).
package report

import (
	"bufio"
	"crypto/sha1"
	"encoding/hex"
	"encoding/json"
	"flag"
	"fmt"
	"os"
	"path/filepath"
	"sort"
	"strconv"
	"strings"
	"sync"
	"time"
)

// VerifDir is the root of the verification tree.
func VerifDir() string {
	if d := os.Getenv("VERIF_DIR"); d != "" {
		return d
	}
	return "/verif"
}

type finding struct {
	Status   string `json:"status"`
	Property string `json:"property"`
	Key      string `json:"key"`
	What     string `json:"what"`
	Commit   string `json:"commit,omitempty"`
}

type viol struct {
	Sig    string
	What   string
	Replay interface{}
	Count  int
}

// Run collects what one execution of a check covered.
type Run struct {
	ID    string
	Level string
	tier  string
	seed  int
	start time.Time

	ReplayPath string // non-empty when invoked with -replay
	Shard      string

	mu          sync.Mutex
	cov         map[string]interface{}
	counters    map[string]int64
	distinct    map[string]map[string]struct{}
	samples     []interface{}
	maxSamples  int
	assumptions []string
	viols       map[string]*viol
	known       map[string]finding
	knownHit    map[string]int
	vacuous     []string
	exhaustive  bool
	exhSet      bool
	deadline    time.Time
	noEvidence  bool
}

// New parses the common flags (-tier, -replay, -shard) and environment (VERIF_TIER, VERIF_SEED).
func New(id, level string) *Run {
	r := &Run{ID: id, Level: level, start: time.Now(), maxSamples: 6}
	tier := flag.String("tier", "", "quick|thorough")
	replay := flag.String("replay", "", "replay file")
	shard := flag.String("shard", "", "i/n")
	noev := flag.Bool("no-evidence", false, "do not write the evidence file (worker mode)")
	if !flag.Parsed() {
		flag.Parse()
	}
	r.tier = *tier
	if r.tier == "" {
		r.tier = os.Getenv("VERIF_TIER")
	}
	if r.tier != "thorough" {
		r.tier = "quick"
	}
	r.ReplayPath = *replay
	r.Shard = *shard
	r.noEvidence = *noev || os.Getenv("VERIF_NOEVIDENCE") == "1"
	if s := os.Getenv("VERIF_SEED"); s != "" {
		r.seed, _ = strconv.Atoi(s)
	}
	r.cov = map[string]interface{}{}
	r.counters = map[string]int64{}
	r.distinct = map[string]map[string]struct{}{}
	r.viols = map[string]*viol{}
	r.known = map[string]finding{}
	r.knownHit = map[string]int{}
	r.loadKnown()
	return r
}

func (r *Run) loadKnown() {
	f, err := os.Open(filepath.Join(VerifDir(), "KNOWN_FINDINGS.jsonl"))
	if err != nil {
		return
	}
	defer f.Close()
	sc := bufio.NewScanner(f)
	sc.Buffer(make([]byte, 1<<20), 1<<20)
	for sc.Scan() {
		line := strings.TrimSpace(sc.Text())
		if line == "" || strings.HasPrefix(line, "#") {
			continue
		}
		var fd finding
		if json.Unmarshal([]byte(line), &fd) != nil {
			continue
		}
		if fd.Property == r.ID && fd.Status == "known" {
			r.known[fd.Key] = fd
		}
	}
}

func (r *Run) Tier() string   { return r.tier }
func (r *Run) Quick() bool    { return r.tier == "quick" }
func (r *Run) Thorough() bool { return r.tier == "thorough" }
func (r *Run) Seed() int      { return r.seed }

// SetDeadline installs an internal deadline; Expired() turns true afterwards. A check that stops on
// it must call NotExhaustive(reason).
func (r *Run) SetDeadline(d time.Duration) { r.deadline = r.start.Add(d) }
func (r *Run) Expired() bool {
	return !r.deadline.IsZero() && time.Now().After(r.deadline)
}

// Add adds n to a numeric coverage counter.
func (r *Run) Add(key string, n int64) {
	r.mu.Lock()
	r.counters[key] += n
	r.mu.Unlock()
}

// Max keeps the maximum of a numeric coverage counter.
func (r *Run) Max(key string, n int64) {
	r.mu.Lock()
	if n > r.counters[key] {
		r.counters[key] = n
	}
	r.mu.Unlock()
}

func (r *Run) Get(key string) int64 {
	r.mu.Lock()
	defer r.mu.Unlock()
	return r.counters[key]
}

// Set stores an arbitrary coverage value.
func (r *Run) Set(key string, v interface{}) {
	r.mu.Lock()
	r.cov[key] = v
	r.mu.Unlock()
}

// Distinct records a member of a named set; the set sizes are reported as coverage counts
// ("distinct_nontrivial" is the conventional name for the main one).
func (r *Run) Distinct(set, member string) {
	if len(member) > 40 {
		h := sha1.Sum([]byte(member))
		member = hex.EncodeToString(h[:12])
	}
	r.mu.Lock()
	m := r.distinct[set]
	if m == nil {
		m = map[string]struct{}{}
		r.distinct[set] = m
	}
	m[member] = struct{}{}
	r.mu.Unlock()
}

func (r *Run) DistinctCount(set string) int {
	r.mu.Lock()
	defer r.mu.Unlock()
	return len(r.distinct[set])
}

// Sample keeps up to maxSamples actual cases.
func (r *Run) Sample(x interface{}) {
	r.mu.Lock()
	if len(r.samples) < r.maxSamples {
		r.samples = append(r.samples, x)
	}
	r.mu.Unlock()
}

func (r *Run) WantSample() bool {
	r.mu.Lock()
	defer r.mu.Unlock()
	return len(r.samples) < r.maxSamples
}

func (r *Run) Assume(s ...string) {
	r.mu.Lock()
	r.assumptions = append(r.assumptions, s...)
	r.mu.Unlock()
}

// Exhaustive states whether the enumerated space was finished.
func (r *Run) Exhaustive(b bool) {
	r.mu.Lock()
	if !r.exhSet || !b {
		r.exhaustive = b
	}
	r.exhSet = true
	r.mu.Unlock()
}

func (r *Run) NotExhaustive(reason string) {
	r.Exhaustive(false)
	r.mu.Lock()
	prev, _ := r.cov["cap_reached"].(string)
	if prev != "" {
		prev += "; "
	}
	r.cov["cap_reached"] = prev + reason
	r.mu.Unlock()
}

// Vacuous records a failed vacuity guard: the run exits 2, never "pass".
func (r *Run) Vacuous(why string) {
	r.mu.Lock()
	r.vacuous = append(r.vacuous, why)
	r.mu.Unlock()
}

// Require is a vacuity guard.
func (r *Run) Require(cond bool, why string) {
	if !cond {
		r.Vacuous(why)
	}
}

// Violation records a violation with a signature (the input/history class that fails) and a replay
// object. Known signatures become KNOWN-FINDING lines.
func (r *Run) Violation(sig, what string, replay interface{}) {
	r.mu.Lock()
	defer r.mu.Unlock()
	if _, ok := r.known[sig]; ok {
		r.knownHit[sig]++
		return
	}
	v := r.viols[sig]
	if v == nil {
		v = &viol{Sig: sig, What: what, Replay: replay}
		r.viols[sig] = v
	}
	v.Count++
}

// ViolationConfirmed re-executes `again` 5 times; all must return the same signature.
// A divergence is a harness bug: exit 3.
func (r *Run) ViolationConfirmed(sig, what string, replay interface{}, again func() string) {
	for i := 0; i < 5; i++ {
		if s := again(); s != sig {
			fmt.Printf("MACHINERY-ERROR property=%s irreproducible violation sig=%q rerun=%q\n", r.ID, sig, s)
			os.Exit(3)
		}
	}
	r.Violation(sig, what, replay)
}

func (r *Run) NumViolations() int {
	r.mu.Lock()
	defer r.mu.Unlock()
	return len(r.viols)
}

// IsKnown tells whether a signature is listed as a known finding.
func (r *Run) IsKnown(sig string) bool {
	_, ok := r.known[sig]
	return ok
}

// Finish writes the evidence file and exits with the contract's status.
// racePass turns the verdict of run.sh's free-running -race pass (VERIF_RACE_PASS) into coverage and, if the
// detector reported a data race, into a violation named after the go-kardia functions involved.
func (r *Run) racePass() {
	v := os.Getenv("VERIF_RACE_PASS")
	if v == "" || r.ReplayPath != "" {
		return
	}
	switch {
	case v == "clean":
		r.Set("race_pass", "clean: the concurrent body ran under the race detector without a report")
	case strings.HasPrefix(v, "race:"):
		path := strings.TrimPrefix(v, "race:")
		b, _ := os.ReadFile(path)
		txt := string(b)
		// the go-kardia functions of the two conflicting accesses (first frames below "Write at"/"Read at"/"Previous ...")
		// The detector stops at the first conflicting pair, which is write/write or read/write depending on its shadow
		// slots, not on the schedule: the signature names the WRITING functions only (reads only if no write frame is
		// in go-kardia code), which is the same for both kinds of pair.
		seen := map[string]bool{}
		var fns, rfns []string
		lines := strings.Split(txt, "\n")
		for i, l := range lines {
			t := strings.TrimSpace(l)
			isW := strings.HasPrefix(t, "Write at") || strings.HasPrefix(t, "Previous write at")
			isR := strings.HasPrefix(t, "Read at") || strings.HasPrefix(t, "Previous read at")
			if isW || isR {
				for _, m := range lines[i+1:] {
					m = strings.TrimSpace(m)
					if m == "" {
						break
					}
					if strings.HasPrefix(m, "github.com/kardiachain/go-kardia/") {
						fn := strings.TrimPrefix(m, "github.com/kardiachain/go-kardia/")
						if k := strings.LastIndex(fn, "("); k > 0 {
							fn = fn[:k]
						}
						if !seen[fn] {
							seen[fn] = true
							if isW {
								fns = append(fns, fn)
							} else {
								rfns = append(rfns, fn)
							}
						}
						break
					}
				}
			}
		}
		if len(fns) == 0 {
			fns = rfns
		}
		sort.Strings(fns)
		if len(txt) > 4000 {
			txt = txt[:4000]
		}
		r.Set("race_pass", "DATA RACE reported")
		r.Violation(r.ID+"|oracle=data-race|at="+strings.Join(fns, "+"), "the race detector reports unsynchronised conflicting accesses while goroutines work on private objects (shared mutable state behind an interface that is used concurrently): "+strings.Join(fns, ", "),
			map[string]interface{}{"kind": "race-pass", "report": txt})
	default:
		r.Set("race_pass", "not decided: "+v)
		r.NotExhaustive("the -race pass did not end normally: " + v)
	}
}

func (r *Run) Finish() {
	r.racePass()
	r.mu.Lock()
	defer r.mu.Unlock()
	cov := map[string]interface{}{}
	for k, v := range r.cov {
		cov[k] = v
	}
	for k, v := range r.counters {
		cov[k] = v
	}
	for k, m := range r.distinct {
		cov[k] = len(m)
	}
	if len(r.samples) > 0 {
		cov["samples"] = r.samples
	}
	if r.exhSet {
		cov["exhaustive"] = r.exhaustive
	}
	var sigs []string
	for s := range r.viols {
		sigs = append(sigs, s)
	}
	sort.Strings(sigs)
	var kh []string
	for s := range r.knownHit {
		kh = append(kh, s)
	}
	sort.Strings(kh)
	if len(kh) > 0 {
		cov["known_findings_reproduced"] = kh
	}
	if len(sigs) > 0 {
		cov["violation_signatures"] = sigs
	}
	ev := map[string]interface{}{
		"property_id": r.ID,
		"tier":        r.tier,
		"seed":        r.seed,
		"level":       r.Level,
		"coverage":    cov,
		"assumptions": append([]string{}, r.assumptions...),
		"wall_s":      time.Since(r.start).Seconds(),
		"violations":  len(sigs),
	}
	if !r.noEvidence && r.ReplayPath == "" {
		dir := filepath.Join(VerifDir(), "evidence")
		os.MkdirAll(dir, 0o755)
		b, _ := json.MarshalIndent(ev, "", " ")
		tmp := filepath.Join(dir, "."+r.ID+".json.tmp")
		if err := os.WriteFile(tmp, append(b, '\n'), 0o644); err == nil {
			os.Rename(tmp, filepath.Join(dir, r.ID+".json"))
		}
	}
	for _, s := range kh {
		fmt.Printf("KNOWN-FINDING: property=%s %s [%s] (x%d)\n", r.ID, r.known[s].What, s, r.knownHit[s])
	}
	for s, f := range r.known {
		if r.knownHit[s] == 0 {
			fmt.Fprintf(os.Stderr, "note: known finding not reproduced in this run (tier %s): %s [%s]\n", r.tier, f.What, s)
		}
	}
	if len(r.vacuous) > 0 {
		for _, w := range r.vacuous {
			fmt.Printf("VACUOUS property=%s %s\n", r.ID, w)
		}
	}
	if len(sigs) > 0 {
		rdir := filepath.Join(VerifDir(), "replay")
		os.MkdirAll(rdir, 0o755)
		for i, s := range sigs {
			v := r.viols[s]
			p := filepath.Join(rdir, fmt.Sprintf("%s-%d.json", r.ID, i))
			b, _ := json.MarshalIndent(map[string]interface{}{
				"property": r.ID, "signature": v.Sig, "what": v.What, "occurrences": v.Count, "case": v.Replay,
			}, "", " ")
			os.WriteFile(p, append(b, '\n'), 0o644)
			fmt.Printf("violation: %s: %s (x%d)\n", v.Sig, v.What, v.Count)
			fmt.Printf("VIOLATION property=%s replay=%s\n", r.ID, p)
			if i >= 19 && os.Getenv("VERIF_ALL_VIOLATIONS") == "" {
				fmt.Printf("(%d more violation signatures not listed)\n", len(sigs)-i-1)
				break
			}
		}
		os.Exit(1)
	}
	if len(r.vacuous) > 0 {
		os.Exit(2)
	}
	fmt.Printf("OK property=%s tier=%s wall=%.1fs\n", r.ID, r.tier, time.Since(r.start).Seconds())
	os.Exit(0)
}

// LoadReplay reads the "case" of a replay file into v.
func (r *Run) LoadReplay(v interface{}) error {
	b, err := os.ReadFile(r.ReplayPath)
	if err != nil {
		return err
	}
	var w struct {
		Case json.RawMessage `json:"case"`
	}
	if err := json.Unmarshal(b, &w); err != nil {
		return err
	}
	return json.Unmarshal(w.Case, v)
}
