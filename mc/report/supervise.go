package report

import (
	"fmt"
	"io"
	"os"
	"os/exec"
	"strings"
)

// Supervise runs the whole check in a child process (the same binary with VERIF_SUPERVISED=1) and returns
// immediately in the child. Nodes of the code under test run background goroutines (tx pool reorg loop,
// block-chain routines ...); an unrecovered panic in one of them takes the process down: in production that is
// the node dying, here it would take the checker with it (exit 2, nothing reported). The supervisor turns such a
// death into a reported violation `<id>|oracle=<oracle>|at=<function>` when the panicking goroutine is inside
// go-kardia code, and into a machinery error otherwise. Exit codes of a child that ends by itself are passed on.
func Supervise(id, level, oracle, context string) {
	if os.Getenv("VERIF_SUPERVISED") != "" {
		return
	}
	// scratch root for the child (nodes under test keep ticker goroutines that may look at their directories a
	// moment after being stopped: directories are not removed one by one but with the root, after the child ended)
	base := "/dev/shm"
	if _, err := os.Stat(base); err != nil {
		base = os.TempDir()
	}
	root, rerr := os.MkdirTemp(base, "verif-"+strings.ToLower(id)+"-")
	cmd := exec.Command(os.Args[0], os.Args[1:]...)
	cmd.Env = append(os.Environ(), "VERIF_SUPERVISED=1")
	if rerr == nil {
		cmd.Env = append(cmd.Env, "VERIF_TMPROOT="+root)
		defer os.RemoveAll(root)
	}
	cmd.Stdout = os.Stdout
	cmd.Stdin = os.Stdin
	var tail tailBuf
	cmd.Stderr = io.MultiWriter(os.Stderr, &tail)
	err := cmd.Run()
	code := 0
	if err != nil {
		code = 2
		if ee, ok := err.(*exec.ExitError); ok {
			code = ee.ExitCode()
		}
	}
	txt := string(tail.b)
	crashed := strings.Contains(txt, "\npanic: ") || strings.HasPrefix(txt, "panic: ") || strings.Contains(txt, "fatal error: ")
	if rerr == nil {
		os.RemoveAll(root)
	}
	if !crashed || code == 0 || code == 1 {
		os.Exit(code)
	}
	// the panicking goroutine: the first "goroutine N [running]:" block
	at, inRepo := "unknown", false
	if i := strings.Index(txt, "[running]:"); i >= 0 {
		for _, l := range strings.Split(txt[i:], "\n")[1:] {
			l = strings.TrimSpace(l)
			if l == "" {
				break
			}
			if strings.HasPrefix(l, "/") || strings.HasPrefix(l, "panic(") || strings.HasPrefix(l, "runtime.") || strings.HasPrefix(l, "runtime/") || strings.HasPrefix(l, "created by") {
				continue
			}
			fn := l
			if k := strings.LastIndex(fn, "("); k > 0 {
				fn = fn[:k]
			}
			at = strings.TrimPrefix(fn, "github.com/kardiachain/go-kardia/")
			inRepo = strings.HasPrefix(fn, "github.com/kardiachain/go-kardia/") && !strings.Contains(fn, ".Verif") && !strings.Contains(fn, ".verif")
			break
		}
	}
	what := "panic"
	if i := strings.Index(txt, "panic: "); i >= 0 {
		what = txt[i:]
		if k := strings.IndexByte(what, '\n'); k > 0 {
			what = what[:k]
		}
	} else if i := strings.Index(txt, "fatal error: "); i >= 0 {
		what = txt[i:]
		if k := strings.IndexByte(what, '\n'); k > 0 {
			what = what[:k]
		}
	}
	if !inRepo {
		fmt.Printf("MACHINERY-ERROR property=%s the evaluating process died outside go-kardia code (%s at %s)\n", id, what, at)
		os.Exit(2)
	}
	r := New(id, level)
	r.Set("rule", "the evaluating process died: only the death itself is reported")
	r.NotExhaustive("the evaluating process died with an unrecovered panic in a go-kardia goroutine")
	r.Violation(id+"|oracle="+oracle+"|at="+at, "a goroutine of the node dies with an unrecovered "+what+" at "+at+" "+context,
		map[string]interface{}{"kind": "process-death", "panic": what, "at": at})
	r.Finish()
}

type tailBuf struct{ b []byte }

func (t *tailBuf) Write(p []byte) (int, error) {
	if len(t.b) < 1<<18 {
		// keep the beginning (the panicking goroutine is printed first)
		t.b = append(t.b, p...)
	}
	return len(p), nil
}
