// Package explore is engine E1: deviation-bounded stateless search over the nondeterministic
// choices of a harness body (CHESS-style iterative context bounding, generalised to "departures
// from the default environment answer").
//
// The body calls c.Choose(costs, label): alternative 0 is the default (cost 0 by convention); the
// explorer replays a prefix of recorded choices, takes 0 afterwards, and branches on every later
// point whose accumulated cost stays within the bound. Optional state-key pruning: the body calls
// c.Key(k) at quiescent points; if the same key was already expanded with at least the remaining
// budget, the execution is cut there (its continuations are covered by the earlier visit).
package explore

import (
	"fmt"
	"hash/fnv"
	"sync"
	"sync/atomic"
	"time"
)

type point struct {
	costs  []int
	chosen int
	cum    int // cost accumulated before this point
	lab    uint32
}

// Ctx is handed to the harness body for one execution.
type Ctx struct {
	ex      *Explorer
	prefix  []int
	plabs   []uint32
	points  []point
	cost    int
	pruned  bool
	own     map[uint64]bool // keys first offered by this very execution (a repeat is a cycle, not coverage)
	Cycles  int
	User    interface{} // scratch for the harness
	Outcome string      // set by the body: terminal outcome class (for distinct-outcome statistics)
}

type prunedSignal struct{}

// IsPruned tells whether a recovered panic value is the explorer's own "cut this execution" signal
// (harness code that recovers panics must re-panic it).
func IsPruned(p interface{}) bool {
	_, ok := p.(prunedSignal)
	return ok
}

func labHash(n int, label string) uint32 {
	h := fnv.New32a()
	fmt.Fprintf(h, "%d|%s", n, label)
	return h.Sum32()
}

// Choose returns the index of the alternative to take. costs[i] is the deviation cost of alternative i.
func (c *Ctx) Choose(costs []int, label string) int {
	i := len(c.points)
	lab := labHash(len(costs), label)
	ch := 0
	if i < len(c.prefix) {
		ch = c.prefix[i]
		if ch >= len(costs) {
			panic(fmt.Sprintf("explore: replay divergence at point %d (%s): choice %d of %d", i, label, ch, len(costs)))
		}
		if i < len(c.plabs) && c.plabs[i] != lab {
			panic(fmt.Sprintf("explore: replay divergence at point %d: label %q differs from recorded", i, label))
		}
	}
	cp := make([]int, len(costs))
	copy(cp, costs)
	c.points = append(c.points, point{costs: cp, chosen: ch, cum: c.cost, lab: lab})
	c.cost += costs[ch]
	return ch
}

// ChooseN is Choose with cost 0 for alternative 0 and cost 1 for the others.
func (c *Ctx) ChooseN(n int, label string) int {
	costs := make([]int, n)
	for i := 1; i < n; i++ {
		costs[i] = 1
	}
	return c.Choose(costs, label)
}

// Cost is the deviation cost spent so far; Remaining the budget left.
func (c *Ctx) Cost() int       { return c.cost }
func (c *Ctx) Remaining() int  { return c.ex.Bound - c.cost }
func (c *Ctx) Depth() int      { return len(c.points) }
func (c *Ctx) Replaying() bool { return len(c.points) < len(c.prefix) }

// Choices returns the choice list of this execution so far (a replayable artefact).
func (c *Ctx) Choices() []int {
	out := make([]int, len(c.points))
	for i, p := range c.points {
		out[i] = p.chosen
	}
	return out
}

// Key offers a canonical state key for pruning. It only prunes past the replayed prefix.
func (c *Ctx) Key(k string) {
	if c.ex.NoPrune || len(c.points) < len(c.prefix) {
		return
	}
	rem := c.ex.Bound - c.cost
	h := fnv.New64a()
	h.Write([]byte(k))
	hk := h.Sum64()
	if c.own == nil {
		c.own = map[uint64]bool{}
	}
	if c.own[hk] {
		// the execution returned to a state it has been in itself: that is a cycle (potential
		// livelock), never "already covered" — let the body's own horizon decide
		c.Cycles++
		return
	}
	c.own[hk] = true
	e := c.ex
	sh := &e.seen[hk%uint64(len(e.seen))]
	sh.mu.Lock()
	prev, ok := sh.m[hk]
	if ok && int(prev) >= rem {
		sh.mu.Unlock()
		c.pruned = true
		panic(prunedSignal{})
	}
	sh.m[hk] = int8(rem)
	sh.mu.Unlock()
	if !ok {
		atomic.AddInt64(&e.Stats.DistinctKeys, 1)
	}
}

type shard struct {
	mu sync.Mutex
	m  map[uint64]int8
}

// Stats are the measured exploration figures.
type Stats struct {
	Executions   int64
	Pruned       int64
	DistinctKeys int64
	MaxDepth     int64
	Points       int64
	Outcomes     map[string]int64
	Completed    bool
	Bound        int
}

// Explorer drives a body over all executions within Bound.
type Explorer struct {
	Bound    int
	Workers  int
	NoPrune  bool
	Deadline time.Time
	Body     func(c *Ctx)
	// OnPanic is called when the body panics with something other than the prune signal.
	OnPanic func(c *Ctx, p interface{})

	Stats Stats
	seen  []shard
	omu   sync.Mutex
}

type work struct {
	prefix []int
	labs   []uint32
}

// RunOne executes the body once on the given choice prefix (default choices afterwards).
func (e *Explorer) RunOne(prefix []int) *Ctx {
	if e.seen == nil {
		e.init()
	}
	c := &Ctx{ex: e, prefix: prefix}
	e.exec(c)
	return c
}

func (e *Explorer) init() {
	e.seen = make([]shard, 64)
	for i := range e.seen {
		e.seen[i].m = map[uint64]int8{}
	}
	e.Stats.Outcomes = map[string]int64{}
	e.Stats.Bound = e.Bound
}

func (e *Explorer) exec(c *Ctx) {
	defer func() {
		if p := recover(); p != nil {
			if _, ok := p.(prunedSignal); ok {
				return
			}
			if e.OnPanic != nil {
				e.OnPanic(c, p)
				return
			}
			panic(p)
		}
	}()
	e.Body(c)
}

// Explore runs the whole bounded search. It returns when the space is exhausted or the deadline hit.
func (e *Explorer) Explore() *Stats {
	e.init()
	if e.Workers < 1 {
		e.Workers = 1
	}
	var mu sync.Mutex
	cond := sync.NewCond(&mu)
	stack := []work{{}}
	active := 0
	stopped := false
	var wg sync.WaitGroup
	for w := 0; w < e.Workers; w++ {
		wg.Add(1)
		go func() {
			defer wg.Done()
			for {
				mu.Lock()
				for len(stack) == 0 && active > 0 && !stopped {
					cond.Wait()
				}
				if stopped || (len(stack) == 0 && active == 0) {
					mu.Unlock()
					cond.Broadcast()
					return
				}
				if !e.Deadline.IsZero() && time.Now().After(e.Deadline) {
					stopped = true
					mu.Unlock()
					cond.Broadcast()
					return
				}
				it := stack[len(stack)-1]
				stack = stack[:len(stack)-1]
				active++
				mu.Unlock()

				c := &Ctx{ex: e, prefix: it.prefix, plabs: it.labs}
				e.exec(c)
				atomic.AddInt64(&e.Stats.Executions, 1)
				atomic.AddInt64(&e.Stats.Points, int64(len(c.points)))
				if c.pruned {
					atomic.AddInt64(&e.Stats.Pruned, 1)
				}
				for {
					md := atomic.LoadInt64(&e.Stats.MaxDepth)
					if int64(len(c.points)) <= md || atomic.CompareAndSwapInt64(&e.Stats.MaxDepth, md, int64(len(c.points))) {
						break
					}
				}
				if !c.pruned {
					e.omu.Lock()
					e.Stats.Outcomes[c.Outcome]++
					e.omu.Unlock()
				}
				var kids []work
				labs := make([]uint32, len(c.points))
				for i, p := range c.points {
					labs[i] = p.lab
				}
				for i := len(c.points) - 1; i >= len(it.prefix); i-- {
					p := c.points[i]
					for alt := len(p.costs) - 1; alt >= 1; alt-- {
						if p.cum+p.costs[alt] > e.Bound {
							continue
						}
						np := make([]int, i+1)
						for j := 0; j < i; j++ {
							np[j] = c.points[j].chosen
						}
						np[i] = alt
						kids = append(kids, work{prefix: np, labs: labs[:i+1]})
					}
				}
				mu.Lock()
				stack = append(stack, kids...)
				active--
				mu.Unlock()
				cond.Broadcast()
			}
		}()
	}
	wg.Wait()
	e.Stats.Completed = !stopped
	return &e.Stats
}
