// Package par: tiny helpers to spread an index range over goroutines.
package par

import (
	"runtime"
	"sync"
	"sync/atomic"
)

// Workers returns the number of workers to use.
func Workers() int {
	n := runtime.NumCPU()
	if n < 1 {
		n = 1
	}
	return n
}

// For runs f(i) for i in [0,n) on Workers() goroutines, handing out chunks dynamically.
// stop (may be nil) is polled between chunks; returns the number of indices completed.
func For(n int64, chunk int64, stop func() bool, f func(i int64)) int64 {
	if chunk < 1 {
		chunk = 1
	}
	var next, done int64
	var wg sync.WaitGroup
	w := Workers()
	for k := 0; k < w; k++ {
		wg.Add(1)
		go func() {
			defer wg.Done()
			for {
				if stop != nil && stop() {
					return
				}
				lo := atomic.AddInt64(&next, chunk) - chunk
				if lo >= n {
					return
				}
				hi := lo + chunk
				if hi > n {
					hi = n
				}
				for i := lo; i < hi; i++ {
					f(i)
				}
				atomic.AddInt64(&done, hi-lo)
			}
		}()
	}
	wg.Wait()
	return done
}

// Each runs f over items concurrently.
func Each(n int, f func(i int)) {
	For(int64(n), 1, nil, func(i int64) { f(int(i)) })
}

// MixedRadix decodes idx into digits with the given radices (least significant first).
func MixedRadix(idx int64, radices []int, out []int) {
	for k, r := range radices {
		out[k] = int(idx % int64(r))
		idx /= int64(r)
	}
}

// Product returns the product of radices.
func Product(radices []int) int64 {
	p := int64(1)
	for _, r := range radices {
		p *= int64(r)
	}
	return p
}
