package netsim

import (
	"fmt"

	kproto "github.com/kardiachain/go-kardia/proto/kardiachain/types"
	"github.com/kardiachain/go-kardia/types"
)

// Drivers: scripted prefixes that stop one step short of a classical attack; the exhaustive
// exploration then starts from that non-initial state (DESIGN.md 3.1 "Drivers").

// deliverWhere delivers to node i every currently deliverable message matching pred, repeatedly,
// until none matches. Returns how many were delivered.
func (w *World) deliverWhere(i int, pred func(m *Msg) bool) int {
	n := 0
	for guard := 0; guard < 200; guard++ {
		var pick *Msg
		for _, m := range w.deliverables(i) {
			if pred(m) {
				pick = m
				break
			}
		}
		if pick == nil {
			return n
		}
		w.Deliver(i, pick)
		n++
	}
	panic("netsim: deliverWhere does not terminate")
}

func (w *World) fireAll(step uint8) {
	for _, i := range w.Correct {
		if to := w.Nodes[i].PendingTimeout(); to != nil && to.Step == step {
			w.Timeout(i)
		}
	}
}

func isVote(t kproto.SignedMsgType, round uint32, from ...int) func(m *Msg) bool {
	return func(m *Msg) bool {
		if m.Kind != "vote" || m.Vote.Type != t || m.Vote.Round != round {
			return false
		}
		if len(from) == 0 {
			return true
		}
		for _, f := range from {
			if m.From == f {
				return true
			}
		}
		return false
	}
}

func isData(m *Msg) bool { return m.Kind == "proposal" || m.Kind == "part" }

// runDriver brings the network into the driver's state. It panics if the script cannot be followed
// (that would be a harness bug or a mutant that changes the protocol so much that the script derails:
// then the driver is skipped and the exploration continues from wherever it got).
func (w *World) runDriver() (ok bool) {
	if w.Cfg.Driver == "" {
		return true
	}
	defer func() {
		if p := recover(); p != nil {
			w.tracef("driver %s derailed: %v", w.Cfg.Driver, p)
			ok = false
		}
	}()
	switch w.Cfg.Driver {
	case "lock-split":
		w.driverLockSplit()
	case "late-polka":
		w.driverLatePolka()
	default:
		panic("unknown driver " + w.Cfg.Driver)
	}
	return true
}

// lock-split: one correct node (x) sees the round-1 polka for A and locks on it; the other correct
// nodes only see +2/3-any and precommit nil; everybody moves to round 2.
func (w *World) driverLockSplit() {
	if len(w.Cfg.Byz) != 1 || len(w.Correct) != 3 {
		panic("lock-split needs 3 correct + 1 byzantine")
	}
	b := w.Cfg.Byz[0]
	const stepNewHeight, stepPrevoteWait, stepPrecommitWait = 1, 5, 7
	w.fireAll(stepNewHeight)
	p := -1
	for _, i := range w.Correct {
		if w.Nodes[i].RS().Proposal != nil {
			p = i
		}
	}
	if p < 0 {
		panic("no correct proposer in round 1")
	}
	var others []int
	for _, i := range w.Correct {
		if i != p {
			others = append(others, i)
		}
	}
	x, y := others[0], others[1]
	for _, i := range others {
		w.deliverWhere(i, isData)
	}
	// x sees all three prevotes for A
	w.deliverWhere(x, isVote(kproto.PrevoteType, 1, p, y))
	if w.Nodes[x].RS().LockedBlock == nil {
		panic("x did not lock")
	}
	// p and y see only x's prevote plus a Byzantine nil prevote: +2/3 any, no polka
	for _, i := range []int{p, y} {
		w.deliverWhere(i, isVote(kproto.PrevoteType, 1, x))
		vi, _ := w.Nodes[i].RS().Validators.GetByAddress(w.Addrs[b])
		w.Deliver(i, w.byzVote(b, uint32(vi), kproto.PrevoteType, 1, 1, types.BlockID{}, "driver"))
		if to := w.Nodes[i].PendingTimeout(); to == nil || to.Step != stepPrevoteWait {
			panic(fmt.Sprintf("node %d not in prevote-wait", i))
		}
		w.Timeout(i)
	}
	// precommits: everybody sees everybody's, plus a Byzantine nil precommit
	for _, i := range w.Correct {
		w.deliverWhere(i, isVote(kproto.PrecommitType, 1))
		vi, _ := w.Nodes[i].RS().Validators.GetByAddress(w.Addrs[b])
		w.Deliver(i, w.byzVote(b, uint32(vi), kproto.PrecommitType, 1, 1, types.BlockID{}, "driver"))
	}
	w.fireAll(stepPrecommitWait)
	for _, i := range w.Correct {
		if w.Nodes[i].RS().Round != 2 {
			panic(fmt.Sprintf("node %d did not reach round 2", i))
		}
	}
	if w.Nodes[x].RS().LockedBlock == nil || w.Nodes[p].RS().LockedBlock != nil || w.Nodes[y].RS().LockedBlock != nil {
		panic("lock split not established")
	}
}

// splitRound plays one round in which every correct node prevotes the proposal, the nodes in `see`
// receive every prevote (and so see the polka and lock), the others only see +2/3-any (one correct
// prevote plus a Byzantine nil prevote) and precommit nil; then all precommits are exchanged and the
// round times out.
func (w *World) splitRound(round uint32, see map[int]bool) {
	const stepPrevoteWait, stepPrecommitWait = 5, 7
	b := w.Cfg.Byz[0]
	for _, i := range w.Correct {
		w.deliverWhere(i, func(m *Msg) bool { return isData(m) && m.Round == round })
	}
	for _, i := range w.Correct {
		if see[i] {
			w.deliverWhere(i, isVote(kproto.PrevoteType, round))
			continue
		}
		// exactly one other correct prevote
		for _, m := range w.deliverables(i) {
			if isVote(kproto.PrevoteType, round)(m) {
				w.Deliver(i, m)
				break
			}
		}
		vi, _ := w.Nodes[i].RS().Validators.GetByAddress(w.Addrs[b])
		w.Deliver(i, w.byzVote(b, uint32(vi), kproto.PrevoteType, 1, round, types.BlockID{}, "driver"))
		if to := w.Nodes[i].PendingTimeout(); to == nil || to.Step != stepPrevoteWait || to.Round != round {
			panic(fmt.Sprintf("node %d not in prevote-wait of round %d", i, round))
		}
		w.Timeout(i)
	}
	for _, i := range w.Correct {
		w.deliverWhere(i, isVote(kproto.PrecommitType, round))
		vi, _ := w.Nodes[i].RS().Validators.GetByAddress(w.Addrs[b])
		w.Deliver(i, w.byzVote(b, uint32(vi), kproto.PrecommitType, 1, round, types.BlockID{}, "driver"))
	}
	for _, i := range w.Correct {
		if to := w.Nodes[i].PendingTimeout(); to != nil && to.Step == stepPrecommitWait && to.Round == round {
			w.Timeout(i)
		}
		if w.Nodes[i].RS().Round != round+1 {
			panic(fmt.Sprintf("node %d did not reach round %d", i, round+1))
		}
	}
}

// late-polka: round 1 has a polka for P1 that nobody sees in time (all precommit nil); in round 2 one
// node (x) sees the polka for P2 and locks on it; the network is in round 3 with the round-1 prevotes
// still in flight.
func (w *World) driverLatePolka() {
	if len(w.Cfg.Byz) != 1 || len(w.Correct) != 3 {
		panic("late-polka needs 3 correct + 1 byzantine")
	}
	w.fireAll(1)
	w.splitRound(1, map[int]bool{})
	// x = a node that is not the round-2 proposer
	x := -1
	for _, i := range w.Correct {
		if w.Nodes[i].RS().Proposal == nil {
			x = i
		}
	}
	if x < 0 {
		panic("no candidate for x")
	}
	w.splitRound(2, map[int]bool{x: true})
	rs := w.Nodes[x].RS()
	if rs.LockedBlock == nil || rs.LockedRound != 2 {
		panic("x did not lock in round 2")
	}
}
