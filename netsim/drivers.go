package netsim

import (
	"fmt"
	"sort"

	"github.com/kardiachain/go-kardia/consensus"
	"verif/mc/explore"

	kproto "github.com/kardiachain/go-kardia/proto/kardiachain/types"
	"github.com/kardiachain/go-kardia/types"
)

// Drivers: scripted prefixes that stop one step short of a classical attack; the exhaustive
// exploration then starts from that non-initial state (DESIGN.md 3.1 "Drivers").

// deliverWhere delivers to node i every currently deliverable message matching pred, repeatedly,
// until none matches. Returns how many were delivered.
func (w *World) deliverWhere(i int, pred func(m *Msg) bool) int {
	n := 0
	for guard := 0; guard < 200; guard++ {
		var pick *Msg
		for _, m := range w.deliverables(i) {
			if pred(m) {
				pick = m
				break
			}
		}
		if pick == nil {
			return n
		}
		w.Deliver(i, pick)
		n++
	}
	panic("netsim: deliverWhere does not terminate")
}

func (w *World) fireAll(step uint8) {
	for _, i := range w.Correct {
		if to := w.Nodes[i].PendingTimeout(); to != nil && to.Step == step {
			w.Timeout(i)
		}
	}
}

func isVote(t kproto.SignedMsgType, round uint32, from ...int) func(m *Msg) bool {
	return func(m *Msg) bool {
		if m.Kind != "vote" || m.Vote.Type != t || m.Vote.Round != round {
			return false
		}
		if len(from) == 0 {
			return true
		}
		for _, f := range from {
			if m.From == f {
				return true
			}
		}
		return false
	}
}

func isData(m *Msg) bool { return m.Kind == "proposal" || m.Kind == "part" }

// runDriver brings the network into the driver's state. It panics if the script cannot be followed
// (that would be a harness bug or a mutant that changes the protocol so much that the script derails:
// then the driver is skipped and the exploration continues from wherever it got).
func (w *World) runDriver() (ok bool) {
	if w.Cfg.Driver == "" {
		return true
	}
	defer func() {
		if p := recover(); p != nil {
			if explore.IsPruned(p) {
				panic(p)
			}
			w.tracef("driver %s derailed: %v", w.Cfg.Driver, p)
			ok = false
		}
	}()
	switch w.Cfg.Driver {
	case "lock-split":
		w.driverLockSplit()
	case "late-polka":
		w.driverLatePolka()
	case "solo3":
		w.driverSolo(3, false)
		w.ended = true
	case "solo4":
		w.driverSolo(4, false)
		w.ended = true
	case "solo5":
		w.driverSolo(5, false)
		w.ended = true
	case "solo3x":
		w.driverSolo(3, true)
		w.ended = true
	case "solo4x":
		w.driverSolo(4, true)
		w.ended = true
	case "orders":
		w.driverOrders()
	case "orders-weak":
		w.driverOrdersWeak()
	case "late-commit":
		w.driverLateCommit()
	case "lagging2":
		w.driverLagging(2)
	case "lagging3":
		w.driverLagging(3)
	case "macro2":
		w.driverMacro(2)
	case "macro3":
		w.driverMacro(3)
	default:
		panic("unknown driver " + w.Cfg.Driver)
	}
	return true
}

// lock-split: one correct node (x) sees the round-1 polka for A and locks on it; the other correct
// nodes only see +2/3-any and precommit nil; everybody moves to round 2.
func (w *World) driverLockSplit() {
	if len(w.Cfg.Byz) != 1 || len(w.Correct) != 3 {
		panic("lock-split needs 3 correct + 1 byzantine")
	}
	b := w.Cfg.Byz[0]
	const stepNewHeight, stepPrevoteWait, stepPrecommitWait = 1, 5, 7
	w.fireAll(stepNewHeight)
	p := -1
	for _, i := range w.Correct {
		if w.Nodes[i].RS().Proposal != nil {
			p = i
		}
	}
	if p < 0 {
		panic("no correct proposer in round 1")
	}
	var others []int
	for _, i := range w.Correct {
		if i != p {
			others = append(others, i)
		}
	}
	x, y := others[0], others[1]
	for _, i := range others {
		w.deliverWhere(i, isData)
	}
	// x sees all three prevotes for A
	w.deliverWhere(x, isVote(kproto.PrevoteType, 1, p, y))
	if w.Nodes[x].RS().LockedBlock == nil {
		panic("x did not lock")
	}
	// p and y see only x's prevote plus a Byzantine nil prevote: +2/3 any, no polka
	for _, i := range []int{p, y} {
		w.deliverWhere(i, isVote(kproto.PrevoteType, 1, x))
		vi, _ := w.Nodes[i].RS().Validators.GetByAddress(w.Addrs[b])
		w.Deliver(i, w.byzVote(b, uint32(vi), kproto.PrevoteType, 1, 1, types.BlockID{}, "driver"))
		if to := w.Nodes[i].PendingTimeout(); to == nil || to.Step != stepPrevoteWait {
			panic(fmt.Sprintf("node %d not in prevote-wait", i))
		}
		w.Timeout(i)
	}
	// precommits: everybody sees everybody's, plus a Byzantine nil precommit
	for _, i := range w.Correct {
		w.deliverWhere(i, isVote(kproto.PrecommitType, 1))
		vi, _ := w.Nodes[i].RS().Validators.GetByAddress(w.Addrs[b])
		w.Deliver(i, w.byzVote(b, uint32(vi), kproto.PrecommitType, 1, 1, types.BlockID{}, "driver"))
	}
	w.fireAll(stepPrecommitWait)
	for _, i := range w.Correct {
		if w.Nodes[i].RS().Round != 2 {
			panic(fmt.Sprintf("node %d did not reach round 2", i))
		}
	}
	if w.Nodes[x].RS().LockedBlock == nil || w.Nodes[p].RS().LockedBlock != nil || w.Nodes[y].RS().LockedBlock != nil {
		panic("lock split not established")
	}
}

// splitRound plays one round in which every correct node prevotes the proposal, the nodes in `see`
// receive every prevote (and so see the polka and lock), the others only see +2/3-any (one correct
// prevote plus a Byzantine nil prevote) and precommit nil; then all precommits are exchanged and the
// round times out.
func (w *World) splitRound(round uint32, see map[int]bool) {
	const stepPrevoteWait, stepPrecommitWait = 5, 7
	b := w.Cfg.Byz[0]
	for _, i := range w.Correct {
		w.deliverWhere(i, func(m *Msg) bool { return isData(m) && m.Round == round })
	}
	for _, i := range w.Correct {
		if see[i] {
			w.deliverWhere(i, isVote(kproto.PrevoteType, round))
			continue
		}
		// exactly one other correct prevote
		for _, m := range w.deliverables(i) {
			if isVote(kproto.PrevoteType, round)(m) {
				w.Deliver(i, m)
				break
			}
		}
		vi, _ := w.Nodes[i].RS().Validators.GetByAddress(w.Addrs[b])
		w.Deliver(i, w.byzVote(b, uint32(vi), kproto.PrevoteType, 1, round, types.BlockID{}, "driver"))
		if to := w.Nodes[i].PendingTimeout(); to == nil || to.Step != stepPrevoteWait || to.Round != round {
			panic(fmt.Sprintf("node %d not in prevote-wait of round %d", i, round))
		}
		w.Timeout(i)
	}
	for _, i := range w.Correct {
		w.deliverWhere(i, isVote(kproto.PrecommitType, round))
		vi, _ := w.Nodes[i].RS().Validators.GetByAddress(w.Addrs[b])
		w.Deliver(i, w.byzVote(b, uint32(vi), kproto.PrecommitType, 1, round, types.BlockID{}, "driver"))
	}
	for _, i := range w.Correct {
		if to := w.Nodes[i].PendingTimeout(); to != nil && to.Step == stepPrecommitWait && to.Round == round {
			w.Timeout(i)
		}
		if w.Nodes[i].RS().Round != round+1 {
			panic(fmt.Sprintf("node %d did not reach round %d", i, round+1))
		}
	}
}

// late-polka: round 1 has a polka for P1 that nobody sees in time (all precommit nil); in round 2 one
// node (x) sees the polka for P2 and locks on it; the network is in round 3 with the round-1 prevotes
// still in flight.
func (w *World) driverLatePolka() {
	if len(w.Cfg.Byz) != 1 || len(w.Correct) != 3 {
		panic("late-polka needs 3 correct + 1 byzantine")
	}
	w.fireAll(1)
	w.splitRound(1, map[int]bool{})
	// x = a node that is not the round-2 proposer
	x := -1
	for _, i := range w.Correct {
		if w.Nodes[i].RS().Proposal == nil {
			x = i
		}
	}
	if x < 0 {
		panic("no candidate for x")
	}
	w.splitRound(2, map[int]bool{x: true})
	rs := w.Nodes[x].RS()
	if rs.LockedBlock == nil || rs.LockedRound != 2 {
		panic("x did not lock in round 2")
	}
}

// ---------------------------------------------------------------------------------------------
// macro-round exploration: instead of single deliveries, each choice fixes the shape of a whole round
// (who gets the proposal, what the Byzantine validator prevotes, who sees all prevotes, whether older
// held-back votes are released first). All alternatives cost 0, so the explorer enumerates the full
// product of round shapes for the first R rounds; the default schedule then runs to completion.
// This reaches the multi-round lock / re-lock / stale-polka histories that single-deviation bounds do not.

type roundShape struct {
	release    bool // deliver every held-back vote of older rounds to x first
	xGetsData  bool // x receives this round's proposal and parts
	byzPrevote int  // 0 = nil, 1 = this round's proposal block, 2 = no Byzantine prevote
	seeAll     int  // 0 = nobody sees all prevotes, 1 = only x, 2 = only the others, 3 = everybody
}

func (w *World) fireIf(i int, step uint8, round uint32) bool {
	n := w.Nodes[i]
	if n.Failed != nil {
		return false
	}
	if to := n.PendingTimeout(); to != nil && to.Step == step && to.Round == round && to.Height == n.RS().Height {
		w.Timeout(i)
		return true
	}
	return false
}

func (w *World) driverMacro(rounds int) {
	if len(w.Cfg.Byz) != 1 || len(w.Correct) != 3 {
		panic("macro driver needs 3 correct + 1 byzantine")
	}
	b := w.Cfg.Byz[0]
	const stepNewHeight, stepPropose, stepPrevoteWait, stepPrecommitWait = 1, 3, 5, 7
	w.fireAll(stepNewHeight)
	// x = the first correct node that is not the round-1 proposer
	x := -1
	for _, i := range w.Correct {
		if w.Nodes[i].RS().Proposal == nil {
			x = i
			break
		}
	}
	if x < 0 {
		x = w.Correct[0]
	}
	h := w.Nodes[x].RS().Height
	for r := 1; r <= rounds; r++ {
		round := uint32(r)
		if w.Done() || w.Nodes[x].RS().Height != h {
			return
		}
		for _, i := range w.Correct {
			if w.Nodes[i].RS().Round != round || w.Nodes[i].Failed != nil {
				return // the network left the lock-step shape: the default schedule takes over
			}
		}
		w.X.Key("macro|" + w.StateKey(r))
		costs := make([]int, 2*2*3*4)
		ch := w.X.Choose(costs, fmt.Sprintf("macro-round-%d", r))
		sh := roundShape{release: ch%2 == 1, xGetsData: (ch/2)%2 == 0, byzPrevote: (ch / 4) % 3, seeAll: (ch / 12) % 4}
		w.Deviations = append(w.Deviations, fmt.Sprintf("round%d:%+v", r, sh))
		if sh.release {
			w.deliverWhere(x, func(m *Msg) bool { return m.Kind == "vote" && m.Vote.Round < round })
		}
		// data
		var prop *Msg
		for _, i := range w.Correct {
			if i == x && !sh.xGetsData {
				continue
			}
			w.deliverWhere(i, func(m *Msg) bool {
				if isData(m) && m.Round == round {
					if m.Kind == "proposal" {
						prop = m
					}
					return true
				}
				return false
			})
		}
		if prop == nil {
			for _, i := range w.Correct {
				if p := w.Nodes[i].RS().Proposal; p != nil && p.Round == round {
					prop = w.wrap(consensus.VerifProposalMsg(p), -1)
				}
			}
		}
		for _, i := range w.Correct {
			w.fireIf(i, stepPropose, round) // whoever still waits for a proposal times out and prevotes
		}
		// Byzantine prevote
		byzPV := func(i int) {
			if sh.byzPrevote == 2 {
				return
			}
			id := types.BlockID{}
			if sh.byzPrevote == 1 && prop != nil {
				id = prop.Prop.POLBlockID
			}
			vi, _ := w.Nodes[i].RS().Validators.GetByAddress(w.Addrs[b])
			w.Deliver(i, w.byzVote(b, uint32(vi), kproto.PrevoteType, h, round, id, "macro"))
		}
		sees := func(i int) bool {
			switch sh.seeAll {
			case 1:
				return i == x
			case 2:
				return i != x
			case 3:
				return true
			}
			return false
		}
		for _, i := range w.Correct {
			if sees(i) {
				w.deliverWhere(i, isVote(kproto.PrevoteType, round))
				byzPV(i)
			} else {
				for _, m := range w.deliverables(i) {
					if isVote(kproto.PrevoteType, round)(m) {
						w.Deliver(i, m)
						break
					}
				}
				byzPV(i)
				if sh.byzPrevote == 2 { // without the Byzantine vote a second correct prevote is needed for +2/3 any
					for _, m := range w.deliverables(i) {
						if isVote(kproto.PrevoteType, round)(m) {
							w.Deliver(i, m)
							break
						}
					}
				}
			}
			w.fireIf(i, stepPrevoteWait, round)
		}
		// precommits: everybody sees everybody's, plus a Byzantine nil precommit
		for _, i := range w.Correct {
			if w.Nodes[i].RS().Height != h {
				continue
			}
			w.deliverWhere(i, isVote(kproto.PrecommitType, round))
			if w.Nodes[i].RS().Height == h && w.Nodes[i].Failed == nil {
				vi, _ := w.Nodes[i].RS().Validators.GetByAddress(w.Addrs[b])
				w.Deliver(i, w.byzVote(b, uint32(vi), kproto.PrecommitType, h, round, types.BlockID{}, "macro"))
			}
		}
		for _, i := range w.Correct {
			if w.Nodes[i].RS().Height == h {
				w.fireIf(i, stepPrecommitWait, round)
			}
		}
	}
}

// ---------------------------------------------------------------------------------------------
// late-commit: round 1 is a good round (everybody holds the proposal, sees the polka and precommits the block), but
// a chosen set of correct nodes (all three / two / one) first sees only +2/3-ANY precommits (its own, one other and a
// Byzantine nil), times out and enters round 2; the remaining precommits of round 1 arrive only then: those nodes
// commit the block of round 1 while standing in round 2 (commit round < current round). The default schedule then has
// to carry the network through the NEXT height, where the late committers take their proposer turns.
func (w *World) driverLateCommit() {
	if len(w.Cfg.Byz) != 1 || len(w.Correct) != 3 {
		panic("late-commit driver needs 3 correct + 1 byzantine")
	}
	b := w.Cfg.Byz[0]
	const stepNewHeight, stepPrecommitWait = 1, 7
	w.fireAll(stepNewHeight)
	h := w.Nodes[w.Correct[0]].RS().Height
	ch := w.X.Choose(make([]int, 3), "late-commit")
	nLate := 3 - ch
	w.Deviations = append(w.Deviations, fmt.Sprintf("late-commit:%d-nodes", nLate))
	for _, i := range w.Correct {
		w.deliverWhere(i, func(m *Msg) bool { return isData(m) && m.Round == 1 })
	}
	for _, i := range w.Correct {
		w.deliverWhere(i, isVote(kproto.PrevoteType, 1))
	}
	for k, i := range w.Correct {
		n := w.Nodes[i]
		if n.Failed != nil || n.RS().Height != h {
			continue
		}
		if k >= nLate {
			w.deliverWhere(i, isVote(kproto.PrecommitType, 1))
			continue
		}
		for _, m := range w.deliverables(i) {
			if isVote(kproto.PrecommitType, 1)(m) && m.Vote.ValidatorAddress != w.Addrs[i] {
				w.Deliver(i, m)
				break
			}
		}
		vi, _ := n.RS().Validators.GetByAddress(w.Addrs[b])
		w.Deliver(i, w.byzVote(b, uint32(vi), kproto.PrecommitType, h, 1, types.BlockID{}, "late-commit"))
		w.fireIf(i, stepPrecommitWait, 1)
	}
}

// ---------------------------------------------------------------------------------------------
// lagging: one correct node (x) receives NOTHING while the two other correct nodes and the Byzantine validator go
// through K failed rounds (no proposal reaches anybody but its proposer; the Byzantine validator votes nil), and the
// Byzantine validator falls silent at a chosen point of round K (never / before its precommit / before its prevote).
// Then the network heals: the default schedule delivers the whole backlog to x (votes of round r before those of
// round r+1, so x schedules a timeout in one round and is pulled into the next by the later round's +2/3 votes
// before it fires) and must bring everybody to the commit - with the Byzantine validator silent, x's votes are needed.
// Choices (all cost 0): K x silence point x whether x's own propose timeout of round 1 fired during the blackout.

func (w *World) driverLagging(maxK int) {
	if len(w.Cfg.Byz) != 1 || len(w.Correct) != 3 {
		panic("lagging driver needs 3 correct + 1 byzantine")
	}
	b := w.Cfg.Byz[0]
	const stepNewHeight, stepPropose, stepPrevoteWait, stepPrecommitWait = 1, 3, 5, 7
	w.fireAll(stepNewHeight)
	x := -1
	for _, i := range w.Correct {
		if w.Nodes[i].RS().Proposal == nil {
			x = i
			break
		}
	}
	if x < 0 {
		x = w.Correct[0]
	}
	var others []int
	for _, i := range w.Correct {
		if i != x {
			others = append(others, i)
		}
	}
	h := w.Nodes[x].RS().Height
	costs := make([]int, maxK*3*2)
	ch := w.X.Choose(costs, "lagging")
	K, silent, xFires := ch%maxK+1, (ch/maxK)%3, (ch/(maxK*3))%2 == 1
	w.Deviations = append(w.Deviations, fmt.Sprintf("lagging:rounds%d/silent%d/xfires%v", K, silent, xFires))
	fromOthers := func(t kproto.SignedMsgType, round uint32) func(m *Msg) bool {
		return func(m *Msg) bool {
			return m.Kind == "vote" && m.Vote.Type == t && m.Vote.Round == round && m.Vote.ValidatorAddress != w.Addrs[x] && m.Vote.ValidatorAddress != w.Addrs[b]
		}
	}
	byz := func(i int, t kproto.SignedMsgType, round uint32) {
		if w.Nodes[i].Failed != nil || w.Nodes[i].RS().Height != h {
			return
		}
		vi, _ := w.Nodes[i].RS().Validators.GetByAddress(w.Addrs[b])
		w.Deliver(i, w.byzVote(b, uint32(vi), t, h, round, types.BlockID{}, "lagging"))
	}
	if xFires {
		w.fireIf(x, stepPropose, 1)
	}
	for r := 1; r <= K; r++ {
		round, last := uint32(r), r == K
		for _, i := range others {
			w.fireIf(i, stepPropose, round) // no proposal reaches anybody but its proposer
		}
		for _, i := range others {
			w.deliverWhere(i, fromOthers(kproto.PrevoteType, round))
			if !(last && silent == 2) {
				byz(i, kproto.PrevoteType, round)
			}
			w.fireIf(i, stepPrevoteWait, round)
		}
		for _, i := range others {
			w.deliverWhere(i, fromOthers(kproto.PrecommitType, round))
			if !(last && silent >= 1) {
				byz(i, kproto.PrecommitType, round)
			}
		}
		for _, i := range others {
			w.fireIf(i, stepPrecommitWait, round)
		}
	}
}

// ---------------------------------------------------------------------------------------------
// solo: ONE correct validator x; the other three validators are played by the explorer (C03's "inputs fed
// to a single correct validator"). Each choice fixes the shape of a whole round; all alternatives cost 0,
// so the full product of shapes over the first R rounds is enumerated (with state-key pruning at round
// boundaries). The per-node rules of C03 must hold whatever the others do.
//
// Round shape: proposal {none | fresh block | (x is the proposer: its own)} x data {delivered | withheld}
//   x prevotes from the three others {mixed, no polka | polka for this round's proposal | polka for x's
//   locked block | polka for nil} x stale {none | the polka for the most recent earlier fresh proposal that x
//   is not locked on, delivered late (votes of that older round)}; precommits from the others are nil, so
//   the round ends by timeout.

func (w *World) driverSolo(rounds int, ext bool) {
	if len(w.Correct) != 1 {
		panic("solo driver needs exactly one correct validator")
	}
	x := w.Correct[0]
	n := w.Nodes[x]
	const stepNewHeight, stepPropose, stepPrevoteWait, stepPrecommitWait = 1, 3, 5, 7
	w.fireAll(stepNewHeight)
	h := n.RS().Height
	var others []int
	for b := range w.IsByz {
		others = append(others, b)
	}
	sort.Ints(others)
	type fresh struct {
		id    types.BlockID
		round uint32
	}
	var pool []fresh
	var lateLocked *fresh
	idx := func(b int) uint32 {
		vi, _ := n.RS().Validators.GetByAddress(w.Addrs[b])
		return uint32(vi)
	}
	polka := func(round uint32, id types.BlockID) {
		for _, b := range others {
			if n.Failed != nil || n.RS().Height != h {
				return
			}
			w.Deliver(x, w.byzVote(b, idx(b), kproto.PrevoteType, h, round, id, "solo"))
		}
	}
	for r := 1; r <= rounds; r++ {
		round := uint32(r)
		if n.Failed != nil || n.RS().Height != h || n.RS().Round != round {
			return
		}
		w.X.Key("solo|" + w.StateKey(r) + fmt.Sprint(pool))
		rs := n.RS()
		propAddr := rs.Validators.GetProposer().Address
		proposer := w.valIndexOfAddr(propAddr)
		nProp := 3 // none, fresh+data, fresh without data
		nStale := 2
		nPrev := 4
		if ext {
			// extended shapes: (3) an earlier fresh block proposed AGAIN with POLRound = its round, (4) a FRESH block
			// proposed with POLRound = the previous round (whatever that round's polka was for); the stale polka
			// arriving only AFTER x has prevoted in this round (stale == 2); prevote pattern (4): the polka for x's
			// locked block completes only after x has left the round (one prevote in time, two in the next round)
			// (5) a fresh INVALID block (wrong application hash) with its data: x validates it, refuses it, and shape (3) of a
			// later round offers the same block again
			nProp, nStale, nPrev = 6, 3, 5
		}
		if proposer == x {
			nProp = 1
		}
		// the late half of a polka for the locked block of the previous round arrives now
		if lateLocked != nil {
			for _, b := range others[1:] {
				if n.Failed == nil && n.RS().Height == h {
					w.Deliver(x, w.byzVote(b, idx(b), kproto.PrevoteType, h, lateLocked.round, lateLocked.id, "solo"))
				}
			}
			lateLocked = nil
		}
		costs := make([]int, nProp*nPrev*nStale)
		ch := w.X.Choose(costs, fmt.Sprintf("solo-round-%d", r))
		sp, pv, st := ch%nProp, (ch/nProp)%nPrev, (ch/(nProp*nPrev))%nStale
		w.Deviations = append(w.Deviations, fmt.Sprintf("r%d:prop%d/prev%d/stale%d", r, sp, pv, st))
		// the most recent earlier fresh proposal x is not locked on: the subject of the stale polka and of a re-proposal
		var older *fresh
		for k := len(pool) - 1; k >= 0; k-- {
			f := pool[k]
			if f.round < round && (rs.LockedBlock == nil || !rs.LockedBlock.HashesTo(f.id.Hash)) {
				older = &f
				break
			}
		}
		// stale polka first (it arrives at the beginning of the round)
		if st == 1 && older != nil {
			polka(older.round, older.id)
		}
		// proposal
		var thisID *types.BlockID
		if proposer == x {
			if p := n.RS().Proposal; p != nil {
				id := p.POLBlockID
				thisID = &id
				pool = append(pool, fresh{id, round})
			}
		} else if sp == 3 {
			if older != nil {
				if bi := w.blockByID(older.id); bi != nil {
					for _, m := range w.byzProposal(proposer, bi, h, round, older.round, "solo-reproposal") {
						w.Deliver(x, m)
					}
					id := bi.ID
					thisID = &id
				}
			}
		} else if sp > 0 {
			name := fmt.Sprintf("F%d", r)
			if sp == 5 {
				name = fmt.Sprintf("I%d", r)
			}
			bi := w.byzBlock(proposer, x, name)
			if bi != nil {
				pol := uint32(0)
				if sp == 4 && round > 1 {
					pol = round - 1
				}
				msgs := w.byzProposal(proposer, bi, h, round, pol, "solo-proposal")
				if sp == 2 {
					msgs = msgs[:1] // the proposal without its parts
				}
				for _, m := range msgs {
					w.Deliver(x, m)
				}
				id := bi.ID
				thisID = &id
				pool = append(pool, fresh{id, round})
			}
		}
		w.fireIf(x, stepPropose, round)
		// the stale polka arriving only now: x has prevoted in this round (or is still waiting for the block)
		if st == 2 && older != nil {
			polka(older.round, older.id)
		}
		// prevotes of the others
		switch pv {
		case 0: // +2/3 any without a polka: two of the others' prevotes arrive, the third is delayed (a later
			// "stale" shape may deliver it and complete the polka for this round's proposal after the fact)
			t0, t1 := types.BlockID{}, unknownID
			if thisID != nil {
				t0, t1 = *thisID, *thisID
			}
			w.Deliver(x, w.byzVote(others[0], idx(others[0]), kproto.PrevoteType, h, round, t0, "solo"))
			w.Deliver(x, w.byzVote(others[1], idx(others[1]), kproto.PrevoteType, h, round, t1, "solo"))
		case 1:
			if thisID != nil {
				polka(round, *thisID)
			} else {
				polka(round, types.BlockID{})
			}
		case 2:
			if lb := n.RS().LockedBlock; lb != nil {
				polka(round, types.BlockID{Hash: lb.Hash(), PartsHeader: n.RS().LockedBlockParts.Header()})
			} else {
				polka(round, unknownID)
			}
		case 3:
			polka(round, types.BlockID{})
		case 4:
			if lb := n.RS().LockedBlock; lb != nil {
				id := types.BlockID{Hash: lb.Hash(), PartsHeader: n.RS().LockedBlockParts.Header()}
				w.Deliver(x, w.byzVote(others[0], idx(others[0]), kproto.PrevoteType, h, round, id, "solo"))
				lateLocked = &fresh{id, round}
			}
		}
		w.fireIf(x, stepPrevoteWait, round)
		// precommits of the others: nil
		for _, b := range others {
			if n.Failed != nil || n.RS().Height != h {
				return
			}
			w.Deliver(x, w.byzVote(b, idx(b), kproto.PrecommitType, h, round, types.BlockID{}, "solo"))
		}
		w.fireIf(x, stepPrecommitWait, round)
	}
}

// ---------------------------------------------------------------------------------------------
// orders: ONE correct validator x; a valid block A is proposed in round 1 by another validator, and the four
// message groups P (the proposal), D (the block parts), V (+2/3 prevotes for A) and C (+2/3 precommits for A),
// all of round 1, reach x in every one of the 24 orders. Before the first group x is either still in round 1,
// or has been moved to round 2 by +2/3 nil prevotes of round 2 (the others decide in a round x has left), or has
// gone through round 1 the slow way (prevoted another block Z, precommitted nil, timed out into round 2);
// after each group x's pending timeout either fires or does not. All alternatives cost 0: the product
// (3 x 24 x 2^4 = 1152 executions per turn) is enumerated; afterwards the proposal and the parts are offered
// again while x lacks them (re-gossip). Whatever the order, x then holds +2/3 precommits and the complete block, so the liveness oracle (C04) demands the commit; the per-node rules of C03 judge
// the same executions.
var orderPerms = func() [][]int {
	var out [][]int
	var rec func(cur []int, used int)
	rec = func(cur []int, used int) {
		if len(cur) == 4 {
			out = append(out, append([]int{}, cur...))
			return
		}
		for k := 0; k < 4; k++ {
			if used&(1<<uint(k)) == 0 {
				rec(append(cur, k), used|1<<uint(k))
			}
		}
	}
	rec(nil, 0)
	return out
}()

func (w *World) driverOrders() {
	if len(w.Correct) != 1 {
		panic("orders driver needs exactly one correct validator")
	}
	x := w.Correct[0]
	n := w.Nodes[x]
	w.fireAll(1)
	h := n.RS().Height
	var others []int
	for b := range w.IsByz {
		others = append(others, b)
	}
	sort.Ints(others)
	idx := func(b int) uint32 {
		vi, _ := n.RS().Validators.GetByAddress(w.Addrs[b])
		return uint32(vi)
	}
	proposer := w.valIndexOfAddr(n.RS().Validators.GetProposer().Address)
	if proposer == x {
		panic("orders driver: x must not be the round-1 proposer (use SoloTurn >= 2)")
	}
	bi := w.byzBlock(proposer, x, "F1")
	if bi == nil {
		panic("orders driver: no block")
	}
	data := w.byzProposal(proposer, bi, h, 1, 0, "orders")
	ch := w.X.Choose(make([]int, 3*len(orderPerms)*16), "orders")
	late, perm, fires := ch%3, orderPerms[(ch/3)%len(orderPerms)], ch/(3*len(orderPerms))
	names := []string{"P", "D", "V", "C"}
	lab := fmt.Sprintf("late%d:", late)
	for k, g := range perm {
		lab += names[g]
		if fires&(1<<uint(k)) != 0 {
			lab += "t"
		}
	}
	w.Deviations = append(w.Deviations, lab)
	alive := func() bool { return n.Failed == nil && n.RS().Height == h }
	if late == 1 {
		for _, b := range others {
			if alive() {
				w.Deliver(x, w.byzVote(b, idx(b), kproto.PrevoteType, h, 2, types.BlockID{}, "orders"))
			}
		}
	}
	if late == 2 {
		// x went through round 1 the slow way and has VOTED there: it was shown another valid block Z and prevoted it,
		// saw two prevotes for A (+2/3 any, no polka), timed out, precommitted nil, saw two precommits for A (+2/3 any),
		// timed out and is now in round 2 - the rest of round 1's votes for A (and A itself) arrive only now
		const stepPrevoteWait, stepPrecommitWait = 5, 7
		if z := w.byzBlock(proposer, x, "F9"); z != nil {
			for _, m := range w.byzProposal(proposer, z, h, 1, 0, "orders-other-block") {
				if alive() {
					w.Deliver(x, m)
				}
			}
		}
		for _, t := range []kproto.SignedMsgType{kproto.PrevoteType, kproto.PrecommitType} {
			for _, b := range others[:2] {
				if alive() {
					w.Deliver(x, w.byzVote(b, idx(b), t, h, 1, bi.ID, "orders"))
				}
			}
			if t == kproto.PrevoteType {
				w.fireIf(x, stepPrevoteWait, 1)
			} else {
				w.fireIf(x, stepPrecommitWait, 1)
			}
		}
	}
	for k, g := range perm {
		switch g {
		case 0:
			if alive() {
				w.Deliver(x, data[0])
			}
		case 1:
			for _, m := range data[1:] {
				if alive() {
					w.Deliver(x, m)
				}
			}
		case 2, 3:
			t := kproto.PrevoteType
			if g == 3 {
				t = kproto.PrecommitType
			}
			for _, b := range others {
				if alive() {
					w.Deliver(x, w.byzVote(b, idx(b), t, h, 1, bi.ID, "orders"))
				}
			}
		}
		if fires&(1<<uint(k)) != 0 && alive() {
			if to := n.PendingTimeout(); to != nil && to.Height == h {
				w.Timeout(x)
			}
		}
	}
	// after the adversarial order: what correct peers keep gossiping. A proposal or a part that x could not use
	// when it arrived (no part-set header yet, other round) is sent again once x has announced what it lacks
	// (gossipDataRoutine works from the peer's announced round state), so it is offered again while x lacks it.
	for pass := 0; pass < 2; pass++ {
		if alive() && n.RS().Proposal == nil && n.RS().Round == 1 {
			w.Deliver(x, data[0])
		}
		if alive() && n.RS().ProposalBlock == nil {
			for _, m := range data[1:] {
				if alive() {
					w.Deliver(x, m)
				}
			}
		}
	}
}

// ---------------------------------------------------------------------------------------------
// orders-weak: like "orders", but the others contribute only TWO precommits for the decided block A (one of the
// three is faulty and withholds it): the commit needs x's OWN precommit. Tokens: P (proposal), D (parts),
// V (+2/3 prevotes for A from the others), C2 (two precommits for A) and t (x's propose timeout fires, if that is
// what is pending - the adversarial prefix may delay the proposal past it); all 120 orders. Afterwards the
// synchronous suffix: what x lacks is offered again and pending timeouts fire only when nothing is deliverable.
// Whatever the order, x ends up holding the polka and the block before any wait-timeout fires, so it must
// precommit A and commit.
func (w *World) driverOrdersWeak() {
	if len(w.Correct) != 1 {
		panic("orders-weak driver needs exactly one correct validator")
	}
	x := w.Correct[0]
	n := w.Nodes[x]
	w.fireAll(1)
	h := n.RS().Height
	var others []int
	for b := range w.IsByz {
		others = append(others, b)
	}
	sort.Ints(others)
	idx := func(b int) uint32 {
		vi, _ := n.RS().Validators.GetByAddress(w.Addrs[b])
		return uint32(vi)
	}
	proposer := w.valIndexOfAddr(n.RS().Validators.GetProposer().Address)
	if proposer == x {
		panic("orders-weak driver: x must not be the round-1 proposer (use SoloTurn >= 2)")
	}
	bi := w.byzBlock(proposer, x, "F1")
	if bi == nil {
		panic("orders-weak driver: no block")
	}
	data := w.byzProposal(proposer, bi, h, 1, 0, "orders")
	// all permutations of 5 tokens
	var perms [][]int
	var rec func(cur []int, used int)
	rec = func(cur []int, used int) {
		if len(cur) == 5 {
			perms = append(perms, append([]int{}, cur...))
			return
		}
		for k := 0; k < 5; k++ {
			if used&(1<<uint(k)) == 0 {
				rec(append(cur, k), used|1<<uint(k))
			}
		}
	}
	rec(nil, 0)
	ch := w.X.Choose(make([]int, len(perms)), "orders-weak")
	perm := perms[ch]
	names := []string{"P", "D", "V", "C2", "t"}
	lab := "weak:"
	for _, g := range perm {
		lab += names[g]
	}
	w.Deviations = append(w.Deviations, lab)
	alive := func() bool { return n.Failed == nil && n.RS().Height == h }
	for _, g := range perm {
		if !alive() {
			break
		}
		switch g {
		case 0:
			w.Deliver(x, data[0])
		case 1:
			for _, m := range data[1:] {
				if alive() {
					w.Deliver(x, m)
				}
			}
		case 2:
			for _, b := range others {
				if alive() {
					w.Deliver(x, w.byzVote(b, idx(b), kproto.PrevoteType, h, 1, bi.ID, "orders"))
				}
			}
		case 3:
			for _, b := range others[:2] {
				if alive() {
					w.Deliver(x, w.byzVote(b, idx(b), kproto.PrecommitType, h, 1, bi.ID, "orders"))
				}
			}
		case 4:
			w.fireIf(x, 3, 1) // the propose timeout of round 1, if that is what is pending
		}
	}
	// synchronous suffix
	for pass := 0; pass < 6 && alive(); pass++ {
		if n.RS().Proposal == nil && n.RS().Round == 1 {
			w.Deliver(x, data[0])
		}
		if alive() && n.RS().ProposalBlock == nil {
			for _, m := range data[1:] {
				if alive() {
					w.Deliver(x, m)
				}
			}
		}
		if !alive() {
			break
		}
		if to := n.PendingTimeout(); to != nil && to.Height == h && to.Round == 1 {
			w.Timeout(x)
		} else {
			break
		}
	}
}
