package netsim

import (
	"fmt"
	"math/big"
	"sort"
	"strings"
	"sync"
	"time"

	"github.com/kardiachain/go-kardia/consensus"
	"github.com/kardiachain/go-kardia/lib/common"
	kproto "github.com/kardiachain/go-kardia/proto/kardiachain/types"
	"github.com/kardiachain/go-kardia/trie"
	"github.com/kardiachain/go-kardia/types"
)

// ByzAction is one adversary move: a list of messages handed to one receiver as a single event.
type ByzAction struct {
	Kind  string // coarse kind, used in violation signatures
	Label string
	Msgs  []*Msg
}

func (w *World) applyByz(r int, b *ByzAction) {
	w.tracef("n%d <= BYZ %s", r, b.Label)
	for _, m := range b.Msgs {
		if w.Nodes[r].Failed != nil {
			return
		}
		w.Deliver(r, m)
	}
}

var globalSigs sync.Map

var unknownID = types.BlockID{Hash: common.BytesToHash([]byte("unknown-block-unknown-block-0000")), PartsHeader: types.PartSetHeader{Total: 1, Hash: common.BytesToHash([]byte("unknown-parts-unknown-parts-0000"))}}

// byzVote signs a vote with validator b's key.
func (w *World) byzVote(b int, valIdx uint32, t kproto.SignedMsgType, h uint64, round uint32, id types.BlockID, tag string) *Msg {
	key := fmt.Sprintf("v|%d|%d|%d|%d|%d|%s", b, valIdx, t, h, round, blockKey(id))
	if m, ok := w.byzCache[key]; ok {
		return m
	}
	// canonical timestamp: a function of (height, round, type) only
	ts := baseTime.Add(time.Duration(h)*1000*time.Second + time.Duration(round)*10*time.Second + time.Duration(t)*time.Second + 500*time.Millisecond)
	v := &types.Vote{Type: t, Height: h, Round: round, BlockID: id, Timestamp: ts, ValidatorAddress: w.Addrs[b], ValidatorIndex: valIdx}
	// signatures are deterministic (RFC 6979) and everything signed is canonical, so they are computed once
	// per process, not once per execution
	gk := fmt.Sprintf("%s|%x|%d|%d|%d|%x|%d|%x", w.Gen.ChainID, w.Addrs[b][:], t, h, round, id.Hash[:], id.PartsHeader.Total, id.PartsHeader.Hash[:])
	if sig, ok := globalSigs.Load(gk); ok {
		v.Signature = sig.([]byte)
	} else {
		p := v.ToProto()
		if err := types.NewDefaultPrivValidator(w.Keys[b]).SignVote(w.Gen.ChainID, p); err != nil {
			panic(err)
		}
		v.Signature = p.Signature
		globalSigs.Store(gk, p.Signature)
	}
	m := w.wrap(consensus.VerifVoteMsg(v), b)
	m.ByzTag = tag
	w.byzCache[key] = m
	return m
}

// byzBlock builds the block variant `variant` the way a proposer with r's view of the chain would.
func (w *World) byzBlock(b int, r int, variant string) *BlockInfo {
	rn := w.Nodes[r]
	st := rn.State()
	h := st.LastBlockHeight + 1
	key := fmt.Sprintf("blk|%d|%d|%s|%x", b, h, variant, st.LastBlockID.Hash.Bytes()[:4])
	if bi, ok := w.byzBlocks[key]; ok {
		return bi
	}
	if variant == "replay-previous" {
		// the block the receiver committed at the previous height, offered again for this height (every field of it
		// was valid one height ago: only a validation that really looks at this height's state refuses it)
		if h < 2 {
			return nil
		}
		for _, rec := range rn.SavedRecords() {
			if rec.Height == h-1 {
				bi := w.noteBlock(rec.Block, nil, "", "")
				if w.byzBlocks == nil {
					w.byzBlocks = map[string]*BlockInfo{}
				}
				w.byzBlocks[key] = bi
				return bi
			}
		}
		return nil
	}
	var commit *types.Commit
	if h == 1 {
		commit = types.NewCommit(0, 0, types.BlockID{}, nil)
	} else {
		lc := rn.RS().LastCommit
		if lc == nil || !lc.HasTwoThirdsMajority() {
			return nil
		}
		commit = lc.MakeCommit()
	}
	app := &consensus.VerifSimApp{}
	if variant == "B" || variant == "bad-txhash" || strings.HasPrefix(variant, "F") || strings.HasPrefix(variant, "I") {
		app.TxScript = func(uint64, common.Address) []*types.Transaction {
			payload := []byte{byte(b)}
			if strings.HasPrefix(variant, "F") {
				payload = []byte(variant) // a fresh block per round
			}
			tx := types.NewTransaction(0, w.Addrs[b], big.NewInt(1), 21000, big.NewInt(1), payload)
			stx, err := types.SignTx(types.HomesteadSigner{}, tx, w.Keys[b])
			if err != nil {
				panic(err)
			}
			return []*types.Transaction{stx}
		}
	}
	block, parts := app.CreateProposalBlock(h, st, w.Addrs[b], commit)
	invalid := ""
	mutate := func(f func(hd *types.Header)) {
		hd := block.Header()
		f(hd)
		block = types.NewBlock(hd, block.Transactions(), block.LastCommit(), nil, trie.NewStackTrie(nil))
		parts = block.MakePartSet(types.BlockPartSizeBytes)
		invalid = variant
	}
	switch {
	case strings.HasPrefix(variant, "F"):
		variant = "F"
	case strings.HasPrefix(variant, "I"):
		// a fresh INVALID block per round (wrong application hash)
		variant = "bad-apphash"
	}
	switch variant {
	case "A", "B", "F":
	case "bad-apphash":
		mutate(func(hd *types.Header) { hd.AppHash = common.BytesToHash([]byte("bogus app hash")) })
	case "bad-lastblockid":
		mutate(func(hd *types.Header) { hd.LastBlockID.Hash = common.BytesToHash([]byte("bogus parent")) })
	case "bad-time":
		mutate(func(hd *types.Header) { hd.Time = hd.Time.Add(time.Millisecond) })
	case "bad-valhash":
		mutate(func(hd *types.Header) { hd.ValidatorsHash = common.BytesToHash([]byte("bogus vals")) })
	case "bad-nextvalhash":
		mutate(func(hd *types.Header) { hd.NextValidatorsHash = common.BytesToHash([]byte("bogus next vals")) })
	case "bad-height":
		mutate(func(hd *types.Header) { hd.Height++ })
	case "bad-proposer":
		mutate(func(hd *types.Header) { hd.ProposerAddress = common.BytesToAddress([]byte("nobody")) })
	case "bad-parent-parts-total":
		mutate(func(hd *types.Header) { hd.LastBlockID.PartsHeader.Total++ })
	case "bad-parent-parts-hash":
		mutate(func(hd *types.Header) {
			hd.LastBlockID.PartsHeader.Hash = common.BytesToHash([]byte("bogus parent parts"))
		})
	case "bad-time-earlier":
		mutate(func(hd *types.Header) { hd.Time = hd.Time.Add(-time.Millisecond) })
	case "bad-lastcommit-round", "bad-lastcommit-height", "bad-lastcommit-id-parts", "bad-lastcommit-half", "bad-lastcommit-swapped-sigs", "bad-lastcommit-short", "bad-lastcommit-forged-nil":
		// one field of the last commit off (the header keeps pointing at the right parent)
		if h == 1 {
			return nil
		}
		c := commit.Copy()
		sigs := append([]types.CommitSig{}, c.Signatures...)
		ch, cr, cid := c.Height, c.Round, c.BlockID
		switch variant {
		case "bad-lastcommit-round":
			cr++
		case "bad-lastcommit-height":
			ch--
		case "bad-lastcommit-id-parts":
			cid.PartsHeader.Total++
		case "bad-lastcommit-half":
			// keep for-block signatures of at most 2/3 of the power (exactly at the bound when the total allows)
			vals := rn.State().LastValidators
			tot, acc := vals.TotalVotingPower(), int64(0)
			for i := range sigs {
				if sigs[i].Absent() {
					continue
				}
				p := vals.Validators[i].VotingPower
				if (acc+p)*3 > tot*2 {
					sigs[i] = types.NewCommitSigAbsent()
				} else {
					acc += p
				}
			}
		case "bad-lastcommit-swapped-sigs":
			a, bb := -1, -1
			for i := range sigs {
				if !sigs[i].Absent() {
					if a < 0 {
						a = i
					} else if bb < 0 {
						bb = i
					}
				}
			}
			if bb < 0 {
				return nil
			}
			sigs[a].Signature, sigs[bb].Signature = sigs[bb].Signature, sigs[a].Signature
		case "bad-lastcommit-short":
			sigs = sigs[:len(sigs)-1]
		case "bad-lastcommit-forged-nil":
			// +2/3 genuine for-block signatures stay; one further slot (an absent one, else a for-block one the quorum
			// does not need) carries a NIL-flagged entry with the slot owner's address, the block's own (median) time and
			// the adversary's signature bytes: it adds no power, but it is not signed by that validator
			vals := rn.State().LastValidators
			var forged []byte
			for i := range sigs {
				if sigs[i].ValidatorAddress == w.Addrs[b] && len(sigs[i].Signature) > 0 {
					forged = sigs[i].Signature
				}
			}
			if forged == nil {
				forged = bytesOf(0x5a, 65)
			}
			slot := -1
			for i := range sigs {
				if sigs[i].Absent() {
					slot = i
				}
			}
			if slot < 0 {
				tot, acc := vals.TotalVotingPower(), int64(0)
				for i := range sigs {
					acc += vals.Validators[i].VotingPower
				}
				for i := len(sigs) - 1; i >= 0; i-- {
					if vals.Validators[i].Address != w.Addrs[b] && (acc-vals.Validators[i].VotingPower)*3 > tot*2 {
						slot = i
						break
					}
				}
			}
			if slot < 0 {
				return nil
			}
			sigs[slot] = types.CommitSig{BlockIDFlag: types.BlockIDFlagNil, ValidatorAddress: vals.Validators[slot].Address, Timestamp: block.Header().Time, Signature: forged}
		}
		nc := types.NewCommit(ch, cr, cid, sigs)
		hd := block.Header()
		hd.LastCommitHash = common.Hash{} // NewBlock then derives it from nc: the block is self-consistent, only the commit is wrong
		block = types.NewBlock(hd, block.Transactions(), nc, nil, trie.NewStackTrie(nil))
		parts = block.MakePartSet(types.BlockPartSizeBytes)
		invalid = variant
	case "bad-lastcommit":
		// keep only the adversary's own signature: not +2/3
		if h == 1 {
			return nil
		}
		c := commit.Copy()
		sigs := make([]types.CommitSig, len(c.Signatures))
		for i := range sigs {
			if c.Signatures[i].ValidatorAddress == w.Addrs[b] {
				sigs[i] = c.Signatures[i]
			} else {
				sigs[i] = types.NewCommitSigAbsent()
			}
		}
		nc := types.NewCommit(c.Height, c.Round, c.BlockID, sigs)
		hd := block.Header()
		hd.LastCommitHash = common.Hash{} // NewBlock then derives it from nc: the block is self-consistent, only the commit is wrong
		block = types.NewBlock(hd, block.Transactions(), nc, nil, trie.NewStackTrie(nil))
		parts = block.MakePartSet(types.BlockPartSizeBytes)
		invalid = variant
	default:
		panic("unknown block variant " + variant)
	}
	bi := w.noteBlock(block, parts, "byz:"+variant, invalid)
	if bi.Invalid != invalid {
		panic(fmt.Sprintf("netsim: block variant %s has the hash of an already known block (%s, invalid=%q)", variant, bi.Origin, bi.Invalid))
	}
	if w.byzBlocks == nil {
		w.byzBlocks = map[string]*BlockInfo{}
	}
	w.byzBlocks[key] = bi
	return bi
}

func (w *World) byzProposal(b int, bi *BlockInfo, h uint64, round, pol uint32, tag string) []*Msg {
	p := &types.Proposal{Height: h, Round: round, POLRound: pol, POLBlockID: bi.ID, Timestamp: baseTime.Add(time.Duration(h)*1000*time.Second + time.Duration(round)*10*time.Second)}
	pp := p.ToProto()
	if err := types.NewDefaultPrivValidator(w.Keys[b]).SignProposal(w.Gen.ChainID, pp); err != nil {
		panic(err)
	}
	p.Signature = pp.Signature
	pm := w.wrap(consensus.VerifProposalMsg(p), b)
	pm.ByzTag, pm.Invalid = tag, bi.Invalid
	out := []*Msg{pm}
	for i := 0; i < int(bi.Parts.Total()); i++ {
		m := w.wrap(consensus.VerifPartMsg(h, round, bi.Parts.GetPart(i)), b)
		m.ByzTag, m.Invalid = tag, bi.Invalid
		out = append(out, m)
	}
	return out
}

var invalidVariants = []string{"bad-apphash", "bad-lastblockid", "bad-time", "bad-valhash", "bad-nextvalhash", "bad-height", "bad-proposer", "bad-lastcommit",
	"bad-parent-parts-total", "bad-parent-parts-hash", "bad-time-earlier", "bad-lastcommit-round", "bad-lastcommit-height", "bad-lastcommit-id-parts",
	"bad-lastcommit-half", "bad-lastcommit-swapped-sigs", "bad-lastcommit-short", "bad-lastcommit-forged-nil", "replay-previous"}

// byzMenu lists the adversary's moves against receiver r in its current state.
func (w *World) byzMenu(r int) []*ByzAction {
	rn := w.Nodes[r]
	rs := rn.RS()
	if rs.Step == 0 || rs.Votes == nil {
		return nil
	}
	var out []*ByzAction
	h := rs.Height
	var byz []int
	for b := range w.IsByz {
		byz = append(byz, b)
	}
	sort.Ints(byz)
	maxR := w.Cfg.ByzMaxRound
	if maxR == 0 {
		maxR = 2
	}
	for _, b := range byz {
		vi, val := rs.Validators.GetByAddress(w.Addrs[b])
		if val == nil {
			continue
		}
		valIdx := uint32(vi)
		// --- proposals (when the adversary is this round's proposer in r's view and r has none yet)
		if rs.Proposal == nil && rs.Round <= maxR && rs.Validators.GetProposer().Address == w.Addrs[b] {
			variants := w.Cfg.ByzVariants
			if variants == nil {
				variants = append([]string{"A", "B"}, invalidVariants...)
			}
			for _, variant := range variants {
				bi := w.byzBlock(b, r, variant)
				if bi == nil {
					continue
				}
				out = append(out, &ByzAction{Kind: "proposal:" + variant, Label: fmt.Sprintf("propose:%s@r%d", variant, rs.Round), Msgs: w.byzProposal(b, bi, h, rs.Round, 0, "byz-proposal:"+variant)})
				if variant == "A" && rs.Round > 1 {
					out = append(out, &ByzAction{Kind: "proposal:A-pol", Label: fmt.Sprintf("propose:A@r%d/pol%d", rs.Round, rs.Round-1), Msgs: w.byzProposal(b, bi, h, rs.Round, rs.Round-1, "byz-proposal:A-pol")})
				}
			}
		}
		// --- votes
		var targets []types.BlockID
		targets = append(targets, types.BlockID{})
		var bis []*BlockInfo
		for _, bi := range w.Blocks {
			if bi.Height == h {
				bis = append(bis, bi)
			}
		}
		sort.Slice(bis, func(i, j int) bool { return blockKey(bis[i].ID) < blockKey(bis[j].ID) })
		if len(bis) > 3 {
			bis = bis[:3]
		}
		for _, bi := range bis {
			targets = append(targets, bi.ID)
		}
		for round := uint32(1); round <= rs.Round+1 && round <= maxR; round++ {
			if round+1 < rs.Round {
				continue // older rounds no longer influence a correct node
			}
			for _, t := range []kproto.SignedMsgType{kproto.PrevoteType, kproto.PrecommitType} {
				var have *types.Vote
				var vs *types.VoteSet
				if t == kproto.PrevoteType {
					vs = rs.Votes.Prevotes(round)
				} else {
					vs = rs.Votes.Precommits(round)
				}
				if vs != nil {
					have = vs.GetByIndex(valIdx)
				}
				tg := targets
				if t == kproto.PrevoteType && round == rs.Round {
					tg = append(append([]types.BlockID{}, targets...), unknownID)
				}
				for _, id := range tg {
					if have != nil && have.BlockID.Equal(id) {
						continue
					}
					tag := "byz-vote"
					if have != nil {
						tag = "byz-equivocation"
					}
					m := w.byzVote(b, valIdx, t, h, round, id, tag)
					out = append(out, &ByzAction{Kind: tag[4:], Label: fmt.Sprintf("%s:v%d:t%d:r%d:%s", tag, b, t, round, blockKey(id)), Msgs: []*Msg{m}})
					if have != nil && !id.IsZero() && round == rs.Round {
						// the same conflicting vote REPLAYED under the adversary's own +2/3 claim for that block (a claim makes the
						// receiver keep conflicting votes for the claimed block): one signer must still count once
						mc := *m
						mc.Claim = &Claim{From: b, Round: round, Type: t, ID: id}
						mc.ByzTag = "byz-equivocation-replayed"
						var msgs []*Msg
						for k := 0; k < len(rs.Validators.Validators); k++ {
							msgs = append(msgs, &mc)
						}
						out = append(out, &ByzAction{Kind: "equivocation-replayed", Label: fmt.Sprintf("byz-equivocation-replayed:v%d:t%d:r%d:%s", b, t, round, blockKey(id)), Msgs: msgs})
					}
				}
				// the adversary's own vote (its address, its signature) entered under the INDEX of every other validator but
				// the receiver: the sign bytes do not cover the index, so only the index/address comparison keeps one
				// signer from being counted once per slot (one action = all those slots, for a block, in the current round)
				if round == rs.Round {
					for _, id := range targets {
						if id.IsZero() {
							continue
						}
						var msgs []*Msg
						for oi, ov := range rs.Validators.Validators {
							if uint32(oi) == valIdx || ov.Address == w.Addrs[r] {
								continue
							}
							if vs != nil && vs.GetByIndex(uint32(oi)) != nil {
								continue
							}
							m := w.byzVote(b, uint32(oi), t, h, round, id, "byz-misindexed")
							msgs = append(msgs, m)
						}
						if len(msgs) > 0 {
							out = append(out, &ByzAction{Kind: "misindexed", Label: fmt.Sprintf("byz-misindexed:v%d:t%d:r%d:%s", b, t, round, blockKey(id)), Msgs: msgs})
						}
					}
				}
			}
		}
	}
	return out
}

func bytesOf(b byte, n int) []byte {
	out := make([]byte, n)
	for i := range out {
		out[i] = b
	}
	return out
}
