package netsim

import (
	"fmt"
	"math/big"
	"sort"
	"strings"
	"time"

	"github.com/kardiachain/go-kardia/consensus"
	"github.com/kardiachain/go-kardia/lib/common"
	"github.com/kardiachain/go-kardia/lib/crypto"
	kproto "github.com/kardiachain/go-kardia/proto/kardiachain/types"
	"github.com/kardiachain/go-kardia/types"
)

// Safety is the monitor behind C01 / C03 / C04: it keeps, per correct node, the checker's OWN tally
// of everything the harness delivered to that node, and judges every signature request and commit
// against it (DESIGN.md appendix A.1–A.3).
type Safety struct {
	n []*nodeObs
}

type nodeObs struct {
	votes         map[string]map[common.Address]bool   // h|r|type|blockKey -> validators with a delivered vote
	rawParts      map[string]bool                      // index|keccak(bytes) of every part delivered
	signed        map[string]consensus.VerifSignRecord // h|r|kind/type -> first signature
	lastPrecommit map[uint64]consensus.VerifSignRecord // height -> latest non-nil precommit
	committed     map[uint64]types.BlockID
	blocks        map[uint64]*types.Block
	appHash       map[uint64]common.Hash
	sets          map[uint64]*valSets // validator sets of node i's state while it worked on that height
}

type valSets struct{ last, cur, next *types.ValidatorSet }

func (o *nodeObs) noteHeight(n *consensus.VerifNode) {
	st := n.State()
	h := st.LastBlockHeight + 1
	if o.sets[h] == nil {
		o.sets[h] = &valSets{last: st.LastValidators, cur: st.Validators, next: st.NextValidators}
	}
}

func NewSafety() *Safety { return &Safety{} }

func (s *Safety) obs(w *World, i int) *nodeObs {
	if s.n == nil {
		s.n = make([]*nodeObs, len(w.Nodes))
	}
	if s.n[i] == nil {
		s.n[i] = &nodeObs{votes: map[string]map[common.Address]bool{}, rawParts: map[string]bool{},
			signed: map[string]consensus.VerifSignRecord{}, lastPrecommit: map[uint64]consensus.VerifSignRecord{}, committed: map[uint64]types.BlockID{},
			blocks: map[uint64]*types.Block{}, appHash: map[uint64]common.Hash{0: {}}, sets: map[uint64]*valSets{}}
	}
	return s.n[i]
}

func voteKey(h uint64, r uint32, t int32, id types.BlockID) string {
	return fmt.Sprintf("%d|%d|%d|%s", h, r, t, blockKey(id))
}

func (s *Safety) OnDeliver(w *World, d Delivery) {
	o := s.obs(w, d.Node)
	o.noteHeight(w.Nodes[d.Node])
	if d.Msg == nil {
		return
	}
	switch d.Msg.Kind {
	case "vote":
		v := d.Msg.Vote
		k := voteKey(v.Height, v.Round, int32(v.Type), v.BlockID)
		if o.votes[k] == nil {
			o.votes[k] = map[common.Address]bool{}
		}
		o.votes[k][v.ValidatorAddress] = true
	case "part":
		o.rawParts[fmt.Sprintf("%d|%x", d.Msg.Part.Index, crypto.Keccak256(d.Msg.Part.Bytes))] = true
	}
}

// quorum: strictly more than 2/3 of the total power of vals signed (checker's own arithmetic).
func quorum(vals *types.ValidatorSet, signers map[common.Address]bool) bool {
	sum, tot := new(big.Int), new(big.Int)
	for _, v := range vals.Validators {
		tot.Add(tot, big.NewInt(v.VotingPower))
		if signers[v.Address] {
			sum.Add(sum, big.NewInt(v.VotingPower))
		}
	}
	return new(big.Int).Mul(sum, big.NewInt(3)).Cmp(new(big.Int).Mul(tot, big.NewInt(2))) > 0
}

func (o *nodeObs) hasAllParts(w *World, id types.BlockID) bool {
	bi := w.blockByID(id)
	if bi == nil || !bi.Parts.HasHeader(id.PartsHeader) {
		return false
	}
	for i := 0; i < int(bi.Parts.Total()); i++ {
		p := bi.Parts.GetPart(i)
		if p == nil || !o.rawParts[fmt.Sprintf("%d|%x", p.Index, crypto.Keccak256(p.Bytes))] {
			return false
		}
	}
	return true
}

func (s *Safety) OnSign(w *World, i int, rec consensus.VerifSignRecord) {
	o := s.obs(w, i)
	n := w.Nodes[i]
	vals := n.RS().Validators
	kind := rec.Kind
	if kind == "vote" {
		kind = fmt.Sprint("vote", rec.Type)
	}
	sk := fmt.Sprintf("%d|%d|%s", rec.Height, rec.Round, kind)
	if prev, ok := o.signed[sk]; ok {
		if !prev.BlockID.Equal(rec.BlockID) {
			w.Violate("C03:equivocation", i, "node %d signs a second %s for height %d round %d: first %s, now %s", i, kind, rec.Height, rec.Round, blockKey(prev.BlockID), blockKey(rec.BlockID))
		}
	} else {
		o.signed[sk] = rec
	}
	w.archiveFrom(i) // the node's current proposal / locked / valid blocks are known blocks
	bi := w.blockByID(rec.BlockID)
	checkValid := func(what string) {
		if rec.BlockID.IsZero() {
			return
		}
		if bi == nil {
			w.Violate("C03:"+what+"-unknown-block", i, "node %d %ss block %s which nobody produced", i, what, blockKey(rec.BlockID))
			return
		}
		if bi.Invalid != "" {
			w.Violate("C03:"+what+"-invalid-block:"+bi.Invalid, i, "node %d %ss a block that violates the rule %q", i, what, bi.Invalid)
			return
		}
		if why := s.validRef(w, i, bi.Block, rec.Height); why != "" {
			w.Violate("C03:"+what+"-invalid-block:ref:"+why, i, "node %d %ss block %s which the reference validity predicate rejects: %s", i, what, blockKey(rec.BlockID), why)
		}
		if !o.hasAllParts(w, rec.BlockID) {
			w.Violate("C03:"+what+"-without-block", i, "node %d %ss block %s without having received all of its parts", i, what, blockKey(rec.BlockID))
		}
	}
	switch {
	case rec.Kind == "proposal":
		// the signer must be the proposer of (height, round) in the rotation
		if p := vals.GetProposer(); p == nil || p.Address != n.Addr {
			w.Violate("C03:proposal-not-proposer", i, "node %d signs a proposal for %d/%d although the proposer is %x", i, rec.Height, rec.Round, p.Address[:4])
		}
		if rec.POLRound > 0 {
			if rec.POLRound >= rec.Round || !quorum(vals, o.votes[voteKey(rec.Height, rec.POLRound, int32(kproto.PrevoteType), rec.BlockID)]) {
				w.Violate("C03:proposal-false-pol", i, "node %d proposes %s claiming a POL in round %d that it has not received", i, blockKey(rec.BlockID), rec.POLRound)
			}
		}
		// the proposed block itself is judged when it is voted on
	case rec.Type == int32(kproto.PrevoteType):
		checkValid("prevote")
		// locking rule
		if lp, ok := o.lastPrecommit[rec.Height]; ok && lp.Round < rec.Round && !rec.BlockID.IsZero() && !rec.BlockID.Equal(lp.BlockID) {
			justified := false
			// weakest reading: a +2/3 prevote set for any other value (nil included) in ANY round after the lock round
			for k, signers := range o.votes {
				var kh uint64
				var kr uint32
				var kt int32
				var rest string
				if n, _ := fmt.Sscanf(k, "%d|%d|%d|%s", &kh, &kr, &kt, &rest); n == 4 && kh == rec.Height && kt == int32(kproto.PrevoteType) &&
					kr > lp.Round && rest != blockKey(lp.BlockID) && quorum(vals, signers) {
					justified = true
					break
				}
			}
			if !justified {
				w.Violate("C03:prevote-violates-lock", i, "node %d precommitted %s in round %d and prevotes %s in round %d without a later +2/3 prevote set for another value",
					i, blockKey(lp.BlockID), lp.Round, blockKey(rec.BlockID), rec.Round)
				// Agreement (C01): the inductive invariant behind it. If the abandoned block is DECIDABLE in the round of that
				// precommit (precommits of correct validators for it in that round plus the whole Byzantine power exceed 2/3:
				// the adversary can complete a commit for it at any correct node at any time), and the correct validators
				// that are not held by a lock on it, together with the Byzantine power, exceed 2/3 as well (they can be led
				// to a polka and a commit for another block: an unlocked correct validator prevotes a valid proposal), then
				// a continuation of this very execution under the adversary's control ends in two different commits.
				tot, byzP, sameP, freeP := int64(0), int64(0), int64(0), int64(0)
				pk := fmt.Sprintf("%d|%d|vote%d", rec.Height, lp.Round, int32(kproto.PrecommitType))
				for _, v := range vals.Validators {
					tot += v.VotingPower
					j := w.valIndexOfAddr(v.Address)
					if j < 0 {
						continue
					}
					if w.IsByz[j] {
						byzP += v.VotingPower
						continue
					}
					if r2, ok := s.obs(w, j).signed[pk]; ok && r2.BlockID.Equal(lp.BlockID) {
						sameP += v.VotingPower
					}
					if w.Nodes[j] == nil || w.Nodes[j].Failed != nil {
						continue
					}
					if lb := w.Nodes[j].RS().LockedBlock; lb == nil || !lb.HashesTo(lp.BlockID.Hash) {
						freeP += v.VotingPower
					}
				}
				if byzP*3 < tot && (sameP+byzP)*3 > tot*2 && (freeP+byzP)*3 > tot*2 {
					w.Violate("C01:abandons-decidable-block", i, "node %d precommitted %s in round %d, which is decidable there (correct precommits %d + Byzantine power %d of %d), and now prevotes %s in round %d without a later +2/3 prevote set for another value, while correct validators with power %d are not held by a lock on it: the adversary can complete a commit for %s at one correct node and lead the others to commit another block",
						i, blockKey(lp.BlockID), lp.Round, sameP, byzP, tot, blockKey(rec.BlockID), rec.Round, freeP, blockKey(lp.BlockID))
				}
			}
		}
	case rec.Type == int32(kproto.PrecommitType):
		if !rec.BlockID.IsZero() {
			checkValid("precommit")
			if !quorum(vals, o.votes[voteKey(rec.Height, rec.Round, int32(kproto.PrevoteType), rec.BlockID)]) {
				w.Violate("C03:precommit-without-polka", i, "node %d precommits %s in %d/%d without +2/3 prevotes for it in that round", i, blockKey(rec.BlockID), rec.Height, rec.Round)
			}
			o.lastPrecommit[rec.Height] = rec
		}
	}
}

func (s *Safety) OnCommit(w *World, i int, rec consensus.VerifCommitRecord) {
	o := s.obs(w, i)
	n := w.Nodes[i]
	h := rec.Height
	if prev, ok := o.committed[h]; ok && !prev.Equal(rec.BlockID) {
		w.Violate("C01:recommit", i, "node %d commits height %d twice with different blocks", i, h)
	}
	if _, ok := o.committed[h-1]; !ok && h > 1 {
		w.Violate("C03:commit-gap", i, "node %d commits height %d without having committed %d", i, h, h-1)
	}
	// +2/3 precommits for it in a single round among what was delivered
	o.noteHeight(n)
	vals := n.RS().Validators
	if vs := o.sets[h]; vs != nil {
		vals = vs.cur
	}
	okq := false
	pre, suf := fmt.Sprintf("%d|", h), fmt.Sprintf("|%d|%s", int32(kproto.PrecommitType), blockKey(rec.BlockID))
	for k, signers := range o.votes {
		if strings.HasPrefix(k, pre) && strings.HasSuffix(k, suf) && quorum(vals, signers) {
			okq = true
			break
		}
	}
	if !okq {
		w.Violate("C03:commit-without-quorum", i, "node %d commits %s at height %d without +2/3 precommits for it in one round", i, blockKey(rec.BlockID), h)
	}
	bi := w.blockByID(rec.BlockID)
	if bi != nil && bi.Invalid != "" {
		w.Violate("C03:commit-invalid-block:"+bi.Invalid, i, "node %d commits a block that violates the rule %q", i, bi.Invalid)
	} else if why := s.validRef(w, i, rec.Block, h); why != "" {
		w.Violate("C03:commit-invalid-block:ref:"+why, i, "node %d commits block %s which the reference validity predicate rejects: %s", i, blockKey(rec.BlockID), why)
	}
	// the stored seen-commit must justify the block (independent verification)
	if why := s.verifyCommitRef(w, rec.Seen, rec.BlockID, h, vals); why != "" {
		w.Violate("C01:seen-commit-unsound:"+why, i, "node %d stores a seen commit for height %d that does not justify the block: %s", i, h, why)
	}
	o.committed[h] = rec.BlockID
	o.blocks[h] = rec.Block
	o.appHash[h] = common.BytesToHash(crypto.Keccak256(o.appHash[h-1].Bytes(), rec.Block.Hash().Bytes()))
	// agreement
	for _, j := range w.Correct {
		if j == i || s.n[j] == nil {
			continue
		}
		if other, ok := s.n[j].committed[h]; ok && !other.Equal(rec.BlockID) {
			w.Violate("C01:disagreement", i, "nodes %d and %d commit different blocks at height %d: %s vs %s", i, j, h, blockKey(rec.BlockID), blockKey(other))
		}
	}
}

func (s *Safety) OnEnd(w *World) {
	for _, i := range w.Correct {
		if n := w.Nodes[i]; n.Failed != nil {
			w.Violate("C04:node-halted-by-panic", i, "node %d recovered a panic in its handler (CONSENSUS FAILURE): %v", i, n.Failed)
		}
	}
}

// verifyCommitRef: every non-absent signature is a known, validly signed precommit of the validator at
// that index for (height, commit round) and the flagged target; for-block power is a quorum of vals.
func (s *Safety) verifyCommitRef(w *World, c *types.Commit, id types.BlockID, h uint64, vals *types.ValidatorSet) string {
	if c == nil {
		return "nil-commit"
	}
	if c.Height != h {
		return "wrong-height"
	}
	if !c.BlockID.Equal(id) {
		return "wrong-block-id"
	}
	if len(c.Signatures) != len(vals.Validators) {
		return "wrong-size"
	}
	signers := map[common.Address]bool{}
	for idx, cs := range c.Signatures {
		if cs.Absent() {
			continue
		}
		v := w.VoteReg[string(cs.Signature)]
		if v == nil {
			return "unknown-signature"
		}
		if v.ValidatorAddress != vals.Validators[idx].Address || cs.ValidatorAddress != v.ValidatorAddress {
			return "signature-of-another-validator"
		}
		if v.Type != kproto.PrecommitType || v.Height != h || v.Round != c.Round {
			return "signature-for-another-step"
		}
		if !v.Timestamp.Equal(cs.Timestamp) {
			return "timestamp-not-signed"
		}
		if cs.ForBlock() {
			if !v.BlockID.Equal(id) {
				return "for-block-flag-on-other-vote"
			}
			signers[v.ValidatorAddress] = true
		} else if !v.BlockID.IsZero() {
			return "nil-flag-on-block-vote"
		}
	}
	if !quorum(vals, signers) {
		return "insufficient-power"
	}
	return ""
}

// validRef is the reference validity predicate for node i (DESIGN.md A.2), computed from what the
// checker itself recorded about node i's chain.
func (s *Safety) validRef(w *World, i int, b *types.Block, h uint64) string {
	o := s.obs(w, i)
	vs := o.sets[h]
	if vs == nil {
		return "height-not-worked-on"
	}
	if b.Height() != h {
		return "height"
	}
	hd := b.Header()
	var parent types.BlockID
	if h > 1 {
		parent = o.committed[h-1]
	}
	if !hd.LastBlockID.Equal(parent) {
		return "parent-id"
	}
	if w.Cfg.Full == nil && hd.AppHash != o.appHash[h-1] { // the simulated application's hash chain
		return "app-hash"
	}
	if hd.ValidatorsHash != vs.cur.Hash() {
		return "validators-hash"
	}
	if hd.NextValidatorsHash != vs.next.Hash() {
		return "next-validators-hash"
	}
	if !vs.cur.HasAddress(hd.ProposerAddress) {
		return "proposer-not-validator"
	}
	lc := b.LastCommit()
	if h == 1 {
		if lc != nil && len(lc.Signatures) != 0 {
			return "first-block-has-commit"
		}
		if !hd.Time.Equal(w.Gen.Time) {
			return "first-block-time"
		}
		return ""
	}
	if why := s.verifyCommitRef(w, lc, parent, h-1, vs.last); why != "" {
		return "last-commit:" + why
	}
	// weighted median of the non-absent signatures' timestamps
	type wt struct {
		t time.Time
		p int64
	}
	var ws []wt
	tot := int64(0)
	for idx, cs := range lc.Signatures {
		if cs.Absent() {
			continue
		}
		p := vs.last.Validators[idx].VotingPower
		ws = append(ws, wt{cs.Timestamp, p})
		tot += p
	}
	sort.SliceStable(ws, func(a, b int) bool { return ws[a].t.Before(ws[b].t) })
	med := tot / 2
	var mt time.Time
	for _, x := range ws {
		if med <= x.p {
			mt = x.t
			break
		}
		med -= x.p
	}
	if !hd.Time.Equal(mt) {
		return "median-time"
	}
	if prevB := o.blocks[h-1]; prevB != nil && !hd.Time.After(prevB.Time()) {
		return "time-not-increasing"
	}
	return ""
}
