package netsim

import (
	"fmt"

	"github.com/kardiachain/go-kardia/consensus"
)

// event kinds offered at a node's turn
type event struct {
	kind string // deliver | timeout | skip | byz | restart
	msg  *Msg
	bz   *ByzAction
	cost int
	lab  string
}

// Start schedules round 0 on every correct node (what OnStart does after WAL catch-up).
func (w *World) Start() {
	for _, i := range w.Correct {
		w.cur = i
		w.Nodes[i].Begin()
		w.cur = -1
		w.afterStep(i)
	}
}

// anyPending reports whether some correct node still has something deliverable.
func (w *World) anyPending() bool {
	for _, i := range w.Correct {
		if len(w.deliverables(i)) > 0 {
			return true
		}
	}
	return false
}

// Run executes the network until done / horizon / deadlock, asking w.X for every decision.
// Default (cost 0) = the synchronous schedule: deliver the first pending message in canonical order;
// fire a timeout only when the whole network is quiescent; otherwise skip the turn.
func (w *World) Run() {
	defer func() {
		for _, m := range w.Monitors {
			m.OnEnd(w)
		}
	}()
	w.Start()
	w.DriverOK = w.runDriver()
	if w.ended {
		w.Outcome = w.outcomeString("driver-end")
		return
	}
	turn := 0
	idleTurns := 0
	nc := len(w.Correct)
	for {
		if w.Done() {
			w.Outcome = w.outcomeString("done")
			return
		}
		if w.Step >= w.Cfg.MaxSteps {
			w.Outcome = w.outcomeString("step-budget")
			return
		}
		if w.horizon() {
			w.Outcome = w.outcomeString("horizon")
			return
		}
		i := w.Correct[turn%nc]
		turn++
		n := w.Nodes[i]
		if n.Failed != nil {
			idleTurns++
			if idleTurns > nc {
				if !w.stepQuiescent() {
					w.Outcome = w.outcomeString("deadlock")
					return
				}
				idleTurns = 0
			}
			continue
		}
		w.X.Key(w.StateKey(turn % nc))
		D := w.deliverables(i)
		to := n.PendingTimeout()
		var evs []event
		quiet := false
		switch {
		case len(D) > 0:
			evs = append(evs, event{kind: "deliver", msg: D[0], lab: "d"})
		default:
			quiet = !w.anyPending()
			if to != nil && quiet {
				evs = append(evs, event{kind: "timeout", lab: "t"})
			} else {
				evs = append(evs, event{kind: "skip", lab: "s"})
			}
		}
		if w.X.Remaining() > 0 {
			for k := 1; k < len(D); k++ {
				evs = append(evs, event{kind: "deliver", msg: D[k], cost: 1, lab: "d"})
			}
			if to != nil && evs[0].kind != "timeout" {
				evs = append(evs, event{kind: "timeout", cost: 1, lab: "t"})
			}
			if len(D) > 0 {
				evs = append(evs, event{kind: "skip", cost: 1, lab: "s"})
			}
			if w.Cfg.Restarts && w.Restarts < 2 {
				evs = append(evs, event{kind: "restart", cost: 1, lab: "r"})
			}
			if w.Cfg.ByzMenu {
				for _, b := range w.byzMenu(i) {
					b := b
					evs = append(evs, event{kind: "byz", bz: b, cost: 1, lab: "b"})
				}
			}
		}
		ch := 0
		if len(evs) > 1 {
			costs := make([]int, len(evs))
			lab := ""
			for k, e := range evs {
				costs[k] = e.cost
				lab += e.lab
			}
			ch = w.X.Choose(costs, fmt.Sprintf("n%d:%s", i, lab))
		}
		e := evs[ch]
		if e.cost > 0 {
			d := e.kind
			switch e.kind {
			case "deliver":
				d = "reorder"
			case "timeout":
				d = "early-timeout"
			case "skip":
				d = "delay"
			case "byz":
				d = "byz:" + e.bz.Kind
			}
			w.Deviations = append(w.Deviations, d)
		}
		switch e.kind {
		case "deliver":
			w.Deliver(i, e.msg)
			idleTurns = 0
		case "timeout":
			w.Timeout(i)
			idleTurns = 0
		case "byz":
			w.applyByz(i, e.bz)
			idleTurns = 0
		case "restart":
			w.Restart(i)
			idleTurns = 0
		case "skip":
			idleTurns++
			if idleTurns > nc && !w.stepQuiescent() {
				w.Outcome = w.outcomeString("deadlock")
				return
			}
		}
	}
}

// stepQuiescent: nobody has deliverables; if some node has a pending timeout nothing is stuck.
func (w *World) stepQuiescent() bool {
	for _, i := range w.Correct {
		n := w.Nodes[i]
		if n.Failed != nil {
			continue
		}
		if len(w.deliverables(i)) > 0 || n.PendingTimeout() != nil {
			return true
		}
	}
	return false
}

func (w *World) horizon() bool {
	for _, i := range w.Correct {
		if w.Nodes[i].Failed == nil && w.Nodes[i].RS().Round > w.Cfg.MaxRound {
			return true
		}
	}
	return false
}

func (w *World) outcomeString(why string) string {
	s := why
	for _, i := range w.Correct {
		n := w.Nodes[i]
		rs := n.RS()
		f := ""
		if n.Failed != nil {
			f = "!"
		}
		s += fmt.Sprintf(" n%d%s:h%d", i, f, w.Committed(i))
		if w.Committed(i) < w.Cfg.TargetHeight {
			s += fmt.Sprintf("r%d", rs.Round)
		}
		for _, rec := range n.SavedRecords() {
			origin := "?"
			if bi := w.blockByID(rec.BlockID); bi != nil {
				origin = bi.Origin
			}
			s += fmt.Sprintf("[%d@r%d %s]", rec.Height, rec.Seen.Round, origin)
		}
	}
	return s
}

var _ = consensus.VerifVoteMsg
