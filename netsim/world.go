// Package netsim drives a small network of REAL consensus nodes (consensus.VerifNode, i.e. the
// repository's ConsensusState with recording seams) under a scheduler whose every decision is an
// explore.Ctx choice. See DESIGN.md section 3.1.
package netsim

import (
	"bytes"
	"crypto/ecdsa"
	"fmt"
	"os"
	"path/filepath"
	"runtime"
	"sort"
	"strconv"
	"strings"
	"sync"
	"time"

	"github.com/kardiachain/go-kardia/consensus"
	cstypes "github.com/kardiachain/go-kardia/consensus/types"
	"github.com/kardiachain/go-kardia/kai/kaidb"
	"github.com/kardiachain/go-kardia/kai/kaidb/memorydb"
	"github.com/kardiachain/go-kardia/lib/common"
	cmn "github.com/kardiachain/go-kardia/lib/common"
	"github.com/kardiachain/go-kardia/lib/crypto"
	"github.com/kardiachain/go-kardia/mainchain/genesis"
	kproto "github.com/kardiachain/go-kardia/proto/kardiachain/types"
	"github.com/kardiachain/go-kardia/types"
	ktime "github.com/kardiachain/go-kardia/types/time"

	"verif/mc/explore"
)

// ---------------------------------------------------------------------------------------------
// per-goroutine logical clock behind types/time.Now()

var (
	clockMu sync.RWMutex
	clocks  = map[int64]*World{}
)

func goid() int64 {
	var buf [64]byte
	n := runtime.Stack(buf[:], false)
	// "goroutine 123 [running]:"
	s := buf[len("goroutine "):n]
	i := bytes.IndexByte(s, ' ')
	id, _ := strconv.ParseInt(string(s[:i]), 10, 64)
	return id
}

var baseTime = time.Date(2024, 1, 1, 0, 0, 0, 0, time.UTC)

func init() {
	types.VerifSigMemo = true // VerifySignature is pure; netsim does not decide signature properties (C11 does)
	ktime.VerifClock = func() time.Time {
		clockMu.RLock()
		w := clocks[goid()]
		clockMu.RUnlock()
		if w == nil {
			return time.Now()
		}
		return w.now()
	}
}

// now is a canonical logical time: a function of the stepping node's own height/round/step only, so
// that vote timestamps (hence median block times and block hashes) do not depend on the path by which
// a state was reached.
func (w *World) now() time.Time {
	if w.cur < 0 || w.cur >= len(w.Nodes) || w.Nodes[w.cur] == nil || w.Nodes[w.cur].CS == nil {
		return baseTime
	}
	rs := w.Nodes[w.cur].RS()
	return baseTime.Add(time.Duration(rs.Height)*1000*time.Second + time.Duration(rs.Round)*10*time.Second +
		time.Duration(rs.Step)*time.Second + time.Duration(w.cur+1)*time.Millisecond)
}

// ---------------------------------------------------------------------------------------------

var keyHex = []string{
	"b71c71a67e1177ad4e901695e1b4b9ee17ae16c6668d313eac2f96dbcda3f291",
	"8a1f9a8f95be41cd7ccb6168179afb4504aefe388d1e14474d32c45c72ce7b7a",
	"49a7b37aa6f6645917e7b807e9d1c00d4fa71f18343b0d4122a4d2df64dd6fee",
	"8843ebcb1021b00ae9a644db6617f9c6d870e5fd53624cefe374c1d2d710fd06",
	"77cfc693f7861a6e1ea817c593c04fbc9b63d4d3146c5753c008cfc67cffca79",
	"98de1df1e242afb02bd5dc01fbcacddcc9a4d41df95a66f629139560ca6e4dbb",
	"0cf7ae0332a891044659ace49a0732fa07c2872b4aef479945501f385a23e689",
}

// Config describes one network.
type Config struct {
	Name         string
	Powers       []int64 // validator i has key i and this power
	Byz          []int   // indices of Byzantine validators (keys held by the adversary)
	TargetHeight uint64  // execution ends when every correct node has committed this height
	MaxRound     uint32  // horizon: a correct node entering a round above this ends the execution
	MaxSteps     int
	ByzMenu      bool
	ByzMaxRound  uint32
	ValScript    map[uint64][]int64 // height -> new power vector reported by the application after that height (0 = removed)
	Restarts     bool               // offer Restart(i) deviations (C04); nodes then run on a real WAL
	NoByzMenu    bool
	SoloTurn     int // >0: exactly one correct validator, the proposer of that round (solo drivers)
	// Full, when set, runs every validator on the REAL node stack (blockchain, staking contracts, tx
	// pool ...) booted from the given genesis instead of the simulated application.
	Full        *FullSpec
	ByzVariants []string // proposal variants offered (nil = A, B and every invalid variant)
	ByzProposer bool     // make the (single) Byzantine validator the round-1 proposer of height 1
	ByzTurn     int      // with ByzProposer: the k-th proposer of the rotation instead (2 = round 2 of height 1, or round 1 of height 2 when height 1 is decided in its first round)
	Driver      string   // scripted prefix executed before the exploration starts ("" = genesis)
}

// BootError is the panic value of a network whose nodes cannot be constructed from their genesis.
type BootError struct{ Err error }

// FullSpec describes a full-stack network.
type FullSpec struct {
	Genesis func() *genesis.Genesis // a fresh object per call
	Keys    []int                   // validator i uses allKeys[Keys[i]]
}

// Msg is one network message with its provenance.
type Msg struct {
	ID      string
	M       consensus.Message
	Kind    string // proposal | part | vote
	Height  uint64
	Round   uint32
	Vote    *types.Vote
	Prop    *types.Proposal
	Part    *types.Part
	PartsH  common.Hash
	From    int    // validator index of the origin (signer / proposer), -1 unknown
	ByzTag  string // non-empty for adversary-made messages: describes the variant
	Invalid string // non-empty if the adversary made it deliberately invalid (which rule)
	// Claim, when set: the vote is sent after a VoteSetMaj23 claim of a correct peer for the vote's block in the
	// vote's round (queryMaj23Routine + VoteSetBits exchange): the receiver first records the claim, which lets it
	// take a vote that conflicts with the one it holds from the same validator.
	Claim   *Claim
	sortKey string
}

// Claim is a +2/3 claim of correct peer From for (Round, Type, ID).
type Claim struct {
	From  int
	Round uint32
	Type  kproto.SignedMsgType
	ID    types.BlockID
}

// Delivery is a log entry: what was handed to which node at which step.
type Delivery struct {
	Step int
	Node int
	Ev   string // "msg" | "timeout" | "own" | "restart" | "skip"
	Msg  *Msg
	TO   *consensus.VerifTimeout
}

// BlockInfo is what the harness knows about a block id seen in the run.
type BlockInfo struct {
	ID      types.BlockID
	Block   *types.Block
	Parts   *types.PartSet
	Height  uint64
	Origin  string // "correct:<i>" or "byz:<variant>"
	Invalid string
	Label   string
}

// World is one execution.
type World struct {
	Cfg      Config
	X        *explore.Ctx
	walDir   string
	BootErr  error
	Restarts int
	cur      int // node currently stepping (for the logical clock)
	saved    []int
	Keys     []*ecdsa.PrivateKey
	Addrs    []common.Address
	Nodes    []*consensus.VerifNode // nil for Byzantine validators
	DBs      []kaidb.Database
	Gen      *consensus.VerifGenesis
	Correct  []int
	IsByz    map[int]bool
	Step     int
	Log      []Delivery
	// per receiver: message id -> receiver version at which it was last delivered
	seen       []map[string]string
	ever       []map[string]uint64
	Blocks     map[string]*BlockInfo // by idKey(block id)
	partArc    map[common.Hash]map[uint32]*types.Part
	propArc    map[string]*types.Proposal // by signature hex
	propMsg    map[string]*Msg
	Outcome    string
	Monitors   []Monitor
	Trace      []string
	KeepTrace  bool
	byzCache   map[string]*Msg
	byzBlocks  map[string]*BlockInfo
	claims     map[int]map[string]claimRec // +2/3 claims recorded per receiver
	Deviations []string
	DriverOK   bool
	VoteReg    map[string]*types.Vote // every vote message seen, by signature
	PartReg    map[string]PartRef     // keccak(part bytes) -> which part of which set
	Viol       []Violation
	labelN     int
	ended      bool
}

// PartRef locates a part.
type PartRef struct {
	PartsHash common.Hash
	Index     uint32
	Total     uint32
}

// Violation is one oracle failure observed in this execution.
type Violation struct {
	Rule string // e.g. "C03:precommit-without-polka"
	What string
	Step int
	Node int
}

func (w *World) Violate(rule string, node int, f string, a ...interface{}) {
	w.Viol = append(w.Viol, Violation{Rule: rule, What: fmt.Sprintf(f, a...), Step: w.Step, Node: node})
}

// Monitor observes an execution.
type Monitor interface {
	OnDeliver(w *World, d Delivery)                               // before the node handles it
	OnSign(w *World, node int, rec consensus.VerifSignRecord)     // at the signature request
	OnCommit(w *World, node int, rec consensus.VerifCommitRecord) // at SaveBlock
	OnEnd(w *World)
}

func loadKeys() ([]*ecdsa.PrivateKey, []common.Address) {
	var ks []*ecdsa.PrivateKey
	var as []common.Address
	for _, h := range keyHex {
		k, err := crypto.HexToECDSA(h)
		if err != nil {
			panic(err)
		}
		ks = append(ks, k)
		as = append(as, crypto.PubkeyToAddress(k.PublicKey))
	}
	return ks, as
}

var allKeys, allAddrs = loadKeys()

// NewWorld builds the network from genesis.
func NewWorld(cfg Config, x *explore.Ctx) *World {
	w := &World{Cfg: cfg, X: x, Blocks: map[string]*BlockInfo{}, partArc: map[common.Hash]map[uint32]*types.Part{},
		propArc: map[string]*types.Proposal{}, propMsg: map[string]*Msg{}, IsByz: map[int]bool{}, byzCache: map[string]*Msg{}, cur: -1,
		VoteReg: map[string]*types.Vote{}, PartReg: map[string]PartRef{}}
	id := goid()
	clockMu.Lock()
	clocks[id] = w
	clockMu.Unlock()
	n := len(cfg.Powers)
	w.Keys, w.Addrs = allKeys[:n], allAddrs[:n]
	if cfg.Full != nil {
		w.Keys, w.Addrs = nil, nil
		for _, k := range cfg.Full.Keys {
			w.Keys = append(w.Keys, allKeys[k])
			w.Addrs = append(w.Addrs, allAddrs[k])
		}
	}
	gen := &consensus.VerifGenesis{ChainID: "verifnet", Time: baseTime, Params: types.DefaultConsensusParams()}
	for i, p := range cfg.Powers {
		gen.Validators = append(gen.Validators, types.NewValidator(w.Addrs[i], p))
	}
	w.Gen = gen
	if cfg.ByzProposer {
		vs0 := consensus.VerifMakeGenesisState(gen).Validators
		if cfg.ByzTurn > 1 {
			vs0 = vs0.CopyIncrementProposerPriority(int64(cfg.ByzTurn - 1))
		}
		first := vs0.GetProposer().Address
		cfg.Byz = []int{w.valIndexOfAddr(first)}
		w.Cfg = cfg
	}
	if cfg.SoloTurn > 0 {
		// the single correct validator is the one whose proposer turn is round SoloTurn of height 1
		vs := consensus.VerifMakeGenesisState(gen).Validators
		if cfg.SoloTurn > 1 {
			vs = vs.CopyIncrementProposerPriority(int64(cfg.SoloTurn - 1))
		}
		x := w.valIndexOfAddr(vs.GetProposer().Address)
		cfg.Byz = nil
		for i := range cfg.Powers {
			if i != x {
				cfg.Byz = append(cfg.Byz, i)
			}
		}
		w.Cfg = cfg
	}
	for _, b := range cfg.Byz {
		w.IsByz[b] = true
	}
	if cfg.Restarts {
		base := "/dev/shm"
		if _, err := os.Stat(base); err != nil {
			base = os.TempDir()
		}
		d, err := os.MkdirTemp(base, "verif-netsim-")
		if err != nil {
			panic(err)
		}
		w.walDir = d
	}
	w.Nodes = make([]*consensus.VerifNode, n)
	w.DBs = make([]kaidb.Database, n)
	w.seen = make([]map[string]string, n)
	w.ever = make([]map[string]uint64, n)
	for i := 0; i < n; i++ {
		w.seen[i] = map[string]string{}
		w.ever[i] = map[string]uint64{}
		if w.IsByz[i] {
			continue
		}
		w.Correct = append(w.Correct, i)
		if cfg.Full != nil {
			w.Nodes[i] = w.bootFull(i)
			continue
		}
		db := memorydb.New()
		consensus.VerifWriteGenesisBlock(db, gen)
		w.DBs[i] = db
		w.Nodes[i] = w.bootNode(i, w.openWAL(i))
	}
	return w
}

func (w *World) bootFull(i int) *consensus.VerifNode {
	g := w.Cfg.Full.Genesis()
	w.Gen.ChainID, w.Gen.Time = g.ChainID, g.Timestamp
	rec := &consensus.VerifRecorder{Off: true}
	nd, err := consensus.VerifBootFull(consensus.VerifFullConfig{Key: w.Keys[i], DB: consensus.VerifNewRecDB(rec), Rec: rec, Genesis: g, NoWAL: true})
	if err != nil {
		w.BootErr = fmt.Errorf("node %d cannot boot from the genesis: %w", i, err)
		panic(BootError{w.BootErr})
	}
	w.hookNode(nd, i)
	return nd
}

func (w *World) openWAL(i int) consensus.WAL {
	if w.walDir == "" {
		return nil
	}
	wal, err := consensus.VerifOpenWAL(filepath.Join(w.walDir, fmt.Sprint("n", i), "cs.wal", "wal"))
	if err != nil {
		panic(fmt.Sprintf("netsim: cannot open WAL of node %d: %v", i, err))
	}
	return wal
}

// Restart drops node i's process state and boots it again on its database and WAL, the way a node
// restarts: construction from the stores, WAL catch-up (errors other than corruption are ignored, as
// OnStart does), then round 0 is scheduled.
func (w *World) Restart(i int) {
	w.Step++
	d := Delivery{Step: w.Step, Node: i, Ev: "restart"}
	w.Log = append(w.Log, d)
	w.tracef("n%d RESTART", i)
	old := w.Nodes[i]
	old.StopWAL()
	old.Close()
	w.cur = i
	var nd *consensus.VerifNode
	func() {
		// a node that cannot be constructed on its own files is a finding about the node, not about the harness
		defer func() {
			if p := recover(); p != nil {
				if explore.IsPruned(p) {
					panic(p)
				}
				panic(RestartError{Node: i, What: fmt.Sprint(p)})
			}
		}()
		nd = w.bootNode(i, w.openWAL(i))
	}()
	w.Nodes[i] = nd
	w.savedCnt()[i] = 0
	if err := nd.CatchupReplay(); err != nil {
		w.tracef("n%d catch-up: %v", i, err)
	}
	nd.Begin()
	w.cur = -1
	w.Restarts++
	w.afterStep(i)
}

func (w *World) valScriptFor() map[uint64][]*types.Validator {
	if w.Cfg.ValScript == nil {
		return nil
	}
	out := map[uint64][]*types.Validator{}
	for h, pv := range w.Cfg.ValScript {
		var vs []*types.Validator
		for i, p := range pv {
			if p > 0 {
				vs = append(vs, types.NewValidator(allAddrs[i], p))
			}
		}
		out[h] = vs
	}
	return out
}

// RestartError: a correct node could not be constructed again on its own database and WAL.
type RestartError struct {
	Node int
	What string
}

func (w *World) bootNode(i int, wal consensus.WAL) *consensus.VerifNode {
	app := &consensus.VerifSimApp{ValScript: w.valScriptFor()}
	nd, err := consensus.VerifNewNode(consensus.VerifNodeConfig{Name: fmt.Sprint("n", i), Genesis: w.Gen, Key: w.Keys[i], DB: w.DBs[i], App: app, WAL: wal})
	if err != nil {
		panic(fmt.Sprintf("netsim: cannot construct node %d: %v", i, err))
	}
	w.hookNode(nd, i)
	return nd
}

func (w *World) hookNode(nd *consensus.VerifNode, i int) {
	idx := i
	nd.OnSign = func(_ *consensus.VerifNode, rec consensus.VerifSignRecord) {
		for _, m := range w.Monitors {
			m.OnSign(w, idx, rec)
		}
	}
	nd.OnOwn = func(_ *consensus.VerifNode, m consensus.Message) {
		msg := w.wrap(m, idx)
		d := Delivery{Step: w.Step, Node: idx, Ev: "own", Msg: msg}
		w.Log = append(w.Log, d)
		for _, mo := range w.Monitors {
			mo.OnDeliver(w, d)
		}
	}
}

// Close releases every node and the clock slot.
func (w *World) Close() {
	for _, n := range w.Nodes {
		if n != nil {
			if w.walDir != "" {
				n.StopWAL()
			}
			if n.Full != nil {
				n.StopFull()
			} else {
				n.Close()
			}
		}
	}
	if w.walDir != "" {
		os.RemoveAll(w.walDir)
	}
	id := goid()
	clockMu.Lock()
	delete(clocks, id)
	clockMu.Unlock()
}

// ---------------------------------------------------------------------------------------------
// message wrapping and identity

func idKey(id types.BlockID) string {
	return fmt.Sprintf("%x/%d/%x", id.Hash, id.PartsHeader.Total, id.PartsHeader.Hash)
}

// blockByID finds a known block by its whole id.
func (w *World) blockByID(id types.BlockID) *BlockInfo { return w.Blocks[idKey(id)] }

func blockKey(id types.BlockID) string {
	if id.IsZero() {
		return "nil"
	}
	return fmt.Sprintf("%x/%d/%x", id.Hash[:6], id.PartsHeader.Total, id.PartsHeader.Hash[:6])
}

func (w *World) valIndexOfAddr(a common.Address) int {
	for i, x := range w.Addrs {
		if x == a {
			return i
		}
	}
	return -1
}

func (w *World) voteID(v *types.Vote) string {
	sig := v.Signature
	if len(sig) > 8 {
		sig = sig[:8]
	}
	return fmt.Sprintf("V|%d|%d|%d|%x|%s|%x", v.Height, v.Round, v.Type, v.ValidatorAddress[:4], blockKey(v.BlockID), sig)
}

func (w *World) wrap(m consensus.Message, from int) *Msg {
	switch t := m.(type) {
	case *consensus.VoteMessage:
		v := t.Vote
		w.VoteReg[string(v.Signature)] = v
		return &Msg{ID: w.voteID(v),
			M: m, Kind: "vote", Height: v.Height, Round: v.Round, Vote: v, From: w.valIndexOfAddr(v.ValidatorAddress),
			sortKey: fmt.Sprintf("3|%04d|%d|%04d", v.Round, v.Type, v.ValidatorIndex)}
	case *consensus.ProposalMessage:
		p := t.Proposal
		return &Msg{ID: fmt.Sprintf("P|%d|%d|%d|%s", p.Height, p.Round, p.POLRound, blockKey(p.POLBlockID)), M: m, Kind: "proposal", Height: p.Height, Round: p.Round, Prop: p, From: from,
			sortKey: fmt.Sprintf("1|%04d", p.Round)}
	case *consensus.BlockPartMessage:
		ph := t.Part.Proof.LeafHash
		return &Msg{ID: fmt.Sprintf("B|%d|%d|%x|%x", t.Height, t.Part.Index, ph, crypto.Keccak256(t.Part.Bytes)[:6]), M: m, Kind: "part", Height: t.Height, Round: t.Round, Part: t.Part, From: from,
			sortKey: fmt.Sprintf("2|%04d|%04d", t.Round, t.Part.Index)}
	}
	panic("netsim: unknown message type")
}

// ---------------------------------------------------------------------------------------------
// receiver version: changes whenever something the node could react differently to has changed

func bitsOf(vs *types.VoteSet) string {
	if vs == nil {
		return "-"
	}
	return vs.BitArray().String()
}

func (w *World) version(i int) string {
	n := w.Nodes[i]
	rs := n.RS()
	var sb strings.Builder
	fmt.Fprintf(&sb, "%d/%d/%d|p%v|", rs.Height, rs.Round, rs.Step, rs.Proposal != nil)
	if rs.ProposalBlockParts != nil {
		fmt.Fprintf(&sb, "%x:%s", rs.ProposalBlockParts.Header().Hash.Bytes()[:4], rs.ProposalBlockParts.BitArray().String())
	}
	for _, r := range consensus.VerifHVSRounds(rs.Votes, rs.Round+3) {
		fmt.Fprintf(&sb, "|%d:%s:%s", r, bitsOf(rs.Votes.Prevotes(r)), bitsOf(rs.Votes.Precommits(r)))
	}
	fmt.Fprintf(&sb, "|lc:%s|f%v", bitsOf(rs.LastCommit), n.Failed != nil)
	if k := w.claimsAt(i, rs.Height); len(k) > 0 {
		// votes taken into a block's tally under a peer's +2/3 claim do not show in the per-validator bit arrays
		for _, c := range k {
			fmt.Fprintf(&sb, "|m%d/%d/%s:%s", c.Round, c.Type, blockKey(c.ID), tallyBits(rs, c))
		}
	}
	return sb.String()
}

func voteSetOf(rs *cstypes.RoundState, round uint32, t kproto.SignedMsgType) *types.VoteSet {
	if rs.Votes == nil {
		return nil
	}
	if t == kproto.PrevoteType {
		return rs.Votes.Prevotes(round)
	}
	return rs.Votes.Precommits(round)
}

func tallyBits(rs *cstypes.RoundState, c Claim) string {
	vs := voteSetOf(rs, c.Round, c.Type)
	if vs == nil {
		return "-"
	}
	if ba := vs.BitArrayByBlockID(c.ID); ba != nil {
		return ba.String()
	}
	return "-"
}

// claimsAt lists the +2/3 claims recorded at node i for height h, in canonical order.
func (w *World) claimsAt(i int, h uint64) []Claim {
	m := w.claims[i]
	if len(m) == 0 {
		return nil
	}
	var keys []string
	for k, c := range m {
		if c.h == h {
			keys = append(keys, k)
		}
	}
	sort.Strings(keys)
	out := make([]Claim, 0, len(keys))
	for _, k := range keys {
		out = append(out, m[k].Claim)
	}
	return out
}

type claimRec struct {
	Claim
	h uint64
}

// ---------------------------------------------------------------------------------------------
// archive: what correct nodes hold that the gossip layer could forward

func (w *World) archiveFrom(i int) {
	n := w.Nodes[i]
	rs := n.RS()
	if rs.Proposal != nil {
		k := fmt.Sprintf("%d|%d|%d|%s", rs.Proposal.Height, rs.Proposal.Round, rs.Proposal.POLRound, blockKey(rs.Proposal.POLBlockID))
		if _, ok := w.propArc[k]; !ok {
			w.propArc[k] = rs.Proposal
		}
	}
	for _, ps := range []*types.PartSet{rs.ProposalBlockParts, rs.LockedBlockParts, rs.ValidBlockParts} {
		if ps == nil {
			continue
		}
		h := ps.Header().Hash
		m := w.partArc[h]
		if m == nil {
			m = map[uint32]*types.Part{}
			w.partArc[h] = m
		}
		for idx := 0; idx < int(ps.Total()); idx++ {
			if p := ps.GetPart(idx); p != nil {
				if _, ok := m[uint32(idx)]; !ok {
					m[uint32(idx)] = p
				}
			}
		}
	}
	for _, b := range []*types.Block{rs.ProposalBlock, rs.LockedBlock, rs.ValidBlock} {
		if b != nil {
			w.noteBlock(b, nil, fmt.Sprintf("seen-by:%d", i), "")
		}
	}
}

func (w *World) noteBlock(b *types.Block, ps *types.PartSet, origin, invalid string) *BlockInfo {
	if ps == nil {
		ps = b.MakePartSet(types.BlockPartSizeBytes)
	}
	// by the whole block id: the block hash does not cover the height, round and block id of LastCommit, so two
	// different blocks (different part sets) can share it
	k := idKey(types.BlockID{Hash: b.Hash(), PartsHeader: ps.Header()})
	if bi, ok := w.Blocks[k]; ok {
		return bi
	}
	if !strings.HasPrefix(origin, "byz:") {
		origin = fmt.Sprintf("p%d", w.valIndexOfAddr(b.ProposerAddress()))
	}
	for idx := 0; idx < int(ps.Total()); idx++ {
		if p := ps.GetPart(idx); p != nil {
			w.PartReg[string(crypto.Keccak256(p.Bytes))] = PartRef{PartsHash: ps.Header().Hash, Index: uint32(idx), Total: ps.Total()}
		}
	}
	w.labelN++
	bi := &BlockInfo{ID: types.BlockID{Hash: b.Hash(), PartsHeader: ps.Header()}, Block: b, Parts: ps, Height: b.Height(), Origin: origin, Invalid: invalid,
		Label: fmt.Sprintf("b%d", w.labelN)}
	w.Blocks[k] = bi
	return bi
}

// ---------------------------------------------------------------------------------------------
// deliverables for receiver r: what the gossip routines of its correct peers would send it

func lacksVote(rs *cstypes.RoundState, v *types.Vote) bool {
	var vs *types.VoteSet
	if v.Type == kproto.PrevoteType {
		vs = rs.Votes.Prevotes(v.Round)
	} else {
		vs = rs.Votes.Precommits(v.Round)
	}
	if vs == nil {
		return true
	}
	return vs.GetByIndex(v.ValidatorIndex) == nil
}

func (w *World) deliverables(r int) []*Msg {
	rn := w.Nodes[r]
	if rn == nil || rn.Failed != nil {
		return nil
	}
	rs := rn.RS()
	ver := w.version(r)
	got := map[string]*Msg{}
	add := func(m *Msg) {
		if w.seen[r][m.ID] == ver {
			return // already delivered in this very state of the receiver: it had its chance
		}
		if _, ok := got[m.ID]; !ok {
			got[m.ID] = m
		}
	}
	// proposals of the receiver's height and round held by anybody
	if rs.Proposal == nil {
		for _, p := range w.propArc {
			if p.Height == rs.Height && p.Round == rs.Round {
				add(w.wrap(consensus.VerifProposalMsg(p), -1))
			}
		}
	}
	// parts of the set the receiver is collecting
	if rs.ProposalBlockParts != nil && !rs.ProposalBlockParts.IsComplete() {
		h := rs.ProposalBlockParts.Header().Hash
		ba := rs.ProposalBlockParts.BitArray()
		for idx, p := range w.partArc[h] {
			if !ba.GetIndex(int(idx)) {
				add(w.wrap(consensus.VerifPartMsg(rs.Height, rs.Round, p), -1))
			}
		}
	}
	for _, s := range w.Correct {
		if s == r {
			continue
		}
		sn := w.Nodes[s]
		ss := sn.RS()
		switch {
		case ss.Height == rs.Height:
			for _, rd := range consensus.VerifHVSRounds(ss.Votes, ss.Round+3) {
				for _, vs := range []*types.VoteSet{ss.Votes.Prevotes(rd), ss.Votes.Precommits(rd)} {
					for _, v := range consensus.VerifVotesOf(vs) {
						if lacksVote(rs, v) {
							add(w.wrap(consensus.VerifVoteMsg(v), -1))
						}
					}
				}
			}
			w.claimedVotes(r, s, rs, ss, add)
		case ss.Height == rs.Height+1:
			for _, v := range consensus.VerifVotesOf(ss.LastCommit) {
				if lacksVote(rs, v) {
					add(w.wrap(consensus.VerifVoteMsg(v), -1))
				}
			}
			w.catchupParts(r, s, add)
		case ss.Height > rs.Height+1:
			if c := sn.LoadBlockCommit(rs.Height); c != nil {
				for idx := range c.Signatures {
					if v := c.GetVote(uint32(idx)); v != nil && lacksVote(rs, v) {
						add(w.wrap(consensus.VerifVoteMsg(v), -1))
					}
				}
			}
			w.catchupParts(r, s, add)
		}
	}
	out := make([]*Msg, 0, len(got))
	for _, m := range got {
		out = append(out, m)
	}
	sort.Slice(out, func(i, j int) bool {
		if out[i].sortKey != out[j].sortKey {
			return out[i].sortKey < out[j].sortKey
		}
		return out[i].ID < out[j].ID
	})
	return out
}

// claimedVotes models queryMaj23Routine + the VoteSetBits answer + gossipVotesRoutine for votes the receiver
// could not take so far: a correct peer s that holds +2/3 for a block in the receiver's current round, or (prevotes)
// in the POL round of the proposal the receiver holds, claims that majority; the receiver records the claim
// (HeightVoteSet.SetPeerMaj23, what the reactor does on VoteSetMaj23) and answers with the votes it has for that
// block; s then sends the ones it lacks - including a vote that conflicts with the one the receiver holds from
// the same (equivocating) validator, which a VoteSet only takes under such a claim. Without this an equivocation
// shown to different nodes could split the correct nodes' views of a polka for good, which the real reactor repairs.
func (w *World) claimedVotes(r, s int, rs, ss *cstypes.RoundState, add func(*Msg)) {
	if rs.Votes == nil || ss.Votes == nil {
		return
	}
	type rt struct {
		round uint32
		t     kproto.SignedMsgType
	}
	cand := []rt{{rs.Round, kproto.PrevoteType}, {rs.Round, kproto.PrecommitType}}
	if rs.Proposal != nil && rs.Proposal.POLRound > 0 {
		cand = append(cand, rt{rs.Proposal.POLRound, kproto.PrevoteType})
	}
	for _, c := range cand {
		svs := voteSetOf(ss, c.round, c.t)
		if svs == nil {
			continue
		}
		maj, ok := svs.TwoThirdsMajority()
		if !ok {
			continue
		}
		rvs := voteSetOf(rs, c.round, c.t)
		if rvs == nil {
			continue // the receiver takes every vote of that round through the ordinary path first
		}
		var rb *cmn.BitArray
		if rvs != nil {
			rb = rvs.BitArrayByBlockID(maj)
		}
		for _, sv := range consensus.VerifVotesFor(svs, maj) {
			cur := rvs.GetByIndex(sv.ValidatorIndex)
			if cur == nil || cur.BlockID.Equal(maj) {
				continue // nothing held (ordinary path) or the same vote
			}
			if rb != nil && rb.GetIndex(int(sv.ValidatorIndex)) {
				continue // already in the block's tally
			}
			m := w.wrap(consensus.VerifVoteMsg(sv), -1)
			m.ID = "M" + m.ID[1:]
			m.Claim = &Claim{From: s, Round: c.round, Type: c.t, ID: maj}
			add(m)
		}
	}
}

func (w *World) catchupParts(r, s int, add func(*Msg)) {
	rs := w.Nodes[r].RS()
	if rs.ProposalBlockParts == nil || rs.ProposalBlockParts.IsComplete() {
		return
	}
	meta := w.Nodes[s].LoadBlockMeta(rs.Height)
	if meta == nil || !rs.ProposalBlockParts.HasHeader(meta.BlockID.PartsHeader) {
		return
	}
	ba := rs.ProposalBlockParts.BitArray()
	for idx := 0; idx < int(meta.BlockID.PartsHeader.Total); idx++ {
		if !ba.GetIndex(idx) {
			if p := w.Nodes[s].LoadBlockPart(rs.Height, idx); p != nil {
				add(w.wrap(consensus.VerifPartMsg(rs.Height, rs.Round, p), -1))
			}
		}
	}
}

// ---------------------------------------------------------------------------------------------
// stepping

func (w *World) tracef(f string, a ...interface{}) {
	if w.KeepTrace {
		w.Trace = append(w.Trace, fmt.Sprintf("%3d ", w.Step)+fmt.Sprintf(f, a...))
	}
}

func (w *World) afterStep(i int) {
	n := w.Nodes[i]
	// commits observed through the application
	for len(n.SavedRecords()) > w.savedSeen(i) {
		rec := n.SavedRecords()[w.savedSeen(i)]
		w.bumpSaved(i)
		w.noteBlock(rec.Block, nil, fmt.Sprintf("committed-by:%d", i), "")
		for _, m := range w.Monitors {
			m.OnCommit(w, i, rec)
		}
	}
	w.archiveFrom(i)
}

var _ = time.Now

func (w *World) savedSeen(i int) int { return w.savedCnt()[i] }
func (w *World) bumpSaved(i int)     { w.savedCnt()[i]++ }
func (w *World) savedCnt() []int {
	if w.saved == nil {
		w.saved = make([]int, len(w.Nodes))
	}
	return w.saved
}

// Deliver hands a message to node i.
func (w *World) Deliver(i int, m *Msg) {
	w.Step++
	w.seen[i][m.ID] = w.version(i)
	w.ever[i][m.ID] = m.Height
	d := Delivery{Step: w.Step, Node: i, Ev: "msg", Msg: m}
	w.Log = append(w.Log, d)
	for _, mo := range w.Monitors {
		mo.OnDeliver(w, d)
	}
	w.tracef("n%d <- %s %s", i, m.ID[:min(len(m.ID), 40)], m.ByzTag)
	peer := "peer"
	if m.From >= 0 {
		peer = fmt.Sprint("v", m.From)
	}
	w.cur = i
	if m.Claim != nil {
		if w.claims == nil {
			w.claims = map[int]map[string]claimRec{}
		}
		if w.claims[i] == nil {
			w.claims[i] = map[string]claimRec{}
		}
		w.claims[i][fmt.Sprintf("%04d|%d|%s", m.Claim.Round, m.Claim.Type, blockKey(m.Claim.ID))] = claimRec{*m.Claim, m.Height}
		w.Nodes[i].SetPeerMaj23(m.Claim.Round, m.Claim.Type, fmt.Sprint("v", m.Claim.From), m.Claim.ID)
	}
	w.Nodes[i].DeliverPeerMsg(m.M, peer)
	w.cur = -1
	w.afterStep(i)
}

// Timeout fires node i's pending timeout.
func (w *World) Timeout(i int) {
	w.Step++
	to := w.Nodes[i].PendingTimeout()
	d := Delivery{Step: w.Step, Node: i, Ev: "timeout", TO: to}
	w.Log = append(w.Log, d)
	for _, mo := range w.Monitors {
		mo.OnDeliver(w, d)
	}
	w.tracef("n%d timeout %+v", i, *to)
	w.cur = i
	w.Nodes[i].FireTimeout()
	w.cur = -1
	w.afterStep(i)
}

func min(a, b int) int {
	if a < b {
		return a
	}
	return b
}

// Committed returns the height node i has committed (block saved and applied).
func (w *World) Committed(i int) uint64 {
	return w.Nodes[i].State().LastBlockHeight
}

// Done: every correct, non-failed node reached the target height.
func (w *World) Done() bool {
	for _, i := range w.Correct {
		if w.Nodes[i].Failed != nil {
			continue
		}
		if w.Committed(i) < w.Cfg.TargetHeight {
			return false
		}
	}
	return true
}

// StateKey is the canonical key used for pruning (see DESIGN.md 3.1 "State key").
func (w *World) StateKey(turn int) string {
	var sb strings.Builder
	fmt.Fprintf(&sb, "t%d", turn)
	for _, i := range w.Correct {
		n := w.Nodes[i]
		rs := n.RS()
		fmt.Fprintf(&sb, "#%s|L%d:%s|V%d:%s|", w.version(i), rs.LockedRound, w.blockLabel(rs.LockedBlock), rs.ValidRound, w.blockLabel(rs.ValidBlock))
		if rs.Proposal != nil {
			fmt.Fprintf(&sb, "P%d:%s|", rs.Proposal.POLRound, blockKey(rs.Proposal.POLBlockID))
		}
		fmt.Fprintf(&sb, "PB:%s|", w.blockLabel(rs.ProposalBlock))
		for _, r := range consensus.VerifHVSRounds(rs.Votes, rs.Round+3) {
			for _, vs := range []*types.VoteSet{rs.Votes.Prevotes(r), rs.Votes.Precommits(r)} {
				for _, v := range consensus.VerifVotesOf(vs) {
					fmt.Fprintf(&sb, "%d%s,", v.ValidatorIndex, blockKey(v.BlockID))
				}
				sb.WriteByte(';')
			}
		}
		if to := n.PendingTimeout(); to != nil {
			fmt.Fprintf(&sb, "T%d/%d/%d", to.Height, to.Round, to.Step)
		}
		fmt.Fprintf(&sb, "|S%d|C%d", len(n.Signed), w.Committed(i))
		// messages of this height that were delivered but are not held by the node (dropped / ignored):
		// they are part of the checker's tally although the node state does not show them; and the
		// ones already offered in this very state (they are not offered again)
		ver := w.version(i)
		held := map[string]bool{}
		for _, r := range consensus.VerifHVSRounds(rs.Votes, rs.Round+3) {
			for _, vs := range []*types.VoteSet{rs.Votes.Prevotes(r), rs.Votes.Precommits(r)} {
				for _, v := range consensus.VerifVotesOf(vs) {
					held[w.voteID(v)] = true
				}
			}
		}
		var ids []string
		for id, h := range w.ever[i] {
			mark := ""
			if w.seen[i][id] == ver {
				mark = "*"
			}
			if h != rs.Height || (held[id] && mark == "") || (id[0] != 'V' && mark == "") {
				continue
			}
			ids = append(ids, id+mark)
		}
		sort.Strings(ids)
		sb.WriteString(strings.Join(ids, ","))
	}
	return sb.String()
}

func (w *World) blockLabel(b *types.Block) string {
	if b == nil {
		return "-"
	}
	return fmt.Sprintf("%x", b.Hash().Bytes()[:6])
}
