package netsim

import (
	"fmt"
	"os"
	"os/signal"
	"sort"
	"strings"
	"sync"
	"syscall"
	"time"

	"verif/mc/explore"
	"verif/mc/par"
	"verif/mc/report"
)

// Scenario = one configuration explored up to a deviation bound.
type Scenario struct {
	Cfg   Config
	Bound int
}

// ReplayCase is the replayable artefact of a netsim violation.
type ReplayCase struct {
	Scenario string   `json:"scenario"`
	Choices  []int    `json:"choices"`
	Rules    []string `json:"rules"`
	Devs     []string `json:"deviations"`
	Bound    *int     `json:"bound,omitempty"` // the deviation bound the execution was found under (the menu offered at a choice point depends on the remaining budget)
	Trace    []string `json:"trace,omitempty"`
}

func init() {
	// cmn.Kill() (SIGTERM to self on an ApplyBlock error) must not end the checker.
	ch := make(chan os.Signal, 16)
	signal.Notify(ch, syscall.SIGTERM)
	go func() {
		for range ch {
			KillRequests.Lock()
			KillRequests.N++
			KillRequests.Unlock()
		}
	}()
}

var KillRequests struct {
	sync.Mutex
	N int
}

func sigOf(prop, cfg, rule string, devs []string) string {
	if strings.Contains(rule, ":blocksync-") {
		// the failing input class is the kind of commit offered to the syncing node, whatever schedule
		// produced the votes it is assembled from
		return fmt.Sprintf("%s|oracle=%s", prop, strings.TrimPrefix(rule, prop+":"))
	}
	u := map[string]bool{}
	for _, d := range devs {
		u[d] = true
	}
	var ds []string
	for d := range u {
		ds = append(ds, d)
	}
	sort.Strings(ds)
	return fmt.Sprintf("%s|config=%s|oracle=%s|cause={%s}", prop, cfg, strings.TrimPrefix(rule, prop+":"), strings.Join(ds, ","))
}

// runOnce executes one choice list and returns the world (closed).
func runOnce(cfg Config, choices []int, bound int, trace bool, mk func() []Monitor) (*World, *explore.Ctx) {
	ex := &explore.Explorer{Bound: bound, NoPrune: true}
	var w *World
	ex.Body = func(c *explore.Ctx) {
		w = NewWorld(cfg, c)
		w.KeepTrace = trace
		w.Monitors = mk()
		defer w.Close()
		w.Run()
		c.Outcome = w.Outcome
	}
	c := ex.RunOne(choices)
	return w, c
}

func rulesOf(w *World, props []string) []string {
	u := map[string]bool{}
	for _, v := range w.Viol {
		for _, p := range props {
			if strings.HasPrefix(v.Rule, p+":") {
				u[v.Rule] = true
			}
		}
	}
	var out []string
	for k := range u {
		out = append(out, k)
	}
	sort.Strings(out)
	return out
}

// Options of RunScenarios.
type Options struct {
	Prop     string   // property id this check decides, e.g. "C03"
	Rules    []string // rule prefixes that count for this property, e.g. {"C03"}
	Deadline time.Duration
	Monitors func() []Monitor
	ExtraEnd func(w *World) // additional end-of-execution oracle (e.g. liveness)
}

// RunScenarios explores every scenario with bounds 0..Bound in order and reports into r.
func RunScenarios(r *report.Run, scen []Scenario, opt Options) {
	if opt.Monitors == nil {
		opt.Monitors = func() []Monitor { return []Monitor{NewSafety()} }
	}
	if only := os.Getenv("NETSIM_ONLY"); only != "" && r.ReplayPath == "" {
		// diagnostic aid: restrict the run to the scenarios whose name contains the given text (never exhaustive)
		var keep []Scenario
		for _, sc := range scen {
			if strings.Contains(sc.Cfg.Name, only) {
				keep = append(keep, sc)
			}
		}
		scen = keep
		r.NotExhaustive("NETSIM_ONLY=" + only)
	}
	start := time.Now()
	if r.ReplayPath != "" {
		var rc ReplayCase
		if err := r.LoadReplay(&rc); err != nil {
			fmt.Println("cannot load replay:", err)
			os.Exit(2)
		}
		for _, sc := range scen {
			if sc.Cfg.Name != rc.Scenario {
				continue
			}
			w, _ := func() (w *World, c *explore.Ctx) {
				defer func() {
					if p := recover(); p != nil {
						fmt.Printf("the scenario cannot be set up: %v\n", p)
						fmt.Printf("VIOLATION property=%s replay=%s\n", opt.Prop, r.ReplayPath)
						os.Exit(1)
					}
				}()
				bound := sc.Bound
				if rc.Bound != nil {
					bound = *rc.Bound
				}
				return runOnce(sc.Cfg, rc.Choices, bound, true, opt.Monitors)
			}()
			if opt.ExtraEnd != nil {
				opt.ExtraEnd(w)
			}
			for _, l := range w.Trace {
				fmt.Println(l)
			}
			fmt.Println("outcome:", w.Outcome)
			rules := rulesOf(w, opt.Rules)
			for _, v := range w.Viol {
				fmt.Printf("violation %s at step %d node %d: %s\n", v.Rule, v.Step, v.Node, v.What)
			}
			if len(rules) > 0 {
				fmt.Printf("VIOLATION property=%s replay=%s\n", opt.Prop, r.ReplayPath)
				os.Exit(1)
			}
			os.Exit(0)
		}
		fmt.Println("unknown scenario", rc.Scenario)
		os.Exit(2)
	}
	type stat struct {
		Scenario  string           `json:"scenario"`
		Bound     int              `json:"completed_bound"`
		Execs     int64            `json:"executions"`
		Pruned    int64            `json:"pruned"`
		Keys      int64            `json:"distinct_state_keys"`
		MaxDepth  int64            `json:"max_choice_points"`
		Outcomes  int              `json:"distinct_outcomes"`
		Exhausted bool             `json:"exhaustive_within_bound"`
		DevKinds  map[string]int64 `json:"deviation_kinds_taken"`
	}
	stats := make([]stat, len(scen))
	outcomes := make([]map[string]bool, len(scen))
	var mu sync.Mutex
	maxBound := 0
	for i, sc := range scen {
		stats[i] = stat{Scenario: sc.Cfg.Name, Bound: -1, DevKinds: map[string]int64{}}
		outcomes[i] = map[string]bool{}
		if sc.Bound > maxBound {
			maxBound = sc.Bound
		}
	}
	stop := false
	// bounds are completed in order over ALL scenarios, so a deadline only cuts the deepest level
	for bound := 0; bound <= maxBound && !stop; bound++ {
		for si := range scen {
			sc := scen[si]
			st := &stats[si]
			if sc.Bound < bound || st.Bound != bound-1 {
				continue
			}
			if opt.Deadline > 0 && time.Since(start) > opt.Deadline {
				r.NotExhaustive(fmt.Sprintf("deadline before scenario %s bound %d", sc.Cfg.Name, bound))
				stop = true
				break
			}
			ex := &explore.Explorer{Bound: bound, Workers: par.Workers()}
			if opt.Deadline > 0 {
				ex.Deadline = start.Add(opt.Deadline)
			}
			ex.OnPanic = func(c *explore.Ctx, p interface{}) {
				if be, ok := p.(BootError); ok {
					msg := be.Err.Error()
					if i := strings.IndexByte(msg, '\n'); i > 0 {
						msg = msg[:i]
					}
					r.Violation(fmt.Sprintf("%s|config=%s|oracle=boot-from-genesis-fails", opt.Prop, sc.Cfg.Name), msg, ReplayCase{Scenario: sc.Cfg.Name, Choices: c.Choices()})
					return
				}
				if re, ok := p.(RestartError); ok {
					msg := re.What
					if i := strings.IndexByte(msg, '\n'); i > 0 {
						msg = msg[:i]
					}
					r.Violation(fmt.Sprintf("%s|config=%s|oracle=node-cannot-restart", opt.Prop, sc.Cfg.Name), fmt.Sprintf("correct node %d cannot be restarted on its own files: %s", re.Node, msg), ReplayCase{Scenario: sc.Cfg.Name, Choices: c.Choices()})
					return
				}
				r.Violation(fmt.Sprintf("%s|config=%s|oracle=harness-panic", opt.Prop, sc.Cfg.Name), fmt.Sprintf("harness panicked: %v", p),
					ReplayCase{Scenario: sc.Cfg.Name, Choices: c.Choices()})
			}
			ex.Body = func(c *explore.Ctx) {
				w := NewWorld(sc.Cfg, c)
				w.Monitors = opt.Monitors()
				defer w.Close()
				w.Run()
				if opt.ExtraEnd != nil {
					opt.ExtraEnd(w)
				}
				c.Outcome = w.Outcome
				mu.Lock()
				outcomes[si][w.Outcome] = true
				for _, d := range w.Deviations {
					st.DevKinds[d]++
				}
				mu.Unlock()
				rules := rulesOf(w, opt.Rules)
				if len(rules) > 0 {
					choices := c.Choices()
					for _, rule := range rules {
						sig := sigOf(opt.Prop, sc.Cfg.Name, rule, w.Deviations)
						if r.IsKnown(sig) {
							r.Violation(sig, "", nil)
							continue
						}
						what := ""
						for _, v := range w.Viol {
							if v.Rule == rule {
								what = v.What
								break
							}
						}
						bnd := bound
						rc := ReplayCase{Scenario: sc.Cfg.Name, Choices: choices, Rules: rules, Devs: w.Deviations, Bound: &bnd}
						r.ViolationConfirmed(sig, what, rc, func() string {
							w2, _ := runOnce(sc.Cfg, choices, bound, false, opt.Monitors)
							if opt.ExtraEnd != nil {
								opt.ExtraEnd(w2)
							}
							for _, r2 := range rulesOf(w2, opt.Rules) {
								if r2 == rule {
									return sigOf(opt.Prop, sc.Cfg.Name, rule, w2.Deviations)
								}
							}
							return "not-reproduced"
						})
					}
				}
				if r.WantSample() && len(w.Deviations) > 0 {
					r.Sample(map[string]interface{}{"scenario": sc.Cfg.Name, "choices": c.Choices(), "deviations": w.Deviations, "outcome": w.Outcome, "steps": w.Step})
				}
			}
			t0 := time.Now()
			s := ex.Explore()
			st.Execs += s.Executions
			st.Pruned += s.Pruned
			st.Keys = s.DistinctKeys
			if s.MaxDepth > st.MaxDepth {
				st.MaxDepth = s.MaxDepth
			}
			r.Add("evaluations", s.Executions)
			r.Add("distinct_nontrivial", s.Executions-s.Pruned)
			r.Add("pruned_executions", s.Pruned)
			r.Add("choice_points", s.Points)
			if !s.Completed {
				r.NotExhaustive(fmt.Sprintf("deadline inside scenario %s bound %d", sc.Cfg.Name, bound))
				stop = true
				break
			}
			st.Bound = bound
			st.Exhausted = true
			fmt.Printf("scenario %-26s bound %d: execs=%d pruned=%d keys=%d (%.1fs, total %.1fs)\n", st.Scenario, bound, s.Executions, s.Pruned, s.DistinctKeys, time.Since(t0).Seconds(), time.Since(start).Seconds())
		}
		if r.NumViolations() > 0 {
			break // the smallest bound with a counterexample is enough
		}
	}
	for si := range scen {
		st := &stats[si]
		st.Outcomes = len(outcomes[si])
		r.Add("distinct_outcomes", int64(len(outcomes[si])))
		if st.Bound < scen[si].Bound && r.NumViolations() == 0 {
			r.Exhaustive(false)
		}
		fmt.Printf("scenario %-26s completed bound %d of %d: execs=%d pruned=%d outcomes=%d devs=%v\n", st.Scenario, st.Bound, scen[si].Bound, st.Execs, st.Pruned, st.Outcomes, st.DevKinds)
	}
	r.Exhaustive(true)
	r.Set("scenarios", stats)
	// replay self-check: one recorded schedule executed twice must give identical observations
	if len(scen) > 0 {
		w1, c1 := runOnce(scen[0].Cfg, nil, 0, true, opt.Monitors)
		w2, _ := runOnce(scen[0].Cfg, c1.Choices(), 0, true, opt.Monitors)
		same := w1.Outcome == w2.Outcome && strings.Join(w1.Trace, "\n") == strings.Join(w2.Trace, "\n")
		r.Set("replay_selfcheck", same)
		if !same {
			fmt.Println("MACHINERY-ERROR: replay self-check diverged")
			os.Exit(3)
		}
	}
	KillRequests.Lock()
	r.Set("kill_requests_trapped", KillRequests.N)
	KillRequests.Unlock()
}
