package netsim

import (
	"fmt"
	"sort"

	"github.com/kardiachain/go-kardia/blockchain"
	"github.com/kardiachain/go-kardia/consensus"
	"github.com/kardiachain/go-kardia/kai/kaidb/memorydb"
	kproto "github.com/kardiachain/go-kardia/proto/kardiachain/types"
	"github.com/kardiachain/go-kardia/trie"
	"github.com/kardiachain/go-kardia/types"
)

// BlockSync is the block-sync sub-harness of C01: at the end of an execution a node that catches up by
// block sync (the REAL processor FSM pcState + pContext + the real BlockExecutor) is offered, for every
// height, every block any node (correct or Byzantine) produced in the run, each paired with every
// successor whose LastCommit can be assembled from ANY votes seen in the run — real successors, commits
// forged from the precommits for that block, and commits forged from re-labelled prevotes (the vote type
// is not part of the sign bytes, so the real verifier accepts them: the adversary is defined by the code).
// Oracle (DESIGN.md A.3): every block the syncing node applies at height h is the block correct
// validators committed at h.
type BlockSync struct {
	Offers, Adopted int
}

func (b *BlockSync) OnDeliver(w *World, d Delivery)                               {}
func (b *BlockSync) OnSign(w *World, node int, rec consensus.VerifSignRecord)     {}
func (b *BlockSync) OnCommit(w *World, node int, rec consensus.VerifCommitRecord) {}

type syncNode struct {
	node *consensus.VerifNode
	sync *blockchain.VerifC01Sync
}

func (w *World) newSyncNode() *syncNode {
	db := memorydb.New()
	consensus.VerifWriteGenesisBlock(db, w.Gen)
	nd, err := consensus.VerifNewNode(consensus.VerifNodeConfig{Name: "sync", Genesis: w.Gen, Key: w.Keys[0], DB: db, App: &consensus.VerifSimApp{ValScript: w.valScriptFor()}})
	if err != nil {
		panic(err)
	}
	return &syncNode{node: nd, sync: blockchain.VerifC01NewSync(nd.State(), nd.App, nd.BlockExec())}
}

func forgedSuccessor(first *BlockInfo, commit *types.Commit) *types.Block {
	h := &types.Header{Height: first.Height + 1, LastBlockID: first.ID, Time: first.Block.Time().Add(1)}
	return types.NewBlock(h, nil, commit, nil, trie.NewStackTrie(nil))
}

// assemble builds, for block bi and round, a commit from the votes seen in the run.
func (w *World) assemble(bi *BlockInfo, round uint32, vals *types.ValidatorSet, relabel, withNil bool) (*types.Commit, int) {
	sigs := make([]types.CommitSig, len(vals.Validators))
	n := 0
	for i, val := range vals.Validators {
		sigs[i] = types.NewCommitSigAbsent()
		var pick *types.Vote
		for _, v := range w.VoteReg {
			if v.Height != bi.Height || v.Round != round || v.ValidatorAddress != val.Address || !v.BlockID.Equal(bi.ID) {
				continue
			}
			if v.Type == kproto.PrecommitType || (relabel && v.Type == kproto.PrevoteType) {
				if pick == nil || (v.Type == kproto.PrecommitType && pick.Type != kproto.PrecommitType) ||
					(v.Type == pick.Type && string(v.Signature) < string(pick.Signature)) {
					pick = v
				}
			}
		}
		if pick == nil {
			// a Byzantine validator signs whatever helps: its precommit for this block is always available
			if bz := w.valIndexOfAddr(val.Address); bz >= 0 && w.IsByz[bz] {
				pick = w.byzVote(bz, uint32(i), kproto.PrecommitType, bi.Height, round, bi.ID, "blocksync").Vote
			}
		}
		if pick != nil {
			sigs[i] = types.NewCommitSigForBlock(pick.Signature, pick.ValidatorAddress, pick.Timestamp)
			n++
		} else if withNil {
			// the validator's genuine precommit for nil in this round, entered with the nil flag
			for _, v := range w.VoteReg {
				if v.Height == bi.Height && v.Round == round && v.ValidatorAddress == val.Address && v.BlockID.IsZero() &&
					(v.Type == kproto.PrecommitType || (relabel && v.Type == kproto.PrevoteType)) {
					if pick == nil || string(v.Signature) < string(pick.Signature) {
						pick = v
					}
				}
			}
			if pick != nil {
				sigs[i] = types.CommitSig{BlockIDFlag: types.BlockIDFlagNil, ValidatorAddress: pick.ValidatorAddress, Timestamp: pick.Timestamp, Signature: pick.Signature}
				n++
			}
		}
	}
	return types.NewCommit(bi.Height, round, bi.ID, sigs), n
}

func (b *BlockSync) OnEnd(w *World) {
	if w.Cfg.Full != nil {
		return
	}
	// the chain correct validators committed (C01's agreement oracle judges disagreement separately)
	committed := map[uint64]consensus.VerifCommitRecord{}
	var maxH uint64
	for _, i := range w.Correct {
		for _, rec := range w.Nodes[i].SavedRecords() {
			if _, ok := committed[rec.Height]; !ok {
				committed[rec.Height] = rec
			}
			if rec.Height > maxH {
				maxH = rec.Height
			}
		}
	}
	var all []*BlockInfo
	for _, bi := range w.Blocks {
		all = append(all, bi)
	}
	sort.Slice(all, func(i, j int) bool { return blockKey(all[i].ID) < blockKey(all[j].ID) })
	// heights 1 .. maxH+1 (the adversary may also offer blocks for the height nobody committed yet)
	for h := uint64(1); h <= maxH+1; h++ {
		// a syncing node that has adopted the committed chain below h
		prefix := func() *syncNode {
			sn := w.newSyncNode()
			for k := uint64(1); k < h; k++ {
				rec := committed[k]
				first := w.noteBlock(rec.Block, nil, "", "")
				sn.sync.BlockReceived("good", rec.Block)
				sn.sync.BlockReceived("good2", forgedSuccessor(first, rec.Seen))
				ev, p := sn.sync.Process()
				sn.sync.PeerError("good2") // the stand-in successor leaves the queue again
				if p != nil || ev != fmt.Sprintf("processed:%d", k) {
					w.Violate("C01:blocksync-rejects-committed-chain", -1, "a syncing node offered the committed block %d with its seen commit does not adopt it: %s %v", k, ev, p)
					sn.node.Close()
					return nil
				}
			}
			return sn
		}
		for _, bi := range all {
			if bi.Height != h {
				continue
			}
			probe := prefix()
			if probe == nil {
				return
			}
			vals := probe.sync.State().Validators
			probe.node.Close()
			type offer struct {
				kind   string
				second *types.Block
			}
			var offers []offer
			for _, nx := range all { // real successors seen in the run
				if nx.Height == h+1 && nx.Block.Header().LastBlockID.Equal(bi.ID) {
					offers = append(offers, offer{"real-successor", nx.Block})
				}
			}
			for round := uint32(1); round <= w.Cfg.MaxRound+1 && round <= 8; round++ {
				c0, n0 := w.assemble(bi, round, vals, false, false)
				if n0 > 0 {
					offers = append(offers, offer{"forged-from-precommits", forgedSuccessor(bi, c0)})
				}
				if c, n := w.assemble(bi, round, vals, true, false); n > n0 {
					offers = append(offers, offer{"forged-from-relabelled-prevotes", forgedSuccessor(bi, c)})
				}
				// nil precommits of the round entered with the nil flag next to the (Byzantine) precommits for the block
				if c, n := w.assemble(bi, round, vals, false, true); n > n0 && n0 > 0 {
					offers = append(offers, offer{"forged-with-nil-precommits", forgedSuccessor(bi, c)})
				}
			}
			// one (Byzantine) key in EVERY slot: its own address and its own precommit for the block
			for bz := range w.IsByz {
				if !w.IsByz[bz] {
					continue
				}
				vi, _ := vals.GetByAddress(w.Addrs[bz])
				if vi < 0 {
					continue
				}
				v := w.byzVote(bz, uint32(vi), kproto.PrecommitType, h, 1, bi.ID, "blocksync").Vote
				sigs := make([]types.CommitSig, len(vals.Validators))
				for i := range sigs {
					sigs[i] = types.NewCommitSigForBlock(v.Signature, v.ValidatorAddress, v.Timestamp)
				}
				offers = append(offers, offer{"forged-one-key-in-every-slot", forgedSuccessor(bi, types.NewCommit(h, 1, bi.ID, sigs))})
				break
			}
			offers = append(offers, offer{"successor-without-signatures", forgedSuccessor(bi, types.NewCommit(h, 1, bi.ID, make([]types.CommitSig, len(vals.Validators))))})
			// the successor of ANOTHER block of this height (the committed one with its genuine commit, and every real
			// successor seen in the run): the commit is genuine, but it is not a commit for the block offered before it
			for _, ob := range all {
				if ob.Height != h || ob.ID.Equal(bi.ID) {
					continue
				}
				if rec, ok := committed[h]; ok && rec.BlockID.Equal(ob.ID) {
					offers = append(offers, offer{"successor-of-the-committed-block", forgedSuccessor(ob, rec.Seen)})
				}
				for _, nx := range all {
					if nx.Height == h+1 && nx.Block.Header().LastBlockID.Equal(ob.ID) {
						offers = append(offers, offer{"real-successor-of-another-block", nx.Block})
					}
				}
			}
			for _, of := range offers {
				sn := prefix()
				if sn == nil {
					return
				}
				b.Offers++
				p1 := sn.sync.BlockReceived("evil", bi.Block)
				p2 := sn.sync.BlockReceived("evil2", of.second)
				ev, p3 := sn.sync.Process()
				adopted := ev == fmt.Sprintf("processed:%d", h) && sn.sync.Height() == h
				sn.node.Close()
				want, isCommitted := committed[h]
				switch {
				case p1 != nil || p2 != nil:
					w.Violate("C01:blocksync-panic", -1, "the block-sync processor panics on an offered block: %v %v", p1, p2)
				case p3 != nil && !(isCommitted && want.BlockID.Equal(bi.ID)):
					// processing panics are the processor's way of reporting an ApplyBlock failure on a block whose
					// commit verified: for an uncommitted block that means the commit check let it through
					w.Violate("C01:blocksync-adopts-uncommitted:"+of.kind, -1, "a syncing node accepts the commit offered for block %s at height %d (%s) although correct validators did not commit it (then fails applying it: %v)", blockKey(bi.ID), h, of.kind, p3)
				case adopted && isCommitted && !want.BlockID.Equal(bi.ID):
					b.Adopted++
					w.Violate("C01:blocksync-adopts-uncommitted:"+of.kind, -1, "a syncing node adopts block %s (%s) at height %d with a commit %s, but correct validators committed %s", blockKey(bi.ID), bi.Origin, h, of.kind, blockKey(want.BlockID))
				case adopted && !isCommitted:
					// nobody has committed this height yet. A block for which +2/3 genuine precommits of one round exist IS
					// decided (the locks of their correct signers exclude every other block), whoever assembles them first:
					// adopting it is right. Anything else (re-labelled prevotes, nil votes, no signatures) decides nothing.
					b.Adopted++
					if why := (&Safety{}).verifyCommitRef(w, of.second.LastCommit(), bi.ID, h, vals); why != "" {
						w.Violate("C01:blocksync-adopts-uncommitted:"+of.kind, -1, "a syncing node adopts block %s (%s) at height %d, which nobody committed, with a commit %s that does not justify it (%s)", blockKey(bi.ID), bi.Origin, h, of.kind, why)
					}
				case adopted:
					b.Adopted++
				}
			}
		}
	}
}
