module verif

go 1.18

require (
	github.com/kardiachain/go-kardia v0.0.0
)

replace github.com/kardiachain/go-kardia => /repo
