module verif

go 1.18

require (
	github.com/ethereum/go-ethereum v1.9.15
	github.com/gogo/protobuf v1.3.2
	github.com/kardiachain/go-kardia v0.0.0
)

require (
	github.com/VictoriaMetrics/fastcache v1.5.7 // indirect
	github.com/Workiva/go-datastructures v1.0.52 // indirect
	github.com/aristanetworks/goarista v0.0.0-20190712234253-ed1100a1c015 // indirect
	github.com/beorn7/perks v1.0.1 // indirect
	github.com/btcsuite/btcd v0.21.0-beta // indirect
	github.com/cespare/xxhash/v2 v2.1.1 // indirect
	github.com/deckarep/golang-set v1.7.1 // indirect
	github.com/ebuchman/fail-test v0.0.0-20170303061230-95f809107225 // indirect
	github.com/go-kit/kit v0.10.0 // indirect
	github.com/go-stack/stack v1.8.0 // indirect
	github.com/golang/protobuf v1.4.3 // indirect
	github.com/golang/snappy v0.0.1 // indirect
	github.com/gtank/merlin v0.1.1 // indirect
	github.com/hashicorp/golang-lru v0.5.4 // indirect
	github.com/holiman/bloomfilter/v2 v2.0.3 // indirect
	github.com/holiman/uint256 v1.1.1 // indirect
	github.com/libp2p/go-buffer-pool v0.0.2 // indirect
	github.com/mattn/go-runewidth v0.0.4 // indirect
	github.com/matttproud/golang_protobuf_extensions v1.0.1 // indirect
	github.com/mimoo/StrobeGo v0.0.0-20181016162300-f8f6d4d2b643 // indirect
	github.com/olekukonko/tablewriter v0.0.2-0.20190409134802-7e037d187b0c // indirect
	github.com/pkg/errors v0.9.1 // indirect
	github.com/prometheus/client_golang v1.8.0 // indirect
	github.com/prometheus/client_model v0.2.0 // indirect
	github.com/prometheus/common v0.14.0 // indirect
	github.com/prometheus/procfs v0.2.0 // indirect
	github.com/prometheus/tsdb v0.10.0 // indirect
	github.com/shirou/gopsutil v2.20.5+incompatible // indirect
	github.com/steakknife/bloomfilter v0.0.0-20180922174646-6819c0d2a570 // indirect
	github.com/steakknife/hamming v0.0.0-20180906055917-c99c65617cd3 // indirect
	github.com/syndtr/goleveldb v1.0.1-0.20200815110645-5c35d600f0ca // indirect
	golang.org/x/crypto v0.0.0-20210921155107-089bfa567519 // indirect
	golang.org/x/exp v0.0.0-20230626212559-97b1e661b5df // indirect
	golang.org/x/net v0.3.0 // indirect
	golang.org/x/sys v0.3.0 // indirect
	google.golang.org/protobuf v1.24.0 // indirect
)

replace github.com/kardiachain/go-kardia => /repo
