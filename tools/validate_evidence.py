import json, sys
path, pid = sys.argv[1], sys.argv[2]
try:
    ev = json.load(open(path))
except Exception as e:
    print("evidence unreadable:", e); sys.exit(1)
import os
sp = '/root/.vp/EVIDENCE.schema.json'
if not os.path.exists(sp): sp = os.path.join(os.path.dirname(os.path.abspath(__file__)), 'EVIDENCE.schema.json')
schema = json.load(open(sp))
if schema is not None:
    try:
        import jsonschema
        jsonschema.validate(ev, schema)
    except ImportError:
        pass
    except Exception as e:
        print("evidence schema violation:", str(e)[:500]); sys.exit(1)
if ev.get('property_id') != pid:
    print("evidence property mismatch"); sys.exit(1)
sys.exit(0)
