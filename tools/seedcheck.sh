#!/bin/bash
# seedcheck.sh <Cxx> <out-dir> <demo-test-file> <pkg-dir> <go test -run regex> [checks...]
# Confirms a seeded change in a fresh scratch worktree: patch applies, builds, the demonstration fails with it and
# passes without it, then runs the given checks (default: the property's own) against the changed tree.
set -u
export GOFLAGS=-mod=mod GOPROXY=off GOSUMDB=off GOTOOLCHAIN=local
ID=$1; OUT=$2; DEMO=$3; PKG=$4; RUNRE=$5; shift 5
CHECKS=${@:-$ID}
WT=/tmp/wt-seed-$ID-$$
git -C /repo worktree add --detach "$WT" HEAD >/dev/null 2>&1 || exit 3
cleanup() { git -C /repo worktree remove --force "$WT"; rm -rf /verif/.build/$(python3 -c "import hashlib,sys;print(hashlib.sha1(sys.argv[1].encode()).hexdigest()[:10])" "$WT"); }
if ! git -C "$WT" apply "$OUT/patch.diff"; then echo "SEED: patch does not apply"; cleanup; exit 3; fi
(cd "$WT" && go build ./${BUILDPKG:-$PKG}/ ) || { echo "SEED: does not build"; cleanup; exit 3; }
mkdir -p "$WT/$PKG"; cp "$OUT/$DEMO" "$WT/$PKG/"
(cd "$WT" && go test -vet=off -count=1 -run "$RUNRE" ./$PKG/ > /tmp/seed-$ID-with.log 2>&1); rcw=$?
git -C "$WT" apply -R "$OUT/patch.diff"
(cd "$WT" && go test -vet=off -count=1 -run "$RUNRE" ./$PKG/ > /tmp/seed-$ID-without.log 2>&1); rco=$?
rm -f "$WT/$PKG/$DEMO"
git -C "$WT" apply "$OUT/patch.diff"
echo "SEED $ID: demo with change exit=$rcw (want != 0), without change exit=$rco (want 0)"
for c in $CHECKS; do
  VERIF_REPO="$WT" VERIF_NOEVIDENCE=1 /verif/run.sh "$c" quick > "/tmp/seed-$ID-$c.log" 2>&1
  echo "SEED $ID: check $c exit=$? $(grep -c '^VIOLATION' /tmp/seed-$ID-$c.log) violation lines; first: $(grep '^violation' /tmp/seed-$ID-$c.log | head -1 | cut -c1-200)"
done
cleanup
