#!/usr/bin/env python3
"""Generate the per-repo build directory: overlay.json, go.mod/go.sum (modfile), transformed time.go.

usage: mkbuild.py <repo-path>   -> prints the build dir
Everything is regenerated from the *current* files of <repo-path> on every call.
"""
import sys, os, json, hashlib, re, glob, shutil

repo = os.path.abspath(sys.argv[1])
check = sys.argv[2].lower() if len(sys.argv) > 2 else ""
verif = os.path.dirname(os.path.dirname(os.path.abspath(__file__)))
key = hashlib.sha1(repo.encode()).hexdigest()[:10]
bdir = os.path.join(verif, ".build", key)
os.makedirs(bdir, exist_ok=True)

replace = {}
# 1. in-package harness files: harness/<pkg path>/zz_verif_*.go -> <repo>/<pkg path>/zz_verif_*.go
#    A file named zz_verif_cNN_* belongs to check cNN: it is injected when building that check or when
#    the check is registered in MANIFEST.json (so an unfinished check cannot break the others).
registered = set()
try:
    registered = set(c["property_id"].lower() for c in json.load(open(os.path.join(verif, "MANIFEST.json")))["checks"])
except Exception:
    pass
hroot = os.path.join(verif, "harness")
for dirpath, _, files in os.walk(hroot):
    for f in files:
        if f.startswith("zz_verif_") and f.endswith(".go"):
            mm = re.match(r"zz_verif_(c\d+)_", f)
            if mm and mm.group(1) != check and mm.group(1) not in registered:
                continue
            rel = os.path.relpath(os.path.join(dirpath, f), hroot)
            replace[os.path.join(repo, rel)] = os.path.join(dirpath, f)

# 2. source transform of types/time/time.go: settable clock (generated from the current file)
src_path = os.path.join(repo, "types/time/time.go")
src = open(src_path).read()
m = re.search(r"^func Now\(\) time\.Time \{", src, re.M)
if not m:
    sys.stderr.write("mkbuild: anchor 'func Now() time.Time {' not found in types/time/time.go\n")
    sys.exit(2)
src2 = src[:m.start()] + "func verifRealNow() time.Time {" + src[m.end():]
src2 += """

// ---- appended by /verif/tools/mkbuild.py (verification clock seam) ----

// VerifClock, when non-nil, replaces the wall clock behind Now().
var VerifClock func() time.Time

func Now() time.Time {
	if VerifClock != nil {
		return Canonical(VerifClock())
	}
	return verifRealNow()
}
"""
gen = os.path.join(bdir, "time_gen.go")
old = open(gen).read() if os.path.exists(gen) else None
if old != src2:
    open(gen, "w").write(src2)
replace[src_path] = gen

# 2b. source transform of types/signable.go: an opt-in memo in front of VerifySignature (generated from the
#     current file; off unless a harness sets types.VerifSigMemo = true). The function is pure, so the memo
#     returns exactly what the current code computes; it only removes repeated secp256k1 recoveries of the
#     same (address, hash, signature) across the thousands of executions of an exploration.
sg_path = os.path.join(repo, "types/signable.go")
sg = open(sg_path).read()
m2 = re.search(r"^func VerifySignature\(addr common\.Address, hash, signature \[\]byte\) bool \{", sg, re.M)
if not m2:
    sys.stderr.write("mkbuild: anchor 'func VerifySignature(addr common.Address, hash, signature []byte) bool {' not found in types/signable.go\n")
    sys.exit(2)
sg2 = sg[:m2.start()] + "func verifRealVerifySignature(addr common.Address, hash, signature []byte) bool {" + sg[m2.end():]
sg2 += """

// ---- appended by /verif/tools/mkbuild.py (verification seam: opt-in memo of a pure function) ----

// VerifSigMemo, when true, memoises VerifySignature by (address, hash, signature).
var VerifSigMemo bool

var verifSigMemoTable verifSyncMap

func VerifySignature(addr common.Address, hash, signature []byte) bool {
	if !VerifSigMemo {
		return verifRealVerifySignature(addr, hash, signature)
	}
	k := string(addr[:]) + "|" + string(hash) + "|" + string(signature)
	if v, ok := verifSigMemoTable.Load(k); ok {
		return v.(bool)
	}
	r := verifRealVerifySignature(addr, hash, signature)
	verifSigMemoTable.Store(k, r)
	return r
}
"""
gen2 = os.path.join(bdir, "signable_gen.go")
if not os.path.exists(gen2) or open(gen2).read() != sg2:
    open(gen2, "w").write(sg2)
replace[sg_path] = gen2
gen3 = os.path.join(bdir, "zz_verif_syncmap.go")
sm = "//go:build verif\n\npackage types\n\nimport \"sync\"\n\ntype verifSyncMap = sync.Map\n"
if not os.path.exists(gen3) or open(gen3).read() != sm:
    open(gen3, "w").write(sm)
replace[os.path.join(repo, "types/zz_verif_syncmap.go")] = gen3

ov = os.path.join(bdir, "overlay-%s.json" % check if check else "overlay.json")
txt = json.dumps({"Replace": replace}, indent=1, sort_keys=True)
if not os.path.exists(ov) or open(ov).read() != txt:
    open(ov, "w").write(txt)

# 3. modfile: the repo's own go.mod (so dependency versions follow the tree) renamed to module verif,
#    plus the require/replace of the repo itself and any extra requires of /verif/go.mod
gm = open(os.path.join(repo, "go.mod")).read()
gm = re.sub(r"^module \S+", "module verif", gm, count=1, flags=re.M)
extra = []
for line in open(os.path.join(verif, "go.mod")).read().splitlines():
    mm = re.match(r"^\s*(?:require\s+)?(\S+/\S+)\s+(v\S+)", line)
    if mm and "kardiachain/go-kardia" not in mm.group(1) and mm.group(1) not in gm:
        extra.append("require %s %s" % (mm.group(1), mm.group(2)))
gm += "\nrequire github.com/kardiachain/go-kardia v0.0.0\n" + "\n".join(extra) + "\nreplace github.com/kardiachain/go-kardia => " + repo + "\n"
mf = os.path.join(bdir, "go.mod")
if not os.path.exists(mf) or open(mf).read() != gm:
    open(mf, "w").write(gm)
# go.sum: union of repo's and verif's
sums = set()
for p in (os.path.join(repo, "go.sum"), os.path.join(verif, "go.sum")):
    if os.path.exists(p):
        sums.update(l for l in open(p).read().splitlines() if l.strip())
st = "\n".join(sorted(sums)) + "\n"
sf = os.path.join(bdir, "go.sum")
if not os.path.exists(sf) or open(sf).read() != st:
    open(sf, "w").write(st)
print(bdir)
