#!/bin/bash
# Runs the repository's baseline suite (guard OFF: no tags, no overlay) and compares with BASELINE.json stable_pass.
# usage: baseline_check.sh [repo] [pkg patterns...]   (default ./...)
export GOFLAGS=-mod=mod GOPROXY=off GOSUMDB=off GOTOOLCHAIN=local
REPO=${1:-/repo}; shift
PK=${@:-./...}
OUT=$(mktemp /tmp/baseline.XXXXXX.json)
(cd $REPO && go test -mod=mod -json -vet=off -count=1 -timeout 25m $PK) > $OUT 2>/dev/null
python3 - "$OUT" "$PK" <<'PY'
import json,sys
out,pk=sys.argv[1],sys.argv[2]
b=json.load(open('/root/.vp/BASELINE.json'))
stable=set(b['stable_pass'])
passed=set(); failed=set(); pkgs=set()
for l in open(out):
    try: e=json.loads(l)
    except: continue
    if 'Package' in e: pkgs.add(e['Package'])
    if e.get('Test') and e.get('Action') in('pass','fail'):
        k=e['Package']+'::'+e['Test']
        (passed if e['Action']=='pass' else failed).add(k)
rel=[s for s in stable if s.split('::')[0] in pkgs]
missing=[s for s in rel if s not in passed]
print("packages run:",len(pkgs),"stable tests in them:",len(rel),"passed:",len(passed),"failed:",len(failed))
print("MISSING (stable tests that did not pass):",len(missing))
for m in sorted(missing)[:40]: print("  ",m)
sys.exit(1 if missing else 0)
PY
rc=$?
rm -f $OUT
exit $rc
