#!/bin/bash
# mutant.sh <patch-file> <check-id> [tier] : apply a patch to a scratch worktree of /repo, run one check against it, clean up.
# exit status = status of the check (1 expected = caught).  Set KEEP=1 to keep the worktree.
set -u
PATCH=$(readlink -f "$1"); ID=$2; TIER=${3:-quick}
NAME=$(basename "$PATCH" .patch)
WT=/tmp/wt-$NAME-$$
git -C /repo worktree add --detach "$WT" HEAD >/dev/null 2>&1 || { echo "cannot create worktree"; exit 3; }
if ! git -C "$WT" apply "$PATCH"; then echo "PATCH DOES NOT APPLY: $PATCH"; git -C /repo worktree remove --force "$WT"; exit 3; fi
if [ "${RUNTESTS:-}" != "" ]; then
  (cd "$WT" && GOFLAGS=-mod=mod GOPROXY=off GOSUMDB=off go test -vet=off -count=1 $RUNTESTS 2>&1 | tail -5)
fi
VERIF_REPO="$WT" VERIF_NOEVIDENCE=1 /verif/run.sh "$ID" "$TIER" > "/tmp/mut-$NAME-$ID.log" 2>&1
rc=$?
grep -E "^VIOLATION|^KNOWN-FINDING|^OK|MACHINERY|VACUOUS" "/tmp/mut-$NAME-$ID.log" | head -5
echo "mutant=$NAME check=$ID exit=$rc"
if [ "${KEEP:-}" = "" ]; then git -C /repo worktree remove --force "$WT"; rm -rf /verif/.build/$(python3 -c "import hashlib,sys;print(hashlib.sha1(sys.argv[1].encode()).hexdigest()[:10])" "$WT"); fi
exit $rc
