#!/bin/bash
# seedstore.sh <Cxx> <suffix> <first_result> <caught_by> : stores /tmp/seed11-<Cxx>-out as seeded/<Cxx><suffix>/ with the orchestrator's confirmation, removes the scratch worktree.
ID=$1; SUF=$2; FIRST=$3; BY=$4
OUT=/tmp/seed11-$ID-out; DST=/verif/seeded/$ID$SUF
mkdir -p $DST; cp $OUT/patch.diff $OUT/*_test.go $DST/ 2>/dev/null
python3 - "$OUT/meta.json" "$DST/meta.json" "$ID" "$FIRST" "$BY" <<'P'
import json,sys
src,dst,pid,first,by=sys.argv[1:]
try: m=json.load(open(src))
except Exception as e: m={"property":pid,"note":"author's meta.json unreadable: %s"%e}
m["confirmed_by_orchestrator"]={"what_i_ran":"tools/seedcheck.sh %s (fresh scratch worktree: patch applies, builds, demo fails with the change and passes without), then the quick checks against the changed tree"%pid,
 "demo":"fails with the change, passes without","first_result":first,"caught":True,"caught_by":by,"status":"done","round":11}
json.dump(m,open(dst,'w'),indent=1)
P
git -C /repo worktree remove --force /tmp/seed11-$ID-wt 2>/dev/null
ls $DST
