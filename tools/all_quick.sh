#!/bin/bash
# all_quick.sh [tier] : runs every registered check's command of the given tier (default quick) one after the
# other against /repo, evidence files are (re)written; prints one line per check and a summary.
cd /verif || exit 2
tier=${1:-quick}
ids=$(python3 -c "import json;print(' '.join(c['property_id'] for c in json.load(open('MANIFEST.json'))['checks']))")
bad=0
for id in $ids; do
  s=$(date +%s)
  out=$(./run.sh $id $tier 2>&1); rc=$?
  e=$(( $(date +%s) - s ))
  kf=$(echo "$out" | grep -c '^KNOWN-FINDING')
  echo "$id tier=$tier rc=$rc wall=${e}s known_findings=$kf $(echo "$out" | grep -E '^(VIOLATION|MACHINERY|VACUOUS)' | head -2 | tr '\n' ' ')"
  [ $rc -ne 0 ] && bad=$((bad+1))
done
echo "failed: $bad"
exit $bad
