#!/usr/bin/env python3
"""Regenerates MANIFEST.json from tools/checks_table.json (kept by hand) and properties.jsonl."""
import json, os
root = os.path.dirname(os.path.dirname(os.path.abspath(__file__)))
props = [json.loads(l)["id"] for l in open(os.path.join(root, "properties.jsonl"))]
table = json.load(open(os.path.join(root, "tools", "checks_table.json")))
checks = []
for pid in props:
    t = table["checks"].get(pid)
    if not t:
        continue
    checks.append({
        "property_id": pid,
        "quick_cmd": "./run.sh %s quick" % pid,
        "thorough_cmd": "./run.sh %s thorough" % pid,
        "evidence_file": "/verif/evidence/%s.json" % pid,
        "replay_cmd_template": "./run.sh %s --replay {path}" % pid,
        "engine": t["engine"],
        "level_claimed": {"category": t["level"], "text": t["text"], "design_ref": t.get("design_ref", "DESIGN.md section 4 / " + pid)},
        "level_note": t["note"],
        "technique": t["technique"],
    })
na = []
for pid in props:
    if pid not in table["checks"]:
        na.append({"property_id": pid, "reason": table.get("not_applicable", {}).get(pid, "check not built yet in this round; design in DESIGN.md section 4 (model-checking harness planned)")})
m = {
    "version": 1,
    "setup_cmd": "./setup.sh",
    "hooks": {
        "guard": "verif",
        "enable": "go build -tags verif -overlay <generated overlay.json> (tools/mkbuild.py): in-package harness files /verif/harness/<pkg>/zz_verif_*.go are ADDED to repo packages at build time and types/time/time.go gets a settable clock appended and types/signable.go an opt-in memo of VerifySignature (both generated from the current files at build time); nothing is committed in /repo",
        "baseline_off_cmd": "cd /repo && go test -mod=mod -json -vet=off -count=1 -timeout 25m ./...",
        "source_commits": [],
        "add_only": True,
    },
    "engines": table["engines"],
    "checks": checks,
    "notes": table.get("notes", ""),
    "not_applicable": na,
}
json.dump(m, open(os.path.join(root, "MANIFEST.json"), "w"), indent=1)
print("checks:", len(checks), "not_applicable:", len(na))
