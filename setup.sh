#!/bin/bash
# MANIFEST.setup_cmd: build the framework from files on disk only (offline) and warm the build cache.
export GOFLAGS=-mod=mod GOPROXY=off GOSUMDB=off GOTOOLCHAIN=local
cd "$(dirname "$0")"
REPO=${VERIF_REPO:-/repo}
BDIR=$(python3 tools/mkbuild.py "$REPO") || exit 2
mkdir -p "$BDIR/bin" evidence replay
rc=0
for id in $(python3 -c "import json;print(' '.join(c['property_id'].lower() for c in json.load(open('MANIFEST.json'))['checks']))"); do
  python3 tools/mkbuild.py "$REPO" "$id" > /dev/null || exit 2
  if ! go build -tags verif -overlay "$BDIR/overlay-$id.json" -modfile "$BDIR/go.mod" -o "$BDIR/bin/$id" "./checks/$id" 2> "$BDIR/build-$id.log"; then
    cat "$BDIR/build-$id.log"; echo "setup: build of $id failed"; rc=1
  fi
  if [ -f "checks/$id/RACEPASS" ]; then
    go build -race -tags verif -overlay "$BDIR/overlay-$id.json" -modfile "$BDIR/go.mod" -o "$BDIR/bin/$id-race" "./checks/$id" 2> "$BDIR/build-$id-race.log" || { cat "$BDIR/build-$id-race.log"; echo "setup: -race build of $id failed"; rc=1; }
  fi
done
exit $rc
