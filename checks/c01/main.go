// C01 — agreement: no two correct nodes commit different blocks at a height.
// Engine E1 over netsim (see C03), agreement and seen-commit oracles, two heights and power
// distributions where the quorum arithmetic matters.
package main

import (
	"os"
	"strconv"
	"time"

	"verif/mc/report"
	"verif/netsim"
)

func main() {
	r := report.New("C01", "exploration")
	b := 2
	if r.Thorough() {
		b = 3
	}
	if v := os.Getenv("NETSIM_BOUND"); v != "" {
		b, _ = strconv.Atoi(v)
	}
	mk := func(name string, powers []int64, c netsim.Config) netsim.Config {
		c.Name, c.Powers = name, powers
		c.ByzMenu = true
		if c.TargetHeight == 0 {
			c.TargetHeight = 1
		}
		c.MaxRound = 5
		c.MaxSteps = 800
		if c.ByzVariants == nil {
			c.ByzVariants = []string{"A", "B"}
		}
		return c
	}
	one := []int64{1, 1, 1, 1}
	scen := []netsim.Scenario{
		{Cfg: mk("4x1-byz-proposer-AB", one, netsim.Config{ByzProposer: true}), Bound: b - 1},
		{Cfg: mk("4x1-lock-split", one, netsim.Config{Byz: []int{3}, Driver: "lock-split"}), Bound: b - 1},
		{Cfg: mk("4x1-late-polka", one, netsim.Config{Byz: []int{3}, Driver: "late-polka"}), Bound: b - 1},
		{Cfg: mk("3331-byz-small", []int64{3, 3, 3, 1}, netsim.Config{Byz: []int{3}}), Bound: b},
		{Cfg: mk("2111-byz-small", []int64{2, 1, 1, 1}, netsim.Config{Byz: []int{3}}), Bound: b - 1},
		{Cfg: mk("4x1-two-heights", one, netsim.Config{Byz: []int{3}, TargetHeight: 2}), Bound: b - 1},
		// seven validators, two of them Byzantine (2/7 < 1/3), both offering the A/B proposals and votes
		{Cfg: mk("7x1-two-byz", []int64{1, 1, 1, 1, 1, 1, 1}, netsim.Config{Byz: []int{5, 6}, ByzVariants: []string{"A", "B"}}), Bound: b - 1},
		// the validator set changes while the chain runs (re-powering in force from height 3, the Byzantine validator removed from height 4)
		{Cfg: mk("4x1-valset-change", one, netsim.Config{Byz: []int{3}, TargetHeight: 5, ValScript: map[uint64][]int64{1: {1, 3, 1, 1}, 2: {1, 3, 1, 0}}}), Bound: b - 1},
	}
	macro := "macro2"
	if r.Thorough() {
		macro = "macro3"
	}
	scen = append(scen, netsim.Scenario{Cfg: mk("4x1-"+macro+"-round-shapes", one, netsim.Config{Byz: []int{3}, Driver: macro}), Bound: 0})
	dl := 10 * time.Minute
	if r.Thorough() {
		dl = 30 * time.Minute
	}
	netsim.RunScenarios(r, scen, netsim.Options{Prop: "C01", Rules: []string{"C01"}, Deadline: dl,
		Monitors: func() []netsim.Monitor { return []netsim.Monitor{netsim.NewSafety(), &netsim.BlockSync{}} }})
	r.Set("rule", "every execution of the netsim harness (real ConsensusState x N, Byzantine validator held by the explorer) with at most `completed_bound` deviations; "+
		"non-trivial = ran to a terminal outcome (not cut by state-key pruning)")
	r.Assume("validators: 4, one Byzantine (< 1/3 of the power); heights <= 2; rounds <= 5; the block-sync path is checked by the sub-harness when present")
	r.Finish()
}
