package main

// The finite universe of C17: three senders with fixed keys, a token alphabet of signed
// transactions, the chain states a head reset can move to, and the operation alphabet.

import (
	"crypto/ecdsa"
	"fmt"
	"math/big"

	"github.com/kardiachain/go-kardia/configs"
	"github.com/kardiachain/go-kardia/lib/common"
	"github.com/kardiachain/go-kardia/lib/crypto"
	"github.com/kardiachain/go-kardia/types"
)

// ---------------------------------------------------------------------------------------------
// configuration of the pool under test (DESIGN.md C17)

const (
	cfgAccountSlots = 2
	cfgGlobalSlots  = 3
	cfgAccountQueue = 2
	cfgGlobalQueue  = 3
	cfgPriceBump    = 10
	cfgPriceLimit   = 1

	gasLimitHigh = 100000 // block gas limit of the initial head
	gasLimitLow  = 50000  // after the "gas limit lowered" head change
	gasSmall     = 30000  // >= legacy intrinsic gas 29000, fits both limits
	gasBig       = 60000  // fits the initial limit only
	gasOver      = 200000 // fits neither
	gasTiny      = 100    // below the intrinsic gas

	balHigh  = 1000000000    // every affordable token is affordable from this
	balLow   = 100000        // after "balance lowered": only gas*price+value <= 100000 remains affordable
	valSmall = 100           // value of affordable tokens
	valHuge  = 1000000000000 // value of the unaffordable tokens (> every balance)
)

// limits are the four slot limits of a pool under test.
type limits struct {
	AS int `json:"account_slots"`
	GS int `json:"global_slots"`
	AQ int `json:"account_queue"`
	GQ int `json:"global_queue"`
}

var defaultLimits = limits{cfgAccountSlots, cfgGlobalSlots, cfgAccountQueue, cfgGlobalQueue}

// senders: 0 = L (the one that is submitted through AddLocal), 1 = A, 2 = B
const NS = 3

var senderNames = [NS]string{"L", "A", "B"}
var keyHex = [NS]string{
	"b71c71a67e1177ad4e901695e1b4b9ee17ae16c6668d313eac2f96dbcda3f291",
	"8a1f9a8f95be41cd7ccb6168179afb4504aefe388d1e14474d32c45c72ce7b7a",
	"49a7b37aa6f6645917e7b807e9d1c00d4fa71f18343b0d4122a4d2df64dd6fee",
}
var keys [NS]*ecdsa.PrivateKey
var addrs [NS]common.Address
var addrIndex = map[common.Address]int{}

var poolChainID = configs.TestChainConfig.ChainID // 242: the pool's signer accepts homestead and chain-id-242 signatures

// ---------------------------------------------------------------------------------------------
// transaction tokens

type token struct {
	id      int
	name    string
	tx      *types.Transaction
	hash    common.Hash
	sender  int
	nonce   uint64
	price   int64
	gas     uint64
	cost    *big.Int
	slots   int
	class   string // "plain", "biggas", "unaffordable", "overgas", "wrongchain", "oversized", "lowgas", "twoslot"
	badsig  bool   // the pool's signer cannot derive a sender
	oversz  bool
	intrGas uint64
}

var tokens []*token
var tokenByHash = map[common.Hash]*token{}
var tokenByName = map[string]*token{}

func newToken(name, class string, s int, nonce uint64, price int64, gas uint64, value int64, data []byte, signer types.Signer) *token {
	raw := types.NewTransaction(nonce, common.Address{0xee}, big.NewInt(value), gas, big.NewInt(price), data)
	tx, err := types.SignTx(signer, raw, keys[s])
	if err != nil {
		panic(err)
	}
	t := &token{id: len(tokens), name: name, tx: tx, hash: tx.Hash(), sender: s, nonce: nonce, price: price, gas: gas, class: class}
	t.cost = new(big.Int).Add(big.NewInt(value), new(big.Int).Mul(big.NewInt(price), new(big.Int).SetUint64(gas)))
	size := int(tx.Size())
	t.slots = (size + 32*1024 - 1) / (32 * 1024)
	t.oversz = size > 4*32*1024
	// intrinsic gas, checker's own arithmetic: plain call, pre-Galaxias (legacy) base 29000, 4 per zero byte, 68 per non-zero byte
	t.intrGas = 29000
	for _, b := range data {
		if b == 0 {
			t.intrGas += 4
		} else {
			t.intrGas += 68
		}
	}
	if _, dup := tokenByHash[t.hash]; dup {
		panic("duplicate token hash " + name)
	}
	if _, dup := tokenByName[name]; dup {
		panic("duplicate token name " + name)
	}
	tokens = append(tokens, t)
	tokenByHash[t.hash] = t
	tokenByName[name] = t
	return t
}

var prices = []int64{1, 2, 100}

func initUniverse() {
	for s := 0; s < NS; s++ {
		k, err := crypto.HexToECDSA(keyHex[s])
		if err != nil {
			panic(err)
		}
		keys[s] = k
		addrs[s] = crypto.PubkeyToAddress(k.PublicKey)
		addrIndex[addrs[s]] = s
	}
	// L and A sign homestead-style, B signs with the chain id of the pool (both are accepted by the pool's signer)
	signerOf := func(s int) types.Signer {
		if s == 2 {
			return types.NewChainIDSigner(poolChainID)
		}
		return types.HomesteadSigner{}
	}
	for s := 0; s < NS; s++ {
		for n := uint64(0); n < 4; n++ {
			for _, p := range prices {
				base := fmt.Sprintf("%s%dp%d", senderNames[s], n, p)
				newToken(base, "plain", s, n, p, gasSmall, valSmall, nil, signerOf(s))
				newToken(base+"g", "biggas", s, n, p, gasBig, valSmall, nil, signerOf(s))
				newToken(base+"$", "unaffordable", s, n, p, gasSmall, valHuge, nil, signerOf(s))
				newToken(base+"G", "overgas", s, n, p, gasOver, valSmall, nil, signerOf(s))
			}
		}
	}
	// nonces 4..6 at price 1: only used by the truncation stage (trunc.go)
	for s := 0; s < NS; s++ {
		for n := uint64(4); n <= truncMaxNonce; n++ {
			newToken(fmt.Sprintf("%s%dp1", senderNames[s], n), "plain", s, n, 1, gasSmall, valSmall, nil, signerOf(s))
		}
	}
	// price-bump boundary: 100 -> 105 (higher, but below the 10 % bump), 100 -> 110 (exactly the bump)
	newToken("A0p105", "plain", 1, 0, 105, gasSmall, valSmall, nil, signerOf(1))
	newToken("A0p110", "plain", 1, 0, 110, gasSmall, valSmall, nil, signerOf(1))
	// signed for another chain id: the pool's signer must reject it
	t := newToken("A0p2@chain7", "wrongchain", 1, 0, 2, gasSmall, valSmall, nil, types.NewChainIDSigner(big.NewInt(7)))
	t.badsig = true
	// oversized data (> 128 KiB)
	newToken("A0p2+big", "oversized", 1, 0, 2, gasSmall, valSmall, make([]byte, 4*32*1024+1), signerOf(1))
	// gas below the intrinsic gas
	newToken("A0p2-lowgas", "lowgas", 1, 0, 2, gasTiny, valSmall, nil, signerOf(1))
	for _, t := range tokens {
		if t.class == "oversized" && !t.oversz {
			panic("oversized token is not oversized")
		}
		if t.class != "oversized" && t.slots != 1 {
			panic("unexpected slot count for " + t.name)
		}
	}
}

// ---------------------------------------------------------------------------------------------
// chain states

type chainState struct {
	Nonce  [NS]uint8
	BalLow [NS]bool
	GasLow bool
}

func (c chainState) balance(s int) *big.Int {
	if c.BalLow[s] {
		return big.NewInt(balLow)
	}
	return big.NewInt(balHigh)
}

func (c chainState) gasLimit() uint64 {
	if c.GasLow {
		return gasLimitLow
	}
	return gasLimitHigh
}

func (c chainState) String() string {
	s := ""
	for i := 0; i < NS; i++ {
		s += fmt.Sprintf("%s:n%d", senderNames[i], c.Nonce[i])
		if c.BalLow[i] {
			s += "-"
		}
		s += " "
	}
	if c.GasLow {
		return s + "gaslow"
	}
	return s + "gashigh"
}

// ---------------------------------------------------------------------------------------------
// operations

type opKind uint8

const (
	opRemote  opKind = iota // AddRemotesSync(txs) (1 or 2 transactions)
	opLocal                 // AddLocal(tx) / AddLocals(txs)
	opMine                  // head reset: sender s's state nonce advanced to k (its transactions below k were mined)
	opBalLow                // head reset: balance of sender s lowered
	opGasLow                // head reset: block gas limit lowered
	opReset                 // head reset with an unchanged state
	opPrice                 // SetGasPrice(p)
	opJournal               // write the local journal, stop, start a new pool that loads it
	opAsync                 // a coalesced round: several critical sections, then ONE merged reorg run
)

// asyncStep is one critical section of a coalesced round.
type asyncStep struct {
	toks  []*token
	local bool
	head  *opDef // a head change (chain changed first, reset request merged into the round)
}

type opDef struct {
	id      int
	kind    opKind
	toks    []*token
	s       int
	k       int
	name    string
	reduced bool // member of the reduced alphabet
	steps   []asyncStep
	trunc   bool // only used by the truncation stage (trunc.go), in neither alphabet
}

var ops []*opDef
var opByName = map[string]*opDef{}

func addOp(o *opDef) *opDef {
	o.id = len(ops)
	if _, dup := opByName[o.name]; dup {
		panic("duplicate op " + o.name)
	}
	ops = append(ops, o)
	opByName[o.name] = o
	return o
}

func tk(name string) *token {
	t := tokenByName[name]
	if t == nil {
		panic("unknown token " + name)
	}
	return t
}

func submitOp(kind opKind, reduced bool, names ...string) *opDef {
	o := &opDef{kind: kind, reduced: reduced}
	for _, n := range names {
		o.toks = append(o.toks, tk(n))
	}
	pre := "R"
	if kind == opLocal {
		pre = "L"
	}
	if len(names) == 1 {
		o.name = pre + "(" + names[0] + ")"
	} else {
		o.name = pre + "["
		for i, n := range names {
			if i > 0 {
				o.name += ","
			}
			o.name += n
		}
		o.name += "]"
	}
	return addOp(o)
}

// reducedAlphabet is the pruned alphabet of the deepest levels (quick depth 3..4, thorough depth 4..5).
// Pruning rule: keep one representative of every behaviour class, chosen so that the classes still
// collide with each other on the same (sender, nonce) places:
//   - remote singles: A with all four nonces at price 1 plus the prices that decide a replacement
//     (A0p2, A0p100, A1p100); B with nonces 0..2 at price 1 and one expensive B0p100; L once as a
//     remote sender (L0p1, later migrated to local);
//   - AddLocal: L0..L2 at price 1 and L1p100 (local queue beyond the per-account cap, local replacement),
//     and A1p1 (a remote sender turns local; a local's cheaper same-nonce transaction);
//   - one big-gas token (A0p1g: same-price replacement, victim of the gas-limit drop), one
//     unaffordable and one over-gas token (always rejected); the other pure-rejection tokens
//     (wrong chain id, oversized, gas below intrinsic, bump boundary 105/110) cannot change the state
//     and are judged in every state of the shallower full-alphabet levels only;
//   - batches only where they reach a limit in fewer steps than singles or exercise a batch-only
//     path (two senders in one reorg run, replacement inside the batch);
//   - head changes: A mined to 1 and 2, L mined to 1, balance of A and of L lowered, gas limit
//     lowered, unchanged reset; SetGasPrice(1|2|100); journal.
var reducedAlphabet = []string{
	"R(A0p1)", "R(A1p1)", "R(A2p1)", "R(A3p1)", "R(A0p2)", "R(A0p100)", "R(A1p100)",
	"R(B0p1)", "R(B1p1)", "R(B2p1)", "R(B0p100)", "R(L0p1)",
	"L(L0p1)", "L(L1p1)", "L(L2p1)", "L(L1p100)", "L(A1p1)",
	"R(A0p1g)", "R(A1p2$)", "R(A1p2G)",
	"R[A0p1,A1p1]", "R[A2p1,A3p1]", "R[B0p1,B1p1]", "R[B0p100,B1p100]", "R[A1p1,B1p1]", "R[A0p1,A0p2]",
	"L[L0p1,L1p1]", "L[L2p1,L3p1]",
	"mine(A,1)", "mine(A,2)", "mine(L,1)", "ballow(A)", "ballow(L)", "gaslow", "reset",
	"price(1)", "price(2)", "price(100)",
	"journal",
}

// initOps builds the full alphabet and marks the reduced one.
//
// Full alphabet:
//   - AddRemotesSync([t]) for: plain tokens of all 3 senders x nonce 0..3 x price {1,2,100}; big-gas
//     tokens nonce 0..1 x price {1,2}; one unaffordable and one over-gas token per sender; the two
//     bump-boundary tokens; wrong chain id, oversized, gas below intrinsic
//   - AddLocal(t) for every such token of sender L and for A's nonce 0..1 tokens (A can become local)
//   - 2-element batches: consecutive nonces of one sender at one price (remote for A, B and L,
//     AddLocals for L), two senders in one batch, gap filled / replacement / underpriced replacement /
//     exact duplicate / rejected-before-the-lock element inside a batch
//   - head resets (state nonce of a sender advanced, balance lowered, gas limit lowered, unchanged),
//     SetGasPrice(1|2|100), journal
func initOps() {
	// ---- single submissions
	for s := 0; s < NS; s++ {
		S := senderNames[s]
		for n := 0; n < 4; n++ {
			for _, p := range prices {
				name := fmt.Sprintf("%s%dp%d", S, n, p)
				submitOp(opRemote, false, name)
				if s == 0 {
					submitOp(opLocal, false, name)
				}
				if s == 1 && n <= 1 {
					submitOp(opLocal, false, name)
				}
				if n <= 1 && p != 100 {
					submitOp(opRemote, false, name+"g")
					if s == 0 {
						submitOp(opLocal, false, name+"g")
					}
				}
			}
		}
		submitOp(opRemote, false, S+"1p2$")
		submitOp(opRemote, false, S+"1p2G")
	}
	submitOp(opLocal, false, "L1p2$")
	submitOp(opLocal, false, "L1p2G")
	submitOp(opRemote, false, "A0p105")
	submitOp(opRemote, false, "A0p110")
	submitOp(opRemote, false, "A0p2@chain7")
	submitOp(opLocal, false, "A0p2@chain7")
	submitOp(opRemote, false, "A0p2+big")
	submitOp(opRemote, false, "A0p2-lowgas")

	// ---- 2-element batches
	for s := 1; s < NS; s++ { // remote batches of consecutive nonces, same price
		S := senderNames[s]
		for n := 0; n < 3; n++ {
			for _, p := range []int64{1, 100} {
				submitOp(opRemote, false, fmt.Sprintf("%s%dp%d", S, n, p), fmt.Sprintf("%s%dp%d", S, n+1, p))
			}
		}
	}
	for n := 0; n < 3; n++ {
		submitOp(opLocal, false, fmt.Sprintf("L%dp1", n), fmt.Sprintf("L%dp1", n+1))
		submitOp(opRemote, false, fmt.Sprintf("L%dp1", n), fmt.Sprintf("L%dp1", n+1))
	}
	submitOp(opRemote, false, "A0p1", "B0p1")        // two senders promoted in one reorg run
	submitOp(opRemote, false, "A1p1", "B1p1")        // two senders queued in one reorg run (heartbeat order)
	submitOp(opRemote, false, "B1p100", "A1p1")      // the same with the other order and different prices
	submitOp(opRemote, false, "A1p1", "A0p1")        // gap filled inside the batch
	submitOp(opRemote, false, "A0p1", "A0p2")        // replacement inside the batch
	submitOp(opRemote, false, "A0p2", "A0p1")        // underpriced replacement inside the batch
	submitOp(opRemote, false, "A0p1", "A0p1")        // exact duplicate inside the batch
	submitOp(opRemote, false, "A0p2@chain7", "A0p1") // rejected before the lock + accepted: error slots
	submitOp(opRemote, false, "A0p1", "A0p2@chain7")
	submitOp(opRemote, false, "A0p1g", "A0p1") // same price, different hash
	submitOp(opRemote, false, "A1p2$", "A0p1")
	submitOp(opRemote, false, "L0p1", "A0p1")
	submitOp(opLocal, false, "L0p1", "A0p1") // AddLocals makes both senders local
	submitOp(opRemote, false, "A2p1", "B2p100")
	submitOp(opRemote, false, "A3p1", "B3p1") // used by the seeds: two gapped transactions
	submitOp(opRemote, false, "A3p1", "B3p100")

	// ---- head resets
	for _, sk := range [][2]int{{1, 1}, {1, 2}, {1, 3}, {0, 1}, {0, 2}, {2, 1}, {2, 2}} {
		s, k := sk[0], sk[1]
		addOp(&opDef{kind: opMine, s: s, k: k, name: fmt.Sprintf("mine(%s,%d)", senderNames[s], k)})
	}
	for s := 0; s < NS; s++ {
		addOp(&opDef{kind: opBalLow, s: s, name: fmt.Sprintf("ballow(%s)", senderNames[s])})
	}
	addOp(&opDef{kind: opGasLow, name: "gaslow"})
	addOp(&opDef{kind: opReset, name: "reset"})
	// ---- gas price
	for _, p := range prices {
		addOp(&opDef{kind: opPrice, k: int(p), name: fmt.Sprintf("price(%d)", p)})
	}
	// ---- journal
	addOp(&opDef{kind: opJournal, name: "journal"})

	for _, n := range reducedAlphabet {
		o := opByName[n]
		if o == nil {
			panic("reduced alphabet: unknown op " + n)
		}
		o.reduced = true
	}
}

// asyncOps: coalesced rounds (DESIGN.md C17, "asynchrony"). All pool state is guarded by pool.mu, so
// a concurrent run is an interleaving of critical sections. The rounds driven here are the ones the
// synchronous entry points can never produce: while a reorg run is in flight (launched with a stale,
// empty account set and blocked on the lock), two submissions' locked sections and optionally a head
// reset request execute; the real scheduleReorgLoop merges their requests into one following run.
// Alphabet: ordered pairs of distinct sub-batches, x {no head change, A mined to 1 requested after
// both, A's balance lowered requested between them}.
var asyncOps []*opDef

var asyncBatches = []struct {
	local bool
	names []string
}{
	{false, []string{"A0p1"}}, {false, []string{"A1p1"}}, {false, []string{"A2p1", "A3p1"}},
	{false, []string{"B0p1", "B1p1"}}, {false, []string{"B0p100"}}, {false, []string{"B1p1", "B2p1"}},
	{true, []string{"L0p1"}}, {true, []string{"L1p1", "L2p1"}},
	{false, []string{"A0p2"}}, {false, []string{"A1p100"}},
}

func initAsyncOps() {
	stepOf := func(i int) (asyncStep, string) {
		b := asyncBatches[i]
		st := asyncStep{local: b.local}
		n := "R["
		if b.local {
			n = "L["
		}
		for j, x := range b.names {
			st.toks = append(st.toks, tk(x))
			if j > 0 {
				n += ","
			}
			n += x
		}
		return st, n + "]"
	}
	for i := range asyncBatches {
		for j := range asyncBatches {
			if i == j {
				continue
			}
			s1, n1 := stepOf(i)
			s2, n2 := stepOf(j)
			for v := 0; v < 3; v++ {
				o := &opDef{kind: opAsync}
				switch v {
				case 0:
					o.steps = []asyncStep{s1, s2}
					o.name = "async{" + n1 + "|" + n2 + "}"
				case 1:
					h := opByName["mine(A,1)"]
					o.steps = []asyncStep{s1, s2, {head: h}}
					o.name = "async{" + n1 + "|" + n2 + "|" + h.name + "}"
				case 2:
					h := opByName["ballow(A)"]
					o.steps = []asyncStep{s1, {head: h}, s2}
					o.name = "async{" + n1 + "|" + h.name + "|" + n2 + "}"
				}
				for _, st := range o.steps {
					o.toks = append(o.toks, st.toks...)
				}
				o.id = len(ops)
				ops = append(ops, o)
				opByName[o.name] = o
				asyncOps = append(asyncOps, o)
			}
		}
	}
}

// enabled tells whether the operation is defined in chain state c (head changes are monotone so that
// the chain-state space is finite and every change is a change).
func (o *opDef) enabled(c chainState) bool {
	switch o.kind {
	case opMine:
		return int(c.Nonce[o.s]) < o.k
	case opBalLow:
		return !c.BalLow[o.s]
	case opGasLow:
		return !c.GasLow
	case opAsync:
		for _, st := range o.steps {
			if st.head != nil && !st.head.enabled(c) {
				return false
			}
		}
	}
	return true
}

func (o *opDef) isSubmit() bool { return o.kind == opRemote || o.kind == opLocal }
func (o *opDef) isHead() bool {
	return o.kind == opMine || o.kind == opBalLow || o.kind == opGasLow || o.kind == opReset
}
