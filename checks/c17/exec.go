package main

// Execution on the real pool: a stub chain (the pool's `blockChain` interface has exported methods
// only), a world = one real TxPool over that chain, operations applied through the pool's
// synchronous entry points, and observations taken through the public API plus the injected
// read-only view.

import (
	"fmt"
	"math/big"
	"os"
	"path/filepath"
	"runtime/debug"
	"sync"
	"time"

	"github.com/kardiachain/go-kardia/configs"
	"github.com/kardiachain/go-kardia/kai/events"
	"github.com/kardiachain/go-kardia/kai/kaidb/memorydb"
	"github.com/kardiachain/go-kardia/kai/state"
	"github.com/kardiachain/go-kardia/lib/common"
	"github.com/kardiachain/go-kardia/lib/event"
	"github.com/kardiachain/go-kardia/mainchain/tx_pool"
	"github.com/kardiachain/go-kardia/trie"
	"github.com/kardiachain/go-kardia/types"
)

// ---------------------------------------------------------------------------------------------
// stub chain

type stubChain struct {
	ctx      *wctx
	mu       sync.Mutex
	statedb  *state.StateDB
	gasLimit uint64
	feed     event.Feed
}

// the two head blocks (a Block is immutable for the pool: Header() copies)
var headBlocks = map[uint64]*types.Block{
	gasLimitHigh: types.NewBlock(&types.Header{GasLimit: gasLimitHigh}, nil, nil, nil, trie.NewStackTrie(nil)),
	gasLimitLow:  types.NewBlock(&types.Header{GasLimit: gasLimitLow}, nil, nil, nil, trie.NewStackTrie(nil)),
}

func (c *stubChain) CurrentBlock() *types.Block {
	c.mu.Lock()
	gl := c.gasLimit
	c.mu.Unlock()
	return headBlocks[gl]
}
func (c *stubChain) GetBlock(hash common.Hash, number uint64) *types.Block { return c.CurrentBlock() }
func (c *stubChain) StateAt(height uint64) (*state.StateDB, error) {
	c.mu.Lock()
	defer c.mu.Unlock()
	return c.statedb, nil
}
func (c *stubChain) SubscribeChainHeadEvent(ch chan<- events.ChainHeadEvent) event.Subscription {
	return c.feed.Subscribe(ch)
}

// wctx is the per-worker cache of chain states. A state database is only read by the pool (nonce,
// balance; the nonce tracker works on its own copy) and a worker runs its pools one after the other
// (every operation has completed, Stop() has joined the pool's goroutines), so the read caches
// inside a StateDB are never touched concurrently.
type wctx struct {
	states map[chainState]*state.StateDB
	lim    limits // limits of the pools this worker builds (zero value: the default limits)
}

var freeCtx = make(chan *wctx, 1024)

func getCtx() *wctx {
	select {
	case c := <-freeCtx:
		c.lim = limits{}
		return c
	default:
		return &wctx{states: map[chainState]*state.StateDB{}}
	}
}

func putCtx(c *wctx) {
	select {
	case freeCtx <- c:
	default:
	}
}

func (x *wctx) stateFor(cs chainState) *state.StateDB {
	if sdb := x.states[cs]; sdb != nil {
		return sdb
	}
	sdb, err := state.New(common.Hash{}, state.NewDatabase(memorydb.New()), nil)
	if err != nil {
		panic(err)
	}
	for s := 0; s < NS; s++ {
		sdb.SetBalance(addrs[s], cs.balance(s))
		sdb.SetNonce(addrs[s], uint64(cs.Nonce[s]))
	}
	x.states[cs] = sdb
	return sdb
}

func (c *stubChain) set(cs chainState) {
	sdb := c.ctx.stateFor(cs)
	c.mu.Lock()
	c.statedb, c.gasLimit = sdb, cs.gasLimit()
	c.mu.Unlock()
}

// ---------------------------------------------------------------------------------------------
// world

type world struct {
	lim      limits
	pool     *tx_pool.TxPool
	chain    *stubChain
	cs       chainState
	dir      string // scratch directory of the journal token (created on first use)
	restarts int
}

func poolConfig(journal string, lim limits) tx_pool.TxPoolConfig {
	return tx_pool.TxPoolConfig{
		Journal:      journal,
		Rejournal:    1000 * time.Hour,
		PriceLimit:   cfgPriceLimit,
		PriceBump:    cfgPriceBump,
		AccountSlots: uint64(lim.AS),
		GlobalSlots:  uint64(lim.GS),
		AccountQueue: uint64(lim.AQ),
		GlobalQueue:  uint64(lim.GQ),
		Lifetime:     100000 * time.Hour, // the eviction timer of the pool's loop never finds anything to evict
	}
}

func newWorld(x *wctx) *world {
	w := &world{chain: &stubChain{ctx: x}, lim: x.lim}
	if w.lim == (limits{}) {
		w.lim = defaultLimits
	}
	w.chain.set(w.cs)
	w.pool = tx_pool.NewTxPool(poolConfig("", w.lim), configs.TestChainConfig, w.chain)
	return w
}

func (w *world) close() {
	if w.pool != nil {
		w.pool.Stop()
		w.pool = nil
	}
	if w.dir != "" {
		os.RemoveAll(w.dir)
		w.dir = ""
	}
}

var scratchRoot = func() string {
	if st, err := os.Stat("/dev/shm"); err == nil && st.IsDir() {
		return "/dev/shm"
	}
	return os.TempDir()
}()

// ---------------------------------------------------------------------------------------------
// observation

// obs is what the checker sees of the pool after an operation.
type obs struct {
	lim limits // the limits the observed pool was built with
	// public API
	P, Q     [NS][]*token // Content(): pending / queued per sender, in the order returned
	P2       [NS][]*token // Pending()
	// the consumers' views of the offer (what the proposer and the RPC layer actually read)
	P3       [NS][]*token // GetPendingData(): the pre-Galaxias proposer's flat list, split per sender in list order
	p3n      int          // len(GetPendingData())
	P4, Q4   [NS][]*token // ContentFrom(addr)
	pendSize int          // PendingSize()
	drain    []*token     // Pending() drained through types.NewTransactionsByPriceAndNonce with Shift only (the Galaxias proposer's iteration)
	drainErr string       // a violation of the iterator's own contract met while draining
	foreign  string       // anything in Content()/Pending() that is not a known token under its own sender
	locals   [NS]bool     // Locals()
	gasPrice int64        // GasPrice()
	nonce    [NS]uint64   // Nonce(addr)
	statP    int
	statQ    int
	cs       chainState
	// injected read-only view
	v         *tx_pool.VerifC17View
	beatOrder []int
}

func (w *world) observe() *obs {
	o := &obs{cs: w.cs, lim: w.lim}
	conv := func(m map[common.Address]types.Transactions, out *[NS][]*token, what string) {
		for a, txs := range m {
			s, ok := addrIndex[a]
			if !ok {
				o.foreign = what + ": unknown address " + a.Hex()
				continue
			}
			for _, tx := range txs {
				t := tokenByHash[tx.Hash()]
				if t == nil {
					o.foreign = what + ": unknown transaction " + tx.Hash().Hex()
					continue
				}
				if t.sender != s {
					o.foreign = fmt.Sprintf("%s: %s listed under sender %s", what, t.name, senderNames[s])
				}
				out[s] = append(out[s], t)
			}
			if len(txs) == 0 {
				o.foreign = what + ": empty list kept for " + senderNames[s]
			}
		}
	}
	p, q := w.pool.Content()
	conv(p, &o.P, "Content.pending")
	conv(q, &o.Q, "Content.queued")
	p2, _ := w.pool.Pending()
	conv(p2, &o.P2, "Pending")
	flat := w.pool.GetPendingData()
	o.p3n = len(flat)
	for _, tx := range flat {
		if t := tokenByHash[tx.Hash()]; t != nil {
			o.P3[t.sender] = append(o.P3[t.sender], t)
		} else {
			o.foreign = "GetPendingData: unknown transaction " + tx.Hash().Hex()
		}
	}
	for s := 0; s < NS; s++ {
		cp, cq := w.pool.ContentFrom(addrs[s])
		for _, tx := range cp {
			o.P4[s] = append(o.P4[s], tokenByHash[tx.Hash()])
		}
		for _, tx := range cq {
			o.Q4[s] = append(o.Q4[s], tokenByHash[tx.Hash()])
		}
	}
	o.pendSize = w.pool.PendingSize()
	o.drainOffer(w)
	for _, a := range w.pool.Locals() {
		if s, ok := addrIndex[a]; ok {
			o.locals[s] = true
		} else {
			o.foreign = "Locals: unknown address " + a.Hex()
		}
	}
	gp := w.pool.GasPrice()
	if gp.IsInt64() {
		o.gasPrice = gp.Int64()
	} else {
		o.gasPrice = -1
	}
	for s := 0; s < NS; s++ {
		o.nonce[s] = w.pool.Nonce(addrs[s])
	}
	o.statP, o.statQ = w.pool.Stats()
	o.v = w.pool.VerifC17View()
	for _, a := range o.v.BeatOrder {
		if s, ok := addrIndex[a]; ok {
			o.beatOrder = append(o.beatOrder, s)
		}
	}
	return o
}

// drainOffer walks a fresh Pending() map the way the Galaxias proposer does (block_constructor.go organizeTransactions:
// types.NewTransactionsByPriceAndNonce under the chain's latest signer, Peek / Shift until empty) and records the order.
// At every step the emitted transaction must be a current head (the lowest not yet emitted nonce of its sender) and no
// other sender's head may carry a strictly higher price.
func (o *obs) drainOffer(w *world) {
	m, _ := w.pool.Pending()
	var left [NS][]*token
	for a, txs := range m {
		s, ok := addrIndex[a]
		if !ok {
			continue
		}
		for _, tx := range txs {
			if t := tokenByHash[tx.Hash()]; t != nil {
				left[s] = append(left[s], t)
			}
		}
	}
	it := types.NewTransactionsByPriceAndNonce(types.LatestSigner(configs.TestChainConfig), m)
	for n := 0; n < 4*len(tokens)+4; n++ {
		tx := it.Peek()
		if tx == nil {
			return
		}
		t := tokenByHash[tx.Hash()]
		if t == nil {
			o.drainErr = "iterator emitted an unknown transaction " + tx.Hash().Hex()
			return
		}
		if len(left[t.sender]) == 0 || left[t.sender][0] != t {
			if o.drainErr == "" {
				o.drainErr = fmt.Sprintf("iterator emitted %s which is not the next transaction of %s (remaining [%s])", t.name, senderNames[t.sender], tokNames(left[t.sender]))
			}
		} else {
			left[t.sender] = left[t.sender][1:]
		}
		for s := 0; s < NS; s++ {
			if s != t.sender && len(left[s]) > 0 && left[s][0].price > t.price && o.drainErr == "" {
				o.drainErr = fmt.Sprintf("iterator emitted %s (price %d) while %s (price %d) was available", t.name, t.price, left[s][0].name, left[s][0].price)
			}
		}
		o.drain = append(o.drain, t)
		it.Shift()
	}
	o.drainErr = "iterator does not terminate"
}

func (o *obs) has(t *token) (pending, queued bool) {
	for _, x := range o.P[t.sender] {
		if x == t {
			pending = true
		}
	}
	for _, x := range o.Q[t.sender] {
		if x == t {
			queued = true
		}
	}
	return
}

func (o *obs) present(t *token) bool { p, q := o.has(t); return p || q }

// at returns the token stored for (sender, nonce), if any.
func (o *obs) at(s int, nonce uint64) *token {
	for _, x := range o.P[s] {
		if x.nonce == nonce {
			return x
		}
	}
	for _, x := range o.Q[s] {
		if x.nonce == nonce {
			return x
		}
	}
	return nil
}

func (o *obs) all() []*token {
	var out []*token
	for s := 0; s < NS; s++ {
		out = append(out, o.P[s]...)
		out = append(out, o.Q[s]...)
	}
	return out
}

func (o *obs) count() (p, q int) {
	for s := 0; s < NS; s++ {
		p += len(o.P[s])
		q += len(o.Q[s])
	}
	return
}

func (o *obs) slots() int {
	n := 0
	for _, t := range o.all() {
		n += t.slots
	}
	return n
}

func priceIndex(p int64) byte {
	for i, x := range prices {
		if x == p {
			return byte(i)
		}
	}
	return 0xff
}

// key is the canonical state key: Content() per sender (lists as returned, they are nonce-sorted when
// the pool is sane), the local set, the gas price, the chain state and (withBeats) the order of the
// heartbeats, which decides the victim of a later queue truncation.
//
// Why merged states have equal futures: every branch of the pool reads only (a) the per-sender
// pending/queued lists, (b) the local set, (c) the gas price, (d) the chain state, (e) the heartbeat
// ORDER (truncateQueue), all of which are in the key, and (f) caches that are transparent when the
// pool is correct: the lookup index and price heap (re-derivable from the lists: checked by the
// index oracles in every state), txList.costcap/gascap (upper bounds; a stale bound only costs a
// scan), pendingNonces (checked equal to state nonce + pending length in every state) and
// changesSinceReorg (zero after every operation that ends in a reorg run). What is not in the key
// and not owned: Go map iteration order inside the pool (see nondeterministic_successors).
func (o *obs) key(withBeats bool) string {
	b := make([]byte, 0, 48)
	for s := 0; s < NS; s++ {
		b = append(b, byte(len(o.P[s])))
		for _, t := range o.P[s] {
			b = append(b, byte(t.id))
		}
		b = append(b, byte(len(o.Q[s])))
		for _, t := range o.Q[s] {
			b = append(b, byte(t.id))
		}
	}
	var lm byte
	for s := 0; s < NS; s++ {
		if o.locals[s] {
			lm |= 1 << uint(s)
		}
	}
	b = append(b, lm, priceIndex(o.gasPrice))
	var cm byte
	for s := 0; s < NS; s++ {
		b = append(b, o.cs.Nonce[s])
		if o.cs.BalLow[s] {
			cm |= 1 << uint(s)
		}
	}
	if o.cs.GasLow {
		cm |= 0x80
	}
	b = append(b, cm)
	if withBeats {
		b = append(b, 0xfe)
		for _, s := range o.beatOrder {
			b = append(b, byte(s))
		}
	}
	return string(b)
}

func tokNames(ts []*token) string {
	s := ""
	for i, t := range ts {
		if i > 0 {
			s += ","
		}
		s += t.name
	}
	return s
}

// describe renders a state for samples and violation texts.
func (o *obs) describe() string {
	s := ""
	for i := 0; i < NS; i++ {
		if len(o.P[i])+len(o.Q[i]) == 0 {
			continue
		}
		s += fmt.Sprintf("%s{pending:[%s] queued:[%s]} ", senderNames[i], tokNames(o.P[i]), tokNames(o.Q[i]))
	}
	loc := ""
	for i := 0; i < NS; i++ {
		if o.locals[i] {
			loc += senderNames[i]
		}
	}
	return fmt.Sprintf("%slocals={%s} gasprice=%d chain=(%s)", s, loc, o.gasPrice, o.cs)
}

// ---------------------------------------------------------------------------------------------
// applying one operation

type opResult struct {
	errs  []error // per submitted transaction (async: concatenated over the steps)
	fatal string  // machinery failure of the journal token (not a property verdict)
	panic string  // a panic in the code under test
}

func (w *world) apply(o *opDef) (res opResult) {
	defer func() {
		if p := recover(); p != nil {
			res.panic = fmt.Sprintf("%v\n%s", p, debug.Stack())
		}
	}()
	switch o.kind {
	case opRemote:
		txs := make([]*types.Transaction, len(o.toks))
		for i, t := range o.toks {
			txs[i] = t.tx
		}
		res.errs = w.pool.AddRemotesSync(txs)
	case opLocal:
		if len(o.toks) == 1 {
			res.errs = []error{w.pool.AddLocal(o.toks[0].tx)}
		} else {
			txs := make([]*types.Transaction, len(o.toks))
			for i, t := range o.toks {
				txs[i] = t.tx
			}
			res.errs = w.pool.AddLocals(txs)
		}
	case opMine:
		w.cs.Nonce[o.s] = uint8(o.k)
		w.chain.set(w.cs)
		w.pool.VerifC17Reset()
	case opBalLow:
		w.cs.BalLow[o.s] = true
		w.chain.set(w.cs)
		w.pool.VerifC17Reset()
	case opGasLow:
		w.cs.GasLow = true
		w.chain.set(w.cs)
		w.pool.VerifC17Reset()
	case opReset:
		w.chain.set(w.cs)
		w.pool.VerifC17Reset()
	case opPrice:
		w.pool.SetGasPrice(big.NewInt(int64(o.k)))
	case opAsync:
		var steps []tx_pool.VerifC17Step
		for _, st := range o.steps {
			if st.head != nil {
				switch st.head.kind {
				case opMine:
					w.cs.Nonce[st.head.s] = uint8(st.head.k)
				case opBalLow:
					w.cs.BalLow[st.head.s] = true
				case opGasLow:
					w.cs.GasLow = true
				}
				steps = append(steps, tx_pool.VerifC17Step{Reset: true})
				continue
			}
			txs := make([]*types.Transaction, len(st.toks))
			for i, t := range st.toks {
				txs[i] = t.tx
			}
			steps = append(steps, tx_pool.VerifC17Step{Txs: txs, Local: st.local})
		}
		// the chain has its new head before the round starts; the pool learns of it when the merged
		// run executes the reset (submissions inside the round are validated against the old state)
		w.chain.set(w.cs)
		for _, es := range w.pool.VerifC17Coalesced(steps) {
			res.errs = append(res.errs, es...)
		}
	case opJournal:
		if w.dir == "" {
			d, err := os.MkdirTemp(scratchRoot, "verif-c17-")
			if err != nil {
				res.fatal = "cannot create scratch directory: " + err.Error()
				return
			}
			w.dir = d
		}
		w.restarts++
		path := filepath.Join(w.dir, fmt.Sprintf("journal-%d.rlp", w.restarts))
		price := w.pool.GasPrice()
		if err := w.pool.VerifC17JournalRotate(path); err != nil {
			res.fatal = "journal rotate failed: " + err.Error()
			return
		}
		w.pool.Stop()
		w.pool = tx_pool.NewTxPool(poolConfig(path, w.lim), configs.TestChainConfig, w.chain)
		// the operator's price setting is configuration, not pool content: re-applied by the harness
		w.pool.SetGasPrice(price)
	}
	return
}
