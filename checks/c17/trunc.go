package main

// The truncation stage of C17.
//
// Why it exists: with the default limits of the check (AccountSlots 2, GlobalSlots 3, nonces 0..3,
// batches of at most 2) a reorg run never meets two senders above AccountSlots with UNEQUAL pending
// counts whose equalisation alone brings the pool back under GlobalSlots: the first capping loop of
// truncatePending ("equalise the offenders") either does not run or is always followed by the
// second loop ("reduce to the allowance"), which repairs whatever the first one left behind. The
// stage drives the real pool with limits that leave room for that: AccountSlots 1..2, GlobalSlots
// 3..6, queue limits that never bind, three remote senders, and
//
//   - setup: ONE AddRemotesSync batch holding the first l, a, b nonces of L, A, B at price 1, for
//     every (l, a, b) in {0..5}^3 (every combination of pending counts, so unequal offenders, equal
//     offenders, one offender and no offender all occur; one reorg run sees them all at once);
//   - then every history of length <= D over: AddRemotesSync([t]) for every (sender, nonce 0..6) at
//     price 1 (re-submission of every transaction the truncation trimmed, of kept ones = duplicates,
//     of the next nonces and of nonces behind a gap) and a head reset with unchanged state;
//   - states merged per limits by the usual key; the full oracle after every operation, in
//     particular Nonce(sender) == state nonce + pending length (the virtual nonce is the first
//     missing nonce), gap-free pending lists, the reference partition (oracle.go,
//     partition-vs-reference) and the limit post-conditions.
//
// thorough adds: a variant in which L is local before the setup (AddLocal(L0p1) first), and one
// more level.

import (
	"fmt"
	"os"
	"sort"
	"sync"
	"sync/atomic"
	"time"

	"verif/mc/par"
)

const (
	truncMaxNonce    = 6
	truncMaxCount    = 5
	truncStagePrefix = "stage=truncation|"
)

var truncLimits = []limits{
	{AS: 1, GS: 3, AQ: 8, GQ: 16},
	{AS: 1, GS: 4, AQ: 8, GQ: 16},
	{AS: 2, GS: 5, AQ: 8, GQ: 16},
	{AS: 2, GS: 6, AQ: 8, GQ: 16},
}

var (
	truncSetups []*opDef // T[l,a,b]
	truncAlpha  []*opDef // re-submissions and reset
)

func initTruncOps() {
	for l := 0; l <= truncMaxCount; l++ {
		for a := 0; a <= truncMaxCount; a++ {
			for b := 0; b <= truncMaxCount; b++ {
				if l+a+b == 0 {
					continue
				}
				o := &opDef{kind: opRemote, trunc: true, name: fmt.Sprintf("T[L%d,A%d,B%d]", l, a, b)}
				for s, n := range [NS]int{l, a, b} {
					for k := 0; k < n; k++ {
						o.toks = append(o.toks, tk(fmt.Sprintf("%s%dp1", senderNames[s], k)))
					}
				}
				o.s = l*100 + a*10 + b
				truncSetups = append(truncSetups, addOp(o))
			}
		}
	}
	for s := 0; s < NS; s++ {
		for n := 0; n <= truncMaxNonce; n++ {
			name := fmt.Sprintf("R(%s%dp1)", senderNames[s], n)
			o := opByName[name]
			if o == nil {
				o = submitOp(opRemote, false, fmt.Sprintf("%s%dp1", senderNames[s], n))
				o.trunc = true
			}
			truncAlpha = append(truncAlpha, o)
		}
	}
	truncAlpha = append(truncAlpha, opByName["reset"])
}

// unequalOffenders: in the setup's single reorg run at least two senders are above AccountSlots
// with different pending counts and the pool is above GlobalSlots.
func unequalOffenders(o *opDef, lim limits) bool {
	c := [NS]int{o.s / 100, o.s / 10 % 10, o.s % 10}
	if c[0]+c[1]+c[2] <= lim.GS {
		return false
	}
	var off []int
	for _, n := range c {
		if n > lim.AS {
			off = append(off, n)
		}
	}
	sort.Ints(off)
	return len(off) >= 2 && off[0] != off[len(off)-1]
}

type truncStats struct {
	setups, truncated, unequal           int64
	resubTrimmed, resubTrimmedQueued     int64
	resubTrimmedPromoted, resubDuplicate int64
}

var tstats truncStats

type tnode struct {
	hist  []uint16
	key   string
	setup *opDef
}

// truncStage runs the stage; levels = number of operations after the setup.
func truncStage(levels int, withLocalVariant bool) (report []string) {
	t0 := time.Now()
	before := atomic.LoadInt64(&violCount)
	for ci := range truncLimits {
		lim := truncLimits[ci]
		variants := [][]uint16{nil}
		if withLocalVariant {
			variants = append(variants, []uint16{uint16(opByName["L(L0p1)"].id)})
		}
		visited := map[khash]struct{}{}
		var frontier []tnode
		// ---- setups
		var mu sync.Mutex
		type job struct {
			pre   []uint16
			setup *opDef
		}
		var jobs []job
		for _, v := range variants {
			for _, o := range truncSetups {
				jobs = append(jobs, job{v, o})
			}
		}
		var trans, execs int64
		par.For(int64(len(jobs)), 4, r.Expired, func(i int64) {
			j := jobs[i]
			x := getCtx()
			x.lim = lim
			defer putCtx(x)
			var st transStats
			out := runCase(x, j.pre, j.setup, len(j.pre) > 0, &st)
			mergeStats(&st)
			atomic.AddInt64(&trans, int64(len(j.pre))+1)
			atomic.AddInt64(&execs, out.opExecs)
			atomic.AddInt64(&opCount[j.setup.id], 1)
			hist := append(append([]uint16{}, j.pre...), uint16(j.setup.id))
			if truncRecord(out, hist, lim, ci) || out.post == nil || out.failAt != len(hist)-1 {
				return
			}
			atomic.AddInt64(&tstats.setups, 1)
			if p, q := out.post.count(); p+q < len(j.setup.toks) {
				atomic.AddInt64(&tstats.truncated, 1)
			}
			if unequalOffenders(j.setup, lim) {
				atomic.AddInt64(&tstats.unequal, 1)
			}
			mu.Lock()
			frontier = append(frontier, tnode{hist: hist, key: out.key, setup: j.setup})
			mu.Unlock()
		})
		sort.Slice(frontier, func(a, b int) bool { return lessHist16(frontier[a].hist, frontier[b].hist) })
		for _, nd := range frontier {
			visited[hashKey(nd.key)] = struct{}{}
		}
		// ---- levels
		for d := 1; d <= levels && !r.Expired(); d++ {
			cands := map[khash]*tnode{}
			par.For(int64(len(frontier)), 1, r.Expired, func(i int64) {
				nd := frontier[i]
				x := getCtx()
				x.lim = lim
				defer putCtx(x)
				var st transStats
				for _, op := range truncAlpha {
					out := runCase(x, nd.hist, op, false, &st)
					atomic.AddInt64(&trans, 1)
					atomic.AddInt64(&execs, out.opExecs)
					atomic.AddInt64(&opCount[op.id], 1)
					h2 := append(append(make([]uint16, 0, len(nd.hist)+1), nd.hist...), uint16(op.id))
					if truncRecord(out, h2, lim, ci) || out.post == nil {
						continue
					}
					if out.preKey != nd.key {
						r.Add("nondeterministic_successors", 1)
					}
					if len(op.toks) == 1 && len(out.res.errs) == 1 {
						t := op.toks[0]
						inSetup := false
						for _, u := range nd.setup.toks {
							if u == t {
								inSetup = true
							}
						}
						switch {
						case out.pre.present(t):
							atomic.AddInt64(&tstats.resubDuplicate, 1)
						case inSetup && out.res.errs[0] == nil:
							atomic.AddInt64(&tstats.resubTrimmed, 1)
							if p, _ := out.post.has(t); p {
								atomic.AddInt64(&tstats.resubTrimmedPromoted, 1)
							} else {
								atomic.AddInt64(&tstats.resubTrimmedQueued, 1)
							}
						}
					}
					if out.key == out.preKey {
						continue
					}
					kh := hashKey(out.key)
					if _, ok := visited[kh]; ok {
						continue
					}
					mu.Lock()
					if c := cands[kh]; c == nil || lessHist16(h2, c.hist) {
						cands[kh] = &tnode{hist: h2, key: out.key, setup: nd.setup}
					}
					mu.Unlock()
				}
				mergeStats(&st)
			})
			frontier = frontier[:0]
			for kh, c := range cands {
				visited[kh] = struct{}{}
				frontier = append(frontier, *c)
			}
			sort.Slice(frontier, func(a, b int) bool { return lessHist16(frontier[a].hist, frontier[b].hist) })
		}
		for kh := range visited {
			allStates[khash{kh[0] ^ uint64(ci+1)*0x9e3779b97f4a7c15, kh[1]}] = struct{}{}
		}
		r.Add("transitions", trans)
		r.Add("traces_validated_against_impl", trans)
		r.Add("op_executions", execs)
		r.Add("truncation_stage_transitions", trans)
		line := fmt.Sprintf("limits AccountSlots %d GlobalSlots %d: %d setups, %d transitions, %d states", lim.AS, lim.GS, len(jobs), trans, len(visited))
		report = append(report, line)
		fmt.Fprintln(os.Stderr, "truncation", line)
	}
	if r.Expired() {
		r.NotExhaustive("deadline during the truncation stage")
	}
	if atomic.LoadInt64(&violCount) > before {
		r.NotExhaustive("the truncation stage found violations that are not listed as known")
	}
	r.Set("truncation_stage_wall_s", float64(int(time.Since(t0).Seconds()*10))/10)
	return
}

// truncRecord records the findings of a case; it reports whether one of them is not listed as
// known (then the transition is a leaf: what follows a broken state would only repeat it).
func truncRecord(out caseOut, hist []uint16, lim limits, ci int) (unlisted bool) {
	if len(out.f) == 0 {
		return false
	}
	h := hist
	if out.failAt >= 0 && out.failAt < len(hist) {
		h = hist[:out.failAt+1]
	}
	rank := []int{ci}
	for _, x := range h {
		rank = append(rank, int(x))
	}
	l := lim
	for _, f := range out.f {
		recordViolationAt(truncStagePrefix+out.cls, h, f, &l, rank)
		if !r.IsKnown(sigOf(truncStagePrefix+out.cls, f.oracle)) {
			unlisted = true
		}
	}
	return
}

func lessHist16(a, b []uint16) bool {
	if len(a) != len(b) {
		return len(a) < len(b)
	}
	return lessHist(a, b)
}

func truncGuards() {
	t := tstats
	r.Set("truncation_setups", t.setups)
	r.Set("truncation_setups_that_dropped", t.truncated)
	r.Set("truncation_setups_with_unequal_offenders", t.unequal)
	r.Set("truncation_resubmitted_trimmed_accepted", t.resubTrimmed)
	r.Set("truncation_resubmitted_trimmed_left_queued", t.resubTrimmedQueued)
	r.Set("truncation_resubmitted_trimmed_promoted", t.resubTrimmedPromoted)
	r.Set("truncation_resubmitted_duplicates", t.resubDuplicate)
	if r.NumViolations() > 0 || r.Expired() {
		return
	}
	r.Require(t.truncated > 0, "truncation stage: no setup was truncated")
	r.Require(t.unequal > 0, "truncation stage: no setup had two unequal offenders")
	r.Require(t.resubTrimmedQueued > 0 && t.resubTrimmedPromoted > 0, "truncation stage: a trimmed transaction was never re-submitted both behind a gap and as the next nonce")
	r.Require(t.resubDuplicate > 0, "truncation stage: a kept transaction was never re-submitted")
}
