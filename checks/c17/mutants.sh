#!/bin/bash
# Demonstrates that C17 fails on each mutant: applies every /verif/mutants/c17-*.patch (or the ones
# named on the command line) to a scratch worktree of /repo, runs the repository's own tests of
# mainchain/tx_pool and the quick check, and prints the signatures the mutant ADDS to what the
# unchanged tree already reports (the unchanged tree has a genuine finding, see FINDINGS.md).
export GOFLAGS=-mod=mod GOPROXY=off GOSUMDB=off GOTOOLCHAIN=local
sigs_of() { grep '^violation:' | sed 's/^violation: \(C17|[^:]*oracle=[a-z-]*\):.*/\1/' | sort -u; }
BASE=/tmp/c17-base-sigs.$$
WT=/tmp/wt-c17-$$
git -C /repo worktree add --detach "$WT" HEAD >/dev/null 2>&1 || { echo "worktree failed"; exit 2; }
VERIF_REPO="$WT" VERIF_NOEVIDENCE=1 timeout 900 /verif/run.sh C17 quick 2>/dev/null | sigs_of > "$BASE"
echo "unchanged tree: $(tr '\n' ' ' < "$BASE")"
git -C /repo worktree remove --force "$WT"
if [ $# -gt 0 ]; then LIST=("$@"); else LIST=(/verif/mutants/c17-*.patch); fi
for p in "${LIST[@]}"; do
  name=$(basename "$p" .patch)
  git -C /repo worktree add --detach "$WT" HEAD >/dev/null 2>&1 || { echo "$name: worktree failed"; continue; }
  if ! git -C "$WT" apply "$p"; then echo "$name: patch does not apply"; git -C /repo worktree remove --force "$WT"; continue; fi
  tests=FAIL
  for try in 1 2 3; do # TestTransactionPoolUnderpricing is timing dependent on a loaded machine
    if (cd "$WT" && timeout 600 go test -vet=off -count=1 ./mainchain/tx_pool/ >/tmp/c17-mut-test.log 2>&1); then tests=pass; break; fi
  done
  [ $tests = FAIL ] && tests="FAIL($(grep -- '^--- FAIL' /tmp/c17-mut-test.log | awk '{print $3}' | sort -u | tr '\n' ',' ))"
  out=$(VERIF_REPO="$WT" VERIF_NOEVIDENCE=1 timeout 900 /verif/run.sh C17 quick 2>/dev/null)
  rc=$?
  new=$(echo "$out" | sigs_of | comm -23 - "$BASE" | tr '\n' ' ')
  nv=$(echo "$out" | grep -c '^VIOLATION')
  echo "$name | repo tests: $tests | exit $rc | VIOLATION lines: $nv | added: $new"
  git -C /repo worktree remove --force "$WT"
done
rm -f "$BASE"
