package main

// The oracle of C17: state invariants judged from the public API plus the chain state (and, for the
// index oracles, the injected read-only view), and transition rules judged from the observation
// before and after one operation. Limits are read in the go-ethereum sense of DESIGN.md A.5.

import (
	"fmt"

	"github.com/kardiachain/go-kardia/lib/common"
	"github.com/kardiachain/go-kardia/mainchain/tx_pool"
)

type finding struct {
	oracle string
	detail string
}

type findings []finding

func (f *findings) add(oracle, format string, a ...interface{}) {
	for _, x := range *f {
		if x.oracle == oracle {
			return
		}
	}
	*f = append(*f, finding{oracle, fmt.Sprintf(format, a...)})
}

// idxInfo is what the lookup API says about one transaction hash.
type idxInfo struct {
	has    bool
	getOK  bool // Get returned a transaction with that hash
	getNil bool
	status tx_pool.TxStatus
}

// queryIndex asks Has/Get/Status for the watched tokens.
func (w *world) queryIndex(o *obs, watch map[*token]bool) map[*token]idxInfo {
	out := make(map[*token]idxInfo, len(watch)+8)
	ask := func(t *token) {
		if _, ok := out[t]; ok {
			return
		}
		var i idxInfo
		i.has = w.pool.Has(t.hash)
		g := w.pool.Get(t.hash)
		i.getNil = g == nil
		i.getOK = g != nil && g.Hash() == t.hash
		i.status = w.pool.Status([]common.Hash{t.hash})[0]
		out[t] = i
	}
	for t := range watch {
		ask(t)
	}
	for _, t := range o.all() {
		ask(t)
	}
	return out
}

func sameList(a, b []*token) bool {
	if len(a) != len(b) {
		return false
	}
	for i := range a {
		if a[i] != b[i] {
			return false
		}
	}
	return true
}

func sameContent(a, b *obs) bool {
	for s := 0; s < NS; s++ {
		if !sameList(a.P[s], b.P[s]) || !sameList(a.Q[s], b.Q[s]) || a.locals[s] != b.locals[s] {
			return false
		}
	}
	return a.gasPrice == b.gasPrice
}

func tokenSet(ts []*token) map[*token]bool {
	m := make(map[*token]bool, len(ts))
	for _, t := range ts {
		m[t] = true
	}
	return m
}

func setDiff(a, b map[*token]bool) (onlyA []*token) {
	for _, t := range tokens { // universe order: deterministic
		if a[t] && !b[t] {
			onlyA = append(onlyA, t)
		}
	}
	return
}

// ---------------------------------------------------------------------------------------------
// state invariants

// checkState judges one observed state. idx may be nil (then the lookup API is not judged).
// reorgRan: the operation that led here ended in a reorg run (limits are stated for that moment, A.5).
func checkState(o *obs, idx map[*token]idxInfo, reorgRan bool, f *findings) {
	if o.foreign != "" {
		f.add("content-foreign", "%s", o.foreign)
	}
	gl := o.cs.gasLimit()
	totalP, totalQ := o.count()
	if o.drainErr != "" {
		f.add("proposer-iteration", "%s", o.drainErr)
	}
	if o.pendSize != totalP || o.p3n != totalP {
		f.add("pendingsize-vs-content", "PendingSize() = %d, len(GetPendingData()) = %d but Content() holds %d pending", o.pendSize, o.p3n, totalP)
	}
	for s := 0; s < NS; s++ {
		S := senderNames[s]
		sn := uint64(o.cs.Nonce[s])
		bal := o.cs.balance(s)
		if !sameList(o.P[s], o.P2[s]) {
			f.add("pending-vs-content", "Pending() of %s = [%s] but Content() pending = [%s]", S, tokNames(o.P2[s]), tokNames(o.P[s]))
		}
		if !sameList(o.P[s], o.P3[s]) {
			f.add("pendingdata-vs-content", "GetPendingData() lists [%s] for %s but Content() pending = [%s]", tokNames(o.P3[s]), S, tokNames(o.P[s]))
		}
		if !sameList(o.P[s], o.P4[s]) || !sameList(o.Q[s], o.Q4[s]) {
			f.add("contentfrom-vs-content", "ContentFrom(%s) = [%s] / [%s] but Content() = [%s] / [%s]", S, tokNames(o.P4[s]), tokNames(o.Q4[s]), tokNames(o.P[s]), tokNames(o.Q[s]))
		}
		var drained []*token
		for _, t := range o.drain {
			if t.sender == s {
				drained = append(drained, t)
			}
		}
		if o.drainErr == "" && !sameList(o.P[s], drained) {
			f.add("proposer-iteration", "the price-and-nonce iteration over Pending() yields [%s] for %s but Content() pending = [%s]", tokNames(drained), S, tokNames(o.P[s]))
		}
		stale := false
		for _, t := range o.P[s] {
			if t.nonce < sn {
				stale = true
				f.add("stale-nonce-pending", "%s offered although the state nonce of %s is %d", t.name, S, sn)
			}
		}
		for i, t := range o.P[s] {
			if !stale && t.nonce != sn+uint64(i) {
				f.add("pending-gapfree", "pending of %s = [%s] is not the gap-free sequence from state nonce %d", S, tokNames(o.P[s]), sn)
			}
			if t.cost.Cmp(bal) > 0 {
				f.add("pending-affordable", "%s offered: cost %v > balance %v of %s", t.name, t.cost, bal, S)
			}
			if t.gas > gl {
				f.add("pending-gaslimit", "%s offered: gas %d > block gas limit %d", t.name, t.gas, gl)
			}
		}
		prev := int64(-1)
		for _, t := range o.Q[s] {
			if t.nonce < sn {
				f.add("stale-nonce-queued", "%s still queued although the state nonce of %s is %d", t.name, S, sn)
			}
			if int64(t.nonce) <= prev {
				f.add("queue-order", "queued of %s = [%s] is not strictly nonce-ordered", S, tokNames(o.Q[s]))
			}
			prev = int64(t.nonce)
			for _, u := range o.P[s] {
				if u.nonce == t.nonce {
					f.add("pending-queued-overlap", "%s pending and %s queued for the same nonce", u.name, t.name)
				}
			}
		}
		want := sn + uint64(len(o.P[s]))
		if o.nonce[s] != want && !stale {
			f.add("pending-nonce", "Nonce(%s) = %d, want state nonce %d + %d pending = %d", S, o.nonce[s], sn, len(o.P[s]), want)
		}
	}
	if o.statP != totalP || o.statQ != totalQ {
		f.add("stats-vs-lists", "Stats() = (%d,%d) but Content() has (%d,%d)", o.statP, o.statQ, totalP, totalQ)
	}
	content := tokenSet(o.all())
	if len(content) != totalP+totalQ {
		f.add("pending-queued-overlap", "a transaction is listed twice in Content(): %s", o.describe())
	}
	// lookup index = pending + queued (public API)
	for _, t := range tokens {
		i, ok := idx[t]
		if !ok {
			continue
		}
		p, q := o.has(t)
		in := p || q
		if i.has != in || (in && !i.getOK) || (!in && !i.getNil) {
			if in {
				f.add("listed-not-indexed", "%s is listed (pending=%v queued=%v) but Has=%v Get-ok=%v", t.name, p, q, i.has, i.getOK)
			} else {
				f.add("indexed-not-listed", "%s is in neither list but Has=%v Get-nil=%v", t.name, i.has, i.getNil)
			}
		}
		wantSt := tx_pool.TxStatusUnknown
		if p {
			wantSt = tx_pool.TxStatusPending
		} else if q {
			wantSt = tx_pool.TxStatusQueued
		}
		if i.status != wantSt && i.has == in {
			f.add("status-vs-lists", "Status(%s) = %d, want %d", t.name, i.status, wantSt)
		}
	}
	publicIndexQuiet := true
	for _, x := range *f {
		if x.oracle == "listed-not-indexed" || x.oracle == "indexed-not-listed" {
			publicIndexQuiet = false
		}
	}
	// lookup index and price heap (injected view)
	if v := o.v; v != nil {
		seen := map[*token]int{}
		remote := map[*token]bool{}
		unknown := 0
		for _, h := range v.AllLocals {
			if t := tokenByHash[h]; t != nil {
				seen[t]++
			} else {
				unknown++
			}
		}
		for _, h := range v.AllRemotes {
			if t := tokenByHash[h]; t != nil {
				seen[t]++
				remote[t] = true
			} else {
				unknown++
			}
		}
		bad := unknown > 0
		for t, n := range seen {
			if n != 1 || !content[t] {
				bad = true
			}
		}
		if !publicIndexQuiet {
			// the same fact was already reported from the public API
		} else if bad || len(seen) != len(content) {
			var names []*token
			for _, t := range tokens {
				if seen[t] > 0 {
					names = append(names, t)
				}
			}
			f.add("lookup-vs-lists", "lookup index holds [%s] (+%d unknown) but the lists hold %s", tokNames(names), unknown, o.describe())
		} else if v.AllSlots != o.slots() {
			f.add("lookup-slots", "lookup slot counter %d, listed transactions occupy %d", v.AllSlots, o.slots())
		}
		heap := map[*token]bool{}
		for _, h := range v.Priced {
			if t := tokenByHash[h]; t != nil {
				heap[t] = true
			}
		}
		for _, t := range tokens {
			if remote[t] && !heap[t] {
				f.add("priced-misses-remote", "remote transaction %s is not in the price heap", t.name)
			}
			if remote[t] && t.price < o.gasPrice {
				f.add("remote-below-gasprice", "remote transaction %s (price %d) kept under pool gas price %d", t.name, t.price, o.gasPrice)
			}
		}
	}
	// limits (A.5), stated for the moment after a reorg run
	if reorgRan {
		if totalP > o.lim.GS {
			for s := 0; s < NS; s++ {
				if !o.locals[s] && len(o.P[s]) > o.lim.AS {
					f.add("limit-pending", "%d pending > GlobalSlots %d while non-local %s holds %d > AccountSlots %d", totalP, o.lim.GS, senderNames[s], len(o.P[s]), o.lim.AS)
				}
			}
		}
		nq := 0
		for s := 0; s < NS; s++ {
			if !o.locals[s] {
				nq += len(o.Q[s])
			}
		}
		if nq > o.lim.GQ {
			f.add("limit-queue-global", "%d queued transactions of non-local senders > GlobalQueue %d", nq, o.lim.GQ)
		}
	}
}

// ---------------------------------------------------------------------------------------------
// reference validity of a submission

func refInvalid(t *token, isLocal bool, pre *obs) string {
	s := t.sender
	switch {
	case t.oversz:
		return "oversized"
	case t.gas > pre.cs.gasLimit():
		return "gas above the block gas limit"
	case t.badsig:
		return "signed for another chain id"
	case !isLocal && t.price < pre.gasPrice:
		return "price below the pool's gas price"
	case t.nonce < uint64(pre.cs.Nonce[s]):
		return "nonce below the state nonce"
	case t.cost.Cmp(pre.cs.balance(s)) > 0:
		return "cost above the balance"
	case t.gas < t.intrGas:
		return "gas below the intrinsic gas"
	}
	return ""
}

func bumpOK(newP, oldP int64) bool {
	return newP > oldP && newP >= oldP*(100+cfgPriceBump)/100
}

type slot struct {
	s int
	n uint64
}

// expectedAfterSubmit returns the set the pool must hold after the accepted submissions when no
// limit can bind, and for every accepted token whether it filled an empty (sender, nonce) place.
func expectedAfterSubmit(pre *obs, accepted []*token) (map[*token]bool, map[*token]bool) {
	m := map[slot]*token{}
	for _, t := range pre.all() {
		m[slot{t.sender, t.nonce}] = t
	}
	fresh := map[*token]bool{}
	for _, t := range accepted {
		k := slot{t.sender, t.nonce}
		if m[k] == nil {
			fresh[t] = true
		}
		m[k] = t
	}
	out := map[*token]bool{}
	for _, t := range m {
		out[t] = true
	}
	return out, fresh
}

// limitStable tells whether a reorg run that promotes nothing leaves the state alone: SetGasPrice
// (and nothing else) can leave the pool above a limit, because it demotes pending transactions to
// the queue without a reorg run; the next run - also the one a rejected submission requests once it
// got past the pre-lock filter - then truncates. That is limit enforcement, not an effect of the
// rejected submission, so "a rejected submission leaves the pool unchanged" is required of
// limit-stable states only.
func limitStable(o *obs) bool {
	p, q := o.count()
	for s := 0; s < NS; s++ {
		if o.locals[s] {
			continue
		}
		if p > o.lim.GS && len(o.P[s]) > o.lim.AS {
			return false
		}
		if q > o.lim.GQ && len(o.Q[s]) > 0 {
			return false
		}
	}
	return true
}

// reorgRuns tells whether a submission reaches the pool lock and therefore ends in a reorg run:
// at least one transaction is neither already indexed nor without a derivable sender.
func reorgRuns(op *opDef, pre *obs) bool {
	switch {
	case op.isSubmit():
		for _, t := range op.toks {
			if !pre.present(t) && !t.badsig {
				return true
			}
		}
		return false
	case op.kind == opPrice:
		return false
	}
	return true
}

// ---------------------------------------------------------------------------------------------
// transition rules

type transStats struct {
	replAccepted, replRejected    int
	evictions                     int // transitions in which a limit removed something
	poolFull                      int // submissions that met a full pool
	localOverCap                  int
	dropMined, dropFunds, dropGas int
	dropPrice                     int
	demotions                     int
	journalNonEmpty               int
	exactSetChecks                int
	asyncMulti                    int // coalesced rounds in which two sections each had an accepted transaction
	asyncResetDrop                int // coalesced rounds whose merged reset dropped a transaction
}

func checkTransition(pre *obs, op *opDef, res opResult, post *obs, postIdx map[*token]idxInfo, f *findings, st *transStats) {
	if res.panic != "" {
		f.add("panic", "%s", res.panic)
		return
	}
	preSet, postSet := tokenSet(pre.all()), tokenSet(post.all())
	for s := 0; s < NS; s++ { // a pending transaction that moved to the queue
		for _, t := range pre.P[s] {
			if _, q := post.has(t); q {
				st.demotions++
			}
		}
		if post.locals[s] && len(post.Q[s]) > pre.lim.AQ {
			st.localOverCap++
		}
	}
	switch {
	case op.isSubmit():
		n := len(op.toks)
		if len(res.errs) != n {
			f.add("errs-length", "%d errors returned for %d transactions", len(res.errs), n)
			return
		}
		var accepted []*token
		for i, t := range op.toks {
			if res.errs[i] == nil {
				accepted = append(accepted, t)
			}
		}
		if len(accepted) == 0 && !sameContent(pre, post) && limitStable(pre) {
			f.add("rejected-changes-pool", "every submission was rejected (%v) but the pool changed from %s to %s", res.errs, pre.describe(), post.describe())
		}
		accSet := tokenSet(accepted)
		for _, t := range setDiff(postSet, preSet) {
			if !accSet[t] {
				f.add("phantom-tx", "%s appeared without an accepted submission", t.name)
			}
		}
		if post.gasPrice != pre.gasPrice {
			f.add("config-changed", "gas price changed by a submission")
		}
		for s := 0; s < NS; s++ {
			if pre.locals[s] && !post.locals[s] {
				f.add("config-changed", "%s is no longer local", senderNames[s])
			}
		}
		full := pre.slots()
		for _, t := range op.toks {
			full += t.slots
		}
		isFull := full > pre.lim.GS+pre.lim.GQ
		if isFull {
			st.poolFull++
		}
		// ---- single submission: accept / reject / replace rules
		if n == 1 {
			t, err := op.toks[0], res.errs[0]
			isLocal := op.kind == opLocal || pre.locals[t.sender]
			why := refInvalid(t, isLocal, pre)
			comp := pre.at(t.sender, t.nonce)
			switch {
			case pre.present(t):
				if err == nil {
					f.add("duplicate-accepted", "%s is already in the pool and was accepted again", t.name)
				}
			case why != "":
				if err == nil {
					f.add("invalid-accepted", "%s accepted although %s (class %s)", t.name, why, t.class)
				}
			case comp != nil:
				ok := bumpOK(t.price, comp.price)
				if err == nil {
					st.replAccepted++
				} else {
					st.replRejected++
				}
				if err == nil && !ok {
					f.add("replacement-without-bump", "%s (price %d) replaced %s (price %d) without the %d%% bump", t.name, t.price, comp.name, comp.price, cfgPriceBump)
				}
				if err != nil && ok && !isFull {
					f.add("replacement-with-bump-rejected", "%s (price %d) did not replace %s (price %d): %v", t.name, t.price, comp.name, comp.price, err)
				}
				if err == nil {
					if post.present(comp) {
						f.add("replaced-still-listed", "%s was replaced by %s but is still listed: %s", comp.name, t.name, post.describe())
					}
					if i, ok := postIdx[comp]; ok && (i.has || !i.getNil || i.status != tx_pool.TxStatusUnknown) {
						f.add("replaced-still-indexed", "%s was replaced by %s but Has=%v Get-nil=%v Status=%d", comp.name, t.name, i.has, i.getNil, i.status)
					}
				}
			default:
				if err != nil && !isFull {
					f.add("valid-rejected", "%s is valid, fills a free nonce and the pool is not full, but was rejected: %v", t.name, err)
				}
			}
		}
		// ---- what may disappear
		want, fresh := expectedAfterSubmit(pre, accepted)
		var accTotal int
		var accBy, freshBy [NS]int
		for _, t := range accepted {
			accTotal++
			accBy[t.sender]++
			if fresh[t] {
				freshBy[t.sender]++
			}
		}
		preP, preQ := pre.count()
		canBind := isFull
		dirtyQ := 0
		for s := 0; s < NS; s++ {
			if accBy[s] > 0 {
				dirtyQ += len(pre.Q[s])
				if !post.locals[s] && len(pre.Q[s])+accBy[s] > pre.lim.AQ {
					canBind = true
				}
			}
		}
		if preP+dirtyQ+accTotal > pre.lim.GS || preQ+accTotal > pre.lim.GQ {
			canBind = true
		}
		missing := setDiff(want, postSet)
		if len(missing) > 0 {
			st.evictions++
		}
		if !canBind {
			st.exactSetChecks++
			if len(missing) > 0 {
				f.add("spurious-eviction", "[%s] disappeared although no limit can bind: %s --%s--> %s", tokNames(missing), pre.describe(), op.name, post.describe())
			}
			// reference partition: no limit can bind, so the reorg run only promotes. A sender with a
			// newly placed transaction must offer exactly the maximal gap-free run of its pooled
			// nonces from the state nonce (the rest queued); every other sender's lists are untouched.
			if len(missing) == 0 {
				for s := 0; s < NS; s++ {
					if freshBy[s] == 0 {
						if accBy[s] == 0 && (!sameList(pre.P[s], post.P[s]) || !sameList(pre.Q[s], post.Q[s])) {
							f.add("partition-vs-reference", "%s submitted nothing and no limit can bind, but its lists changed: %s --%s--> %s", senderNames[s], pre.describe(), op.name, post.describe())
						}
						continue
					}
					have := map[uint64]bool{}
					for _, t := range post.P[s] {
						have[t.nonce] = true
					}
					for _, t := range post.Q[s] {
						have[t.nonce] = true
					}
					n := uint64(post.cs.Nonce[s])
					for have[n] {
						n++
					}
					if want := int(n - uint64(post.cs.Nonce[s])); want != len(post.P[s]) {
						f.add("partition-vs-reference", "%s pools a gap-free run of %d nonces from its state nonce but offers %d: %s --%s--> %s", senderNames[s], want, len(post.P[s]), pre.describe(), op.name, post.describe())
					}
				}
			}
		}
		for _, t := range missing {
			if pre.locals[t.sender] {
				f.add("local-evicted", "%s of local sender %s disappeared: %s --%s--> %s", t.name, senderNames[t.sender], pre.describe(), op.name, post.describe())
			}
		}
		// per-account queue cap: non-local senders whose queue was processed by this reorg run
		for s := 0; s < NS; s++ {
			if freshBy[s] > 0 && !post.locals[s] && len(post.Q[s]) > pre.lim.AQ {
				f.add("limit-queue-account", "non-local %s holds %d queued > AccountQueue %d after its submission was processed", senderNames[s], len(post.Q[s]), pre.lim.AQ)
			}
		}

	case op.isHead():
		for _, t := range setDiff(postSet, preSet) {
			f.add("phantom-tx", "%s appeared after a head reset", t.name)
		}
		if post.gasPrice != pre.gasPrice {
			f.add("config-changed", "gas price changed by a head reset")
		}
		for s := 0; s < NS; s++ {
			if pre.locals[s] != post.locals[s] {
				f.add("config-changed", "local set changed by a head reset")
			}
		}
		preP, preQ := pre.count()
		for _, t := range setDiff(preSet, postSet) {
			s := t.sender
			switch {
			case t.nonce < uint64(post.cs.Nonce[s]):
				st.dropMined++
			case t.cost.Cmp(post.cs.balance(s)) > 0:
				st.dropFunds++
			case t.gas > post.cs.gasLimit():
				st.dropGas++
			case pre.locals[s]:
				f.add("local-evicted", "%s of local sender %s dropped by a head reset that leaves it valid: %s --%s--> %s", t.name, senderNames[s], pre.describe(), op.name, post.describe())
			case preP+preQ <= pre.lim.GS:
				f.add("reset-dropped-valid", "%s dropped by a head reset that leaves it valid, no limit can bind: %s --%s--> %s", t.name, pre.describe(), op.name, post.describe())
			default:
				st.evictions++
			}
		}
		for s := 0; s < NS; s++ {
			if post.locals[s] {
				continue
			}
			n := 0
			for _, t := range post.Q[s] {
				if p, _ := pre.has(t); !p {
					n++
				}
			}
			if n > pre.lim.AQ {
				f.add("limit-queue-account", "non-local %s holds %d queued (not counting demoted ones) > AccountQueue %d after a reset", senderNames[s], n, pre.lim.AQ)
			}
		}

	case op.kind == opPrice:
		p := int64(op.k)
		if post.gasPrice != p {
			f.add("setgasprice-value", "GasPrice() = %d after SetGasPrice(%d)", post.gasPrice, p)
		}
		want := map[*token]bool{}
		remote := map[*token]bool{}
		for _, h := range pre.v.AllRemotes {
			if t := tokenByHash[h]; t != nil {
				remote[t] = true
			}
		}
		for t := range preSet {
			if p > pre.gasPrice && remote[t] && t.price < p {
				st.dropPrice++
				continue
			}
			want[t] = true
		}
		if a, b := setDiff(want, postSet), setDiff(postSet, want); len(a)+len(b) > 0 {
			f.add("setgasprice-content", "SetGasPrice(%d) from %d: lost [%s], kept wrongly [%s]: %s --> %s", p, pre.gasPrice, tokNames(a), tokNames(b), pre.describe(), post.describe())
		}
		for s := 0; s < NS; s++ {
			if pre.locals[s] != post.locals[s] {
				f.add("config-changed", "local set changed by SetGasPrice")
			}
		}

	case op.kind == opAsync:
		// a coalesced round: submissions validated against the OLD chain state, one merged reorg run
		// (with the reset, if requested). Judged: nothing appears that was not accepted; transactions
		// of senders that were local before the round disappear only when replaced or when the new
		// chain state invalidates them; configuration is untouched. (The state invariants and the
		// global limits are judged by checkState as after any reorg run.)
		if len(res.errs) != len(op.toks) {
			f.add("errs-length", "%d errors returned for %d transactions", len(res.errs), len(op.toks))
			return
		}
		var accepted []*token
		for i, t := range op.toks {
			if res.errs[i] == nil {
				accepted = append(accepted, t)
			}
		}
		accSet := tokenSet(accepted)
		for _, t := range setDiff(postSet, preSet) {
			if !accSet[t] {
				f.add("phantom-tx", "%s appeared without an accepted submission", t.name)
			}
		}
		if post.gasPrice != pre.gasPrice {
			f.add("config-changed", "gas price changed by a coalesced round")
		}
		sections, k := 0, 0
		for _, sp := range op.steps {
			hit := false
			for range sp.toks {
				if res.errs[k] == nil {
					hit = true
				}
				k++
			}
			if hit {
				sections++
			}
		}
		if sections >= 2 {
			st.asyncMulti++
		}
		if post.cs != pre.cs && len(setDiff(preSet, postSet)) > 0 {
			st.asyncResetDrop++
		}
		want, _ := expectedAfterSubmit(pre, accepted)
		for _, t := range setDiff(want, postSet) {
			s := t.sender
			if !pre.locals[s] {
				continue
			}
			switch {
			case t.nonce < uint64(post.cs.Nonce[s]):
				st.dropMined++
			case t.cost.Cmp(post.cs.balance(s)) > 0:
				st.dropFunds++
			case t.gas > post.cs.gasLimit():
				st.dropGas++
			default:
				f.add("local-evicted", "%s of local sender %s disappeared in a coalesced round: %s --%s--> %s", t.name, senderNames[s], pre.describe(), op.name, post.describe())
			}
		}
		if len(accepted) == 0 && post.cs == pre.cs && !sameContent(pre, post) && limitStable(pre) {
			f.add("rejected-changes-pool", "every submission of the round was rejected (%v) but the pool changed from %s to %s", res.errs, pre.describe(), post.describe())
		}

	case op.kind == opJournal:
		if res.fatal != "" {
			return
		}
		want := map[*token]bool{}
		for t := range preSet {
			if pre.locals[t.sender] {
				want[t] = true
			}
		}
		if len(want) > 0 {
			st.journalNonEmpty++
		}
		if a, b := setDiff(want, postSet), setDiff(postSet, want); len(a)+len(b) > 0 {
			f.add("journal-roundtrip", "after journal save + load: lost [%s], extra [%s]: %s --> %s", tokNames(a), tokNames(b), pre.describe(), post.describe())
		}
	}
}

// ---------------------------------------------------------------------------------------------
// signature class of an operation in the state it meets (appendix C: the history class that fails,
// derived mechanically; the concrete shortest history found goes into the replay case)

func classify(pre *obs, op *opDef) string {
	switch {
	case op.isSubmit():
		cl := ""
		slots := 0
		for i, t := range op.toks {
			if i > 0 {
				cl += ","
			}
			if t.class == "plain" || t.class == "biggas" {
				cl += "tx"
			} else {
				cl += t.class
			}
			slots += t.slots
		}
		if len(op.toks) != 1 {
			cl = "batch"
		}
		if pre == nil {
			return fmt.Sprintf("op=submit(%s)", cl)
		}
		room := "room"
		if pre.slots()+slots > pre.lim.GS+pre.lim.GQ {
			room = "full"
		}
		if len(op.toks) != 1 {
			return fmt.Sprintf("op=submit(batch)|ctx=%s", room)
		}
		t := op.toks[0]
		isLocal := op.kind == opLocal || pre.locals[t.sender]
		val := "valid"
		if pre.present(t) {
			val = "known"
		} else if why := refInvalid(t, isLocal, pre); why != "" {
			val = "invalid"
		}
		comp := "none"
		if c := pre.at(t.sender, t.nonce); c != nil && c != t {
			if bumpOK(t.price, c.price) {
				comp = "bump"
			} else {
				comp = "nobump"
			}
		}
		return fmt.Sprintf("op=submit(%s)|ctx=%s,%s,competitor=%s", cl, room, val, comp)
	case op.kind == opMine:
		return "op=mine"
	case op.kind == opBalLow:
		return "op=ballow"
	case op.kind == opGasLow:
		return "op=gaslow"
	case op.kind == opReset:
		return "op=reset"
	case op.kind == opPrice:
		if pre == nil {
			return "op=price"
		}
		switch {
		case int64(op.k) > pre.gasPrice:
			return "op=price-up"
		case int64(op.k) < pre.gasPrice:
			return "op=price-down"
		}
		return "op=price-same"
	case op.kind == opJournal:
		return "op=journal"
	case op.kind == opAsync:
		if pre == nil {
			return "op=async"
		}
		slots := pre.slots()
		for _, t := range op.toks {
			slots += t.slots
		}
		if slots > pre.lim.GS+pre.lim.GQ {
			return "op=async|ctx=full"
		}
		return "op=async|ctx=room"
	}
	return "op=?"
}
