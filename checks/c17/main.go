// C17 — the transaction pool only offers executable transactions and respects its limits.
//
// Engine E2 (explicit-state search over the real object): every state is the shortest operation
// history that reaches it; a successor is a FRESH real tx_pool.TxPool over a stub chain + replay of
// that history + one more operation, all through the pool's synchronous entry points (AddLocal(s),
// AddRemotesSync, SetGasPrice, and <-requestReset(nil,nil) through an injected accessor, the idiom
// of the repository's own tests), so every operation has completed before the oracle looks.
// The oracle (oracle.go) runs after every operation. See DESIGN.md section 4 / C17 and appendix A.5.
package main

import (
	"fmt"
	"hash/maphash"
	"os"
	"runtime/debug"
	"runtime/pprof"
	"sort"
	"strings"
	"sync"
	"sync/atomic"
	"time"

	"github.com/kardiachain/go-kardia/lib/log"

	"verif/mc/par"
	"verif/mc/report"
)

var r *report.Run

var stopProfile = func() {}

var keyBeats = true // heartbeat order is part of the state key

// ---------------------------------------------------------------------------------------------
// one executed case

type caseOut struct {
	preKey  string
	key     string
	pre     *obs
	post    *obs
	res     opResult
	f       findings
	failAt  int    // index (in hist+op) of the operation the findings belong to
	cls     string // class of that operation and of the state it met (signature)
	opExecs int64
}

func csAfter(hist []uint16) chainState {
	var c chainState
	for _, h := range hist {
		o := ops[h]
		switch o.kind {
		case opMine:
			c.Nonce[o.s] = uint8(o.k)
		case opBalLow:
			c.BalLow[o.s] = true
		case opGasLow:
			c.GasLow = true
		case opAsync:
			for _, st := range o.steps {
				if st.head != nil {
					c = csAfterOne(c, st.head)
				}
			}
		}
	}
	return c
}

func csAfterOne(c chainState, o *opDef) chainState {
	switch o.kind {
	case opMine:
		c.Nonce[o.s] = uint8(o.k)
	case opBalLow:
		c.BalLow[o.s] = true
	case opGasLow:
		c.GasLow = true
	}
	return c
}

// step applies one operation with the full oracle.
func step(w *world, pre *obs, op *opDef, watch map[*token]bool, st *transStats) (post *obs, res opResult, f findings) {
	for _, t := range op.toks {
		watch[t] = true
	}
	ran := reorgRuns(op, pre)
	res = w.apply(op)
	if res.panic != "" {
		// the pool may have died holding its lock: do not touch it again
		f.add("panic", "%s", res.panic)
		w.pool = nil
		return nil, res, f
	}
	if res.fatal != "" {
		r.Add("machinery_errors", 1)
		fmt.Println("MACHINERY-ERROR", op.name, res.fatal)
		return nil, res, f
	}
	post = w.observe()
	idx := w.queryIndex(post, watch)
	checkState(post, idx, ran, &f)
	checkTransition(pre, op, res, post, idx, &f, st)
	return
}

// runCase executes hist then op on a fresh pool. checkAll: run the oracle after every operation
// (replay / confirmation); otherwise only after the last one (the prefix was judged when it was
// first explored).
func runCase(x *wctx, hist []uint16, op *opDef, checkAll bool, st *transStats) (out caseOut) {
	w := newWorld(x)
	defer func() { w.close() }()
	watch := map[*token]bool{}
	var cur *obs
	if checkAll {
		cur = w.observe()
		var f0 findings
		checkState(cur, w.queryIndex(cur, watch), true, &f0)
		if len(f0) > 0 {
			out.f, out.failAt, out.cls = f0, -1, "op=none"
			return
		}
	}
	for i, h := range hist {
		o := ops[h]
		out.opExecs++
		if checkAll {
			post, _, f := step(w, cur, o, watch, st)
			if len(f) > 0 || post == nil {
				out.f, out.failAt, out.cls = f, i, classify(cur, o)
				return
			}
			cur = post
			continue
		}
		for _, t := range o.toks {
			watch[t] = true
		}
		if res := w.apply(o); res.panic != "" || res.fatal != "" {
			out.f.add("panic", "while replaying the history: %s%s", res.panic, res.fatal)
			out.failAt, out.cls = i, classify(nil, o)
			w.pool = nil
			return
		}
	}
	if !checkAll {
		cur = w.observe()
	}
	out.pre = cur
	out.preKey = cur.key(keyBeats)
	out.opExecs++
	post, res, f := step(w, cur, op, watch, st)
	out.post, out.res, out.f, out.failAt, out.cls = post, res, f, len(hist), classify(cur, op)
	if post != nil {
		out.key = post.key(keyBeats)
		if op.isSubmit() && len(op.toks) == 2 && len(f) == 0 && out.key != out.preKey {
			batchEquiv(x, hist, op, &out, st)
		}
	}
	return
}

// batchEquiv: a batch must be equivalent to the same singles, in the reading that survives the
// limits: both executions must be free of limit evictions (otherwise the one reorg run of the batch
// and the two runs of the singles legitimately truncate differently).
func batchEquiv(x *wctx, hist []uint16, op *opDef, out *caseOut, st *transStats) {
	var acc []*token
	for i, t := range op.toks {
		if out.res.errs[i] == nil {
			acc = append(acc, t)
		}
	}
	want, _ := expectedAfterSubmit(out.pre, acc)
	postSet := tokenSet(out.post.all())
	slots := out.pre.slots()
	for _, t := range op.toks {
		slots += t.slots
	}
	// a full pool evicts (and throttles further evictions until the next reorg run): not comparable
	if slots > out.pre.lim.GS+out.pre.lim.GQ || len(setDiff(want, postSet)) > 0 || len(want) != len(postSet) {
		r.Add("batch_equiv_skipped_limits", 1)
		return
	}
	w := newWorld(x)
	defer func() { w.close() }()
	for _, h := range hist {
		out.opExecs++
		if res := w.apply(ops[h]); res.panic != "" || res.fatal != "" {
			w.pool = nil
			return
		}
	}
	cur := w.observe()
	if cur.key(keyBeats) != out.preKey {
		r.Add("nondeterministic_successors", 1)
		return
	}
	var errs []error
	for _, t := range op.toks {
		single := &opDef{kind: op.kind, toks: []*token{t}, name: "single"}
		out.opExecs++
		res := w.apply(single)
		if res.panic != "" {
			out.f.add("panic", "in the single submission of %s: %s", t.name, res.panic)
			w.pool = nil
			return
		}
		nxt := w.observe()
		var a []*token
		if res.errs[0] == nil {
			a = []*token{t}
		}
		exp, _ := expectedAfterSubmit(cur, a)
		got := tokenSet(nxt.all())
		if len(setDiff(exp, got)) > 0 || len(exp) != len(got) {
			r.Add("batch_equiv_skipped_limits", 1)
			return
		}
		errs = append(errs, res.errs[0])
		cur = nxt
	}
	r.Add("batch_equiv_checked", 1)
	same := sameContent(cur, out.post)
	for i := range errs {
		if (errs[i] == nil) != (out.res.errs[i] == nil) {
			same = false
		}
	}
	if !same {
		out.f.add("batch-vs-singles", "batch gave errs=%v, %s; the same singles gave errs=%v, %s", out.res.errs, out.post.describe(), errs, cur.describe())
	}
}

// ---------------------------------------------------------------------------------------------
// violations: per oracle the smallest failing history (phase, length, lexicographic in op ids)

type Case struct {
	History   []string `json:"history"`
	Oracle    string   `json:"oracle"`
	Signature string   `json:"signature"`
	Limits    *limits  `json:"limits,omitempty"` // truncation stage: the limits of the pool (absent: the default limits)
}

type found struct {
	rank   []int
	c      Case
	detail string
}

var (
	fmu       sync.Mutex
	best      = map[string]*found{} // per signature
	violCount int64                 // violations whose signature is not listed as known
)

// rank: shorter first, then fewer operations outside the reduced alphabet, then lexicographic in op ids
func rankOf(hist []uint16) []int {
	rank := make([]int, 0, len(hist)+1)
	nr := 0
	for _, h := range hist {
		if !ops[h].reduced {
			nr++
		}
	}
	rank = append(rank, nr)
	for _, h := range hist {
		rank = append(rank, int(h))
	}
	return rank
}

func lessRank(a, b []int) bool {
	if len(a) != len(b) {
		return len(a) < len(b)
	}
	for i := range a {
		if a[i] != b[i] {
			return a[i] < b[i]
		}
	}
	return false
}

func histNames(hist []uint16) []string {
	out := make([]string, len(hist))
	for i, h := range hist {
		out[i] = ops[h].name
	}
	return out
}

func sigOf(cls, oracle string) string { return "C17|" + cls + "|oracle=" + oracle }

// recordViolation keeps, per signature, the smallest failing history.
func recordViolation(cls string, hist []uint16, f finding) {
	recordViolationAt(cls, hist, f, nil, rankOf(hist))
}

// recordViolationAt: lim != nil for cases of the truncation stage (pool built with other limits).
func recordViolationAt(cls string, hist []uint16, f finding, lim *limits, rank []int) {
	sig := sigOf(cls, f.oracle)
	if !r.IsKnown(sig) {
		atomic.AddInt64(&violCount, 1)
	}
	fmu.Lock()
	if b := best[sig]; b == nil || lessRank(rank, b.rank) {
		best[sig] = &found{rank: rank, c: Case{History: histNames(hist), Oracle: f.oracle, Signature: sig, Limits: lim}, detail: f.detail}
	}
	fmu.Unlock()
}

// replayCase re-executes a stored case with the oracle after every operation and returns the
// signatures of everything that fails at the first failing operation.
func replayCase(c Case) (sigs map[string]string, err error) {
	var hist []uint16
	for _, n := range c.History {
		o := opByName[n]
		if o == nil {
			return nil, fmt.Errorf("unknown operation %q", n)
		}
		hist = append(hist, uint16(o.id))
	}
	if len(hist) == 0 {
		return nil, fmt.Errorf("empty history")
	}
	var st transStats
	x := getCtx()
	defer putCtx(x)
	prefix := ""
	if c.Limits != nil {
		x.lim = *c.Limits
		prefix = truncStagePrefix
	}
	out := runCase(x, hist[:len(hist)-1], ops[hist[len(hist)-1]], true, &st)
	sigs = map[string]string{}
	for _, f := range out.f {
		sigs[sigOf(prefix+out.cls, f.oracle)] = fmt.Sprintf("after %d of %d operations: %s", out.failAt+1, len(hist), f.detail)
	}
	return sigs, nil
}

func flush() {
	fmu.Lock()
	var ks []string
	for k := range best {
		ks = append(ks, k)
	}
	fmu.Unlock()
	sort.Strings(ks)
	for _, k := range ks {
		f := best[k]
		c := f.c
		sig := c.Signature
		r.ViolationConfirmed(sig, f.detail, c, func() string {
			// the pool's own map-order nondeterminism may hide a genuine violation in some
			// executions: it counts as reproduced when it shows within 40 attempts
			for try := 0; try < 40; try++ {
				sigs, err := replayCase(c)
				if err != nil {
					return "replay error: " + err.Error()
				}
				if _, ok := sigs[sig]; ok {
					return sig
				}
			}
			return ""
		})
	}
}

// ---------------------------------------------------------------------------------------------
// breadth-first search

type node struct {
	hist []uint16
	key  string
	red  bool // reachable by a history over the reduced alphabet only
}

type cand struct {
	key  string
	hist []uint16 // nil when the state will not be expanded (only counted)
	red  bool
}

const nShards = 64

type candShard struct {
	mu sync.Mutex
	m  map[khash]*cand
}

var (
	visited     map[khash]struct{}     // states of the running search: 128-bit hashes of the state keys (written between levels only)
	visitedRed  map[khash]struct{}     // ... of those, the ones reached by a reduced-alphabet history
	allStates   = map[khash]struct{}{} // union over the searches
	opCount     []int64                // executions per operation (last position of a case)
	tokAccepted []int64
	tokRejected []int64
	gstats      transStats
	gstatsMu    sync.Mutex
	sampleCount int64
	asyncNew    sync.Map // states only reached by coalesced rounds (leaves)
)

type khash [2]uint64

var seedA, seedB = maphash.MakeSeed(), maphash.MakeSeed()

func hashKey(k string) khash { return khash{maphash.String(seedA, k), maphash.String(seedB, k)} }

func shardOf(h khash) int { return int(h[0] % nShards) }

func lessHist(a, b []uint16) bool {
	for i := range a {
		if a[i] != b[i] {
			return a[i] < b[i]
		}
	}
	return false
}

func mergeStats(s *transStats) {
	gstatsMu.Lock()
	g := &gstats
	g.replAccepted += s.replAccepted
	g.replRejected += s.replRejected
	g.evictions += s.evictions
	g.poolFull += s.poolFull
	g.localOverCap += s.localOverCap
	g.dropMined += s.dropMined
	g.dropFunds += s.dropFunds
	g.dropGas += s.dropGas
	g.dropPrice += s.dropPrice
	g.demotions += s.demotions
	g.journalNonEmpty += s.journalNonEmpty
	g.exactSetChecks += s.exactSetChecks
	g.asyncMulti += s.asyncMulti
	g.asyncResetDrop += s.asyncResetDrop
	gstatsMu.Unlock()
}

// expand executes every enabled operation of the alphabet from every node of the frontier.
// full: use the full alphabet on every node; otherwise the reduced alphabet on reduced-reachable nodes.
//
// keep: 0 = every new state becomes a node of the next frontier, 1 = only reduced-reachable ones
// (the next level uses the reduced alphabet), 2 = none (last level; new states are only counted).
// Among several histories reaching a new state the stored one is: a reduced-alphabet history before
// any other, then the lexicographically smallest in operation ids (independent of goroutine timing).
//
// A state already visited by a history outside the reduced alphabet is visited AGAIN (and becomes a
// node) when a reduced-alphabet history reaches it, so that the levels over the reduced alphabet are
// a complete breadth-first search over that alphabet on their own.
//
// wide: the frontier is expanded with the full alphabet a second time after the reduced levels went
// on from it; the reduced operations of its reduced-reachable nodes were executed then and are skipped.
func expand(frontier []node, full bool, keep int, async int, wide bool, label string) (next []node, newStates int, done bool) {
	shards := make([]candShard, nShards)
	for i := range shards {
		shards[i].m = map[khash]*cand{}
	}
	var todo int64
	for _, nd := range frontier {
		if full || nd.red {
			todo++
		}
	}
	var nodesDone int64
	par.For(int64(len(frontier)), 1, r.Expired, func(i int64) {
		nd := frontier[i]
		if !full && !nd.red {
			atomic.AddInt64(&nodesDone, 1)
			return
		}
		cs := csAfter(nd.hist)
		x := getCtx()
		defer putCtx(x)
		var st transStats
		var trans, execs, nondet, changed int64
		for _, op := range ops {
			if op.trunc {
				continue
			}
			if op.kind == opAsync {
				// coalesced rounds are leaves: executed and judged from this node, not expanded further
				if async == 0 || (async == 1 && !nd.red) || !op.enabled(cs) {
					continue
				}
			} else if (!full && !op.reduced) || !op.enabled(cs) || (wide && nd.red && op.reduced) {
				continue
			}
			out := runCase(x, nd.hist, op, false, &st)
			trans++
			execs += out.opExecs
			atomic.AddInt64(&opCount[op.id], 1)
			h2 := append(append(make([]uint16, 0, len(nd.hist)+1), nd.hist...), uint16(op.id))
			if len(out.f) > 0 {
				unlisted := false
				for _, f := range out.f {
					recordViolation(out.cls, h2[:out.failAt+1], f)
					if !r.IsKnown(sigOf(out.cls, f.oracle)) {
						unlisted = true
					}
				}
				if unlisted {
					// a violating transition is a leaf: what follows a broken state would only repeat
					// the violation under other signatures (a known finding's successor is explored)
					continue
				}
			}
			if out.post == nil || len(out.res.errs) != len(op.toks) {
				continue
			}
			if out.preKey != nd.key {
				nondet++
			}
			for j, t := range op.toks {
				if out.res.errs[j] == nil {
					atomic.AddInt64(&tokAccepted[t.id], 1)
				} else {
					atomic.AddInt64(&tokRejected[t.id], 1)
				}
			}
			if out.key == out.preKey {
				continue
			}
			changed++
			if len(h2) >= 3 && atomic.LoadInt64(&sampleCount) < 6 && (op.id*7+len(h2)+int(i))%97 == 0 && r.WantSample() {
				atomic.AddInt64(&sampleCount, 1)
				errs := []string{}
				for _, e := range out.res.errs {
					errs = append(errs, fmt.Sprint(e))
				}
				r.Sample(map[string]interface{}{"history": histNames(h2), "errors_of_last_op": errs, "before": out.pre.describe(), "after": out.post.describe()})
			}
			kh := hashKey(out.key)
			red := nd.red && op.reduced && op.kind != opAsync
			if _, ok := visited[kh]; ok {
				if _, okr := visitedRed[kh]; okr || !red {
					continue
				}
			}
			if op.kind == opAsync {
				asyncNew.Store(kh, struct{}{})
				continue
			}
			store := keep == 0 || (keep == 1 && red)
			sh := &shards[shardOf(kh)]
			sh.mu.Lock()
			c := sh.m[kh]
			if c == nil {
				c = &cand{}
				sh.m[kh] = c
			}
			if store && (c.hist == nil || (red && !c.red) || (red == c.red && lessHist(h2, c.hist))) {
				c.hist, c.key = h2, out.key
			}
			c.red = c.red || red
			sh.mu.Unlock()
		}
		mergeStats(&st)
		r.Add("transitions", trans)
		r.Add("traces_validated_against_impl", trans)
		r.Add("op_executions", execs)
		r.Add("nondeterministic_successors", nondet)
		r.Add("state_changing_transitions", changed)
		atomic.AddInt64(&nodesDone, 1)
	})
	for i := range shards {
		for kh, c := range shards[i].m {
			if _, seen := visited[kh]; !seen {
				newStates++
			}
			visited[kh] = struct{}{}
			allStates[kh] = struct{}{}
			if c.red {
				visitedRed[kh] = struct{}{}
			}
			if c.hist != nil {
				next = append(next, node{hist: c.hist, key: c.key, red: c.red})
			}
		}
	}
	sort.Slice(next, func(a, b int) bool { return lessHist(next[a].hist, next[b].hist) })
	done = nodesDone == int64(len(frontier))
	if !done {
		r.NotExhaustive(fmt.Sprintf("deadline during %s after %d of %d frontier states", label, nodesDone, todo))
	}
	return
}

// search runs the levels. fullDepth levels use the full alphabet, the levels up to maxDepth the reduced one.
// asyncAll / asyncRed: up to which level coalesced rounds are executed from every expanded node /
// from the reduced-reachable nodes only. wide: after the reduced levels, the states of depth
// fullDepth are expanded once more with the full alphabet (level fullDepth+1 over the full alphabet;
// it is the broadest and most expensive level and therefore runs last, where a deadline cuts it).
func search(start []node, fullDepth, maxDepth, asyncAll, asyncRed int, wide bool, label string) (levels []string) {
	// every search has its own visited sets: a state met by another search at a greater depth must
	// still be expanded here
	visited = map[khash]struct{}{}
	visitedRed = map[khash]struct{}{}
	for _, nd := range start {
		visited[hashKey(nd.key)] = struct{}{}
		visitedRed[hashKey(nd.key)] = struct{}{}
		allStates[hashKey(nd.key)] = struct{}{}
	}
	runLevel := func(d int, frontier []node, full bool, keep, async int, wideRun bool) (next []node, ok bool) {
		t0 := time.Now()
		before := atomic.LoadInt64(&violCount)
		tr0 := r.Get("transitions")
		alpha := "reduced"
		if full {
			alpha = "full"
		}
		if wideRun {
			alpha = "full, second pass over the states of the previous depth"
		}
		next, newStates, done := expand(frontier, full, keep, async, wideRun, fmt.Sprintf("%s level %d (%s alphabet)", label, d, alpha))
		expanded := 0
		for _, nd := range frontier {
			if full || nd.red {
				expanded++
			}
		}
		levels = append(levels, fmt.Sprintf("level %d (%s alphabet): %d states expanded, %d transitions, %d new states, %.1fs, complete=%v",
			d, alpha, expanded, r.Get("transitions")-tr0, newStates, time.Since(t0).Seconds(), done))
		fmt.Fprintln(os.Stderr, label, levels[len(levels)-1])
		if !done {
			return next, false
		}
		if atomic.LoadInt64(&violCount) > before {
			r.NotExhaustive(fmt.Sprintf("%s stopped after level %d (%s alphabet) because it found violations that are not listed as known (longer histories would repeat them)", label, d, alpha))
			return next, false
		}
		return next, true
	}
	frontier := start
	var wideFrontier []node
	stopped := false
	for d := 1; d <= maxDepth && len(frontier) > 0; d++ {
		if r.Expired() {
			r.NotExhaustive(fmt.Sprintf("deadline before %s level %d", label, d))
			stopped = true
			break
		}
		full := d <= fullDepth
		keep := 0
		switch {
		case d == maxDepth:
			keep = 2
		case d >= fullDepth:
			keep = 1
			if wide && d == fullDepth {
				keep = 0 // the full-alphabet pass needs every state of this depth
			}
		}
		if wide && d == fullDepth+1 {
			wideFrontier = frontier
		}
		async := 0
		switch {
		case d <= asyncAll:
			async = 2
		case d <= asyncRed:
			async = 1
		}
		next, ok := runLevel(d, frontier, full, keep, async, false)
		if !ok {
			stopped = true
			break
		}
		r.Max("depth_completed_"+label, int64(d))
		frontier = next
	}
	if wide && !stopped && wideFrontier != nil {
		if r.Expired() {
			r.NotExhaustive(fmt.Sprintf("deadline before the full-alphabet pass of %s level %d", label, fullDepth+1))
		} else if _, ok := runLevel(fullDepth+1, wideFrontier, true, 2, 0, true); ok {
			r.Max("depth_completed_full_alphabet_"+label, int64(fullDepth+1))
		}
	}
	return
}

// seeds: histories that put the pool at its limits (6 transactions = GlobalSlots + GlobalQueue, the
// pool-full branch of add), from which the search continues.
var seedHistories = [][]string{
	{"R[A0p1,A1p1]", "R[B0p1,B1p1]", "R[A3p1,B3p1]"},
	{"R[A0p100,A1p100]", "R[B0p1,B1p1]", "R[A3p1,B3p100]"},
	{"L[L0p1,L1p1]", "L[L2p1,L3p1]", "R[A0p1,A1p1]"},
	{"R[A1p1,A2p1]", "R[B1p100,B2p100]", "L[L0p1,L1p1]", "R(A0p2)"},
	{"R[A0p1,A1p1]", "R[B0p100,B1p100]", "L(L1p1)", "L(L2p100)"},
	{"R[A0p100,A1p100]", "R[B0p100,B1p100]", "L[L0p1,L1p1]"},
}

func seedNodes() []node {
	var out []node
	for _, names := range seedHistories {
		var hist []uint16
		for _, n := range names {
			o := opByName[n]
			if o == nil {
				panic("seed: unknown op " + n)
			}
			hist = append(hist, uint16(o.id))
		}
		var st transStats
		x := getCtx()
		c := runCase(x, hist[:len(hist)-1], ops[hist[len(hist)-1]], true, &st)
		putCtx(x)
		mergeStats(&st)
		r.Add("transitions", int64(len(hist)))
		r.Add("traces_validated_against_impl", int64(len(hist)))
		r.Add("op_executions", c.opExecs)
		if len(c.f) > 0 {
			for _, f := range c.f {
				recordViolation(c.cls, hist[:c.failAt+1], f)
			}
		}
		if c.post == nil || c.failAt != len(hist)-1 {
			continue
		}
		out = append(out, node{hist: hist, key: c.key, red: true})
	}
	return out
}

// ---------------------------------------------------------------------------------------------

func main() {
	r = report.New("C17", "model_checking")
	log.Root().SetHandler(log.DiscardHandler())
	// pools are tiny and short-lived: collect by heap size, not by growth ratio
	debug.SetGCPercent(800)
	debug.SetMemoryLimit(2500 << 20)
	initUniverse()
	initOps()
	initAsyncOps()
	initTruncOps()
	opCount = make([]int64, len(ops))
	tokAccepted = make([]int64, len(tokens))
	tokRejected = make([]int64, len(tokens))

	if r.ReplayPath != "" {
		replay()
		return
	}
	if pf := os.Getenv("VERIF_C17_PROFILE"); pf != "" {
		if f, err := os.Create(pf); err == nil {
			pprof.StartCPUProfile(f)
			stopProfile = pprof.StopCPUProfile
		}
	}
	fullDepth, maxDepth, seedDepth, wide := 3, 4, 3, false
	asyncAll, asyncRed, asyncSeed := 2, 2, 1 // coalesced rounds from every state of depth <= 1 (seeded: from the seeds)
	if r.Quick() {
		r.SetDeadline(48 * time.Second)
	} else {
		// full alphabet to depth 3, reduced alphabet to depth 6, then the full alphabet on every state
		// of depth 3 (= all histories of length 4 over the full alphabet), deadline-capped
		fullDepth, maxDepth, seedDepth, wide = 3, 6, 4, true
		asyncAll, asyncRed, asyncSeed = 2, 3, 2
		r.SetDeadline(13 * time.Minute)
	}
	if md := os.Getenv("VERIF_C17_MAXDEPTH"); md != "" { // development aid
		fmt.Sscan(md, &maxDepth)
		if fullDepth > maxDepth {
			fullDepth = maxDepth
		}
	}
	if os.Getenv("VERIF_C17_NOWIDE") != "" { // development aid
		wide = false
	}
	r.Exhaustive(true)

	// initial state
	w := newWorld(getCtx())
	o0 := w.observe()
	var f0 findings
	checkState(o0, w.queryIndex(o0, nil), true, &f0)
	w.close()
	for _, f := range f0 {
		r.Violation(sigOf("op=none", f.oracle), f.detail, Case{Oracle: f.oracle, Signature: sigOf("op=none", f.oracle)})
	}
	k0 := o0.key(keyBeats)

	// the seeded search comes first: it is small and reaches the pool-full branch; then the main search
	seeds := seedNodes()
	truncLevels := 2
	if r.Thorough() {
		truncLevels = 3
	}
	r.Set("levels_truncation_stage", truncStage(truncLevels, r.Thorough()))
	seedLevels := search(seeds, 0, seedDepth, asyncSeed, asyncSeed, false, "seeded")
	mainLevels := search([]node{{hist: nil, key: k0, red: true}}, fullDepth, maxDepth, asyncAll, asyncRed, wide, "main")
	asyncNew.Range(func(k, _ interface{}) bool { allStates[k.(khash)] = struct{}{}; return true })
	r.Set("levels_main", mainLevels)
	r.Set("levels_seeded", seedLevels)
	r.Set("states", len(allStates))

	stopProfile()
	flush()
	guards(fullDepth)
	truncGuards()

	nFull, nRed := 0, 0
	for _, o := range ops {
		if o.kind == opAsync || o.trunc {
			continue
		}
		nFull++
		if o.reduced {
			nRed++
		}
	}
	r.Set("alphabet_full", nFull)
	r.Set("alphabet_reduced", nRed)
	r.Set("alphabet_coalesced_rounds", len(asyncOps))
	truncVariantText := ""
	if r.Thorough() {
		truncVariantText = ", also with L made local first"
	}
	wideText := ""
	if wide {
		wideText = fmt.Sprintf(", then (last, as far as the deadline allows) all histories of length %d over the full alphabet", fullDepth+1)
	}
	r.Set("rule", fmt.Sprintf("real tx_pool.TxPool with AccountSlots %d, GlobalSlots %d, AccountQueue %d, GlobalQueue %d, PriceBump %d, journal off except for the journal token; "+
		"3 senders with fixed keys (L submitted through AddLocal, A, B); tokens: nonce 0..3 x price {1,2,100} x {gas 30000, gas 60000 (fits the initial block gas limit 100000, not the lowered 50000)} plus value > balance, gas 200000 > block gas limit, "+
		"prices 105/110 (bump boundary), wrong chain id, >128 KiB data, gas below intrinsic; exact duplicates arise by repeating a token; "+
		"operations (%d in the full alphabet, %d in the reduced one; the pruning rule is written next to reducedAlphabet in universe.go): AddRemotesSync([t]), AddLocal(t), 2-element batches of both, head reset to a new state "+
		"(a sender's state nonce advanced to k, balance of a sender lowered to 100000, block gas limit lowered, unchanged state), SetGasPrice(1|2|100), journal save + stop + load into a new pool. "+
		"main: breadth-first over all histories of length <= %d over the full alphabet and of length <= %d over the reduced alphabet%s; "+
		"seeded: from %d histories that fill the pool to GlobalSlots+GlobalQueue (pool-full branch of add), all continuations of length <= %d over the reduced alphabet; "+
		"coalesced rounds (%d: ordered pairs of 10 sub-batches x {no head change, A mined to 1 requested after both, A's balance lowered requested between them}): with a reorg run in flight and blocked on the pool lock, the locked sections of two submissions (addTxsLocked) and optionally a reset request execute, the real scheduleReorgLoop merges them into one run; executed as a last operation from every main state of depth <= %d (reduced-reachable states up to depth %d) and every seeded state of depth <= %d. "+
		"truncation stage (trunc.go): pools with AccountSlots/GlobalSlots 1/3, 1/4, 2/5, 2/6 and queue limits that never bind; setup = ONE AddRemotesSync batch with the first l, a, b nonces of three remote senders for every (l,a,b) in {0..5}^3 (every combination of pending counts: unequal, equal, single and no offenders of truncatePending in one reorg run)%s, then every history of length <= %d over AddRemotesSync([t]) for every (sender, nonce 0..6) at price 1 (re-submission of every trimmed transaction, of kept ones, of the next nonces and of nonces behind a gap) and an unchanged head reset; "+
		"A state is its shortest history; successor = fresh pool + replay + one operation; states are merged by key = Content() per sender + local set + gas price + chain state + heartbeat order; "+
		"the oracle runs after every operation; transitions = operations judged on the real pool (replayed prefixes are counted under op_executions)",
		cfgAccountSlots, cfgGlobalSlots, cfgAccountQueue, cfgGlobalQueue, cfgPriceBump, nFull, nRed, fullDepth, maxDepth, wideText, len(seedHistories), seedDepth,
		len(asyncOps), asyncAll-1, asyncRed-1, asyncSeed-1, truncVariantText, truncLevels))
	r.Assume(
		"limits are read in the go-ethereum sense (DESIGN.md A.5) and only for the moment after a reorg run: SetGasPrice and rejected-before-the-lock submissions do not run one; the per-account queue cap is required only for non-local senders whose queue that run processed (senders of newly accepted transactions; after a head reset every sender, not counting transactions demoted from pending in that same run)",
		"'local sender' is what Locals() reports; the price heap / SetGasPrice oracle uses the pool's own per-transaction local flag (lookup index halves) because AddLocal of a pending replacement marks the transaction but not the sender",
		"a batch is required to equal the same singles only when neither execution evicted anything for a limit (one reorg run vs two legitimately truncate differently)",
		"an accepted transaction may disappear in the same operation only if a limit can bind (coarse upper bounds on pending / queue / slot totals); a rejected single submission (or a batch rejected entirely) must leave Content(), Locals() and GasPrice() unchanged - required of states in which a reorg run has nothing to truncate (SetGasPrice can leave the pool above a limit; the run a rejected submission requests then enforces it)",
		"the journal token must bring back exactly the transactions of the senders Locals() reported (the journal's stated purpose); the operator's SetGasPrice setting is re-applied by the harness after the restart",
		"head changes are monotone (nonces only advance, balance and gas limit only drop) so that the chain-state space is finite; no reorg with an old head (transaction re-injection from dropped blocks) is driven",
		"not owned: Go map iteration order inside the pool (victim choice in truncatePending among equal offenders, order of promotion and hence of heartbeats inside one reorg run). Invariants are checked on whatever outcome occurs; a replay that reaches another key than recorded is counted under nondeterministic_successors and explored as it is; the set of outcomes of such a transition is not exhausted",
		"merged states have equal futures up to caches that are transparent when the pool is correct (see obs.key); time.Now heartbeats are monotone because operations are sequential",
		"reference partition (partition-vs-reference): when no limit can bind and nothing disappeared, a sender with a newly placed transaction must offer exactly the maximal gap-free run of its pooled nonces from the state nonce, and a sender that submitted nothing keeps its lists; where a limit can bind only the invariants are required (which transactions a truncation removes is not modelled)",
		"a transition with a violation that is not listed as known is a leaf of the search (its successor state is not expanded)",
		"a coalesced round is judged at its end (state invariants, global limits, nothing appears unaccepted, local senders' transactions disappear only when replaced or invalidated by the new chain state); its intermediate states are not observed",
		"NOT covered: lifetime expiry (the eviction branch of the pool's timer loop cannot be reached without wall-clock waits); free-running goroutine interleavings under the race detector (only the coalescing interleavings above are driven, deterministically); re-injection of transactions from dropped blocks (reset with an old head). A panic on one of the pool's own goroutines would terminate the checker instead of becoming a violation",
	)
	r.Finish()
}

func guards(fullDepth int) {
	g := gstats
	r.Set("replacements_accepted", g.replAccepted)
	r.Set("replacements_rejected", g.replRejected)
	r.Set("limit_evictions_observed", g.evictions)
	r.Set("pool_full_submissions", g.poolFull)
	r.Set("local_sender_over_account_queue", g.localOverCap)
	r.Set("dropped_mined", g.dropMined)
	r.Set("dropped_unaffordable", g.dropFunds)
	r.Set("dropped_over_gas_limit", g.dropGas)
	r.Set("dropped_by_setgasprice", g.dropPrice)
	r.Set("demotions_pending_to_queue", g.demotions)
	r.Set("journal_reloads_with_locals", g.journalNonEmpty)
	r.Set("exact_content_checks", g.exactSetChecks)
	r.Set("coalesced_rounds_with_two_accepting_sections", g.asyncMulti)
	r.Set("coalesced_rounds_whose_reset_dropped", g.asyncResetDrop)
	if r.NumViolations() > 0 || r.Expired() {
		return // the search was cut short on purpose; vacuity is judged on complete runs
	}
	r.Require(len(allStates) > 1, "the pool never left its initial state")
	for _, o := range ops {
		r.Require(opCount[o.id] > 0, "operation "+o.name+" never executed")
	}
	classAcc, classRej := map[string]int64{}, map[string]int64{}
	for _, t := range tokens {
		classAcc[t.class] += tokAccepted[t.id]
		classRej[t.class] += tokRejected[t.id]
	}
	r.Set("accepted_by_class", classAcc)
	r.Set("rejected_by_class", classRej)
	for _, c := range []string{"plain", "biggas"} {
		r.Require(classAcc[c] > 0 && classRej[c] > 0, "token class "+c+" was never both accepted and rejected")
	}
	for _, c := range []string{"unaffordable", "overgas", "wrongchain", "oversized", "lowgas"} {
		r.Require(classRej[c] > 0, "token class "+c+" was never rejected")
	}
	r.Require(g.replAccepted > 0 && g.replRejected > 0, "no replacement was both accepted and rejected")
	r.Require(g.evictions > 0, "no limit ever removed a transaction")
	r.Require(g.poolFull > 0, "no submission met a full pool")
	r.Require(g.localOverCap > 0, "no local sender ever exceeded the per-account queue cap (exemption untested)")
	r.Require(g.dropMined > 0 && g.dropFunds > 0 && g.dropGas > 0, "a head reset never dropped a mined / unaffordable / over-gas transaction")
	r.Require(g.dropPrice > 0, "SetGasPrice never dropped a transaction")
	r.Require(g.demotions > 0, "no pending transaction was ever demoted to the queue")
	r.Require(g.journalNonEmpty > 0, "the journal never carried a transaction")
	r.Require(r.Get("batch_equiv_checked") > 0, "batch-vs-singles was never checked")
	r.Require(g.asyncMulti > 0 && g.asyncResetDrop > 0, "no coalesced round merged two accepting sections / dropped something in its merged reset")
	r.Require(r.Get("machinery_errors") == 0, "the journal token failed for machinery reasons")
}

// ---------------------------------------------------------------------------------------------
// replay

func replay() {
	var c Case
	if err := r.LoadReplay(&c); err != nil {
		fmt.Println("MACHINERY-ERROR cannot load replay file:", err)
		r.Vacuous("replay file unreadable")
		r.Finish()
	}
	fmt.Printf("replaying history=%s (stored oracle: %s)\n", strings.Join(c.History, ";"), c.Oracle)
	// the pool's map-order nondeterminism can hide a violation in single executions: try a few times
	var seen map[string]string
	for try := 0; try < 40; try++ {
		sigs, err := replayCase(c)
		if err != nil {
			fmt.Println("MACHINERY-ERROR", err)
			r.Vacuous("replay case invalid")
			r.Finish()
		}
		if len(sigs) > 0 {
			seen = sigs
			if _, ok := sigs[c.Signature]; ok {
				break
			}
		}
	}
	if len(seen) == 0 {
		fmt.Println("observed: the property holds on this case (40 executions)")
	}
	for sig, d := range seen {
		fmt.Printf("observed: %s: %s\n", sig, d)
		r.Violation(sig, d, c)
	}
	r.Exhaustive(true)
	r.Finish()
}
