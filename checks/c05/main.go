// C05 — crash recovery: a restart at any point is consistent and never double-signs.
//
// Engine E4 (fault enumeration over a recorded write history): the REAL node stack (blockchain, staking
// contracts, tx pool, evidence pool, block operations, block executor, consensus state, real WAL) runs a
// workload on recording devices; for EVERY prefix of the totally ordered durable operations (DB
// puts/batches, WAL fsyncs) and each WAL-tail variant the device images are rebuilt, the node is booted
// on them exactly like a restart, and the restart is judged by oracles R1..R6 (DESIGN.md C05).
package main

import (
	"sync/atomic"
	"bytes"
	"crypto/ecdsa"
	"fmt"
	"math/big"
	"os"
	"sort"
	"strings"
	"sync"
	"time"

	"github.com/kardiachain/go-kardia/consensus"
	"github.com/kardiachain/go-kardia/kai/rawdb"
	"github.com/kardiachain/go-kardia/lib/common"
	"github.com/kardiachain/go-kardia/lib/crypto"
	"github.com/kardiachain/go-kardia/types"

	"verif/mc/par"
	"verif/mc/report"
)

var r *report.Run

var valKey, _ = crypto.HexToECDSA("8843ebcb1021b00ae9a644db6617f9c6d870e5fd53624cefe374c1d2d710fd06")
var userKey, _ = crypto.HexToECDSA("b71c71a67e1177ad4e901695e1b4b9ee17ae16c6668d313eac2f96dbcda3f291")
var userAddr = crypto.PubkeyToAddress(userKey.PublicKey)

type cut struct {
	idx       int
	walSynced []byte
	walTail   []byte
	height    uint64 // height the node was working on
}

type preRun struct {
	stopFrom  int // index of the first durable operation of the clean stop that ends the life
	mode, wl  string
	ops       []consensus.VerifOp
	start     int
	cuts      []cut
	signed    []consensus.VerifSignRecord
	published map[int]int    // signature index -> op index of the sync that published it
	endHeight map[uint64]int // height -> op index of the sync that made #ENDHEIGHT durable
	saveBlock map[uint64]int // height -> op index of the SaveBlock batch
	stateSave map[uint64]int // height -> op index of the consensus-state batch
	blocks    map[uint64]common.Hash
	blockIDs  map[uint64]types.BlockID
	txs       map[uint64][]common.Hash
	final     uint64
}

// workload: which transactions the environment offers before which height
func workloadTxs(wl string) map[uint64][]*types.Transaction {
	if wl == "W1" {
		return nil
	}
	out := map[uint64][]*types.Transaction{}
	mk := func(nonce uint64, to byte, val int64) *types.Transaction {
		tx := types.NewTransaction(nonce, common.BytesToAddress([]byte{0xee, to}), big.NewInt(val), 100000, big.NewInt(1), nil)
		stx, err := types.SignTx(types.HomesteadSigner{}, tx, userKey)
		if err != nil {
			panic(err)
		}
		return stx
	}
	out[2] = []*types.Transaction{mk(0, 1, 1000)}
	out[3] = []*types.Transaction{mk(1, 2, 2000), mk(2, 3, 3000)}
	return out
}

// offer hands the node every workload transaction scheduled for a height <= next that is still unused
// (the environment keeps re-offering pending transactions, as gossiping peers do).
func offer(n *consensus.VerifNode, wl string, next uint64) {
	sched := workloadTxs(wl)
	st, err := n.Full.BC.State()
	if err != nil {
		return
	}
	nonce := st.GetNonce(userAddr)
	var hs []uint64
	for h := range sched {
		hs = append(hs, h)
	}
	sort.Slice(hs, func(i, j int) bool { return hs[i] < hs[j] })
	for _, h := range hs {
		if h > next {
			continue
		}
		for _, tx := range sched[h] {
			if tx.Nonce() >= nonce {
				if err := n.Full.TxPool.AddLocal(tx); err != nil && os.Getenv("C05_DEBUG") != "" {
					fmt.Println("AddLocal:", err)
				}
			}
		}
	}
}

func tmpDir() string {
	base := "/dev/shm"
	if _, err := os.Stat(base); err != nil {
		base = os.TempDir()
	}
	if root := os.Getenv("VERIF_TMPROOT"); root != "" {
		base = root // removed as a whole by the supervisor after this process ended
	}
	d, err := os.MkdirTemp(base, "verif-c05-")
	if err != nil {
		panic(err)
	}
	return d
}

// removeDir removes a node directory at once only when no supervisor will remove the scratch root: a stopped
// WAL group's ticker goroutine may still look at its directory for a moment (it would panic on a missing one).
func removeDir(d string) {
	if os.Getenv("VERIF_TMPROOT") == "" {
		os.RemoveAll(d)
	}
}

func shortLabel(op *consensus.VerifOp) string {
	if op == nil {
		return "end"
	}
	if op.Dev == "db" {
		return "db:" + op.Label
	}
	last := "empty"
	if len(op.WalMsgs) > 0 {
		last = op.WalMsgs[len(op.WalMsgs)-1]
		if strings.HasPrefix(last, "#ENDHEIGHT") {
			last = "#ENDHEIGHT"
		}
	}
	return "wal:" + last
}

const targetHeight = 4

// sigMode: the snapshot-enabled variant of the keep mode shares its windows (same root causes); what differs shows
// as a window of its own, the replay case carries the exact mode.
// panicSite names the first go-kardia frame of a boot panic (the stack is part of the boot error).
func panicSite(e string) string {
	i := strings.Index(e, "panic(")
	if i < 0 {
		return ""
	}
	for _, l := range strings.Split(e[i:], "\n") {
		l = strings.TrimSpace(l)
		if strings.HasPrefix(l, "github.com/kardiachain/go-kardia/") && !strings.Contains(l, ".Verif") {
			if k := strings.LastIndex(l, "("); k > 0 {
				l = l[:k]
			}
			return " at " + strings.TrimPrefix(l, "github.com/kardiachain/go-kardia/")
		}
	}
	return ""
}

func sigMode(mode string) string { return strings.TrimSuffix(mode, "+snap") }

func record(mode, wl string) *preRun {
	pr := &preRun{mode: mode, wl: wl, published: map[int]int{}, endHeight: map[uint64]int{}, saveBlock: map[uint64]int{}, stateSave: map[uint64]int{},
		blocks: map[uint64]common.Hash{}, blockIDs: map[uint64]types.BlockID{}, txs: map[uint64][]common.Hash{}}
	rec := &consensus.VerifRecorder{}
	db := consensus.VerifNewRecDB(rec)
	dir := tmpDir()
	defer removeDir(dir)
	n, err := consensus.VerifBootFull(consensus.VerifFullConfig{Key: valKey, Funded: []common.Address{userAddr}, Archive: mode == "flush", Snapshot: strings.HasSuffix(mode, "+snap"), DB: db, WalDir: dir, Rec: rec})
	if err != nil {
		fmt.Println("MACHINERY-ERROR: the recorded run cannot boot:", err)
		os.Exit(2)
	}
	defer n.StopFull()
	pr.start = len(rec.Ops)
	var lastSynced []byte
	lastSynced = n.Full.WAL.FileWithTail()
	seenOps := pr.start
	rec.OnCut = func(idx int, op *consensus.VerifOp) {
		// update the synced image from sync ops that completed since the last cut
		for ; seenOps < idx; seenOps++ {
			if o := rec.Ops[seenOps]; o.Dev == "wal" && o.FileAfter != nil {
				lastSynced = o.FileAfter
			}
		}
		pr.cuts = append(pr.cuts, cut{idx: idx, walSynced: lastSynced, walTail: n.Full.WAL.FileWithTail(), height: n.CS.Height})
	}
	n.OnOwnLogged = func(nn *consensus.VerifNode, msg consensus.Message) {
		// the own message is about to enter the node's state: everything recorded so far is durable
		var kind string
		var h uint64
		var rd uint32
		var t int32
		var id types.BlockID
		switch m := msg.(type) {
		case *consensus.ProposalMessage:
			kind, h, rd, id = "proposal", m.Proposal.Height, m.Proposal.Round, m.Proposal.POLBlockID
		case *consensus.VoteMessage:
			kind, h, rd, t, id = "vote", m.Vote.Height, m.Vote.Round, int32(m.Vote.Type), m.Vote.BlockID
		default:
			return
		}
		for i := len(nn.Signed) - 1; i >= 0; i-- {
			sr := nn.Signed[i]
			if sr.Kind == kind && sr.Height == h && sr.Round == rd && (kind == "proposal" || sr.Type == t) && sr.BlockID.Equal(id) {
				if _, ok := pr.published[i]; !ok {
					pr.published[i] = len(rec.Ops)
				}
				break
			}
		}
	}
	n.Begin()
	ok := n.RunToHeight(targetHeight, 50, func(next uint64) { offer(n, wl, next) })
	if !ok || n.Failed != nil {
		fmt.Printf("MACHINERY-ERROR: the recorded run (%s/%s) did not reach height %d: failed=%v\n%s\n", mode, wl, targetHeight, n.Failed, n.FailStk)
		os.Exit(2)
	}
	// the life ends with a clean stop (Kardiachain.Stop: WAL flushed, snapshot journalled, cached states written):
	// its writes are durable operations like any other, a crash can fall between them, and the cut after the last
	// one is the "clean stop and restart" of an operator
	pr.stopFrom = len(rec.Ops)
	finalHeight := n.CS.Height
	walBeforeStop := n.Full.WAL.FileWithTail()
	rec.OnCut = func(idx int, op *consensus.VerifOp) {
		for ; seenOps < idx; seenOps++ {
			if o := rec.Ops[seenOps]; o.Dev == "wal" && o.FileAfter != nil {
				lastSynced = o.FileAfter
			}
		}
		pr.cuts = append(pr.cuts, cut{idx: idx, walSynced: lastSynced, walTail: walBeforeStop, height: finalHeight})
	}
	signedBefore := n.Signed
	stateBefore := n.State().LastBlockHeight
	n.CleanStop()
	rec.OnCut = nil
	// final cut: after everything
	for ; seenOps < len(rec.Ops); seenOps++ {
		if o := rec.Ops[seenOps]; o.Dev == "wal" && o.FileAfter != nil {
			lastSynced = o.FileAfter
		}
	}
	pr.cuts = append(pr.cuts, cut{idx: len(rec.Ops), walSynced: lastSynced, walTail: lastSynced, height: finalHeight})
	rec.Off = true
	pr.ops = rec.Ops
	pr.signed = signedBefore
	pr.final = stateBefore
	// index the history
	curH := uint64(0)
	for i := pr.start; i < len(pr.ops); i++ {
		op := pr.ops[i]
		if op.Dev == "wal" {
			if op.EndHeight > 0 {
				pr.endHeight[uint64(op.EndHeight)] = i
			}
			continue
		}
		switch op.Label {
		case "block":
			curH++
			pr.saveBlock[curH] = i
		case "cstate":
			pr.stateSave[curH] = i
		}
	}
	for h := uint64(1); h <= pr.final; h++ {
		b := rawdb.ReadBlock(db.Database, h)
		if b == nil {
			fmt.Println("MACHINERY-ERROR: recorded run lost block", h)
			os.Exit(2)
		}
		pr.blocks[h] = b.Hash()
		for _, tx := range b.Transactions() {
			pr.txs[h] = append(pr.txs[h], tx.Hash())
		}
	}
	for _, s := range n.Full.Saved {
		pr.blockIDs[s.Height] = s.BlockID
	}
	if wl == "W2" {
		total := 0
		for _, t := range pr.txs {
			total += len(t)
		}
		r.Require(total == 3, fmt.Sprintf("workload W2 committed %d of 3 transactions in the recorded run", total))
	}
	r.Require(len(pr.saveBlock) == targetHeight && len(pr.stateSave) == targetHeight && len(pr.endHeight) == targetHeight,
		fmt.Sprintf("history indexing: %d SaveBlock, %d state saves, %d end-height markers for %d heights", len(pr.saveBlock), len(pr.stateSave), len(pr.endHeight), targetHeight))
	return pr
}

type caseID struct {
	Mode   string `json:"mode"`
	WL     string `json:"workload"`
	Cut    int    `json:"cut_before_op"`
	Tail   string `json:"wal_tail"`
	TornAt int    `json:"torn_at,omitempty"`
	After  string `json:"after"`
	Before string `json:"before"`
	Height uint64 `json:"height_in_progress"`
	Env    string `json:"environment"`
}

// restart boots the node on the image of cut c / WAL variant and judges it. Returns (signature suffix -> description).
// facts is what was durable / public when the process died (accumulated over all earlier lives).
type facts struct {
	published   []consensus.VerifSignRecord // own signed messages already handed to the node's own state
	committed   map[uint64]types.BlockID    // heights whose block was saved and whose #ENDHEIGHT was durable
	savedBlocks map[uint64]common.Hash      // blocks saved before the crash
	maxState    uint64                      // highest height whose consensus-state save was durable
}

func factsAt(pr *preRun, c cut) *facts {
	f := &facts{committed: map[uint64]types.BlockID{}, savedBlocks: map[uint64]common.Hash{}}
	for i, s1 := range pr.signed {
		if pi, pub := pr.published[i]; pub && pi <= c.idx {
			f.published = append(f.published, s1)
		}
	}
	for h, i := range pr.saveBlock {
		if i < c.idx {
			f.savedBlocks[h] = pr.blocks[h]
		}
	}
	for h, i := range pr.stateSave {
		if i < c.idx && h > f.maxState {
			f.maxState = h
		}
	}
	for h, i := range pr.endHeight {
		if i < c.idx && pr.saveBlock[h] < c.idx {
			f.committed[h] = pr.blockIDs[h]
		}
	}
	return f
}

// life2 is the recording of a restarted node's own life (for second-level crashes).
type life2 struct {
	ops      []consensus.VerifOp
	cuts     []cut
	signed   []consensus.VerifSignRecord
	pubAt    map[int]int // signature index -> number of ops recorded when it was published
	savedAt  []int       // per n.Full.Saved entry: op count when SaveBlock was called
	saved    []consensus.VerifCommitRecord
	walStart []byte
}

// restart boots the node on the image (db = base ops, then extra ops) / WAL variant and judges it.
func restart(mode, wl string, dbOps [][]consensus.VerifOp, wal []byte, env string, f *facts, twin *preRun, record bool) (map[string]string, *life2) {
	out := map[string]string{}
	// "+rotated": the surviving WAL bytes lie in the rotated file wal.000 and the head file does not exist yet - what
	// the disk holds when the crash falls right after the group rotated its head (the new head appears with the next write)
	rotated := strings.HasSuffix(env, "+rotated")
	env = strings.TrimSuffix(env, "+rotated")
	// "+split-eh" / "+split-mid": the group rotated its head right after the last #ENDHEIGHT record / in the middle of the
	// unfinished height, and the node went on writing into the new head before the crash
	split := 0
	if strings.HasSuffix(env, "+split-eh") {
		env = strings.TrimSuffix(env, "+split-eh")
		split, _ = splitOffsets(wal)
	} else if strings.HasSuffix(env, "+split-mid") {
		env = strings.TrimSuffix(env, "+split-mid")
		_, split = splitOffsets(wal)
	}
	rec2 := &consensus.VerifRecorder{Off: !record}
	var all []consensus.VerifOp
	for _, seg := range dbOps {
		all = append(all, seg...)
	}
	db2 := consensus.VerifRestoreDB(all, len(all), rec2)
	dir := tmpDir()
	defer removeDir(dir)
	var l2 *life2
	var nptr *consensus.VerifNode
	if record {
		l2 = &life2{pubAt: map[int]int{}, walStart: wal}
		walPath := dir + "/cs.wal/wal"
		rec2.OnCut = func(idx int, op *consensus.VerifOp) {
			var synced, tail []byte
			if nptr != nil && nptr.Full != nil && nptr.Full.WAL != nil {
				synced = lastSyncedImage(rec2.Ops[:idx], wal)
				tail = nptr.Full.WAL.FileWithTail()
			} else {
				b, err := os.ReadFile(walPath)
				if err != nil {
					b = wal
				}
				synced, tail = b, b
			}
			h := uint64(0)
			if nptr != nil && nptr.CS != nil {
				h = nptr.CS.Height
			}
			l2.cuts = append(l2.cuts, cut{idx: idx, walSynced: synced, walTail: tail, height: h})
		}
	}
	n, err := consensus.VerifBootFull(consensus.VerifFullConfig{Key: valKey, Funded: []common.Address{userAddr}, Archive: mode == "flush", Snapshot: strings.HasSuffix(mode, "+snap"), DB: db2, WalDir: dir, WalImage: wal, WalRotated: rotated, WalSplit: split, Rec: rec2})
	if n != nil {
		defer n.StopFull()
	}
	nptr = n
	if err != nil {
		out["R1"] = "the node cannot be started on the surviving files without manual repair: " + firstLine(err.Error()) + panicSite(err.Error())
		return out, nil
	}
	if record {
		n.OnOwnLogged = func(nn *consensus.VerifNode, msg consensus.Message) {
			if i := matchSigned(nn.Signed, msg); i >= 0 {
				if _, ok := l2.pubAt[i]; !ok {
					l2.pubAt[i] = len(rec2.Ops)
				}
			}
		}
	}
	var maxSaved uint64
	for h := range f.savedBlocks {
		if h > maxSaved {
			maxSaved = h
		}
	}
	// R2: one chain prefix, a prefix of what had been committed
	head := n.Full.BC.CurrentBlock().Height()
	csH := n.State().LastBlockHeight
	if head != csH {
		out["R2:stores-disagree"] = fmt.Sprintf("after the restart the block store head is at height %d but the consensus state is at height %d", head, csH)
	}
	for h := uint64(1); h <= head && h <= maxSaved; h++ {
		b := n.Full.BC.GetBlockByHeight(h)
		if want, ok := f.savedBlocks[h]; ok && (b == nil || b.Hash() != want) {
			out["R2:block-replaced"] = fmt.Sprintf("block at height %d is not the block committed before the crash", h)
		}
	}
	if mode == "flush" && head < f.maxState {
		out["R2:committed-block-lost"] = fmt.Sprintf("state is flushed every block and the state of height %d had been saved, but the node restarts at height %d", f.maxState, head)
	}
	// R3: resumes
	startH := csH
	n.Begin()
	target := startH + 2
	first := true
	ok := n.RunToHeight(target, 60, func(next uint64) {
		if env == "pool-empty" && first {
			first = false
			return // the restarted node's pool is still empty when it works on its first height
		}
		offer(n, wl, next)
	})
	if n.Failed != nil {
		out["R3:halted"] = "after the restart the consensus handler panics (CONSENSUS FAILURE): " + firstLine(fmt.Sprint(n.Failed))
	} else if !ok {
		out["R3:no-progress"] = fmt.Sprintf("after the restart the node does not commit heights %d..%d", startH+1, target)
	}
	// R4: no signature conflicting with one published before the crash
	for _, s2 := range n.Signed {
		for _, s1 := range f.published {
			if s1.Kind == s2.Kind && s1.Type == s2.Type && s1.Height == s2.Height && s1.Round == s2.Round && !s1.BlockID.Equal(s2.BlockID) {
				k := "proposal"
				if s1.Kind == "vote" {
					k = fmt.Sprint("vote-type", s1.Type)
				}
				out["R4:conflicting-"+k] = fmt.Sprintf("after the restart the node signs a %s for height %d round %d that conflicts with the one it had published before the crash", k, s1.Height, s1.Round)
			}
		}
	}
	// R5: no committed height decided differently
	for _, s := range n.Full.Saved {
		if id, ok := f.committed[s.Height]; ok && !id.Equal(s.BlockID) {
			out["R5:recommit-different"] = fmt.Sprintf("height %d had been committed before the crash and is committed again with a different block", s.Height)
		}
	}
	// R6: flush-every-block mode loses no committed block and continues like the uncrashed twin. Which
	// block a transaction lands in depends on when the environment offers it, so the comparison is on
	// the concatenated transaction sequence of the chain: one must be a prefix of the other.
	if mode == "flush" && n.Failed == nil && ok && env == "reoffer" && twin != nil {
		var got, want []common.Hash
		for h := uint64(1); h <= n.State().LastBlockHeight; h++ {
			if b := n.Full.BC.GetBlockByHeight(h); b != nil {
				for _, tx := range b.Transactions() {
					got = append(got, tx.Hash())
				}
			}
		}
		for h := uint64(1); h <= twin.final; h++ {
			want = append(want, twin.txs[h]...)
		}
		m := len(got)
		if len(want) < m {
			m = len(want)
		}
		if fmt.Sprint(got[:m]) != fmt.Sprint(want[:m]) {
			out["R6:twin-differs"] = fmt.Sprintf("the restarted node's chain carries the transaction sequence %x, the twin that never crashed %x", got, want)
		}
	}
	if record {
		rec2.OnCut = nil
		l2.ops = rec2.Ops
		l2.signed = n.Signed
		l2.saved = n.Full.Saved
	}
	return out, l2
}

// lastSyncedImage is the WAL file content as of the last completed sync among ops (or the initial image).
func lastSyncedImage(ops []consensus.VerifOp, initial []byte) []byte {
	img := initial
	for _, o := range ops {
		if o.Dev == "wal" && o.FileAfter != nil {
			img = o.FileAfter
		}
	}
	return img
}

func matchSigned(signed []consensus.VerifSignRecord, msg consensus.Message) int {
	var kind string
	var h uint64
	var rd uint32
	var t int32
	var id types.BlockID
	switch m := msg.(type) {
	case *consensus.ProposalMessage:
		kind, h, rd, id = "proposal", m.Proposal.Height, m.Proposal.Round, m.Proposal.POLBlockID
	case *consensus.VoteMessage:
		kind, h, rd, t, id = "vote", m.Vote.Height, m.Vote.Round, int32(m.Vote.Type), m.Vote.BlockID
	default:
		return -1
	}
	for i := len(signed) - 1; i >= 0; i-- {
		sr := signed[i]
		if sr.Kind == kind && sr.Height == h && sr.Round == rd && (kind == "proposal" || sr.Type == t) && sr.BlockID.Equal(id) {
			return i
		}
	}
	return -1
}

// factsAfter extends f with what the second life had made durable / public before its cut c2.
func factsAfter(f *facts, l2 *life2, c2 cut) *facts {
	g := &facts{committed: map[uint64]types.BlockID{}, savedBlocks: map[uint64]common.Hash{}, maxState: f.maxState}
	g.published = append(g.published, f.published...)
	for h, v := range f.committed {
		g.committed[h] = v
	}
	for h, v := range f.savedBlocks {
		g.savedBlocks[h] = v
	}
	for i, s := range l2.signed {
		if at, ok := l2.pubAt[i]; ok && at <= c2.idx {
			g.published = append(g.published, s)
		}
	}
	// blocks saved / committed in the second life before c2: follow the durable operations
	var savedHeights []uint64
	si := 0
	for i := 0; i < c2.idx && i < len(l2.ops); i++ {
		op := l2.ops[i]
		if op.Dev == "db" && op.Label == "block" && si < len(l2.saved) {
			rec := l2.saved[si]
			si++
			// a block re-saved over a different pre-crash block is judged by R2/R5 of the FIRST restart; here
			// the second life's own saves become facts only when they do not contradict earlier ones
			if _, had := g.savedBlocks[rec.Height]; !had {
				g.savedBlocks[rec.Height] = rec.Block.Hash()
			}
			savedHeights = append(savedHeights, rec.Height)
		}
		if op.Dev == "wal" && op.EndHeight > 0 {
			h := uint64(op.EndHeight)
			for k, sh := range savedHeights {
				if sh == h {
					if _, had := g.committed[h]; !had {
						g.committed[h] = l2.saved[k].BlockID
					}
				}
			}
		}
		if op.Dev == "db" && op.Label == "cstate" && len(savedHeights) > 0 {
			if h := savedHeights[len(savedHeights)-1]; h > g.maxState {
				g.maxState = h
			}
		}
	}
	return g
}

func opAt(ops []consensus.VerifOp, i int) *consensus.VerifOp {
	if i < 0 || i >= len(ops) {
		return nil
	}
	return &ops[i]
}

func firstLine(s string) string {
	if i := strings.IndexByte(s, '\n'); i >= 0 {
		s = s[:i]
	}
	if len(s) > 200 {
		s = s[:200]
	}
	return s
}

// record boundaries of the WAL framing: crc(4) length(4) payload
var splitJobs int64

// splitOffsets: eh = the offset right after the last #ENDHEIGHT record of the image when further records follow it (else 0);
// mid = a record boundary in the middle of what follows (0 if fewer than two records follow).
func splitOffsets(img []byte) (eh, mid int) {
	bs := boundaries(img, 0)
	lo, last := 0, -1
	for i, hi := range bs {
		dec := consensus.NewWALDecoder(bytes.NewReader(img[lo:hi]))
		if m, err := dec.Decode(); err == nil && m != nil {
			if _, ok := m.Msg.(consensus.EndHeightMessage); ok {
				last = i
			}
		}
		lo = hi
	}
	if last < 0 || last == len(bs)-1 {
		return 0, 0
	}
	eh = bs[last]
	if rest := len(bs) - 1 - last; rest >= 2 {
		mid = bs[last+rest/2]
	}
	return
}

func boundaries(b []byte, from int) []int {
	var out []int
	i := from
	for i+8 <= len(b) {
		l := int(b[i+4])<<24 | int(b[i+5])<<16 | int(b[i+6])<<8 | int(b[i+7])
		if l < 0 || i+8+l > len(b) {
			break
		}
		i += 8 + l
		out = append(out, i)
	}
	return out
}

var _ = ecdsa.PrivateKey{}

func main() {
	report.Supervise("C05", "fault_enumeration", "R1:node-process-dies",
		"while lives are recorded / restarted nodes run: the process of a node in that situation ends (it does not come back without manual repair)")
	r = report.New("C05", "fault_enumeration")
	modes := []string{"flush", "keep", "keep+snap"}
	if v := os.Getenv("C05_MODES"); v != "" {
		modes = strings.Split(v, ",")
	}
	wls := []string{"W2"}
	if r.Thorough() {
		wls = []string{"W1", "W2"}
	}
	dl := 8 * time.Minute
	if r.Thorough() {
		dl = 25 * time.Minute
	}
	r.SetDeadline(dl)
	type job struct {
		pr   *preRun
		c    cut
		tail string
		wal  []byte
		torn int
		env  string
	}
	var jobs []job
	for _, mode := range modes {
		for _, wl := range wls {
			pr := record(mode, wl)
			fmt.Printf("recorded %s/%s: %d durable ops after boot (%d cuts), %d signatures\n", mode, wl, len(pr.ops)-pr.start, len(pr.cuts), len(pr.signed))
			if r.WantSample() {
				var labels []string
				for i := pr.start; i < len(pr.ops); i++ {
					labels = append(labels, shortLabel(&pr.ops[i]))
				}
				r.Sample(map[string]interface{}{"mode": mode, "workload": wl, "durable_operation_order": labels})
			}
			for _, c := range pr.cuts {
				jobs = append(jobs, job{pr, c, "synced", c.walSynced, 0, "reoffer"})
				jobs = append(jobs, job{pr, c, "synced", c.walSynced, 0, "pool-empty"})
				jobs = append(jobs, job{pr, c, "rotated", c.walSynced, 0, "reoffer+rotated"})
				jobs = append(jobs, job{pr, c, "rotated", c.walSynced, 0, "pool-empty+rotated"})
				if eh, mid := splitOffsets(c.walSynced); eh > 0 {
					jobs = append(jobs, job{pr, c, "split-after-endheight", c.walSynced, 0, "reoffer+split-eh"})
					atomic.AddInt64(&splitJobs, 1)
					if mid > eh {
						jobs = append(jobs, job{pr, c, "split-mid-height", c.walSynced, 0, "reoffer+split-mid"})
					}
				}
				if len(c.walTail) > len(c.walSynced) {
					jobs = append(jobs, job{pr, c, "whole", c.walTail, 0, "reoffer"})
					jobs = append(jobs, job{pr, c, "whole", c.walTail, 0, "pool-empty"})
					bs := boundaries(c.walTail, len(c.walSynced))
					// torn tails: at each inner record boundary, mid-header and mid-payload of the first unsynced record
					var torn []int
					for _, b := range bs {
						if b < len(c.walTail) {
							torn = append(torn, b)
						}
					}
					torn = append(torn, len(c.walSynced)+3, len(c.walSynced)+9)
					if !r.Thorough() && len(torn) > 2 {
						torn = torn[len(torn)-2:]
					}
					for _, t := range torn {
						if t > len(c.walSynced) && t < len(c.walTail) {
							jobs = append(jobs, job{pr, c, "torn", c.walTail[:t], t - len(c.walSynced), "reoffer"})
						}
					}
				}
			}
		}
	}
	if r.ReplayPath != "" {
		var cid caseID
		if err := r.LoadReplay(&cid); err != nil {
			fmt.Println("cannot load replay:", err)
			os.Exit(2)
		}
		bad := false
		// second-level cases: {mode, workload, first_cut, second_cut, tail}
		var l2c struct {
			Mode   string `json:"mode"`
			WL     string `json:"workload"`
			First  *int   `json:"first_cut"`
			Second *int   `json:"second_cut"`
			Tail   string `json:"tail"`
		}
		if err := r.LoadReplay(&l2c); err == nil && l2c.First != nil && l2c.Second != nil {
			for _, j := range jobs {
				if j.pr.mode != l2c.Mode || j.pr.wl != l2c.WL || j.c.idx-j.pr.start != *l2c.First || j.tail != "synced" || j.env != "reoffer" || j.torn != 0 {
					continue
				}
				fmt.Printf("replaying: mode=%s workload=%s first cut before durable op #%d, second cut before op #%d of the restarted node's life, wal tail=%s\n", l2c.Mode, l2c.WL, *l2c.First, *l2c.Second, l2c.Tail)
				f1 := factsAt(j.pr, j.c)
				res, l2 := restart(j.pr.mode, j.pr.wl, [][]consensus.VerifOp{j.pr.ops[:j.c.idx]}, j.wal, j.env, f1, j.pr, true)
				if len(res) != 0 || l2 == nil {
					fmt.Println("  the first-level restart is not clean on this tree:", res)
					bad = true
					break
				}
				for _, c2 := range l2.cuts {
					if c2.idx != *l2c.Second {
						continue
					}
					img := c2.walSynced
					if l2c.Tail == "whole" {
						img = c2.walTail
					}
					res2, _ := restart(j.pr.mode, j.pr.wl, [][]consensus.VerifOp{j.pr.ops[:j.c.idx], l2.ops[:c2.idx]}, img, "reoffer", factsAfter(f1, l2, c2), nil, false)
					for k, what := range res2 {
						fmt.Printf("  %s: %s\n", k, what)
						bad = true
					}
				}
				break
			}
			if bad {
				fmt.Printf("VIOLATION property=C05 replay=%s\n", r.ReplayPath)
				os.Exit(1)
			}
			fmt.Println("no oracle fails on this case")
			os.Exit(0)
		}
		for _, j := range jobs {
			if j.pr.mode == cid.Mode && j.pr.wl == cid.WL && j.c.idx-j.pr.start == cid.Cut && j.tail == cid.Tail && j.torn == cid.TornAt && j.env == cid.Env {
				fmt.Printf("replaying: mode=%s workload=%s cut before durable op #%d (%s | %s) wal tail=%s env=%s\n", cid.Mode, cid.WL, cid.Cut, cid.After, cid.Before, cid.Tail, cid.Env)
				res, _ := restart(j.pr.mode, j.pr.wl, [][]consensus.VerifOp{j.pr.ops[:j.c.idx]}, j.wal, j.env, factsAt(j.pr, j.c), j.pr, false)
				for k, what := range res {
					fmt.Printf("  %s: %s\n", k, what)
					bad = true
				}
			}
		}
		if bad {
			fmt.Printf("VIOLATION property=C05 replay=%s\n", r.ReplayPath)
			os.Exit(1)
		}
		fmt.Println("no oracle fails on this case")
		os.Exit(0)
	}
	var mu sync.Mutex
	windows := map[string]bool{}
	done := par.For(int64(len(jobs)), 1, r.Expired, func(i int64) {
		j := jobs[i]
		var after, before *consensus.VerifOp
		if j.c.idx > 0 {
			after = &j.pr.ops[j.c.idx-1]
		}
		if j.c.idx < len(j.pr.ops) {
			before = &j.pr.ops[j.c.idx]
		}
		hclass := ">1"
		if j.c.height <= 1 {
			hclass = "1"
		}
		la, lb := shortLabel(after), shortLabel(before)
		if j.c.idx == j.pr.start {
			la = "boot"
		}
		level2 := j.tail == "synced" && j.env == "reoffer"
		f1 := factsAt(j.pr, j.c)
		res, l2 := restart(j.pr.mode, j.pr.wl, [][]consensus.VerifOp{j.pr.ops[:j.c.idx]}, j.wal, j.env, f1, j.pr, level2)
		r.Add("evaluations", 1)
		if strings.Contains(j.env, "+split-") {
			r.Add("restarts_on_a_wal_rotated_inside_the_unfinished_height", 1)
		}
		if level2 && l2 != nil && len(res) == 0 {
			// second crash: every cut of the restarted node's own life (boot, WAL catch-up, two more heights)
			for _, c2 := range l2.cuts {
				imgs := map[string][]byte{"synced": c2.walSynced}
				if len(c2.walTail) > len(c2.walSynced) {
					imgs["whole"] = c2.walTail
				}
				for t2, img := range imgs {
					f2 := factsAfter(f1, l2, c2)
					res2, _ := restart(j.pr.mode, j.pr.wl, [][]consensus.VerifOp{j.pr.ops[:j.c.idx], l2.ops[:c2.idx]}, img, "reoffer", f2, nil, false)
					r.Add("evaluations", 1)
					r.Add("second_level_restarts", 1)
					r.Distinct("distinct_nontrivial", fmt.Sprintf("L2|%s|%s|%d|%d|%s", j.pr.mode, j.pr.wl, j.c.idx, c2.idx, t2))
					var a2, b2 *consensus.VerifOp
					if c2.idx > 0 {
						a2 = &l2.ops[c2.idx-1]
					}
					if c2.idx < len(l2.ops) {
						b2 = &l2.ops[c2.idx]
					}
					for k, what := range res2 {
						// a crash window is identified by the durable operations around the cut, in whichever life
						hc2 := ">1"
						if c2.height <= 1 {
							hc2 = "1"
						}
						la2 := shortLabel(a2)
						if c2.idx == 0 {
							la2 = "restart"
						}
						sig := fmt.Sprintf("C05|mode=%s|height=%s|after=%s|before=%s|oracle=%s", sigMode(j.pr.mode), hc2, la2, shortLabel(b2), k)
						r.Violation(sig, what+fmt.Sprintf(" [second crash; wal tail: %s]", t2), map[string]interface{}{"mode": j.pr.mode, "workload": j.pr.wl, "first_cut": j.c.idx - j.pr.start, "second_cut": c2.idx, "tail": t2})
					}
					if len(res2) == 0 {
						r.Add("clean_second_level_restarts", 1)
					}
				}
			}
		}
		mu.Lock()
		windows[fmt.Sprintf("%s|%s|%s|%s|%s", j.pr.mode, hclass, la, lb, j.tail)] = true
		mu.Unlock()
		r.Distinct("distinct_nontrivial", fmt.Sprintf("%s|%s|%d|%s|%d|%s", j.pr.mode, j.pr.wl, j.c.idx, j.tail, j.torn, j.env))
		cid := caseID{Mode: j.pr.mode, WL: j.pr.wl, Cut: j.c.idx - j.pr.start, Tail: j.tail, TornAt: j.torn, After: la, Before: lb, Height: j.c.height, Env: j.env}
		for k, what := range res {
			// the WAL tail variant and the environment are part of the replay case, not of the signature:
			// a crash window is identified by the durable operations around the cut
			sig := fmt.Sprintf("C05|mode=%s|height=%s|after=%s|before=%s|oracle=%s", sigMode(j.pr.mode), hclass, la, lb, k)
			r.Violation(sig, what+fmt.Sprintf(" [wal tail: %s, environment: %s]", j.tail, j.env), cid)
		}
		if len(res) == 0 {
			r.Add("clean_restarts", 1)
		}
	})
	if done < int64(len(jobs)) {
		r.NotExhaustive(fmt.Sprintf("deadline: %d of %d restarts executed", done, len(jobs)))
	} else {
		r.Exhaustive(true)
	}
	// R7 (write-ahead) on the REAL free-running node: real Start(), real receiveRoutine, real ticker.
	for _, mode := range modes {
		dir := tmpDir()
		rec := &consensus.VerifRecorder{}
		viol, reached, ownVotes, err := consensus.VerifFreeRun(consensus.VerifFullConfig{Key: valKey, Funded: []common.Address{userAddr}, Archive: mode == "flush",
			DB: consensus.VerifNewRecDB(rec), WalDir: dir, Rec: rec}, 3, 60*time.Second)
		removeDir(dir)
		r.Add("free_run_heights", int64(reached))
		r.Add("free_run_own_votes_checked", int64(ownVotes))
		if err != nil {
			r.Violation("C05|mode="+mode+"|free-run|oracle=R1", "the real free-running node does not start: "+firstLine(err.Error()), map[string]string{"mode": mode, "free_run": "yes"})
			continue
		}
		if reached < 3 {
			r.NotExhaustive(fmt.Sprintf("free-running node reached height %d of 3 before the 60 s guard", reached))
		}
		for _, v := range viol {
			r.Violation(fmt.Sprintf("C05|mode=%s|free-run|oracle=R7:write-ahead:vote-type%d", mode, v.Type),
				fmt.Sprintf("height %d round %d: %s", v.Height, v.Round, v.What), map[string]string{"mode": mode, "free_run": "yes"})
		}
	}
	r.Require(r.Get("free_run_own_votes_checked") >= 4, "the free-running pass observed fewer than 4 own votes")
	r.Set("crash_windows_covered", len(windows))
	r.Set("rule", "every prefix of the totally ordered durable operations (DB put/delete/batch, WAL fsync) of a 4-block single-validator run of the REAL node stack, "+
		"in both state-cache modes, x WAL tail variants {synced prefix, whole unsynced tail, tail torn at record boundaries / mid-header / mid-payload}; a case = one restart on one image; "+
		"distinct by (mode, workload, cut, tail variant); every case boots the real stack and runs it for two more heights")
	r.Assume("LevelDB batches are atomic and ordered (memorydb stands in); a crash is a process death: unsynced WAL bytes may or may not have reached the file",
		"the node is driven synchronously (handleTimeout/handleMsg with receiveRoutine's WAL discipline transcribed, OnStart's catch-up/repair loop transcribed); the real ticker and goroutines are not used",
		"the environment re-offers still-unused workload transactions after a restart (as gossiping peers would)",
		"second-level crashes: every cut of the restarted life (boot, WAL catch-up, two more heights) of every clean first-level restart with the synced WAL image")
	r.Require(r.Get("clean_restarts") > 0, "no restart was clean: the oracles cannot distinguish anything")
	r.Finish()
}
