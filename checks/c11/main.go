// C11 — signatures bind signer and full content of votes, proposals and transactions.
//
// Engine E3 (small-scope exhaustive enumeration): the full single-field mutation matrix of every
// signed message kind × keys × chain ids, every cross-kind reuse, every other signer, and the
// signature-shape product for 65-byte strings. See DESIGN.md section 4 / C11.
package main

import (
	"bytes"
	"crypto/ecdsa"
	"fmt"
	"math/big"
	"runtime/debug"
	"strings"
	"time"

	"github.com/btcsuite/btcd/btcec"
	"github.com/kardiachain/go-kardia/lib/common"
	"github.com/kardiachain/go-kardia/lib/crypto"
	"github.com/kardiachain/go-kardia/lib/rlp"
	kproto "github.com/kardiachain/go-kardia/proto/kardiachain/types"
	"github.com/kardiachain/go-kardia/types"

	"verif/mc/report"
)

var r *report.Run

var keyHex = []string{
	"b71c71a67e1177ad4e901695e1b4b9ee17ae16c6668d313eac2f96dbcda3f291",
	"8a1f9a8f95be41cd7ccb6168179afb4504aefe388d1e14474d32c45c72ce7b7a",
	"49a7b37aa6f6645917e7b807e9d1c00d4fa71f18343b0d4122a4d2df64dd6fee",
}
var keys []*ecdsa.PrivateKey
var addrs []common.Address
var chainIDs = []string{"kai", "", "0", "1", "kai ", "kai-2"}

func hashOf(b byte) common.Hash {
	var h common.Hash
	for i := range h {
		h[i] = b
	}
	return h
}

var baseTime = time.Date(2021, 3, 4, 5, 6, 7, 8, time.UTC)

func idA() types.BlockID {
	return types.BlockID{Hash: hashOf(0xaa), PartsHeader: types.PartSetHeader{Total: 3, Hash: hashOf(0xbb)}}
}

// safely runs f and reports whether it panicked.
func safely(f func()) (panicked bool, val interface{}) {
	defer func() {
		if p := recover(); p != nil {
			panicked, val = true, fmt.Sprintf("%v\n%s", p, debug.Stack())
		}
	}()
	f()
	return
}

// ---------------------------------------------------------------------------------------------
// votes

type voteMut struct {
	field, alt string
	apply      func(v *types.Vote)
}

func voteMutations() []voteMut {
	var ms []voteMut
	add := func(f, a string, fn func(v *types.Vote)) { ms = append(ms, voteMut{f, a, fn}) }
	for _, t := range []kproto.SignedMsgType{kproto.PrevoteType, kproto.PrecommitType, kproto.ProposalType, 0, 3} {
		t := t
		add("type", fmt.Sprint(int32(t)), func(v *types.Vote) { v.Type = t })
	}
	for _, d := range []struct {
		n string
		f func(h uint64) uint64
	}{{"0", func(uint64) uint64 { return 0 }}, {"-1", func(h uint64) uint64 { return h - 1 }}, {"+1", func(h uint64) uint64 { return h + 1 }},
		{"max", func(uint64) uint64 { return ^uint64(0) }}, {"maxint64", func(uint64) uint64 { return 1<<63 - 1 }}, {"+256", func(h uint64) uint64 { return h + 256 }}} {
		d := d
		add("height", d.n, func(v *types.Vote) { v.Height = d.f(v.Height) })
	}
	for _, d := range []struct {
		n string
		f func(h uint32) uint32
	}{{"0", func(uint32) uint32 { return 0 }}, {"-1", func(h uint32) uint32 { return h - 1 }}, {"+1", func(h uint32) uint32 { return h + 1 }},
		{"max", func(uint32) uint32 { return ^uint32(0) }}, {"+256", func(h uint32) uint32 { return h + 256 }}} {
		d := d
		add("round", d.n, func(v *types.Vote) { v.Round = d.f(v.Round) })
	}
	add("block.hash", "other", func(v *types.Vote) { v.BlockID.Hash = hashOf(0xcc) })
	add("block.hash", "bitflip-first", func(v *types.Vote) { v.BlockID.Hash[0] ^= 1 })
	add("block.hash", "bitflip-last", func(v *types.Vote) { v.BlockID.Hash[31] ^= 0x80 })
	add("block.hash", "swap-with-parts-hash", func(v *types.Vote) {
		v.BlockID.Hash, v.BlockID.PartsHeader.Hash = v.BlockID.PartsHeader.Hash, v.BlockID.Hash
	})
	add("block", "nil", func(v *types.Vote) { v.BlockID = types.BlockID{} })
	add("block", "A", func(v *types.Vote) { v.BlockID = idA() })
	add("block.hash", "zero", func(v *types.Vote) { v.BlockID.Hash = common.Hash{} })
	add("parts.total", "+1", func(v *types.Vote) { v.BlockID.PartsHeader.Total++ })
	add("parts.total", "-1", func(v *types.Vote) { v.BlockID.PartsHeader.Total-- })
	add("parts.total", "0", func(v *types.Vote) { v.BlockID.PartsHeader.Total = 0 })
	add("parts.total", "max", func(v *types.Vote) { v.BlockID.PartsHeader.Total = ^uint32(0) })
	add("parts.hash", "other", func(v *types.Vote) { v.BlockID.PartsHeader.Hash = hashOf(0xdd) })
	add("parts.hash", "zero", func(v *types.Vote) { v.BlockID.PartsHeader.Hash = common.Hash{} })
	add("parts.hash", "bitflip", func(v *types.Vote) { v.BlockID.PartsHeader.Hash[15] ^= 4 })
	add("timestamp", "+1ns", func(v *types.Vote) { v.Timestamp = v.Timestamp.Add(1) })
	add("timestamp", "-1ns", func(v *types.Vote) { v.Timestamp = v.Timestamp.Add(-1) })
	add("timestamp", "+1s", func(v *types.Vote) { v.Timestamp = v.Timestamp.Add(time.Second) })
	add("timestamp", "zero", func(v *types.Vote) { v.Timestamp = time.Time{} })
	add("timestamp", "unix0", func(v *types.Vote) { v.Timestamp = time.Unix(0, 0).UTC() })
	return ms
}

// voteContent is the checker's own notion of what a vote says (everything the property lists).
func voteContent(chain string, v *types.Vote) string {
	return fmt.Sprintf("%q|%d|%d|%d|%x|%d|%x|%d", chain, v.Type, v.Height, v.Round, v.BlockID.Hash[:], v.BlockID.PartsHeader.Total,
		v.BlockID.PartsHeader.Hash[:], v.Timestamp.UnixNano())
}

func signVote(k int, chain string, v *types.Vote) {
	pv := types.NewDefaultPrivValidator(keys[k])
	p := v.ToProto()
	if err := pv.SignVote(chain, p); err != nil {
		panic(err)
	}
	v.Signature = p.Signature
}

func baseVote(k int, t kproto.SignedMsgType, nilBlock bool) *types.Vote {
	v := &types.Vote{Type: t, Height: 5, Round: 2, Timestamp: baseTime, ValidatorAddress: addrs[k], ValidatorIndex: uint32(k)}
	if !nilBlock {
		v.BlockID = idA()
	}
	return v
}

func typeName(t kproto.SignedMsgType) string {
	switch t {
	case kproto.PrevoteType:
		return "prevote"
	case kproto.PrecommitType:
		return "precommit"
	}
	return fmt.Sprint(int32(t))
}

func checkVotes() {
	muts := voteMutations()
	for k := range keys {
		for _, chain := range chainIDs[:3] {
			for _, t := range []kproto.SignedMsgType{kproto.PrevoteType, kproto.PrecommitType} {
				for _, nilBlock := range []bool{false, true} {
					base := baseVote(k, t, nilBlock)
					signVote(k, chain, base)
					kind := "vote-" + typeName(t)
					if nilBlock {
						kind += "-nil"
					}
					// sign-then-verify returns the signer
					r.Add("evaluations", 1)
					if err := base.Verify(chain, addrs[k]); err != nil {
						r.Violation("C11|kind="+kind+"|oracle=sign-then-verify", "a freshly signed vote does not verify for its signer: "+err.Error(),
							map[string]interface{}{"kind": kind, "key": k, "chain": chain})
					}
					// other signer
					for o := range keys {
						if o == k {
							continue
						}
						r.Add("evaluations", 1)
						r.Distinct("distinct_nontrivial", kind+"|signer|other")
						if base.Verify(chain, addrs[o]) == nil {
							r.Violation("C11|kind="+kind+"|field=signer|alt=other|oracle=mutation-accepted", "vote verifies under another validator's address",
								map[string]interface{}{"kind": kind, "key": k, "other": o, "chain": chain})
						}
						c := base.Copy()
						c.ValidatorAddress = addrs[o]
						if c.Verify(chain, addrs[o]) == nil {
							r.Violation("C11|kind="+kind+"|field=validator-address|alt=other|oracle=mutation-accepted", "vote re-labelled with another validator's address verifies for it",
								map[string]interface{}{"kind": kind, "key": k, "other": o, "chain": chain})
						}
					}
					// chain id
					for _, oc := range chainIDs {
						if oc == chain {
							continue
						}
						r.Add("evaluations", 1)
						r.Distinct("distinct_nontrivial", kind+"|chain|"+oc)
						if base.Verify(oc, addrs[k]) == nil {
							r.Violation("C11|kind="+kind+"|field=chain-id|oracle=mutation-accepted", fmt.Sprintf("vote signed for chain %q verifies on chain %q", chain, oc),
								map[string]interface{}{"kind": kind, "key": k, "chain": chain, "other_chain": oc})
						}
					}
					// field mutations
					for _, m := range muts {
						c := base.Copy()
						c.Signature = append([]byte{}, base.Signature...)
						m.apply(c)
						if voteContent(chain, c) == voteContent(chain, base) {
							continue
						}
						r.Add("evaluations", 1)
						r.Distinct("distinct_nontrivial", kind+"|"+m.field+"|"+m.alt)
						var err error
						p, pv := safely(func() { err = c.Verify(chain, addrs[k]) })
						cs := map[string]interface{}{"kind": kind, "key": k, "chain": chain, "field": m.field, "alt": m.alt}
						if p {
							r.Violation("C11|kind=vote|field="+m.field+"|oracle=panic", fmt.Sprintf("Verify panics on mutated vote: %v", pv), cs)
						} else if err == nil {
							r.Violation("C11|kind=vote|field="+m.field+"|oracle=mutation-accepted",
								fmt.Sprintf("signature of a vote stays valid after changing its %s (e.g. %s: %s -> %s)", m.field, kind, m.field, m.alt), cs)
						}
						if r.WantSample() && k == 0 {
							r.Sample(cs)
						}
					}
				}
			}
		}
	}
}

// ---------------------------------------------------------------------------------------------
// proposals

func propContent(chain string, p *types.Proposal) string {
	return fmt.Sprintf("%q|%d|%d|%d|%x|%d|%x|%d", chain, p.Height, p.Round, p.POLRound, p.POLBlockID.Hash[:], p.POLBlockID.PartsHeader.Total,
		p.POLBlockID.PartsHeader.Hash[:], p.Timestamp.UnixNano())
}

func verifyProposal(chain string, p *types.Proposal, a common.Address) bool {
	return types.VerifySignature(a, crypto.Keccak256(types.ProposalSignBytes(chain, p.ToProto())), p.Signature)
}

type propMut struct {
	field, alt string
	apply      func(p *types.Proposal)
}

func checkProposals() {
	var muts []propMut
	add := func(f, a string, fn func(p *types.Proposal)) { muts = append(muts, propMut{f, a, fn}) }
	add("height", "0", func(p *types.Proposal) { p.Height = 0 })
	add("height", "-1", func(p *types.Proposal) { p.Height-- })
	add("height", "+1", func(p *types.Proposal) { p.Height++ })
	add("height", "max", func(p *types.Proposal) { p.Height = ^uint64(0) })
	add("round", "0", func(p *types.Proposal) { p.Round = 0 })
	add("round", "-1", func(p *types.Proposal) { p.Round-- })
	add("round", "+1", func(p *types.Proposal) { p.Round++ })
	add("round", "max", func(p *types.Proposal) { p.Round = ^uint32(0) })
	add("round", "swap-with-pol", func(p *types.Proposal) { p.Round, p.POLRound = p.POLRound, p.Round })
	add("pol-round", "0", func(p *types.Proposal) { p.POLRound = 0 })
	add("pol-round", "+1", func(p *types.Proposal) { p.POLRound++ })
	add("pol-round", "-1", func(p *types.Proposal) { p.POLRound-- })
	add("pol-round", "max", func(p *types.Proposal) { p.POLRound = ^uint32(0) })
	add("block.hash", "other", func(p *types.Proposal) { p.POLBlockID.Hash = hashOf(0xcc) })
	add("block.hash", "bitflip", func(p *types.Proposal) { p.POLBlockID.Hash[7] ^= 2 })
	add("block", "nil", func(p *types.Proposal) { p.POLBlockID = types.BlockID{} })
	add("parts.total", "+1", func(p *types.Proposal) { p.POLBlockID.PartsHeader.Total++ })
	add("parts.total", "0", func(p *types.Proposal) { p.POLBlockID.PartsHeader.Total = 0 })
	add("parts.hash", "other", func(p *types.Proposal) { p.POLBlockID.PartsHeader.Hash = hashOf(0xdd) })
	add("parts.hash", "zero", func(p *types.Proposal) { p.POLBlockID.PartsHeader.Hash = common.Hash{} })
	add("timestamp", "+1ns", func(p *types.Proposal) { p.Timestamp = p.Timestamp.Add(1) })
	add("timestamp", "-1ns", func(p *types.Proposal) { p.Timestamp = p.Timestamp.Add(-1) })
	add("timestamp", "zero", func(p *types.Proposal) { p.Timestamp = time.Time{} })

	for k := range keys {
		for _, chain := range chainIDs[:3] {
			for _, pol := range []uint32{0, 1} {
				base := &types.Proposal{Height: 5, Round: 2, POLRound: pol, POLBlockID: idA(), Timestamp: baseTime}
				pp := base.ToProto()
				if err := types.NewDefaultPrivValidator(keys[k]).SignProposal(chain, pp); err != nil {
					panic(err)
				}
				base.Signature = pp.Signature
				kind := fmt.Sprintf("proposal-pol%d", pol)
				r.Add("evaluations", 1)
				if !verifyProposal(chain, base, addrs[k]) {
					r.Violation("C11|kind="+kind+"|oracle=sign-then-verify", "a freshly signed proposal does not verify for its signer", map[string]interface{}{"key": k, "chain": chain})
				}
				for o := range keys {
					if o != k {
						r.Add("evaluations", 1)
						r.Distinct("distinct_nontrivial", kind+"|signer|other")
						if verifyProposal(chain, base, addrs[o]) {
							r.Violation("C11|kind="+kind+"|field=signer|alt=other|oracle=mutation-accepted", "proposal verifies under another address", map[string]interface{}{"key": k, "other": o})
						}
					}
				}
				for _, oc := range chainIDs {
					if oc != chain {
						r.Add("evaluations", 1)
						r.Distinct("distinct_nontrivial", kind+"|chain|"+oc)
						if verifyProposal(oc, base, addrs[k]) {
							r.Violation("C11|kind="+kind+"|field=chain-id|oracle=mutation-accepted", fmt.Sprintf("proposal signed for chain %q verifies on %q", chain, oc), map[string]interface{}{"key": k})
						}
					}
				}
				for _, m := range muts {
					c := *base
					m.apply(&c)
					if propContent(chain, &c) == propContent(chain, base) {
						continue
					}
					r.Add("evaluations", 1)
					r.Distinct("distinct_nontrivial", kind+"|"+m.field+"|"+m.alt)
					var ok bool
					p, pv := safely(func() { ok = verifyProposal(chain, &c, addrs[k]) })
					cs := map[string]interface{}{"kind": kind, "key": k, "chain": chain, "field": m.field, "alt": m.alt}
					if p {
						r.Violation("C11|kind="+kind+"|field="+m.field+"|alt="+m.alt+"|oracle=panic", fmt.Sprintf("proposal verification panics: %v", pv), cs)
					} else if ok {
						r.Violation("C11|kind="+kind+"|field="+m.field+"|alt="+m.alt+"|oracle=mutation-accepted",
							fmt.Sprintf("signature of a proposal stays valid after changing %s to %s", m.field, m.alt), cs)
					}
				}
				// cross-kind reuse: the proposal signature on a vote with equal height/round/id/time, and vice versa
				for _, t := range []kproto.SignedMsgType{kproto.PrevoteType, kproto.PrecommitType, kproto.ProposalType} {
					v := &types.Vote{Type: t, Height: base.Height, Round: base.Round, BlockID: base.POLBlockID, Timestamp: base.Timestamp,
						ValidatorAddress: addrs[k], Signature: base.Signature}
					r.Add("evaluations", 1)
					r.Distinct("distinct_nontrivial", kind+"|as-vote|"+typeName(t))
					if v.Verify(chain, addrs[k]) == nil {
						r.Violation("C11|kind="+kind+"|field=message-kind|alt=vote-"+typeName(t)+"|oracle=mutation-accepted", "a proposal signature verifies as a vote", map[string]interface{}{"key": k, "chain": chain})
					}
					v2 := baseVote(k, t, false)
					if t == kproto.ProposalType {
						continue
					}
					signVote(k, chain, v2)
					for _, pr := range []uint32{0, 1, v2.Round} {
						p2 := &types.Proposal{Height: v2.Height, Round: v2.Round, POLRound: pr, POLBlockID: v2.BlockID, Timestamp: v2.Timestamp, Signature: v2.Signature}
						r.Add("evaluations", 1)
						r.Distinct("distinct_nontrivial", fmt.Sprintf("vote-%s|as-proposal|pol%d", typeName(t), pr))
						if verifyProposal(chain, p2, addrs[k]) {
							r.Violation("C11|kind=vote-"+typeName(t)+"|field=message-kind|alt=proposal|oracle=mutation-accepted", "a vote signature verifies as a proposal", map[string]interface{}{"key": k, "chain": chain})
						}
					}
				}
			}
		}
	}
}

// ---------------------------------------------------------------------------------------------
// transactions

type txFields struct {
	Nonce   uint64
	Price   *big.Int
	Gas     uint64
	To      *common.Address
	Amount  *big.Int
	Payload []byte
}

func (f txFields) mk() *types.Transaction {
	if f.To == nil {
		return types.NewContractCreation(f.Nonce, f.Amount, f.Gas, f.Price, f.Payload)
	}
	return types.NewTransaction(f.Nonce, *f.To, f.Amount, f.Gas, f.Price, f.Payload)
}

func (f txFields) String() string {
	to := "create"
	if f.To != nil {
		to = f.To.Hex()
	}
	return fmt.Sprintf("n=%d p=%v g=%d to=%s a=%v d=%x", f.Nonce, f.Price, f.Gas, to, f.Amount, f.Payload)
}

// rawTx encodes [nonce, price, gas, to, amount, payload, V, R, S] and decodes it as a transaction,
// i.e. the way a transaction arrives from the network.
func rawTx(f txFields, V, R, S *big.Int) (*types.Transaction, error) {
	var to []byte
	if f.To != nil {
		to = f.To.Bytes()
	}
	enc, err := rlp.EncodeToBytes([]interface{}{f.Nonce, f.Price, f.Gas, to, f.Amount, f.Payload, V, R, S})
	if err != nil {
		return nil, err
	}
	tx := new(types.Transaction)
	if err := rlp.DecodeBytes(enc, tx); err != nil {
		return nil, err
	}
	return tx, nil
}

var secpN = btcec.S256().N
var secpHalfN = new(big.Int).Rsh(btcec.S256().N, 1)

// refRecover is the checker's own recovery: btcec directly, with the validity rules of the property.
func refRecover(hash []byte, R, S *big.Int, recid int64) (common.Address, bool) {
	if R.Sign() <= 0 || S.Sign() <= 0 || R.Cmp(secpN) >= 0 || S.Cmp(secpN) >= 0 || S.Cmp(secpHalfN) > 0 || recid < 0 || recid > 1 {
		return common.Address{}, false
	}
	sig := make([]byte, 65)
	sig[0] = byte(27 + recid)
	rb, sb := R.Bytes(), S.Bytes()
	copy(sig[1+32-len(rb):33], rb)
	copy(sig[33+32-len(sb):65], sb)
	pub, _, err := btcec.RecoverCompact(btcec.S256(), sig, hash)
	if err != nil {
		return common.Address{}, false
	}
	return crypto.PubkeyToAddress(*pub.ToECDSA()), true
}

// senderTwice presents the same transaction object twice to the public API (types.Sender caches the sender
// in the object): both presentations must give the same answer as the signer's own recovery.
func senderTwice(sg types.Signer, tx *types.Transaction) (common.Address, error, string) {
	a0, e0 := sg.Sender(tx)
	a1, e1 := types.Sender(sg, tx)
	a2, e2 := types.Sender(sg, tx)
	switch {
	case (e0 == nil) != (e1 == nil) || (e0 == nil && a0 != a1):
		return a1, e1, fmt.Sprintf("types.Sender (first presentation) answers (%s, %v) but Signer.Sender answers (%s, %v)", a1.Hex(), e1, a0.Hex(), e0)
	case (e1 == nil) != (e2 == nil) || (e1 == nil && a1 != a2):
		return a2, e2, fmt.Sprintf("the second presentation of the same transaction object answers (%s, %v), the first (%s, %v)", a2.Hex(), e2, a1.Hex(), e1)
	}
	return a1, e1, ""
}

func checkTxs() {
	to1 := common.BytesToAddress([]byte{0x11})
	to2 := common.BytesToAddress([]byte{0x22})
	base := txFields{Nonce: 7, Price: big.NewInt(3), Gas: 21000, To: &to1, Amount: big.NewInt(1000), Payload: []byte{1, 2, 3}}
	type mut struct {
		field, alt string
		f          func(f *txFields)
	}
	muts := []mut{
		{"nonce", "+1", func(f *txFields) { f.Nonce++ }}, {"nonce", "0", func(f *txFields) { f.Nonce = 0 }}, {"nonce", "max", func(f *txFields) { f.Nonce = ^uint64(0) }},
		{"price", "+1", func(f *txFields) { f.Price = big.NewInt(4) }}, {"price", "0", func(f *txFields) { f.Price = big.NewInt(0) }},
		{"price", "2^256-1", func(f *txFields) { f.Price = new(big.Int).Sub(new(big.Int).Lsh(big.NewInt(1), 256), big.NewInt(1)) }},
		{"gas", "+1", func(f *txFields) { f.Gas++ }}, {"gas", "0", func(f *txFields) { f.Gas = 0 }},
		{"to", "other", func(f *txFields) { f.To = &to2 }}, {"to", "create", func(f *txFields) { f.To = nil }},
		{"to", "zero-address", func(f *txFields) { z := common.Address{}; f.To = &z }},
		{"amount", "+1", func(f *txFields) { f.Amount = big.NewInt(1001) }}, {"amount", "0", func(f *txFields) { f.Amount = big.NewInt(0) }},
		{"payload", "empty", func(f *txFields) { f.Payload = nil }}, {"payload", "append0", func(f *txFields) { f.Payload = []byte{1, 2, 3, 0} }},
		{"payload", "bitflip", func(f *txFields) { f.Payload = []byte{1, 2, 2} }}, {"payload", "prepend0", func(f *txFields) { f.Payload = []byte{0, 1, 2, 3} }},
	}
	type sg struct {
		name string
		s    types.Signer
		cid  *big.Int
	}
	signers := []sg{{"homestead", types.HomesteadSigner{}, nil}, {"chain1", types.NewChainIDSigner(big.NewInt(1)), big.NewInt(1)},
		{"chain24", types.NewChainIDSigner(big.NewInt(24)), big.NewInt(24)}, {"chain0", types.NewChainIDSigner(big.NewInt(0)), big.NewInt(0)}}
	for k := range keys {
		for _, bs := range []txFields{base, func() txFields { b := base; b.To = nil; return b }()} {
			for _, s := range signers {
				kind := "tx-" + s.name
				if s.name == "chain0" {
					continue // chain id 0 means "unprotected" (V=27/28); only used as an alternative verifier below
				}
				tx, err := types.SignTx(s.s, bs.mk(), keys[k])
				if err != nil {
					panic(err)
				}
				r.Add("evaluations", 1)
				from, err := types.Sender(s.s, tx)
				cs0 := map[string]interface{}{"kind": kind, "key": k, "tx": bs.String()}
				if err != nil || from != addrs[k] {
					r.Violation("C11|kind="+kind+"|oracle=sign-then-recover", fmt.Sprintf("SignTx then Sender with the same signer returns %s (err %v), not the signer %s", from.Hex(), err, addrs[k].Hex()), cs0)
				}
				// The signature that is valid for (tx, signer s): computed over the signer's own hash.
				h := s.s.Hash(bs.mk())
				sig, err := crypto.Sign(h[:], keys[k])
				if err != nil {
					panic(err)
				}
				good, err := bs.mk().WithSignature(s.s, sig)
				if err != nil {
					panic(err)
				}
				r.Add("evaluations", 1)
				gfrom, gerr := s.s.Sender(good)
				if gerr != nil || gfrom != addrs[k] {
					r.Violation("C11|kind="+kind+"|oracle=signer-hash-sign-then-recover", fmt.Sprintf("signature over Signer.Hash does not recover the signer: %s err %v", gfrom.Hex(), gerr), cs0)
					continue
				}
				V, R, S := good.RawSignatureValues()
				// survives the wire encoding
				if rt, err := rawTx(bs, V, R, S); err != nil {
					r.Violation("C11|kind="+kind+"|oracle=wire-roundtrip", "signed tx does not survive RLP: "+err.Error(), cs0)
				} else if a, err := s.s.Sender(rt); err != nil || a != addrs[k] || rt.Hash() != good.Hash() {
					r.Violation("C11|kind="+kind+"|oracle=wire-roundtrip", "signed tx changes sender or hash across RLP", cs0)
				}
				// single-field mutations keep (V,R,S)
				for _, m := range muts {
					f := bs
					m.f(&f)
					if f.String() == bs.String() {
						continue
					}
					mt, err := rawTx(f, V, R, S)
					if err != nil {
						continue
					}
					r.Add("evaluations", 1)
					r.Distinct("distinct_nontrivial", kind+"|"+m.field+"|"+m.alt)
					var a common.Address
					var serr error
					incons := ""
					p, pv := safely(func() { a, serr, incons = senderTwice(s.s, mt) })
					cs := map[string]interface{}{"kind": kind, "key": k, "field": m.field, "alt": m.alt, "tx": f.String()}
					if incons != "" {
						r.Violation("C11|kind="+kind+"|oracle=repeated-presentation", incons, cs)
					}
					if p {
						r.Violation("C11|kind="+kind+"|field="+m.field+"|alt="+m.alt+"|oracle=panic", fmt.Sprintf("Sender panics: %v", pv), cs)
					} else if serr == nil && a == addrs[k] {
						r.Violation("C11|kind="+kind+"|field="+m.field+"|alt="+m.alt+"|oracle=mutation-accepted", "mutated transaction still recovers the original sender", cs)
					}
					if r.WantSample() && k == 1 {
						r.Sample(cs)
					}
				}
				// other chain ids
				if s.cid != nil && s.cid.Sign() != 0 {
					for _, o := range signers {
						if o.cid == nil || o.cid.Cmp(s.cid) == 0 {
							continue
						}
						r.Add("evaluations", 1)
						r.Distinct("distinct_nontrivial", kind+"|chain|"+o.name)
						a, err := types.Sender(o.s, good)
						if err == nil {
							r.Violation("C11|kind="+kind+"|field=chain-id|alt="+o.name+"|oracle=mutation-accepted",
								fmt.Sprintf("transaction signed for %s is accepted by signer %s (sender %s)", s.name, o.name, a.Hex()), cs0)
						}
						// fresh copy (no sender cache), presented twice through the public API
						rt, _ := rawTx(bs, V, R, S)
						if _, _, incons := senderTwice(o.s, rt); incons != "" {
							r.Violation("C11|kind="+kind+"|field=chain-id|oracle=repeated-presentation", incons, cs0)
						}
						rt, _ = rawTx(bs, V, R, S)
						if a, err := o.s.Sender(rt); err == nil {
							r.Violation("C11|kind="+kind+"|field=chain-id|alt="+o.name+"|oracle=mutation-accepted",
								fmt.Sprintf("transaction signed for %s is accepted by signer %s (sender %s)", s.name, o.name, a.Hex()), cs0)
						}
					}
					// sender cache must not leak across signers: query with own signer first, then another
					rt, _ := rawTx(bs, V, R, S)
					types.Sender(s.s, rt)
					for _, o := range signers {
						if o.cid == nil || o.cid.Cmp(s.cid) == 0 {
							continue
						}
						r.Add("evaluations", 1)
						if a, err := types.Sender(o.s, rt); err == nil {
							r.Violation("C11|kind="+kind+"|field=chain-id|alt="+o.name+"|oracle=sender-cache", fmt.Sprintf("cached sender %s served to a signer for another chain", a.Hex()), cs0)
						}
					}
				}
				// signature-value matrix: (V offsets, R, S boundary values, malleated genuine)
				vBase := int64(27)
				if s.cid != nil && s.cid.Sign() != 0 {
					vBase = 35 + 2*s.cid.Int64()
				}
				two256m1 := new(big.Int).Sub(new(big.Int).Lsh(big.NewInt(1), 256), big.NewInt(1))
				bvals := []*big.Int{big.NewInt(0), big.NewInt(1), secpHalfN, new(big.Int).Add(secpHalfN, big.NewInt(1)), new(big.Int).Sub(secpN, big.NewInt(1)), secpN, two256m1}
				rvals := append([]*big.Int{R}, bvals...)
				svals := append([]*big.Int{S, new(big.Int).Sub(secpN, S)}, bvals...)
				type vval struct {
					v   *big.Int
					cls string
				}
				var vvals []vval
				for _, vv := range []int64{0, 1, 2, 3, 4, 26, 27, 28, 29, 35, 36, 37, 38, 255, 256, vBase - 1, vBase, vBase + 1, vBase + 2, vBase + 3, 1 << 32} {
					vvals = append(vvals, vval{big.NewInt(vv), fmt.Sprintf("v=%d", vv-vBase)})
				}
				// values that WRAP to the genuine V (or to its twin) when narrowed to a byte / a uint64: a transaction can carry
				// any integer as V (RLP / JSON), the signing API cannot produce them
				for _, g := range []struct {
					b   *big.Int
					lab string
				}{{V, "gen"}, {new(big.Int).Xor(V, big.NewInt(1)), "twin"}} {
					for _, sh := range []uint{8, 9, 16, 32, 63, 64, 65} {
						vvals = append(vvals, vval{new(big.Int).Add(g.b, new(big.Int).Lsh(big.NewInt(1), sh)), fmt.Sprintf("v=%s+2^%d", g.lab, sh)})
					}
					vvals = append(vvals, vval{new(big.Int).Add(g.b, big.NewInt(256*3)), fmt.Sprintf("v=%s+768", g.lab)})
				}
				for _, vx := range vvals {
					vv := vx.v
					for ri, rv := range rvals {
						for si, sv := range svals {
							mt, err := rawTx(bs, vv, rv, sv)
							if err != nil {
								continue
							}
							r.Add("evaluations", 1)
							var a common.Address
							var serr error
							incons := ""
							p, pv := safely(func() { a, serr, incons = senderTwice(s.s, mt) })
							cls := fmt.Sprintf("%s|r=%d|s=%d", vx.cls, ri, si)
							if incons != "" {
								r.Violation("C11|kind="+kind+"|oracle=repeated-presentation", incons, map[string]interface{}{"kind": kind, "V": vv, "R": rv.Text(16), "S": sv.Text(16)})
							}
							r.Distinct("sig_shapes", kind+cls)
							cs := map[string]interface{}{"kind": kind, "key": k, "V": vv, "R": rv.Text(16), "S": sv.Text(16)}
							if p {
								r.Violation("C11|kind="+kind+"|sigshape="+cls+"|oracle=panic", fmt.Sprintf("Sender panics: %v", pv), cs)
								continue
							}
							if serr != nil {
								continue
							}
							// accepted: must be a well-formed low-s signature whose recovery the reference agrees with
							var recid int64 = -1 // a V that is not a small integer has no recovery id: the reference rejects
							var hh common.Hash
							if mt.Protected() {
								cid := mt.ChainId()
								if d := new(big.Int).Sub(vv, new(big.Int).Add(big.NewInt(35), new(big.Int).Lsh(cid, 1))); d.IsInt64() {
									recid = d.Int64()
								}
								hh = types.NewChainIDSigner(cid).Hash(mt)
							} else {
								if d := new(big.Int).Sub(vv, big.NewInt(27)); d.IsInt64() {
									recid = d.Int64()
								}
								hh = types.HomesteadSigner{}.Hash(mt)
							}
							ra, ok := refRecover(hh[:], rv, sv, recid)
							if !ok {
								r.Violation("C11|kind="+kind+"|sigshape="+cls+"|oracle=malformed-accepted",
									fmt.Sprintf("transaction with malformed/malleable signature values accepted (sender %s)", a.Hex()), cs)
							} else if ra != a {
								r.Violation("C11|kind="+kind+"|sigshape="+cls+"|oracle=wrong-recovery", "recovered sender differs from the reference recovery", cs)
							} else if a == addrs[k] && (rv.Cmp(R) != 0 || sv.Cmp(S) != 0) {
								r.Violation("C11|kind="+kind+"|sigshape="+cls+"|oracle=second-signature", "a different (r,s) recovers the same sender for the same tx", cs)
							}
						}
					}
				}
			}
		}
	}
}

// ---------------------------------------------------------------------------------------------
// histories of one transaction OBJECT: the object memoises its sender, hash and size; re-signing
// (SignTx / WithSignature) derives a new object from an old one. After every history of sender queries and
// re-signings, the object must answer exactly like a copy of its own wire encoding that nobody has asked yet.

func checkTxObjectHistories() {
	to1 := common.BytesToAddress([]byte{0x11})
	f := txFields{Nonce: 7, Price: big.NewInt(3), Gas: 21000, To: &to1, Amount: big.NewInt(1000), Payload: []byte{1, 2, 3}}
	type sg struct {
		name string
		s    types.Signer
	}
	signers := []sg{{"homestead", types.HomesteadSigner{}}, {"chain1", types.NewChainIDSigner(big.NewInt(1))}, {"chain24", types.NewChainIDSigner(big.NewInt(24))}}
	type op struct {
		name string
		q    int // >= 0: ask signers[q]
		k, s int // otherwise: re-sign with keys[k] under signers[s]
	}
	var ops []op
	for i, s := range signers {
		ops = append(ops, op{"ask:" + s.name, i, 0, 0})
	}
	for k := 0; k < 2; k++ {
		for i, s := range signers {
			ops = append(ops, op{fmt.Sprintf("sign:k%d/%s", k, s.name), -1, k, i})
		}
	}
	depth := 4
	if r.Tier() == "thorough" {
		depth = 5
	}
	// eval replays one history on a fresh object (an object cannot be copied without copying the memo under test) and
	// judges its LAST operation, a query; the earlier queries were judged as the last operation of a shorter history.
	eval := func(hist []int) {
		obj := f.mk()
		lastK, lastS := -1, -1
		var names []string
		for n, oi := range hist {
			o := ops[oi]
			names = append(names, o.name)
			if o.q < 0 {
				nx, err := types.SignTx(signers[o.s].s, obj, keys[o.k])
				if err != nil {
					panic(err)
				}
				obj, lastK, lastS = nx, o.k, o.s
				continue
			}
			ga, gerr := types.Sender(signers[o.q].s, obj)
			if n != len(hist)-1 {
				continue
			}
			r.Add("evaluations", 1)
			r.Add("object_histories", 1)
			V, R, S := obj.RawSignatureValues()
			fresh, err := rawTx(f, V, R, S)
			if err != nil {
				panic(err)
			}
			wa, werr := signers[o.q].s.Sender(fresh)
			hs := strings.Join(names, ";")
			cs := map[string]interface{}{"kind": "tx-object-history", "history": hs, "tx": f.String()}
			cls := "signed-under-another-signer"
			if lastS == o.q {
				cls = "signed-under-this-signer"
			} else if lastS < 0 {
				cls = "unsigned"
			}
			r.Distinct("object_history_shapes", fmt.Sprintf("%s|last=%d/%d", o.name, lastK, lastS))
			switch {
			case (gerr == nil) != (werr == nil) || (gerr == nil && ga != wa):
				r.Violation("C11|kind=tx-object-history|query="+cls+"|oracle=object-differs-from-its-wire-copy",
					fmt.Sprintf("after [%s] the object answers (%s, %v); a fresh copy of its own encoding answers (%s, %v)", hs, ga.Hex(), gerr, wa.Hex(), werr), cs)
			case lastS == o.q && (gerr != nil || ga != addrs[lastK]):
				r.Violation("C11|kind=tx-object-history|query="+cls+"|oracle=sign-then-recover",
					fmt.Sprintf("after [%s] Sender answers (%s, %v), the last signer is %s", hs, ga.Hex(), gerr, addrs[lastK].Hex()), cs)
			case lastS > 0 && lastS != o.q && gerr == nil:
				// a signature made for one chain id is accepted neither for another chain id nor as an unprotected one (an
				// UNPROTECTED signature, 27/28, is accepted by every chain-id signer by design, like its wire copy)
				r.Violation("C11|kind=tx-object-history|query="+cls+"|oracle=mutation-accepted",
					fmt.Sprintf("after [%s] signer %s accepts a signature made under %s (sender %s)", hs, signers[o.q].name, signers[lastS].name, ga.Hex()), cs)
			}
			if obj.Hash() != fresh.Hash() {
				r.Violation("C11|kind=tx-object-history|oracle=hash-differs-from-its-wire-copy",
					fmt.Sprintf("after [%s] the object's hash is %s, the hash of its own encoding %s", hs, obj.Hash().Hex(), fresh.Hash().Hex()), cs)
			}
		}
	}
	// by ascending length, so the example kept for a signature is a shortest history
	for d := 1; d <= depth; d++ {
		var gen func(hist []int)
		gen = func(hist []int) {
			if len(hist) == d {
				if ops[hist[d-1]].q >= 0 {
					eval(hist)
				}
				return
			}
			for oi := range ops {
				gen(append(append([]int{}, hist...), oi))
			}
		}
		gen(nil)
	}
}

// ---------------------------------------------------------------------------------------------
// 65-byte strings offered as vote / proposal signatures

func checkSigShapes() {
	k := 0
	chain := "kai"
	base := baseVote(k, kproto.PrevoteType, false)
	signVote(k, chain, base)
	R := new(big.Int).SetBytes(base.Signature[:32])
	S := new(big.Int).SetBytes(base.Signature[32:64])
	two256m1 := new(big.Int).Sub(new(big.Int).Lsh(big.NewInt(1), 256), big.NewInt(1))
	bvals := []*big.Int{big.NewInt(0), big.NewInt(1), secpHalfN, new(big.Int).Add(secpHalfN, big.NewInt(1)), new(big.Int).Sub(secpN, big.NewInt(1)), secpN, two256m1}
	rvals := append([]*big.Int{R}, bvals...)
	svals := append([]*big.Int{S, new(big.Int).Sub(secpN, S)}, bvals...)
	hash := crypto.Keccak256(types.VoteSignBytes(chain, base.ToProto()))
	for _, v := range []byte{0, 1, 2, 3, 4, 26, 27, 28, 35, 36, 228, 229, 255} {
		for ri, rv := range rvals {
			for si, sv := range svals {
				sig := make([]byte, 65)
				rb, sb := rv.Bytes(), sv.Bytes()
				copy(sig[32-len(rb):32], rb)
				copy(sig[64-len(sb):64], sb)
				sig[64] = v
				c := base.Copy()
				c.Signature = sig
				cls := fmt.Sprintf("v=%d|r=%d|s=%d", v, ri, si)
				r.Add("evaluations", 3)
				r.Distinct("sig_shapes", "vote|"+cls)
				var err error
				var ok1, ok2 bool
				p, pv := safely(func() {
					err = c.Verify(chain, addrs[k])
					ok1 = types.VerifySignature(addrs[k], hash, sig)
					ok2 = crypto.VerifySignature(addrs[k], hash, sig)
				})
				cs := map[string]interface{}{"sig": fmt.Sprintf("%x", sig)}
				if p {
					r.Violation("C11|kind=vote|sigshape="+cls+"|oracle=panic", fmt.Sprintf("verification panics on a 65-byte signature: %v", pv), cs)
					continue
				}
				if (err == nil) != ok1 || ok1 != ok2 {
					r.Violation("C11|kind=vote|sigshape="+cls+"|oracle=verifiers-disagree", "Vote.Verify, types.VerifySignature and crypto.VerifySignature disagree", cs)
				}
				if err == nil {
					// accepted: reference recovery must name the signer too
					ref := make([]byte, 65)
					ref[0] = 27 + v
					copy(ref[1:], sig[:64])
					pub, _, rerr := btcec.RecoverCompact(btcec.S256(), ref, hash)
					if rerr != nil || crypto.PubkeyToAddress(*pub.ToECDSA()) != addrs[k] {
						r.Violation("C11|kind=vote|sigshape="+cls+"|oracle=wrong-recovery", "signature accepted although the reference recovery does not name the signer", cs)
					}
					r.Add("accepted_sig_shapes", 1)
				}
			}
		}
	}
	// lengths other than 65 are outside this property's quantifier (C18 owns them); recorded only.
	for _, n := range []int{0, 1, 64, 66} {
		sig := make([]byte, n)
		copy(sig, base.Signature)
		c := base.Copy()
		c.Signature = sig
		var err error
		p, _ := safely(func() { err = c.Verify(chain, addrs[k]) })
		switch {
		case p:
			r.Add("info_non65_panics", 1)
		case err == nil:
			r.Add("info_non65_accepted", 1)
		}
	}
	_ = bytes.Equal
}

func main() {
	r = report.New("C11", "exploration")
	for _, h := range keyHex {
		k, err := crypto.HexToECDSA(h)
		if err != nil {
			panic(err)
		}
		keys = append(keys, k)
		addrs = append(addrs, crypto.PubkeyToAddress(k.PublicKey))
	}
	checkVotes()
	checkProposals()
	checkTxs()
	checkTxObjectHistories()
	checkSigShapes()
	r.Set("rule", "E3 full matrix: {prevote,precommit}x{block,nil} votes, proposals (pol 0/1), txs under Homestead and 3 chain-id signers x 3 keys x 3 signing chain ids; "+
		"every single-field alternative from each field's boundary domain, every other signer / chain id, every cross-kind reuse, (V,R,S) boundary product; "+
		"a case is non-trivial and distinct per (message kind, field, alternative) when the mutated content really differs from the signed content; "+
		"transaction-object histories: every sequence of up to 4 (thorough 5) operations {ask signer s, re-sign with key k under signer s} (3 signers, 2 keys) on one object: "+
		"every answer equals the answer of a fresh copy of the object's own wire encoding (sender memo, hash memo), the last signer is recovered, a signature made for a chain id is accepted by no other signer")
	r.Require(r.Get("object_histories") > 1000, "fewer than 1000 transaction-object histories ran")
	r.Exhaustive(true)
	r.Assume("secp256k1 / Keccak are sound; the mutation alphabets are the boundary values listed in DESIGN.md C11",
		"signature lengths other than 65 bytes are outside C11's quantifier and are decided by C18",
		"(r, n-s, v^1) malleability of *vote/proposal* signatures is not a violation: same message, same signer")
	r.Require(r.Get("evaluations") > 1000, "fewer than 1000 verifications ran")
	r.Finish()
}
