package main

import (
	"encoding/binary"
	"fmt"
	"hash/crc32"

	"github.com/kardiachain/go-kardia/consensus"
)

// corr describes one corruption of an encoded log.
type corr struct {
	Kind string `json:"kind"`           // clean | trunc | flip | len | crc | garbage
	Off  int    `json:"off,omitempty"`  // trunc: new length; flip: byte offset
	Bit  int    `json:"bit,omitempty"`  // flip: bit number
	Rec  int    `json:"rec,omitempty"`  // len/crc: record index
	Name string `json:"name,omitempty"` // len/crc/garbage: symbolic value
}

var lenNames = []string{"0", "1", "len-1", "len+1", "max", "max+1", "2^32-1"}
var crcNames = []string{"0", "crc-of-empty", "ffffffff", "ieee-crc"}
var garbageNames = []string{"1-zero", "8-zeros", "16-zeros", "header-without-payload", "header-len-max", "header-len-max+1", "header-len-2^32-1", "half-of-first-record"}

func lenValue(name string, orig uint32) uint32 {
	switch name {
	case "0":
		return 0
	case "1":
		return 1
	case "len-1":
		return orig - 1
	case "len+1":
		return orig + 1
	case "max":
		return maxSz
	case "max+1":
		return maxSz + 1
	case "2^32-1":
		return 0xffffffff
	}
	panic("len name " + name)
}

func crcValue(name string, payload []byte) uint32 {
	switch name {
	case "0":
		return 0
	case "crc-of-empty":
		return crc32.Checksum(nil, castagnoli)
	case "ffffffff":
		return 0xffffffff
	case "ieee-crc":
		return crc32.ChecksumIEEE(payload)
	}
	panic("crc name " + name)
}

func garbage(name string, lc *logCase) []byte {
	hdr := func(l uint32) []byte {
		h := make([]byte, 8)
		binary.BigEndian.PutUint32(h, 0x12345678)
		binary.BigEndian.PutUint32(h[4:], l)
		return h
	}
	switch name {
	case "1-zero":
		return []byte{0}
	case "8-zeros":
		return make([]byte, 8)
	case "16-zeros":
		return make([]byte, 16)
	case "header-without-payload":
		return append([]byte{}, lc.W[:8]...)
	case "header-len-max":
		return hdr(maxSz)
	case "header-len-max+1":
		return hdr(maxSz + 1)
	case "header-len-2^32-1":
		return hdr(0xffffffff)
	case "half-of-first-record":
		return append([]byte{}, lc.W[:lc.off[1]/2]...)
	}
	panic("garbage name " + name)
}

// corrInfo is what the oracle needs to know about a corrupted log.
type corrInfo struct {
	class   string // input class used in signatures, e.g. "bitflip-payload"
	rec     int    // record hit (n for a suffix)
	kStrict int    // number of leading records that are still wholly intact
	trunc   bool   // the corruption only removed a tail
	clean   bool
	trivial bool // the "corruption" left the bytes unchanged
	// extra is set when the appended garbage is itself a truncated copy of a written record whose
	// missing tail is all zero bytes: the log is then byte-for-byte a truncation of "written log +
	// that record", and a decoder that completes it returns a written message, not a different one.
	extra      *consensus.TimedWALMessage
	extraBytes []byte
}

var fieldNames = []string{"crc", "length", "payload"}

// apply returns the corrupted bytes (a fresh slice) and the oracle's view of the corruption.
func (c corr) apply(lc *logCase) ([]byte, corrInfo) {
	W := lc.W
	n := lc.n()
	switch c.Kind {
	case "clean":
		return append([]byte{}, W...), corrInfo{class: "clean", rec: n, kStrict: n, clean: true}
	case "trunc":
		return append([]byte{}, W[:c.Off]...), c.info(lc)
	case "flip":
		C := append([]byte{}, W...)
		C[c.Off] ^= 1 << uint(c.Bit)
		return C, c.info(lc)
	case "len":
		C := append([]byte{}, W...)
		orig := binary.BigEndian.Uint32(C[lc.off[c.Rec]+4:])
		v := lenValue(c.Name, orig)
		binary.BigEndian.PutUint32(C[lc.off[c.Rec]+4:], v)
		ci := c.info(lc)
		ci.trivial = v == orig
		return C, ci
	case "crc":
		C := append([]byte{}, W...)
		lo := lc.off[c.Rec]
		orig := binary.BigEndian.Uint32(C[lo:])
		v := crcValue(c.Name, W[lo+8:lc.off[c.Rec+1]])
		binary.BigEndian.PutUint32(C[lo:], v)
		ci := c.info(lc)
		ci.trivial = v == orig
		return C, ci
	case "garbage":
		C := append(append([]byte{}, W...), garbage(c.Name, lc)...)
		return C, c.info(lc)
	}
	panic("corr kind " + c.Kind)
}

// info computes the oracle's view without building the bytes (used in the hot loops).
func (c corr) info(lc *logCase) corrInfo {
	n := lc.n()
	switch c.Kind {
	case "clean":
		return corrInfo{class: "clean", rec: n, kStrict: n, clean: true}
	case "trunc":
		k := 0
		for k < n && lc.off[k+1] <= c.Off {
			k++
		}
		cl := "truncation-at-record-boundary"
		if lc.off[k] != c.Off {
			_, f := lc.locate(c.Off)
			cl = "truncation-in-" + fieldNames[f]
		}
		return corrInfo{class: cl, rec: k, kStrict: k, trunc: true}
	case "flip":
		rec, f := lc.locate(c.Off)
		return corrInfo{class: "bitflip-" + fieldNames[f], rec: rec, kStrict: rec}
	case "len":
		return corrInfo{class: "length=" + c.Name, rec: c.Rec, kStrict: c.Rec}
	case "crc":
		return corrInfo{class: "crc=" + c.Name, rec: c.Rec, kStrict: c.Rec}
	case "garbage":
		ci := corrInfo{class: "garbage-suffix=" + c.Name, rec: n, kStrict: n}
		if c.Name == "half-of-first-record" && lc.off[1]/2 >= 8 {
			zero := true
			for _, b := range lc.W[lc.off[1]/2 : lc.off[1]] {
				if b != 0 {
					zero = false
				}
			}
			if zero {
				ci.extra, ci.extraBytes = &lc.recs[0], lc.W[:lc.off[1]]
			}
		}
		return ci
	}
	panic("corr kind " + c.Kind)
}

func (c corr) String() string {
	switch c.Kind {
	case "trunc":
		return fmt.Sprintf("truncate to %d bytes", c.Off)
	case "flip":
		return fmt.Sprintf("flip bit %d of byte %d", c.Bit, c.Off)
	case "len":
		return fmt.Sprintf("length field of record %d := %s", c.Rec, c.Name)
	case "crc":
		return fmt.Sprintf("crc field of record %d := %s", c.Rec, c.Name)
	case "garbage":
		return "append " + c.Name
	}
	return c.Kind
}

// fieldCorrs lists the length-field, crc-field and garbage-suffix corruptions of a log.
func fieldCorrs(lc *logCase, withLen bool) []corr {
	var cs []corr
	for rec := 0; rec < lc.n(); rec++ {
		if withLen {
			for _, nm := range lenNames {
				cs = append(cs, corr{Kind: "len", Rec: rec, Name: nm})
			}
		}
		for _, nm := range crcNames {
			cs = append(cs, corr{Kind: "crc", Rec: rec, Name: nm})
		}
	}
	for _, nm := range garbageNames {
		cs = append(cs, corr{Kind: "garbage", Name: nm})
	}
	return cs
}
