package main

import (
	"sync/atomic"
	"bytes"
	"fmt"
	"math"
	"os"
	"path/filepath"
	"runtime/debug"
	"sort"
	"strings"
	"time"

	"github.com/kardiachain/go-kardia/consensus"
	auto "github.com/kardiachain/go-kardia/lib/autofile"

	"verif/mc/par"
)

// endHeights lists, per height, the indices of the EndHeightMessage records of a log, and tells
// whether the heights > 0 appear in non-decreasing order (what a real node writes). EndHeightMessage{0}
// is exempt: BaseWAL.OnStart writes it whenever the head file is empty, i.e. also on a restart right
// after a rotation, so it legitimately appears after higher markers.
func endHeights(recs []consensus.TimedWALMessage) (occ map[int64][]int, monotone bool) {
	occ = map[int64][]int{}
	monotone = true
	last := int64(math.MinInt64)
	for i := range recs {
		if m, ok := recs[i].Msg.(consensus.EndHeightMessage); ok {
			occ[m.Height] = append(occ[m.Height], i)
			if m.Height == 0 {
				continue
			}
			if m.Height < last {
				monotone = false
			}
			last = m.Height
		}
	}
	return
}

func searchHeights(occ map[int64][]int) []int64 {
	set := map[int64]bool{-1: true, 0: true, 1: true, 2: true, math.MaxInt64 - 1: true, math.MaxInt64: true}
	for h := range occ {
		set[h] = true
	}
	var hs []int64
	for h := range set {
		hs = append(hs, h)
	}
	sort.Slice(hs, func(i, j int) bool { return hs[i] < hs[j] })
	return hs
}

type searchStats struct{ searches, found, notFound, errs int64 }

// checkSearch runs the real SearchForEndHeight. On an undamaged log (clean): no error; found iff an
// EndHeightMessage{h} was written (iff only when heights are non-decreasing, otherwise found => written);
// when found, the next Decode on the returned reader is the record after some occurrence of the
// marker (end-of-log when the marker is last). On a damaged log only the soundness half is required.
func checkSearch(wal *consensus.BaseWAL, lc *logCase, occ map[int64][]int, monotone, clean bool, h int64, ignore bool, st *searchStats, out sink) {
	defer func() {
		if p := recover(); p != nil {
			out("panic", fmt.Sprintf("SearchForEndHeight(%d) panicked: %v\n%s", h, p, debug.Stack()))
		}
	}()
	st.searches++
	rd, found, err := wal.SearchForEndHeight(h, &consensus.WALSearchOptions{IgnoreDataCorruptionErrors: ignore})
	if rd != nil {
		defer rd.Close()
	}
	written := len(occ[h]) > 0
	if err != nil {
		st.errs++
		if clean {
			out("search-error", fmt.Sprintf("SearchForEndHeight(%d) on an undamaged log returned %q", h, err.Error()))
		} else if c := classify(err); c == ecOther {
			out("search-error-kind", fmt.Sprintf("SearchForEndHeight(%d) returned %T %q", h, err, err.Error()))
		}
		if found {
			out("search-found-with-error", fmt.Sprintf("SearchForEndHeight(%d) returned found together with %q", h, err.Error()))
		}
		return
	}
	if found {
		st.found++
	} else {
		st.notFound++
	}
	if found && !written {
		out("search-found-unwritten", fmt.Sprintf("SearchForEndHeight(%d) reports found; no EndHeightMessage{%d} was written", h, h))
		return
	}
	if !found && written && clean && monotone {
		out("search-missed-written", fmt.Sprintf("SearchForEndHeight(%d) reports not found; EndHeightMessage{%d} is record(s) %v", h, h, occ[h]))
		return
	}
	if !found {
		return
	}
	if rd == nil {
		out("search-nil-reader", fmt.Sprintf("SearchForEndHeight(%d) reports found with a nil reader", h))
		return
	}
	if clean {
		// undamaged log: the reader must yield exactly the records written after (some occurrence of) the marker
		dec := consensus.NewWALDecoder(rd)
		var got []*consensus.TimedWALMessage
		var derr error
		for len(got) <= lc.n() {
			var m *consensus.TimedWALMessage
			if m, derr = dec.Decode(); derr != nil {
				break
			}
			got = append(got, m)
		}
		ok := false
		if derr != nil && classify(derr) == ecEOF {
			for _, i := range occ[h] {
				if len(got) != lc.n()-(i+1) {
					continue
				}
				same := true
				for k := range got {
					if !eqTimed(got[k], &lc.recs[i+1+k]) {
						same = false
						break
					}
				}
				if same {
					ok = true
				}
			}
		}
		if !ok {
			first := "nothing"
			if len(got) > 0 {
				first = canonTimed(got[0])
			}
			out("search-position", fmt.Sprintf("after SearchForEndHeight(%d) (marker at record(s) %v of %d) the reader yields %d messages then %v (first: %s); expected exactly the records after the marker",
				h, occ[h], lc.n(), len(got), derr, first))
		}
		return
	}
	m, derr := consensus.NewWALDecoder(rd).Decode()
	ok := false
	for _, i := range occ[h] {
		if i+1 < lc.n() {
			if derr == nil && eqTimed(m, &lc.recs[i+1]) {
				ok = true
			}
		} else if derr != nil && classify(derr) == ecEOF {
			ok = true
		}
	}
	if !ok && derr != nil && classify(derr) != ecOther {
		ok = true // the record after the marker is damaged or gone
	}
	if !ok {
		got := canonTimed(m)
		if derr != nil {
			got = "error " + derr.Error()
		}
		out("search-position", fmt.Sprintf("after SearchForEndHeight(%d) (marker at record(s) %v of %d) the next Decode gives %s", h, occ[h], lc.n(), got))
	}
}

func quietStop(wal *consensus.BaseWAL, started bool) {
	defer func() { recover() }()
	if started {
		wal.Stop()
		wal.Wait()
	} else {
		wal.Group().Close()
	}
	wal.Group().Head.Close() // ends the auto-file's ticker / signal goroutines
}

// readGroupFiles returns the files of the group in index order (head last).
func readGroupFiles(path string, maxIndex int) (sizes []int, all []byte) {
	for i := 0; i <= maxIndex; i++ {
		p := path
		if i < maxIndex {
			p = fmt.Sprintf("%s.%03d", path, i)
		}
		b, _ := os.ReadFile(p)
		sizes = append(sizes, len(b))
		all = append(all, b...)
	}
	return
}

// checkFileFrames: every file of the group must start on a frame boundary — decoded ALONE from its
// first byte it yields whole written records until end-of-log (the newest-first search and
// repairWalFile read single files that way).
func checkFileFrames(lc *logCase, path string, maxIndex int, out sink) {
	checkFileFramesView(lc, path, maxIndex, false, out)
}

// checkFileFramesView: tornHead=true is the view of a live WAL whose last writes are not flushed yet —
// the HEAD file may then end anywhere (even inside a record); every rotated file must still be whole
// (RotateFile flushes before it renames) and every file must START on a frame boundary.
func checkFileFramesView(lc *logCase, path string, maxIndex int, tornHead bool, out sink) {
	pos := 0
	offs := lc.off
	if len(offs) > 16 {
		offs = nil // keep messages short for logs with many records
	}
	for i := 0; i <= maxIndex; i++ {
		p := path
		if i < maxIndex {
			p = fmt.Sprintf("%s.%03d", path, i)
		}
		b, _ := os.ReadFile(p)
		lo, hi := -1, -1
		for k, o := range lc.off {
			if o == pos {
				lo = k
			}
			if o <= pos+len(b) {
				hi = k // last record boundary inside the file
			}
		}
		whole := hi >= 0 && lc.off[hi] == pos+len(b)
		if lo < 0 || hi < lo || (!whole && !(tornHead && i == maxIndex)) {
			nmsg, ec := decodeCount(b)
			out("file-starts-mid-frame", fmt.Sprintf("file #%d of %d holds bytes %d..%d of the log, not a whole number of records (record boundaries %v); read alone it gives %d messages then %s",
				i, maxIndex+1, pos, pos+len(b), offs, nmsg, ec))
			return
		}
		sub := &logCase{recs: lc.recs[lo:hi], W: b, off: shift(lc.off[lo:hi+1], -pos), name: lc.name, shape: lc.shape}
		ci := corrInfo{class: "clean", rec: hi - lo, kStrict: hi - lo, clean: true}
		if !whole {
			ci = corrInfo{class: "truncation-in-payload", rec: hi - lo, kStrict: hi - lo, trunc: true}
			sub.recs = lc.recs[lo:]
			sub.off = shift(lc.off[lo:], -pos)
		}
		checkStream(sub, bytes.NewReader(b), len(b), &ci, func(o, what string) {
			out("file-starts-mid-frame", fmt.Sprintf("file #%d read alone (%s): %s", i, o, what))
		})
		pos += len(b)
	}
}

func shift(a []int, d int) []int {
	b := make([]int, len(a))
	for i, v := range a {
		b[i] = v + d
	}
	return b
}

// checkGroupWrite drives a real BaseWAL over a real autofile.Group: Start (writes EndHeight 0), every
// message through Write/WriteSync, the group's own head-size check after every write, then reads
// everything back through a GroupReader, searches every height, restarts the WAL and does it again.
func checkGroupWrite(toks []int, limit int64, dir string, st *searchStats, out sink) (layout string) {
	os.RemoveAll(dir)
	os.MkdirAll(dir, 0o700)
	path := filepath.Join(dir, "wal")
	defer func() {
		if p := recover(); p != nil {
			out("panic", fmt.Sprintf("BaseWAL panicked: %v\n%s", p, debug.Stack()))
		}
	}()
	open := func() (*consensus.BaseWAL, bool) {
		// after EVERY underlying Group.Write of the encoder: what the two tickers do (flush, the group's
		// own head-size check with the configured limit)
		wal, err := consensus.VerifC15NewWALHooked(path, func(g *auto.Group, n int) {
			if g.FlushAndSync() == nil {
				g.VerifC15CheckHeadSizeLimit()
			}
		}, auto.GroupHeadSizeLimit(limit), auto.GroupCheckDuration(time.Hour))
		if err != nil {
			out("harness", "NewWAL: "+err.Error())
			return nil, false
		}
		wal.SetFlushInterval(time.Hour)
		if err := wal.Start(); err != nil {
			out("wal-start", "Start: "+err.Error())
			quietStop(wal, false)
			return nil, false
		}
		return wal, true
	}
	wal, ok := open()
	if !ok {
		return
	}
	recs := []consensus.TimedWALMessage{{Time: tClock, Msg: consensus.EndHeightMessage{Height: 0}}}
	for k, ti := range toks {
		var err error
		if k%2 == 0 {
			err = wal.WriteSync(tokens[ti].msg)
		} else {
			if err = wal.Write(tokens[ti].msg); err == nil {
				err = wal.FlushAndSync()
			}
		}
		if err != nil {
			out("wal-write", fmt.Sprintf("writing %s: %v", tokens[ti].name, err))
			quietStop(wal, true)
			return
		}
		recs = append(recs, consensus.TimedWALMessage{Time: tClock, Msg: tokens[ti].msg})
	}
	verify := func(wal *consensus.BaseWAL, recs []consensus.TimedWALMessage, stage string) string {
		lc, err := buildLogMsgs(recs, "EH0*,"+tokensName(toks))
		if err != nil {
			out("harness", err.Error())
			return ""
		}
		g := wal.Group()
		sizes, all := readGroupFiles(path, g.MaxIndex())
		if !bytes.Equal(all, lc.W) {
			out("rotation-bytes", fmt.Sprintf("%s: the group's files %v concatenate to %d bytes that differ from the %d bytes written", stage, sizes, len(all), len(lc.W)))
		}
		checkFileFrames(lc, path, g.MaxIndex(), func(oracle, what string) { out(oracle, stage+": "+what) })
		gr, err := g.NewReader(g.MinIndex())
		if err != nil {
			out("harness", "NewReader: "+err.Error())
			return ""
		}
		ci := corr{Kind: "clean"}.info(lc)
		o := checkStream(lc, gr, len(lc.W), &ci, func(oracle, what string) {
			if oracle == "clean-roundtrip" {
				oracle = "rotation-roundtrip"
			}
			out(oracle, fmt.Sprintf("%s, files %v: %s", stage, sizes, what))
		})
		gr.Close()
		occ, mono := endHeights(recs)
		for _, h := range searchHeights(occ) {
			for _, ign := range []bool{false, true} {
				if ign && !o.reachedEnd {
					continue // the decoder never reports end-of-log here: the skipping search would not return
				}
				checkSearch(wal, lc, occ, mono, true, h, ign, st, func(oracle, what string) {
					out(oracle, fmt.Sprintf("%s, files %v: %s", stage, sizes, what))
				})
			}
		}
		return fmt.Sprint(sizes)
	}
	layout = verify(wal, recs, "first run")
	quietStop(wal, true)
	// restart on the same directory
	headEmpty := true
	if fi, err := os.Stat(path); err == nil && fi.Size() > 0 {
		headEmpty = false
	}
	wal2, ok := open()
	if !ok {
		return
	}
	if headEmpty {
		recs = append(recs, consensus.TimedWALMessage{Time: tClock, Msg: consensus.EndHeightMessage{Height: 0}})
	}
	verify(wal2, recs, "after restart")
	quietStop(wal2, true)
	return
}

// limitsFor lists the head-size limits that put the rotation threshold at, just before and just
// after every record boundary (plus: disabled, 1 = rotate after every record, beyond the end).
func limitsFor(toks []int, all bool) []int64 {
	recs := []consensus.TimedWALMessage{{Time: tClock, Msg: consensus.EndHeightMessage{Height: 0}}}
	for _, ti := range toks {
		recs = append(recs, consensus.TimedWALMessage{Time: tClock, Msg: tokens[ti].msg})
	}
	_, off, err := encodeLog(recs)
	if err != nil {
		return []int64{0}
	}
	set := map[int64]bool{0: true, 1: true, int64(off[len(off)-1]) + 1: true}
	for _, o := range off[1:] {
		set[int64(o)] = true
		if all {
			set[int64(o)-1] = true
			set[int64(o)+1] = true
		}
	}
	// thresholds relative to a head that restarted after an earlier rotation
	if all {
		for i := 1; i < len(off); i++ {
			for k := i + 1; k < len(off); k++ {
				set[int64(off[k]-off[i])] = true
			}
		}
	}
	var ls []int64
	for l := range set {
		ls = append(ls, l)
	}
	sort.Slice(ls, func(i, j int) bool { return ls[i] < ls[j] })
	return ls
}

type gwCase struct {
	toks  []int
	limit int64
}

func groupWritePhase(logs [][]int, allLimitsUpTo int) {
	var cases []gwCase
	for _, toks := range logs {
		for _, l := range limitsFor(toks, len(toks) <= allLimitsUpTo) {
			cases = append(cases, gwCase{toks, l})
		}
	}
	done := par.For(int64(len(cases)), 4, phaseExpired, func(i int64) {
		c := cases[i]
		dir := dirPool.Get().(string)
		var st searchStats
		layout := checkGroupWrite(c.toks, c.limit, dir, &st, func(oracle, what string) {
			reportViolation(sig("rotation", oracle, "group"), fmt.Sprintf("%s head-size-limit %d: %s", tokensName(c.toks), c.limit, what),
				caseSpec{Phase: "group-write", Tokens: c.toks, TokenNames: tokensName(c.toks), Limit: c.limit})
		})
		dirPool.Put(dir)
		r.Add("group_write_cases", 1)
		r.Add("searches", st.searches)
		r.Add("searches_found", st.found)
		r.Add("searches_not_found", st.notFound)
		if layout != "" {
			r.Distinct("distinct_rotation_layouts", layout)
			if strings.Count(layout, " ") > 0 {
				r.Add("group_write_cases_with_rotation", 1)
			}
			kinds := ""
			for _, t := range c.toks {
				kinds += tokens[t].kind
			}
			r.Distinct("distinct_nontrivial", "gw|"+kinds+"|"+layout)
		}
		if len(c.toks) == 3 && c.toks[0] == 4 && c.toks[1] == 1 && c.limit > 1 && strings.Count(layout, " ") > 0 && wantSample("group-write", 2) {
			r.Sample(map[string]interface{}{"via": "BaseWAL+autofile.Group", "log": "EH0(start)," + tokensName(c.toks), "head_size_limit": c.limit,
				"file_sizes_after_writing": layout, "searches": st.searches, "found": st.found, "not_found": st.notFound})
		}
	})
	if done < int64(len(cases)) {
		r.NotExhaustive(fmt.Sprintf("group write phase: deadline after %d of %d cases", done, len(cases)))
	}
}

// ---------------------------------------------------------------------------------------------
// corrupted logs read through a real group (files laid out directly)

// patternsFor: no rotation; a rotation after every record but the last; after every record (empty
// head); a single rotation after record i.
func patternsFor(n int) [][]int {
	ps := [][]int{{}}
	var inner, every []int
	for i := 1; i <= n; i++ {
		every = append(every, i)
		if i < n {
			inner = append(inner, i)
		}
	}
	if n > 1 {
		ps = append(ps, inner)
	}
	ps = append(ps, every)
	if n > 2 {
		for i := 1; i < n; i++ {
			ps = append(ps, []int{i})
		}
	}
	return ps
}

type groupFiles struct {
	base int // index of the oldest rolled file (a group whose older files were pruned starts above 0)
	path string
	cuts []int // byte offsets (in the undamaged log) where a new file starts; files = len(cuts)+1
	cur  [][]byte
}

func (gf *groupFiles) name(i int) string {
	if i == len(gf.cuts) {
		return gf.path
	}
	return fmt.Sprintf("%s.%03d", gf.path, gf.base+i)
}

// lay writes the byte stream C into the group's files, cutting at the original rotation offsets.
func (gf *groupFiles) lay(C []byte) error {
	lo := 0
	for i := 0; i <= len(gf.cuts); i++ {
		hi := len(C)
		if i < len(gf.cuts) && gf.cuts[i] < hi {
			hi = gf.cuts[i]
		}
		if lo > hi {
			lo = hi
		}
		seg := C[lo:hi]
		if gf.cur[i] == nil || !bytes.Equal(gf.cur[i], seg) {
			if err := os.WriteFile(gf.name(i), seg, 0o600); err != nil {
				return err
			}
			gf.cur[i] = append(make([]byte, 0, len(seg)), seg...)
		}
		lo = hi
	}
	return nil
}

type grRunner struct {
	lc      *logCase
	pattern []int
	gf      *groupFiles
	wal     *consensus.BaseWAL
	occ     map[int64][]int
	mono    bool
	hs      []int64
}

func newGrRunner(lc *logCase, pattern []int, dir string) (*grRunner, error) {
	return newGrRunnerAt(lc, pattern, dir, 0)
}

func newGrRunnerAt(lc *logCase, pattern []int, dir string, base int) (*grRunner, error) {
	os.RemoveAll(dir)
	os.MkdirAll(dir, 0o700)
	g := &grRunner{lc: lc, pattern: pattern, gf: &groupFiles{path: filepath.Join(dir, "wal"), base: base}}
	for _, i := range pattern {
		g.gf.cuts = append(g.gf.cuts, lc.off[i])
	}
	g.gf.cur = make([][]byte, len(g.gf.cuts)+1)
	if err := g.gf.lay(lc.W); err != nil {
		return nil, err
	}
	wal, err := consensus.NewWAL(g.gf.path, auto.GroupCheckDuration(time.Hour))
	if err != nil {
		return nil, err
	}
	g.wal = wal
	g.occ, g.mono = endHeights(lc.recs)
	g.hs = []int64{2}
	for h := range g.occ {
		g.hs = append(g.hs, h)
	}
	sort.Slice(g.hs, func(i, j int) bool { return g.hs[i] < g.hs[j] })
	return g, nil
}

func (g *grRunner) close() { quietStop(g.wal, false) }

// run lays the corrupted stream into the group's files and applies the stream and search oracles.
func (g *grRunner) run(c corr, st *searchStats, ls *localStats, out sink) {
	C, ci := c.apply(g.lc)
	if ci.trivial {
		return
	}
	if err := g.gf.lay(C); err != nil {
		out("harness", err.Error())
		return
	}
	reachedEnd := false
	func() {
		defer func() {
			if p := recover(); p != nil {
				out("panic", fmt.Sprintf("GroupReader panicked: %v\n%s", p, debug.Stack()))
			}
		}()
		gr, err := g.wal.Group().NewReader(g.wal.Group().MinIndex())
		if err != nil {
			out("harness", "NewReader: "+err.Error())
			return
		}
		o := checkStream(g.lc, gr, len(C), &ci, out)
		gr.Close()
		reachedEnd = o.reachedEnd
		if ls != nil {
			ls.note(&ci, o)
		}
	}()
	for _, h := range g.hs {
		for _, ign := range []bool{false, true} {
			if ign && !reachedEnd {
				continue // see checkGroupWrite
			}
			checkSearch(g.wal, g.lc, g.occ, g.mono, ci.clean, h, ign, st, out)
		}
	}
}

func groupReadLog(lc *logCase, pattern []int, dir string, st *searchStats, ls *localStats) {
	var cur corr
	nviol := 0
	out := func(oracle, what string) {
		nviol++
		cc := cur
		reportViolation(sig(cur.info(lc).class, oracle, "group"), fmt.Sprintf("%s rotated after records %v: %s: %s", lc.name, pattern, cur.String(), what),
			caseSpec{Phase: "group-read", Tokens: lc.toks, TokenNames: lc.name, Corr: &cc, Pattern: pattern})
	}
	g, err := newGrRunner(lc, pattern, dir)
	if err != nil {
		cur = corr{Kind: "clean"}
		out("harness", err.Error())
		return
	}
	defer g.close()
	run := func(c corr) {
		cur = c
		g.run(c, st, ls, out)
	}
	run(corr{Kind: "clean"})
	if nviol > 0 {
		return // the undamaged layout already fails: its corruptions would only repeat that
	}
	for t := 0; t < len(lc.W); t++ {
		run(corr{Kind: "trunc", Off: t})
	}
	for b := 0; b < len(lc.W); b++ {
		run(corr{Kind: "flip", Off: b, Bit: b % 8})
	}
	for _, c := range fieldCorrs(lc, true) {
		run(c)
	}
}

// groupReadOne executes a single (log, pattern, corruption) case and returns its findings.
func groupReadOne(lc *logCase, pattern []int, c corr, dir string) (fs []finding) {
	g, err := newGrRunner(lc, pattern, dir)
	if err != nil {
		return []finding{{sig("clean", "harness", "group"), err.Error()}}
	}
	defer g.close()
	var st searchStats
	class := c.info(lc).class
	g.run(c, &st, nil, func(oracle, what string) { fs = append(fs, finding{sig(class, oracle, "group"), what}) })
	return
}

type grCase struct {
	toks    []int
	pattern []int
}

func groupReadPhase(logs [][]int) {
	var cases []grCase
	for _, toks := range logs {
		for _, p := range patternsFor(len(toks)) {
			cases = append(cases, grCase{toks, p})
		}
	}
	done := par.For(int64(len(cases)), 1, phaseExpired, func(i int64) {
		c := cases[i]
		lc, err := buildLog(c.toks)
		if err != nil {
			return
		}
		dir := dirPool.Get().(string)
		var st searchStats
		ls := newLocal()
		groupReadLog(lc, c.pattern, dir, &st, ls)
		dirPool.Put(dir)
		ls.flush(lc, "group")
		if len(c.toks) == 2 && len(c.pattern) == 1 && c.toks[0] == 1 && wantSample("group-read", 1) {
			r.Sample(map[string]interface{}{"via": "autofile.GroupReader over laid-out files", "log": lc.name, "rotated_after_records": c.pattern,
				"corrupted_variants_read": ls.evals, "ended_with_end_of_log": ls.eof, "ended_with_corruption_error": ls.corrupt,
				"searches": st.searches, "found": st.found, "not_found": st.notFound, "search_errors": st.errs})
		}
		r.Add("group_read_cases", 1)
		r.Add("searches", st.searches)
		r.Add("searches_on_damaged_logs", st.searches)
		r.Add("searches_found", st.found)
		r.Add("searches_not_found", st.notFound)
		r.Add("searches_returning_error", st.errs)
	})
	if done < int64(len(cases)) {
		r.NotExhaustive(fmt.Sprintf("group read phase: deadline after %d of %d cases", done, len(cases)))
	}
}

// ---------------------------------------------------------------------------------------------
// groups whose rolled-file indices cross a decimal width (… .009 | .010, .099 | .100, .999 | .1000, .9999 | .10000)
//
// A group that has been rotating for a while and pruned its oldest files sits at indices far above 0; the file
// suffix is "%03d", a MINIMUM width. The files are laid out directly at base .. base+k (a legitimate on-disk state:
// exactly what rotation + pruning leaves), the group is opened by the real NewWAL and must (1) report min / max
// index base / base+k, (2) read back the whole log, (3) find every marker, and (4) after one more record and a real
// rotation keep every older file byte-identical and have advanced its max index by one.
var indexBases = []int{1, 7, 8, 9, 10, 97, 98, 99, 100, 997, 998, 999, 1000, 9997, 9998, 9999, 10000, 99998}

func groupIndexBasePhase(logs [][]int) {
	type ibCase struct {
		toks    []int
		pattern []int
		base    int
	}
	var cases []ibCase
	for _, toks := range logs {
		if len(toks) < 3 {
			continue
		}
		ps := patternsFor(len(toks))
		for _, p := range ps[1:3] { // a rotation after every record but the last; after every record (empty head)
			for _, b := range indexBases {
				cases = append(cases, ibCase{toks, p, b})
			}
		}
	}
	var crossed [5]int64 // cases whose file indices straddle 10^k
	done := par.For(int64(len(cases)), 1, phaseExpired, func(i int64) {
		c := cases[i]
		lc, err := buildLog(c.toks)
		if err != nil {
			return
		}
		dir := dirPool.Get().(string)
		defer dirPool.Put(dir)
		cur := corr{Kind: "clean"}
		var st searchStats
		indexBaseCase(lc, c.pattern, c.base, dir, &st, func(oracle, what string) {
			cc := cur
			reportViolation(sig("clean", oracle, fmt.Sprintf("group-at-index-%d", c.base)), fmt.Sprintf("%s laid out as files %d..%d + head: %s", lc.name, c.base, c.base+len(c.pattern)-1, what),
				caseSpec{Phase: "group-index-base", Tokens: lc.toks, TokenNames: lc.name, Corr: &cc, Pattern: c.pattern, Base: c.base})
		})
		for w, p := 0, 10; w < 5; w, p = w+1, p*10 {
			if c.base < p && c.base+len(c.pattern) >= p {
				atomic.AddInt64(&crossed[w], 1)
			}
		}
		r.Add("group_index_base_cases", 1)
		r.Add("searches", st.searches)
		r.Add("searches_found", st.found)
		r.Add("searches_not_found", st.notFound)
	})
	if done < int64(len(cases)) {
		r.NotExhaustive(fmt.Sprintf("group index-base phase: deadline after %d of %d cases", done, len(cases)))
		return
	}
	for w, n := range crossed {
		if n == 0 {
			r.Vacuous(fmt.Sprintf("group index-base phase: no case whose file indices straddle 10^%d", w+1))
		}
	}
}

// indexBaseCase: one (log, rotation pattern, oldest file index) case of the index-base phase.
func indexBaseCase(lc *logCase, pattern []int, base int, dir string, st *searchStats, out sink) {
	g, err := newGrRunnerAt(lc, pattern, dir, base)
	if err != nil {
		out("harness", err.Error())
		return
	}
	defer g.close()
	k := len(pattern)
	gi := g.wal.Group().ReadGroupInfo()
	if gi.MinIndex != base || gi.MaxIndex != base+k {
		out("group-info", fmt.Sprintf("the opened group reports min/max index %d/%d, the files on disk are %d..%d and the head (%d)", gi.MinIndex, gi.MaxIndex, base, base+k-1, base+k))
		return
	}
	g.run(corr{Kind: "clean"}, st, nil, out)
	// one more record, one real rotation
	before := map[string][]byte{}
	for i := 0; i < k; i++ {
		before[g.gf.name(i)], _ = os.ReadFile(g.gf.name(i))
	}
	head, _ := os.ReadFile(g.gf.path)
	if err := g.wal.WriteSync(consensus.EndHeightMessage{Height: 777}); err != nil {
		out("harness", "WriteSync: "+err.Error())
		return
	}
	g.wal.Group().RotateFile()
	for i := 0; i < k; i++ {
		n := g.gf.name(i)
		if now, _ := os.ReadFile(n); !bytes.Equal(now, before[n]) {
			out("rotation-overwrites", fmt.Sprintf("after one more rotation %s changed from %d to %d bytes", filepath.Base(n), len(before[n]), len(now)))
		}
	}
	rolled := fmt.Sprintf("%s.%03d", g.gf.path, base+k)
	if now, _ := os.ReadFile(rolled); len(now) <= len(head) || !bytes.Equal(now[:len(head)], head) {
		out("rotation-target", fmt.Sprintf("the head (%d bytes + one record) was not rolled to %s (%d bytes there)", len(head), filepath.Base(rolled), len(now)))
	}
	if gi := g.wal.Group().ReadGroupInfo(); gi.MinIndex != base || gi.MaxIndex != base+k+1 {
		out("group-info", fmt.Sprintf("after one more rotation the group reports min/max index %d/%d, want %d/%d", gi.MinIndex, gi.MaxIndex, base, base+k+1))
	}
}
