package main

import (
	"bytes"
	"fmt"
	"os"
	"path/filepath"
	"runtime/debug"
	"sort"
	"strings"
	"sync"
	"time"

	"github.com/kardiachain/go-kardia/consensus"
	auto "github.com/kardiachain/go-kardia/lib/autofile"
	"github.com/kardiachain/go-kardia/lib/merkle"
	"github.com/kardiachain/go-kardia/types"

	"verif/mc/par"
)

// Phase "bigbuf": rotation versus the group's write buffer. The group buffers writes in a bufio.Writer
// of 40960 bytes; BaseWAL.Write does not flush. In production the flush (BaseWAL's flush ticker) and
// the head-size check (the group's ticker) are two INDEPENDENT tickers, so they are separate actions:
//
//	B  wal.Write(big block-part message)        (unsynced; frame size = the case's size class)
//	m  wal.Write(small message)                 (unsynced)
//	E  wal.WriteSync(EndHeightMessage{next h})  (flushes)
//	F  wal.FlushAndSync()                       (what the BaseWAL flush ticker does)
//	C  the group's own checkHeadSizeLimit       (what the group ticker does; NO flush before it)
//	X  Group.RotateFile()                       (explicit rotation; no flush before it)
//
// Size classes of B (frame bytes) sit around the buffer size: half of it (two sum past it), just below,
// just above, and a part of the maximum part size (two exceed twice the buffer). Head-size limits sit
// around those sizes. Oracles, evaluated twice per history:
//
//	view "on disk" (no final flush — what a reader of the live WAL sees): the files concatenate to a
//	  PREFIX of the records written; every file starts on a frame boundary and every ROTATED file is a
//	  whole number of records (RotateFile promises a complete file); only the head may end inside a
//	  record. If the visible bytes end on a record boundary the visible records are an undamaged log:
//	  full read-back and SearchForEndHeight(h) for every h, strict and lenient, found iff visible,
//	  reader yields exactly the visible records after the marker. If the head ends inside a record the
//	  view is a truncated log: read-back and searches must be sound (never a message not written,
//	  found => written).
//	view "flushed" (after a final FlushAndSync): everything above on ALL records, undamaged.
const bufioSize = 4096 * 10

var bigFrameClasses = []int{bufioSize / 2, bufioSize - 60, bufioSize + 40, 0} // 0 = maximum part size

var bigMu sync.Mutex
var bigCache = map[int]consensus.WALMessage{}
var bigFrame = map[int]int{}

// bigMsg builds a block-part WAL message whose frame (8-byte header + payload, Time = the fixed clock)
// is exactly `frame` bytes (frame 0: part of types.BlockPartSizeBytes bytes). Returns the frame size.
func bigMsg(frame int) (consensus.WALMessage, int) {
	bigMu.Lock()
	defer bigMu.Unlock()
	if m, ok := bigCache[frame]; ok {
		return m, bigFrame[frame]
	}
	mk := func(n int) (consensus.WALMessage, int) {
		m := consensus.VerifC15MsgInfo(&consensus.BlockPartMessage{Height: 5, Round: 1, Part: &types.Part{
			Index: 2, Bytes: pattern(n),
			Proof: merkle.SimpleProof{Total: 4, Index: 2, LeafHash: fill(32, 0x33), Aunts: [][]byte{fill(32, 0x44)}}}}, "")
		W, _, err := encodeLog([]consensus.TimedWALMessage{{Time: tClock, Msg: m}})
		if err != nil {
			panic(err)
		}
		return m, len(W)
	}
	n := frame - 120
	if frame == 0 {
		n = types.BlockPartSizeBytes
	}
	var m consensus.WALMessage
	got := 0
	for try := 0; try < 16; try++ {
		m, got = mk(n)
		if frame == 0 || got == frame {
			break
		}
		n += frame - got
	}
	bigCache[frame], bigFrame[frame] = m, got
	return m, got
}

func bigbufHistories(depth int) []string {
	var out []string
	var rec func(prefix []byte)
	rec = func(prefix []byte) {
		if len(prefix) > 0 {
			s := string(prefix)
			if strings.Contains(s, "B") && strings.ContainsAny(s, "CX") {
				out = append(out, s)
			}
		}
		if len(prefix) == depth {
			return
		}
		for _, op := range []byte("BmEFCX") {
			if op == 'X' && !bytes.ContainsAny(prefix, "BmE") {
				continue // explicit rotation of a head nothing was written to since Start's marker: skip the degenerate start
			}
			rec(append(append([]byte{}, prefix...), op))
		}
	}
	rec(nil)
	sort.SliceStable(out, func(i, j int) bool { return len(out[i]) < len(out[j]) })
	return out
}

type bigInfo struct {
	rotations           int
	rotatedWithBuffered bool // some rotation happened while unsynced writes were pending
	filesDisk, filesEnd string
	tornView            bool
}

func checkBigbuf(hist string, class int, limit int64, dir string, st *searchStats, out sink) (bi bigInfo) {
	os.RemoveAll(dir)
	os.MkdirAll(dir, 0o700)
	path := filepath.Join(dir, "wal")
	defer func() {
		if p := recover(); p != nil {
			out("panic", fmt.Sprintf("BaseWAL/Group panicked: %v\n%s", p, debug.Stack()))
		}
	}()
	wal, err := consensus.NewWAL(path, auto.GroupHeadSizeLimit(limit), auto.GroupCheckDuration(time.Hour))
	if err != nil {
		out("harness", "NewWAL: "+err.Error())
		return
	}
	wal.SetFlushInterval(time.Hour)
	if err := wal.Start(); err != nil {
		out("wal-start", err.Error())
		quietStop(wal, false)
		return
	}
	defer quietStop(wal, true)
	g := wal.Group()
	big, _ := bigMsg(bigFrameClasses[class])
	small := tokens[4].msg
	recs := []consensus.TimedWALMessage{{Time: tClock, Msg: consensus.EndHeightMessage{Height: 0}}}
	h := int64(0)
	pending := false // unsynced writes since the last flush
	for i := 0; i < len(hist); i++ {
		var err error
		switch hist[i] {
		case 'B':
			err = wal.Write(big)
			recs = append(recs, consensus.TimedWALMessage{Time: tClock, Msg: big})
			pending = true
		case 'm':
			err = wal.Write(small)
			recs = append(recs, consensus.TimedWALMessage{Time: tClock, Msg: small})
			pending = true
		case 'E':
			h++
			err = wal.WriteSync(consensus.EndHeightMessage{Height: h})
			recs = append(recs, consensus.TimedWALMessage{Time: tClock, Msg: consensus.EndHeightMessage{Height: h}})
			pending = false
		case 'F':
			err = wal.FlushAndSync()
			pending = false
		case 'C', 'X':
			before := g.MaxIndex()
			if hist[i] == 'C' {
				g.VerifC15CheckHeadSizeLimit()
			} else {
				g.RotateFile()
			}
			if g.MaxIndex() > before {
				bi.rotations++
				if pending {
					bi.rotatedWithBuffered = true
				}
				pending = false // RotateFile flushes before it renames
			}
		}
		if err != nil {
			out("wal-write", fmt.Sprintf("operation %d (%c): %v", i, hist[i], err))
			return
		}
	}
	lc, err := buildLogMsgs(recs, "history:"+hist)
	if err != nil {
		out("harness", err.Error())
		return
	}
	view := func(name string, flushed bool) string {
		vout := func(oracle, what string) { out(oracle, "view "+name+": "+what) }
		sizes, D := readGroupFiles(path, g.MaxIndex())
		if len(D) > len(lc.W) || !bytes.Equal(D, lc.W[:len(D)]) || (flushed && len(D) != len(lc.W)) {
			vout("rotation-bytes", fmt.Sprintf("files %v concatenate to %d bytes that are not %s the %d bytes of the %d records written", sizes, len(D),
				map[bool]string{true: "equal to", false: "a prefix of"}[flushed], len(lc.W), lc.n()))
			return fmt.Sprint(sizes)
		}
		checkFileFramesView(lc, path, g.MaxIndex(), !flushed, vout)
		k := 0
		for k < lc.n() && lc.off[k+1] <= len(D) {
			k++
		}
		torn := lc.off[k] != len(D)
		gr, err := g.NewReader(g.MinIndex())
		if err != nil {
			vout("harness", "NewReader: "+err.Error())
			return fmt.Sprint(sizes)
		}
		var vlc *logCase
		var ci corrInfo
		if torn {
			bi.tornView = true
			vlc = lc
			ci = corrInfo{class: "truncation-in-payload", rec: k, kStrict: k, trunc: true}
		} else {
			vlc = &logCase{recs: lc.recs[:k], W: D, off: lc.off[:k+1], name: lc.name, shape: lc.shape}
			ci = corrInfo{class: "clean", rec: k, kStrict: k, clean: true}
		}
		o := checkStream(vlc, gr, len(D), &ci, func(oracle, what string) {
			if oracle == "clean-roundtrip" {
				oracle = "rotation-roundtrip"
			}
			vout(oracle, fmt.Sprintf("files %v: %s", sizes, what))
		})
		gr.Close()
		occ, _ := endHeights(vlc.recs)
		if torn {
			occ, _ = endHeights(lc.recs[:k]) // only whole visible records can be found
		}
		for hh := int64(-1); hh <= h+1; hh++ {
			for _, ign := range []bool{false, true} {
				if ign && !o.reachedEnd {
					continue
				}
				checkSearch(wal, vlc, occ, true, !torn, hh, ign, st, func(oracle, what string) {
					vout(oracle, fmt.Sprintf("files %v, records %s (%d visible): %s", sizes, describeRecs(recs), k, what))
				})
			}
		}
		return fmt.Sprint(sizes)
	}
	bi.filesDisk = view("on disk", false)
	if err := wal.FlushAndSync(); err != nil {
		out("wal-write", "final flush: "+err.Error())
		return
	}
	bi.filesEnd = view("flushed", true)
	return
}

func bigClass(bi bigInfo) string {
	if bi.rotatedWithBuffered {
		return "rotation-with-buffered-writes"
	}
	return "rotation"
}

type bigCase struct {
	hist  string
	class int
	limit int64
}

func bigbufLimits(class int) []int64 {
	_, frame := bigMsg(bigFrameClasses[class])
	W, _, _ := encodeLog([]consensus.TimedWALMessage{{Time: tClock, Msg: consensus.EndHeightMessage{Height: 0}}})
	set := map[int64]bool{1: true, bufioSize: true, int64(len(W) + frame): true, 2 * bufioSize: true}
	var ls []int64
	for l := range set {
		ls = append(ls, l)
	}
	sort.Slice(ls, func(i, j int) bool { return ls[i] < ls[j] })
	return ls
}

func runBigbuf(c bigCase) bigInfo {
	dir := dirPool.Get().(string)
	var st searchStats
	type pend struct{ oracle, what string }
	var pending []pend
	bi := checkBigbuf(c.hist, c.class, c.limit, dir, &st, func(oracle, what string) { pending = append(pending, pend{oracle, what}) })
	dirPool.Put(dir)
	_, frame := bigMsg(bigFrameClasses[c.class])
	for _, p := range pending {
		reportViolation(sig(bigClass(bi), p.oracle, "group"), fmt.Sprintf("history %s, big frame %d bytes, head-size limit %d: %s", c.hist, frame, c.limit, p.what),
			caseSpec{Phase: "bigbuf", History: c.hist, SizeClass: c.class, Limit: c.limit})
	}
	r.Add("bigbuf_runs", 1)
	r.Add("bigbuf_rotations", int64(bi.rotations))
	if bi.rotatedWithBuffered {
		r.Add("bigbuf_runs_rotating_with_buffered_writes", 1)
	}
	if bi.tornView {
		r.Add("bigbuf_runs_with_head_ending_inside_a_record_on_disk", 1)
	}
	r.Add("searches", st.searches)
	r.Add("searches_bigbuf", st.searches)
	r.Add("searches_found", st.found)
	r.Add("searches_not_found", st.notFound)
	if bi.filesEnd != "" {
		r.Distinct("distinct_nontrivial", "big|"+bi.filesDisk+"|"+bi.filesEnd)
		r.Distinct("bigbuf_distinct_layouts", bi.filesDisk+"|"+bi.filesEnd)
	}
	if bi.rotatedWithBuffered && bi.tornView && len(c.hist) == 4 && wantSample("bigbuf", 1) {
		r.Sample(map[string]interface{}{"via": "BaseWAL, rotation versus the 40960-byte write buffer", "history": c.hist, "big_frame_bytes": frame, "head_size_limit": c.limit,
			"file_sizes_on_disk_before_final_flush": bi.filesDisk, "file_sizes_after_final_flush": bi.filesEnd, "rotations": bi.rotations, "searches": st.searches, "found": st.found})
	}
	return bi
}

func bigbufPhase(depth int) {
	var cases []bigCase
	for _, h := range bigbufHistories(depth) {
		for class := range bigFrameClasses {
			for _, l := range bigbufLimits(class) {
				cases = append(cases, bigCase{h, class, l})
			}
		}
	}
	r.Set("bigbuf_history_depth", depth)
	done := par.For(int64(len(cases)), 2, phaseExpired, func(i int64) { runBigbuf(cases[i]) })
	if done < int64(len(cases)) {
		r.NotExhaustive(fmt.Sprintf("big-record/buffer phase: deadline after %d of %d cases", done, len(cases)))
	}
}
