package main

import (
	"bytes"
	"encoding/binary"
	"fmt"
	"hash/crc32"
	"math"
	"strings"
	"time"

	"github.com/kardiachain/go-kardia/consensus"
	"github.com/kardiachain/go-kardia/lib/common"
	"github.com/kardiachain/go-kardia/lib/merkle"
	kproto "github.com/kardiachain/go-kardia/proto/kardiachain/types"
	"github.com/kardiachain/go-kardia/types"
)

// The checker's own CRC table (CRC-32C); independent of the unexported table in consensus/wal.go.
var castagnoli = crc32.MakeTable(crc32.Castagnoli)

const maxSz = consensus.VerifC15MaxMsgSizeBytes

var (
	tZero  = time.Time{}
	tEpoch = time.Unix(0, 0).UTC()
	tFull  = time.Date(2021, 3, 4, 5, 6, 7, 123456789, time.UTC)
	// the fixed clock behind ktime.Now() while the checker drives a real BaseWAL
	tClock = time.Date(2022, 2, 2, 2, 2, 2, 2000000, time.UTC)
)

type token struct {
	name string // e.g. "EHmax"
	kind string // EH TO RS PR BP VO
	t    time.Time
	msg  consensus.WALMessage
}

// tokens[:nAlphabet] is the enumeration alphabet; later entries are used by special cases only.
var tokens []token

const nAlphabet = 13
const tokBig = 13 // block part of the maximum part size

func fill(n int, b byte) []byte { return bytes.Repeat([]byte{b}, n) }

func hashOf(b byte) common.Hash { return common.BytesToHash(fill(32, b)) }

func pattern(n int) []byte {
	p := make([]byte, n)
	for i := range p {
		switch (i / 16) % 3 {
		case 0:
			p[i] = 0
		case 1:
			p[i] = 0xff
		default:
			p[i] = byte(i*7 + 1)
		}
	}
	return p
}

func initTokens() {
	minID := types.BlockID{Hash: common.BytesToHash([]byte{1}), PartsHeader: types.PartSetHeader{Total: 1}}
	maxID := types.BlockID{Hash: hashOf(0xff), PartsHeader: types.PartSetHeader{Total: math.MaxUint32, Hash: hashOf(0xfe)}}
	peer := strings.Repeat("fe", 20)
	add := func(name, kind string, t time.Time, m consensus.WALMessage) {
		tokens = append(tokens, token{name, kind, t, m})
	}
	add("EH0", "EH", tZero, consensus.EndHeightMessage{Height: 0})
	add("EH1", "EH", tEpoch, consensus.EndHeightMessage{Height: 1})
	add("EHmax", "EH", tFull, consensus.EndHeightMessage{Height: math.MaxInt64})
	add("TOzero", "TO", tZero, consensus.VerifC15TimeoutInfo(0, 0, 0, 0))
	add("TOmax", "TO", tFull, consensus.VerifC15TimeoutInfo(time.Duration(math.MaxInt64), math.MaxUint64, math.MaxUint32, 0xff))
	add("RSzero", "RS", tEpoch, types.EventDataRoundState{})
	add("RSmax", "RS", tFull, types.EventDataRoundState{Height: math.MaxUint64, Round: math.MaxUint32, Step: "RoundStepPrecommitWait"})
	add("PRmin", "PR", tZero, consensus.VerifC15MsgInfo(&consensus.ProposalMessage{Proposal: &types.Proposal{
		POLBlockID: minID, Signature: []byte{0}}}, ""))
	add("PRmax", "PR", tFull, consensus.VerifC15MsgInfo(&consensus.ProposalMessage{Proposal: &types.Proposal{
		Height: math.MaxUint64, Round: math.MaxUint32, POLRound: math.MaxUint32, Timestamp: tFull, POLBlockID: maxID, Signature: fill(65, 0xff)}}, peer))
	add("BPmin", "BP", tEpoch, consensus.VerifC15MsgInfo(&consensus.BlockPartMessage{Part: &types.Part{
		Proof: merkle.SimpleProof{LeafHash: fill(32, 0)}}}, ""))
	add("BPmax", "BP", tFull, consensus.VerifC15MsgInfo(&consensus.BlockPartMessage{Height: math.MaxUint64, Round: math.MaxUint32, Part: &types.Part{
		Index: math.MaxUint32, Bytes: pattern(48),
		Proof: merkle.SimpleProof{Total: math.MaxUint64, Index: math.MaxUint64, LeafHash: fill(32, 0xff), Aunts: [][]byte{fill(32, 0), fill(32, 0xab)}}}}, peer))
	add("VOnil", "VO", tZero, consensus.VerifC15MsgInfo(&consensus.VoteMessage{Vote: &types.Vote{
		Type: kproto.PrevoteType, Signature: []byte{0}}}, ""))
	add("VOmax", "VO", tFull, consensus.VerifC15MsgInfo(&consensus.VoteMessage{Vote: &types.Vote{
		ValidatorAddress: common.BytesToAddress(fill(20, 0xff)), ValidatorIndex: math.MaxUint32, Height: math.MaxUint64, Round: math.MaxUint32,
		Timestamp: tFull, Type: kproto.PrecommitType, BlockID: maxID, Signature: fill(65, 0xff)}}, peer))
	if len(tokens) != nAlphabet {
		panic("alphabet size")
	}
	add("BPbig", "BP", tFull, consensus.VerifC15MsgInfo(&consensus.BlockPartMessage{Height: 7, Round: 1, Part: &types.Part{
		Index: 3, Bytes: pattern(types.BlockPartSizeBytes),
		Proof: merkle.SimpleProof{Total: 9, Index: 3, LeafHash: fill(32, 0x11), Aunts: [][]byte{fill(32, 0x22)}}}}, peer))
}

// ---------------------------------------------------------------------------------------------
// a written log

type logCase struct {
	toks  []int
	shape string // kinds, e.g. "EH,VO,PR"
	name  string // token names
	recs  []consensus.TimedWALMessage
	W     []byte // what the real encoder produced
	off   []int  // record boundaries, off[0]=0 .. off[n]=len(W)
}

func (lc *logCase) n() int { return len(lc.recs) }

func (lc *logCase) payloadLen(i int) int { return lc.off[i+1] - lc.off[i] - 8 }

// locate returns the record containing byte b and the field: 0 crc, 1 length, 2 payload.
func (lc *logCase) locate(b int) (rec, field int) {
	for i := 0; i < lc.n(); i++ {
		if b < lc.off[i+1] {
			rel := b - lc.off[i]
			switch {
			case rel < 4:
				return i, 0
			case rel < 8:
				return i, 1
			}
			return i, 2
		}
	}
	return lc.n(), 2
}

// encodeLog writes the messages with the real WALEncoder and records the boundaries.
func encodeLog(recs []consensus.TimedWALMessage) (W []byte, off []int, err error) {
	var buf bytes.Buffer
	enc := consensus.NewWALEncoder(&buf)
	off = []int{0}
	for i := range recs {
		m := recs[i]
		var perr interface{}
		func() {
			defer func() { perr = recover() }()
			err = enc.Encode(&m)
		}()
		if perr != nil {
			return nil, nil, fmt.Errorf("Encode panicked on record %d: %v", i, perr)
		}
		if err != nil {
			return nil, nil, fmt.Errorf("Encode of record %d: %v", i, err)
		}
		off = append(off, buf.Len())
	}
	return buf.Bytes(), off, nil
}

func buildLog(toks []int) (*logCase, error) {
	lc := &logCase{toks: append([]int{}, toks...)}
	var kinds, names []string
	for _, ti := range toks {
		tk := tokens[ti]
		kinds = append(kinds, tk.kind)
		names = append(names, tk.name)
		lc.recs = append(lc.recs, consensus.TimedWALMessage{Time: tk.t, Msg: tk.msg})
	}
	lc.shape, lc.name = strings.Join(kinds, ","), strings.Join(names, ",")
	var err error
	lc.W, lc.off, err = encodeLog(lc.recs)
	return lc, err
}

func buildLogMsgs(recs []consensus.TimedWALMessage, name string) (*logCase, error) {
	lc := &logCase{recs: recs, name: name, shape: name}
	var err error
	lc.W, lc.off, err = encodeLog(lc.recs)
	return lc, err
}

// framingOK is the checker's own statement of the on-disk format:
// 4 bytes big-endian CRC-32C of the payload | 4 bytes big-endian payload length | payload.
func (lc *logCase) framingOK() (bool, string) {
	for i := 0; i < lc.n(); i++ {
		lo, hi := lc.off[i], lc.off[i+1]
		if hi-lo < 8 {
			return false, fmt.Sprintf("record %d is %d bytes, shorter than a header", i, hi-lo)
		}
		pl := lc.W[lo+8 : hi]
		if l := binary.BigEndian.Uint32(lc.W[lo+4:]); int(l) != len(pl) {
			return false, fmt.Sprintf("record %d: bytes 4..8 say length %d, payload is %d bytes", i, l, len(pl))
		}
		if c := binary.BigEndian.Uint32(lc.W[lo:]); c != crc32.Checksum(pl, castagnoli) {
			return false, fmt.Sprintf("record %d: bytes 0..4 are %08x, CRC-32C of the payload is %08x", i, c, crc32.Checksum(pl, castagnoli))
		}
		if len(pl) > maxSz {
			return false, fmt.Sprintf("record %d: payload %d bytes exceeds the limit %d", i, len(pl), maxSz)
		}
	}
	return true, ""
}
