package main

import (
	"bytes"
	"fmt"
	"os"
	"path/filepath"
	"runtime/debug"
	"strings"
	"time"

	"github.com/kardiachain/go-kardia/consensus"
	auto "github.com/kardiachain/go-kardia/lib/autofile"

	"verif/mc/par"
)

// Multi-life histories of a real BaseWAL over a real autofile.Group. Alphabet:
//
//	M  write a non-marker message (Write / WriteSync alternating; timeout, vote, proposal in turn)
//	E  WriteSync(EndHeightMessage{h}) for the next height h = 1, 2, 3, ...
//	R  the head-size limit is reached: flush, then the group's own head-size check (limit 1 byte, so
//	   it rotates iff the head is non-empty; R is only enumerated when something was written since
//	   the last rotation)
//	S  Stop + Wait, then a new BaseWAL on the same directory and Start (OnStart writes
//	   EndHeightMessage{0} iff the head file is empty, i.e. also right after a rotation)
//
// Scheduling points: the BaseWAL's encoder writes through a thin in-package wrapper, so every underlying
// Group.Write it issues is a point at which the checker may run a TICK = exactly what the two background
// tickers do (BaseWAL flush ticker: FlushAndSync; group ticker: the group's own head-size check with the
// configured limit). A history is executed under a tick schedule (the indices of the underlying writes
// after which a tick runs). With one Write per record ticks can only land between records; a tick that
// lands inside a record (cumulative bytes written not on a record boundary) is explored for EVERY history.
//
// Reference = the list of records written (the checker's own model of the four operations). After
// every history: the group's files concatenate to exactly those records; reading from the first file
// returns them all; SearchForEndHeight(h) for EVERY h in -1..hmax+1, with IgnoreDataCorruptionErrors
// both ways, reports found iff an EndHeightMessage{h} is in the list, and the returned reader yields
// exactly the records after (an occurrence of) that marker, then end-of-log; and every file of the group
// starts on a frame boundary (each file alone decodes to whole written records until end-of-log), which
// is what the newest-first search and repairWalFile rely on.

var lifeMsgs = []int{4, 11, 8} // TOmax, VOnil, PRmax

type lifeModel struct {
	recs             []consensus.TimedWALMessage
	headEmpty        bool
	h                int64
	nMsg             int
	rotations        int
	restarts         int
	emptyHeadRestart bool // some restart found an empty head after >= 1 rotation
}

// started is called after a (re)start; headWasEmpty is the model's head state before it.
func (m *lifeModel) started(headWasEmpty bool) {
	if headWasEmpty {
		if m.rotations > 0 && m.restarts > 0 {
			m.emptyHeadRestart = true
		}
		m.recs = append(m.recs, consensus.TimedWALMessage{Time: tClock, Msg: consensus.EndHeightMessage{Height: 0}})
	}
}

// lifeHistories enumerates every history of length 1..depth with >= 1 rotation and <= 2 restarts.
func lifeHistories(depth int) []string {
	var out []string
	var rec func(prefix []byte, headEmpty bool, rot, rst int)
	rec = func(prefix []byte, headEmpty bool, rot, rst int) {
		if len(prefix) > 0 && rot > 0 {
			out = append(out, string(prefix))
		}
		if len(prefix) == depth {
			return
		}
		for _, op := range []byte("MERS") {
			switch op {
			case 'M', 'E':
				rec(append(prefix, op), false, rot, rst)
			case 'R':
				if !headEmpty {
					rec(append(prefix, op), true, rot+1, rst)
				}
			case 'S':
				if rst < 2 {
					rec(append(prefix, op), false, rot, rst+1) // Start fills an empty head with EndHeight 0
				}
			}
		}
	}
	rec(nil, false, 0, 0) // the first Start wrote EndHeight 0
	// shortest first, so the first counterexample is the smallest
	var sorted []string
	for l := 1; l <= depth; l++ {
		for _, h := range out {
			if len(h) == l {
				sorted = append(sorted, h)
			}
		}
	}
	return sorted
}

type lifeInfo struct {
	files            string
	rotations        int
	restarts         int
	emptyHeadRestart bool
	writes           int   // underlying Group.Write calls issued by the encoder
	midRecord        []int // indices of the writes that ended inside a record
	tickMidRecord    bool  // some executed tick landed inside a record
}

func checkLife(hist string, ticks []int, dir string, st *searchStats, out sink) (li lifeInfo) {
	os.RemoveAll(dir)
	os.MkdirAll(dir, 0o700)
	path := filepath.Join(dir, "wal")
	defer func() {
		if p := recover(); p != nil {
			out("panic", fmt.Sprintf("BaseWAL panicked: %v\n%s", p, debug.Stack()))
		}
	}()
	m := &lifeModel{headEmpty: true}
	var cum []int // cumulative bytes written through the encoder after each underlying write
	total := 0
	// a schedule entry is 2*(index of the underlying write) + kind; kind 0: flush ticker then size-check
	// ticker (F+C), kind 1: the size-check ticker alone (C, no flush before it)
	tickAt := map[int]int{}
	for _, t := range ticks {
		tickAt[t/2] = t%2 + 1
	}
	var tickErr error
	hook := func(g *auto.Group, n int) {
		k := len(cum)
		total += n
		cum = append(cum, total)
		m.headEmpty = false
		if kind := tickAt[k]; kind != 0 {
			if kind == 1 { // the BaseWAL flush ticker
				if err := g.FlushAndSync(); err != nil {
					tickErr = err
					return
				}
			}
			before := g.MaxIndex()
			g.VerifC15CheckHeadSizeLimit() // the group ticker; limit 1: rotates iff the head file is non-empty on disk
			if g.MaxIndex() > before {
				m.rotations++
				m.headEmpty = true
			}
		}
	}
	open := func() *consensus.BaseWAL {
		wal, err := consensus.VerifC15NewWALHooked(path, hook, auto.GroupHeadSizeLimit(1), auto.GroupCheckDuration(time.Hour))
		if err != nil {
			out("harness", "NewWAL: "+err.Error())
			return nil
		}
		wal.SetFlushInterval(time.Hour)
		if err := wal.Start(); err != nil {
			out("wal-start", "Start: "+err.Error())
			quietStop(wal, false)
			return nil
		}
		return wal
	}
	wal := open()
	if wal == nil {
		return
	}
	m.started(true)
	for i := 0; i < len(hist); i++ {
		var err error
		switch hist[i] {
		case 'M':
			msg := tokens[lifeMsgs[m.nMsg%len(lifeMsgs)]].msg
			if m.nMsg%2 == 0 {
				err = wal.Write(msg)
			} else {
				err = wal.WriteSync(msg)
			}
			m.nMsg++
			m.recs = append(m.recs, consensus.TimedWALMessage{Time: tClock, Msg: msg})
		case 'E':
			m.h++
			err = wal.WriteSync(consensus.EndHeightMessage{Height: m.h})
			m.recs = append(m.recs, consensus.TimedWALMessage{Time: tClock, Msg: consensus.EndHeightMessage{Height: m.h}})
		case 'R':
			if err = wal.FlushAndSync(); err == nil {
				before := wal.Group().MaxIndex()
				wal.Group().VerifC15CheckHeadSizeLimit()
				if wal.Group().MaxIndex() > before {
					m.rotations++
					m.headEmpty = true
				}
			}
		case 'S':
			quietStop(wal, true)
			m.restarts++
			// OnStart writes EndHeight 0 iff the head file is empty: observed on disk, not modelled
			was := true
			if fi, serr := os.Stat(path); serr == nil && fi.Size() > 0 {
				was = false
			}
			if wal = open(); wal == nil {
				return
			}
			m.started(was)
		}
		if err == nil {
			err = tickErr
		}
		if err != nil {
			out("wal-write", fmt.Sprintf("operation %d (%c): %v", i, hist[i], err))
			quietStop(wal, true)
			return
		}
	}
	defer quietStop(wal, true)
	if err := wal.FlushAndSync(); err != nil {
		out("wal-write", "final flush: "+err.Error())
		return
	}
	li.rotations, li.restarts, li.emptyHeadRestart = m.rotations, m.restarts, m.emptyHeadRestart
	lc, err := buildLogMsgs(m.recs, "history:"+hist)
	if err != nil {
		out("harness", err.Error())
		return
	}
	g := wal.Group()
	sizes, all := readGroupFiles(path, g.MaxIndex())
	li.files = fmt.Sprint(sizes)
	li.writes = len(cum)
	onBoundary := map[int]bool{}
	for _, o := range lc.off {
		onBoundary[o] = true
	}
	for k, c := range cum {
		if !onBoundary[c] {
			li.midRecord = append(li.midRecord, k)
			if tickAt[k] != 0 {
				li.tickMidRecord = true
			}
		}
	}
	if !bytes.Equal(all, lc.W) {
		out("rotation-bytes", fmt.Sprintf("files %v concatenate to %d bytes that differ from the %d bytes of the %d records written", sizes, len(all), len(lc.W), lc.n()))
	}
	checkFileFrames(lc, path, g.MaxIndex(), out)
	gr, err := g.NewReader(g.MinIndex())
	if err != nil {
		out("harness", "NewReader: "+err.Error())
		return
	}
	ci := corr{Kind: "clean"}.info(lc)
	o := checkStream(lc, gr, len(lc.W), &ci, func(oracle, what string) {
		if oracle == "clean-roundtrip" {
			oracle = "rotation-roundtrip"
		}
		out(oracle, fmt.Sprintf("files %v: %s", sizes, what))
	})
	gr.Close()
	occ, _ := endHeights(m.recs)
	for h := int64(-1); h <= m.h+1; h++ {
		for _, ign := range []bool{false, true} {
			if ign && !o.reachedEnd {
				continue
			}
			// heights are written in increasing order (EndHeight 0 only by OnStart): found iff written
			checkSearch(wal, lc, occ, true, true, h, ign, st, func(oracle, what string) {
				out(oracle, fmt.Sprintf("files %v, records %s: %s", sizes, describeRecs(m.recs), what))
			})
		}
	}
	return
}

// describeRecs: "EH0 EH1 m m EH2 | ..." without file boundaries (those are in the sizes list).
func describeRecs(recs []consensus.TimedWALMessage) string {
	var s []string
	for i := range recs {
		if e, ok := recs[i].Msg.(consensus.EndHeightMessage); ok {
			s = append(s, fmt.Sprintf("EH%d", e.Height))
		} else {
			s = append(s, "m")
		}
	}
	return strings.Join(s, " ")
}

func lifeClass(li lifeInfo) string {
	if li.tickMidRecord {
		return "rotation-between-writes-of-one-record"
	}
	if li.emptyHeadRestart {
		return "log-with-restart-on-empty-head"
	}
	return "rotation"
}

// lifeHistoriesAll: every history of length 1..depth with <= 2 restarts (no rotation required: the
// ticks of the schedule rotate).
func lifeHistoriesAll(depth int) []string {
	var out []string
	var rec func(prefix []byte, headEmpty bool, rst int)
	rec = func(prefix []byte, headEmpty bool, rst int) {
		if len(prefix) > 0 {
			out = append(out, string(prefix))
		}
		if len(prefix) == depth {
			return
		}
		for _, op := range []byte("MERS") {
			switch op {
			case 'M', 'E':
				rec(append(prefix, op), false, rst)
			case 'R':
				if !headEmpty {
					rec(append(prefix, op), true, rst)
				}
			case 'S':
				if rst < 2 {
					rec(append(prefix, op), false, rst+1)
				}
			}
		}
	}
	rec(nil, false, 0)
	var sorted []string
	for l := 1; l <= depth; l++ {
		for _, h := range out {
			if len(h) == l {
				sorted = append(sorted, h)
			}
		}
	}
	return sorted
}

// runLife executes one (history, tick schedule), reports, and returns what the explorer needs.
func runLife(hist string, ticks []int) lifeInfo {
	dir := dirPool.Get().(string)
	var st searchStats
	type pend struct{ oracle, what string }
	var pending []pend
	li := checkLife(hist, ticks, dir, &st, func(oracle, what string) { pending = append(pending, pend{oracle, what}) })
	dirPool.Put(dir)
	for _, p := range pending {
		reportViolation(sig(lifeClass(li), p.oracle, "group"), fmt.Sprintf("history %s ticks %s: %s", hist, describeTicks(ticks), p.what),
			caseSpec{Phase: "lives", History: hist, Ticks: append([]int{}, ticks...)})
	}
	r.Add("multi_life_runs", 1)
	if len(ticks) > 0 {
		r.Add("multi_life_runs_with_ticks", 1)
		r.Add("multi_life_ticks_executed", int64(len(ticks)))
	}
	if li.tickMidRecord {
		r.Add("multi_life_runs_with_tick_inside_a_record", 1)
	}
	r.Max("multi_life_max_underlying_writes", int64(li.writes))
	if li.restarts > 0 {
		r.Add("multi_life_histories_with_restart", 1)
	}
	if li.emptyHeadRestart {
		r.Add("multi_life_histories_with_restart_on_empty_head", 1)
	}
	r.Add("searches", st.searches)
	r.Add("searches_multi_life", st.searches)
	r.Add("searches_found", st.found)
	r.Add("searches_not_found", st.notFound)
	if li.files != "" {
		r.Distinct("distinct_nontrivial", fmt.Sprintf("life|%s|%d|%d", li.files, li.restarts, st.found))
		r.Distinct("multi_life_distinct_layouts", li.files)
	}
	if li.emptyHeadRestart && len(hist) == 5 && len(ticks) == 0 && strings.HasPrefix(hist, "EMR") && wantSample("lives", 1) {
		r.Sample(map[string]interface{}{"via": "BaseWAL multi-life history", "history": hist, "file_sizes": li.files, "rotations": li.rotations, "restarts": li.restarts,
			"restart_on_empty_head": li.emptyHeadRestart, "underlying_writes": li.writes, "searches": st.searches, "found": st.found, "not_found": st.notFound})
	}
	if len(ticks) == 2 && len(hist) == 3 && strings.HasPrefix(hist, "ES") && wantSample("lives-ticks", 1) {
		r.Sample(map[string]interface{}{"via": "BaseWAL multi-life history under a tick schedule", "history": hist, "ticks_after_underlying_writes": ticks, "file_sizes": li.files,
			"rotations": li.rotations, "underlying_writes": li.writes, "writes_ending_inside_a_record": len(li.midRecord), "searches": st.searches, "found": st.found})
	}
	return li
}

// exploreTicks runs every extension of the schedule `ticks` (which was just executed and issued
// `writes` underlying writes) by later tick positions taken from cand (nil: every write index).
func exploreTicks(hist string, ticks []int, writes int, onlyMid bool, maxTicks int) {
	if len(ticks) >= maxTicks {
		return
	}
	lo := 0
	if len(ticks) > 0 {
		lo = ticks[len(ticks)-1]/2 + 1
	}
	for k := lo; k < writes; k++ {
		for kind := 0; kind < 2; kind++ {
			next := append(append([]int{}, ticks...), 2*k+kind)
			li := runLife(hist, next)
			exploreTicks(hist, next, li.writes, onlyMid, maxTicks)
		}
	}
}

func livesPhase(depth, tickDepth, maxTicks int) {
	hists := lifeHistories(depth)
	r.Set("multi_life_history_depth", depth)
	r.Set("multi_life_tick_history_depth", tickDepth)
	r.Set("multi_life_max_ticks", maxTicks)
	done := par.For(int64(len(hists)), 4, phaseExpired, func(i int64) {
		li := runLife(hists[i], nil)
		r.Add("multi_life_histories", 1)
		// ticks that land INSIDE a record are explored for every history (none exist while the encoder
		// issues one write per record)
		exploreMid(hists[i], nil, li, maxTicks)
	})
	if done < int64(len(hists)) {
		r.NotExhaustive(fmt.Sprintf("multi-life phase: deadline after %d of %d histories", done, len(hists)))
	}
	// every tick schedule (any underlying write, also between records) for the short histories
	short := lifeHistoriesAll(tickDepth)
	done = par.For(int64(len(short)), 2, phaseExpired, func(i int64) {
		li := runLife(short[i], nil)
		r.Add("multi_life_tick_histories", 1)
		exploreTicks(short[i], nil, li.writes, false, maxTicks)
	})
	if done < int64(len(short)) {
		r.NotExhaustive(fmt.Sprintf("multi-life tick phase: deadline after %d of %d histories", done, len(short)))
	}
}

// exploreMid extends the schedule only by writes that ended inside a record.
func exploreMid(hist string, ticks []int, parent lifeInfo, maxTicks int) {
	if len(ticks) >= maxTicks {
		return
	}
	lo := 0
	if len(ticks) > 0 {
		lo = ticks[len(ticks)-1]/2 + 1
	}
	for _, k := range parent.midRecord {
		if k < lo {
			continue
		}
		for kind := 0; kind < 2; kind++ {
			next := append(append([]int{}, ticks...), 2*k+kind)
			li := runLife(hist, next)
			exploreMid(hist, next, li, maxTicks)
		}
	}
}

func describeTicks(ticks []int) string {
	if len(ticks) == 0 {
		return "none"
	}
	var p []string
	for _, t := range ticks {
		p = append(p, fmt.Sprintf("%s after underlying write %d", map[int]string{0: "flush+size-check", 1: "size-check only"}[t%2], t/2))
	}
	return strings.Join(p, ", ")
}
