package main

import (
	"bytes"
	"fmt"
	"os"
	"path/filepath"
	"runtime/debug"
	"strings"
	"time"

	"github.com/kardiachain/go-kardia/consensus"
	auto "github.com/kardiachain/go-kardia/lib/autofile"

	"verif/mc/par"
)

// Multi-life histories of a real BaseWAL over a real autofile.Group. Alphabet:
//
//	M  write a non-marker message (Write / WriteSync alternating; timeout, vote, proposal in turn)
//	E  WriteSync(EndHeightMessage{h}) for the next height h = 1, 2, 3, ...
//	R  the head-size limit is reached: flush, then the group's own head-size check (limit 1 byte, so
//	   it rotates iff the head is non-empty; R is only enumerated when something was written since
//	   the last rotation)
//	S  Stop + Wait, then a new BaseWAL on the same directory and Start (OnStart writes
//	   EndHeightMessage{0} iff the head file is empty, i.e. also right after a rotation)
//
// Reference = the list of records written (the checker's own model of the four operations). After
// every history: the group's files concatenate to exactly those records; reading from the first file
// returns them all; SearchForEndHeight(h) for EVERY h in -1..hmax+1, with IgnoreDataCorruptionErrors
// both ways, reports found iff an EndHeightMessage{h} is in the list, and the returned reader yields
// exactly the records after (an occurrence of) that marker, then end-of-log.

var lifeMsgs = []int{4, 11, 8} // TOmax, VOnil, PRmax

type lifeModel struct {
	recs             []consensus.TimedWALMessage
	headEmpty        bool
	h                int64
	nMsg             int
	rotations        int
	restarts         int
	emptyHeadRestart bool // some restart found an empty head after >= 1 rotation
}

func (m *lifeModel) start() {
	if m.headEmpty {
		if m.rotations > 0 && m.restarts > 0 {
			m.emptyHeadRestart = true
		}
		m.recs = append(m.recs, consensus.TimedWALMessage{Time: tClock, Msg: consensus.EndHeightMessage{Height: 0}})
		m.headEmpty = false
	}
}

// lifeHistories enumerates every history of length 1..depth with >= 1 rotation and <= 2 restarts.
func lifeHistories(depth int) []string {
	var out []string
	var rec func(prefix []byte, headEmpty bool, rot, rst int)
	rec = func(prefix []byte, headEmpty bool, rot, rst int) {
		if len(prefix) > 0 && rot > 0 {
			out = append(out, string(prefix))
		}
		if len(prefix) == depth {
			return
		}
		for _, op := range []byte("MERS") {
			switch op {
			case 'M', 'E':
				rec(append(prefix, op), false, rot, rst)
			case 'R':
				if !headEmpty {
					rec(append(prefix, op), true, rot+1, rst)
				}
			case 'S':
				if rst < 2 {
					rec(append(prefix, op), false, rot, rst+1) // Start fills an empty head with EndHeight 0
				}
			}
		}
	}
	rec(nil, false, 0, 0) // the first Start wrote EndHeight 0
	// shortest first, so the first counterexample is the smallest
	var sorted []string
	for l := 1; l <= depth; l++ {
		for _, h := range out {
			if len(h) == l {
				sorted = append(sorted, h)
			}
		}
	}
	return sorted
}

type lifeInfo struct {
	files            string
	rotations        int
	restarts         int
	emptyHeadRestart bool
}

func checkLife(hist string, dir string, st *searchStats, out sink) (li lifeInfo) {
	os.RemoveAll(dir)
	os.MkdirAll(dir, 0o700)
	path := filepath.Join(dir, "wal")
	defer func() {
		if p := recover(); p != nil {
			out("panic", fmt.Sprintf("BaseWAL panicked: %v\n%s", p, debug.Stack()))
		}
	}()
	open := func() *consensus.BaseWAL {
		wal, err := consensus.NewWAL(path, auto.GroupHeadSizeLimit(1), auto.GroupCheckDuration(time.Hour))
		if err != nil {
			out("harness", "NewWAL: "+err.Error())
			return nil
		}
		wal.SetFlushInterval(time.Hour)
		if err := wal.Start(); err != nil {
			out("wal-start", "Start: "+err.Error())
			quietStop(wal, false)
			return nil
		}
		return wal
	}
	m := &lifeModel{headEmpty: true}
	wal := open()
	if wal == nil {
		return
	}
	m.start()
	for i := 0; i < len(hist); i++ {
		var err error
		switch hist[i] {
		case 'M':
			msg := tokens[lifeMsgs[m.nMsg%len(lifeMsgs)]].msg
			if m.nMsg%2 == 0 {
				err = wal.Write(msg)
			} else {
				err = wal.WriteSync(msg)
			}
			m.nMsg++
			m.recs = append(m.recs, consensus.TimedWALMessage{Time: tClock, Msg: msg})
			m.headEmpty = false
		case 'E':
			m.h++
			err = wal.WriteSync(consensus.EndHeightMessage{Height: m.h})
			m.recs = append(m.recs, consensus.TimedWALMessage{Time: tClock, Msg: consensus.EndHeightMessage{Height: m.h}})
			m.headEmpty = false
		case 'R':
			if err = wal.FlushAndSync(); err == nil {
				wal.Group().VerifC15CheckHeadSizeLimit()
			}
			if !m.headEmpty {
				m.rotations++
				m.headEmpty = true
			}
		case 'S':
			quietStop(wal, true)
			m.restarts++
			if wal = open(); wal == nil {
				return
			}
			m.start()
		}
		if err != nil {
			out("wal-write", fmt.Sprintf("operation %d (%c): %v", i, hist[i], err))
			quietStop(wal, true)
			return
		}
	}
	defer quietStop(wal, true)
	if err := wal.FlushAndSync(); err != nil {
		out("wal-write", "final flush: "+err.Error())
		return
	}
	li.rotations, li.restarts, li.emptyHeadRestart = m.rotations, m.restarts, m.emptyHeadRestart
	lc, err := buildLogMsgs(m.recs, "history:"+hist)
	if err != nil {
		out("harness", err.Error())
		return
	}
	g := wal.Group()
	sizes, all := readGroupFiles(path, g.MaxIndex())
	li.files = fmt.Sprint(sizes)
	if !bytes.Equal(all, lc.W) {
		out("rotation-bytes", fmt.Sprintf("files %v concatenate to %d bytes that differ from the %d bytes of the %d records written", sizes, len(all), len(lc.W), lc.n()))
	}
	gr, err := g.NewReader(g.MinIndex())
	if err != nil {
		out("harness", "NewReader: "+err.Error())
		return
	}
	ci := corr{Kind: "clean"}.info(lc)
	o := checkStream(lc, gr, len(lc.W), &ci, func(oracle, what string) {
		if oracle == "clean-roundtrip" {
			oracle = "rotation-roundtrip"
		}
		out(oracle, fmt.Sprintf("files %v: %s", sizes, what))
	})
	gr.Close()
	occ, _ := endHeights(m.recs)
	for h := int64(-1); h <= m.h+1; h++ {
		for _, ign := range []bool{false, true} {
			if ign && !o.reachedEnd {
				continue
			}
			// heights are written in increasing order (EndHeight 0 only by OnStart): found iff written
			checkSearch(wal, lc, occ, true, true, h, ign, st, func(oracle, what string) {
				out(oracle, fmt.Sprintf("files %v, records %s: %s", sizes, describeRecs(m.recs), what))
			})
		}
	}
	return
}

// describeRecs: "EH0 EH1 m m EH2 | ..." without file boundaries (those are in the sizes list).
func describeRecs(recs []consensus.TimedWALMessage) string {
	var s []string
	for i := range recs {
		if e, ok := recs[i].Msg.(consensus.EndHeightMessage); ok {
			s = append(s, fmt.Sprintf("EH%d", e.Height))
		} else {
			s = append(s, "m")
		}
	}
	return strings.Join(s, " ")
}

func lifeClass(li lifeInfo) string {
	if li.emptyHeadRestart {
		return "log-with-restart-on-empty-head"
	}
	return "rotation"
}

func livesPhase(depth int) {
	hists := lifeHistories(depth)
	r.Set("multi_life_history_depth", depth)
	done := par.For(int64(len(hists)), 4, phaseExpired, func(i int64) {
		hist := hists[i]
		dir := dirPool.Get().(string)
		var st searchStats
		type pend struct{ oracle, what string }
		var pending []pend
		li := checkLife(hist, dir, &st, func(oracle, what string) { pending = append(pending, pend{oracle, what}) })
		dirPool.Put(dir)
		for _, p := range pending {
			reportViolation(sig(lifeClass(li), p.oracle, "group"), "history "+hist+": "+p.what, caseSpec{Phase: "lives", History: hist})
		}
		r.Add("multi_life_histories", 1)
		if li.restarts > 0 {
			r.Add("multi_life_histories_with_restart", 1)
		}
		if li.emptyHeadRestart {
			r.Add("multi_life_histories_with_restart_on_empty_head", 1)
		}
		r.Add("searches", st.searches)
		r.Add("searches_multi_life", st.searches)
		r.Add("searches_found", st.found)
		r.Add("searches_not_found", st.notFound)
		if li.files != "" {
			r.Distinct("distinct_nontrivial", fmt.Sprintf("life|%s|%d|%d", li.files, li.restarts, st.found))
			r.Distinct("multi_life_distinct_layouts", li.files)
		}
		if li.emptyHeadRestart && len(hist) == 5 && strings.HasPrefix(hist, "EMR") && wantSample("lives", 1) {
			r.Sample(map[string]interface{}{"via": "BaseWAL multi-life history", "history": hist, "file_sizes": li.files, "rotations": li.rotations, "restarts": li.restarts,
				"restart_on_empty_head": li.emptyHeadRestart, "searches": st.searches, "found": st.found, "not_found": st.notFound})
		}
	})
	if done < int64(len(hists)) {
		r.NotExhaustive(fmt.Sprintf("multi-life phase: deadline after %d of %d histories", done, len(hists)))
	}
}
