package main

import (
	"errors"
	"fmt"
	"io"
	"runtime/debug"
	"strings"
	"sync"
	"sync/atomic"

	"github.com/kardiachain/go-kardia/consensus"
)

// sink receives (oracle id, description) of a violated oracle for the case being executed.
type sink func(oracle, what string)

// caseSpec is a replayable case.
type caseSpec struct {
	Phase      string `json:"phase"` // plain | alloc | repair | group-write | group-read | sizelimit
	Tokens     []int  `json:"tokens,omitempty"`
	TokenNames string `json:"token_names,omitempty"`
	Corr       *corr  `json:"corruption,omitempty"`
	Limit      int64  `json:"head_size_limit,omitempty"`
	Pattern    []int  `json:"rotate_after_records,omitempty"`
	Base       int    `json:"oldest_file_index,omitempty"` // group-index-base: index of the oldest rolled file
	PayloadLen int    `json:"payload_len,omitempty"`
	Mode       string `json:"repair_mode,omitempty"`     // fresh | in-place | over-existing
	Ticks      []int  `json:"tick_schedule,omitempty"`   // 2*(index of underlying write)+kind; kind 0 flush+size-check, 1 size-check only
	SizeClass  int    `json:"big_frame_class,omitempty"` // bigbuf: index into bigFrameClasses
	History    string `json:"history,omitempty"`         // lives: M write msg, E write next EndHeight, R rotate, S stop+restart
}

// family coarsens a corruption class for signatures: one defect should give a handful of signatures.
func family(class string) string {
	switch {
	case strings.HasPrefix(class, "payload="):
		return "payload-size-at-limit"
	case strings.HasPrefix(class, "truncation-"):
		return "truncation"
	case strings.HasPrefix(class, "length="):
		return "length-field"
	case strings.HasPrefix(class, "crc="):
		return "crc-field"
	case strings.HasPrefix(class, "garbage-suffix="):
		return "garbage-suffix"
	}
	return class
}

func sig(class, oracle, via string) string {
	class = family(class)
	if strings.HasPrefix(oracle, "search-") {
		if class == "clean" || class == "rotation" {
			class = "undamaged-log"
		} else if class == "log-with-restart-on-empty-head" || class == "rotation-between-writes-of-one-record" || class == "rotation-with-buffered-writes" {
			// kept: an undamaged multi-life log in which a restart found an empty head after a rotation
		} else {
			class = "damaged-log"
		}
	}
	return "C15|input-class=" + class + "|oracle=" + oracle + "|via=" + via
}

var seenSig sync.Map

// reportViolation confirms the first occurrence of a signature by re-executing the stored case five
// times; later occurrences are only counted.
func reportViolation(s, what string, spec caseSpec) {
	if _, dup := seenSig.LoadOrStore(s, true); dup {
		r.Violation(s, what, spec)
		return
	}
	r.ViolationConfirmed(s, what, spec, func() string {
		got := runSpec(spec)
		for _, g := range got {
			if g.sig == s {
				return s
			}
		}
		var ss []string
		for _, g := range got {
			ss = append(ss, g.sig)
		}
		return "rerun gave [" + strings.Join(ss, "; ") + "]"
	})
}

const (
	ecEOF     = 'E' // io.EOF / io.ErrUnexpectedEOF
	ecCorrupt = 'C' // DataCorruptionError
	ecOther   = 'X'
	ecPanic   = 'P'
)

func classify(err error) byte {
	switch {
	case errors.Is(err, io.EOF), errors.Is(err, io.ErrUnexpectedEOF):
		return ecEOF
	case consensus.IsDataCorruptionError(err):
		return ecCorrupt
	}
	return ecOther
}

type streamOutcome struct {
	j          int  // messages returned before the first error
	ec         byte // class of the first error
	skipped    int  // messages returned after corruption errors (skip mode)
	firstErr   string
	reachedEnd bool // some Decode call reported end-of-log (searching with IgnoreDataCorruptionErrors terminates)
	extraUsed  bool // the zero-tailed truncated copy appended as garbage was completed (see corrInfo.extra)
}

// checkStream reads a (possibly corrupted) log through the real WALDecoder and applies the oracle:
// the messages before the first error are exactly the first j written messages, unchanged; the error
// is end-of-log or a DataCorruptionError; intact leading records are not lost; a corruption that is
// not a pure truncation is reported at the record it hit. It then keeps calling Decode after
// corruption errors (what SearchForEndHeight does with IgnoreDataCorruptionErrors) and requires every
// further message to be a later written message, in order, until end-of-log.
func checkStream(lc *logCase, rd io.Reader, clen int, ci *corrInfo, out sink) (o streamOutcome) {
	n := lc.n()
	defer func() {
		if p := recover(); p != nil {
			o.ec = ecPanic
			out("panic", fmt.Sprintf("Decode panicked after %d messages: %v\n%s", o.j, p, debug.Stack()))
		}
	}()
	dec := consensus.NewWALDecoder(rd)
	var err error
	for {
		var m *consensus.TimedWALMessage
		m, err = dec.Decode()
		if err != nil {
			break
		}
		if m == nil {
			out("nil-message", fmt.Sprintf("Decode #%d returned (nil, nil)", o.j))
			return
		}
		if o.j >= n && ci.extra != nil && !o.extraUsed && eqTimed(m, ci.extra) {
			o.extraUsed = true
			continue
		}
		if o.j >= n {
			out("different-message", fmt.Sprintf("Decode returned a message beyond the %d written: %s", n, canonTimed(m)))
			return
		}
		if !eqTimed(m, &lc.recs[o.j]) {
			out("different-message", fmt.Sprintf("message #%d read back as %s, written as %s", o.j, canonTimed(m), canonTimed(&lc.recs[o.j])))
			return
		}
		o.j++
	}
	o.ec = classify(err)
	o.reachedEnd = o.ec == ecEOF
	o.firstErr = err.Error()
	if o.ec == ecOther {
		out("error-kind", fmt.Sprintf("after %d messages Decode returned %T %q, neither end-of-log nor DataCorruptionError", o.j, err, err.Error()))
		return
	}
	if ci.clean {
		if o.j != n || o.ec != ecEOF {
			out("clean-roundtrip", fmt.Sprintf("an uncorrupted log of %d records read back %d messages then %q", n, o.j, err.Error()))
		}
		return
	}
	if o.j < ci.kStrict {
		out("lost-intact-record", fmt.Sprintf("%d leading records are untouched, but only %d messages were returned before %q", ci.kStrict, o.j, err.Error()))
	}
	if o.j > ci.kStrict && !ci.trunc {
		out("undetected-corruption", fmt.Sprintf("record #%d was damaged, yet %d messages were returned before %q", ci.kStrict, o.j, err.Error()))
	}
	// skip mode
	next := o.j
	iter := 0
	limit := clen + 16
	last := o.ec
	for last == ecCorrupt && iter < limit {
		iter++
		m, err := dec.Decode()
		if err != nil {
			last = classify(err)
			if last == ecOther {
				out("error-kind", fmt.Sprintf("Decode after a corruption error returned %T %q", err, err.Error()))
				return
			}
			continue
		}
		found := -1
		for q := next; q < n; q++ {
			if eqTimed(m, &lc.recs[q]) {
				found = q
				break
			}
		}
		if found < 0 {
			out("different-message-after-skip", fmt.Sprintf("after skipping a corruption error Decode returned %s, which is not a later written message", canonTimed(m)))
			return
		}
		next = found + 1
		o.skipped++
		last = ecCorrupt // keep going until end-of-log
	}
	o.reachedEnd = last == ecEOF
	if last == ecCorrupt && iter >= limit {
		out("no-end-of-log", fmt.Sprintf("%d Decode calls on %d bytes never reached end-of-log", iter, clen))
	}
	return
}

var sampleCount sync.Map

// wantSample hands out at most max samples per source so that the evidence shows every phase.
func wantSample(source string, max int32) bool {
	v, _ := sampleCount.LoadOrStore(source, new(int32))
	return atomic.AddInt32(v.(*int32), 1) <= max
}
