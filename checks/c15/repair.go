package main

import (
	"bytes"
	"fmt"
	"os"
	"path/filepath"
	"runtime/debug"
	"sync"
	"sync/atomic"

	"github.com/kardiachain/go-kardia/consensus"
	kos "github.com/kardiachain/go-kardia/lib/os"

	"verif/mc/par"
)

var tmpBase string
var dirSeq int64

func initTemp() {
	for _, cand := range []string{os.Getenv("VERIF_TMP"), "/dev/shm", os.TempDir()} {
		if cand == "" {
			continue
		}
		if d, err := os.MkdirTemp(cand, "verif-c15-"); err == nil {
			tmpBase = d
			return
		}
	}
	fmt.Println("MACHINERY-ERROR property=C15 cannot create a private temp directory")
	os.Exit(2)
}

func cleanupTemp() {
	if tmpBase != "" {
		os.RemoveAll(tmpBase)
	}
}

// newDir makes a fresh private directory under the checker's temp dir.
func newDir() string {
	d := filepath.Join(tmpBase, fmt.Sprintf("d%d", atomic.AddInt64(&dirSeq, 1)))
	if err := os.MkdirAll(d, 0o700); err != nil {
		fmt.Println("MACHINERY-ERROR property=C15 mkdir:", err)
		os.Exit(2)
	}
	return d
}

var dirPool = sync.Pool{New: func() interface{} { return newDir() }}

// Repair modes. "fresh": destination does not exist. "in-place": exactly what ConsensusState.OnStart
// does — the corrupted log IS <dir>/wal, it is copied to <dir>/wal.CORRUPTED with the repository's
// kos.CopyFile and repaired back over the existing (longer) <dir>/wal. "over-existing": the destination
// pre-exists with unrelated, longer content.
var repairModes = []string{"fresh", "in-place", "over-existing"}

func repairOracle(mode string) string {
	switch mode {
	case "in-place":
		return "repair-in-place-longest-valid-prefix"
	case "over-existing":
		return "repair-over-existing-longest-valid-prefix"
	}
	return "repair-longest-valid-prefix"
}

// checkRepair runs the real repairWalFile on the corrupted bytes C and compares the resulting WAL file
// with the longest valid prefix: the first k written records, byte-exact, where k is the number of
// wholly intact leading records (for a pure truncation k may be larger when the decoder legitimately
// completed a record whose missing tail was all zero bytes; nothing but written records is accepted).
// The resulting file must also decode to exactly those k messages followed by end-of-log.
func checkRepair(lc *logCase, C []byte, ci *corrInfo, mode, dir string, out sink) (kept int) {
	src, dst := filepath.Join(dir, "wal.CORRUPTED"), filepath.Join(dir, "wal")
	oracle := repairOracle(mode)
	switch mode {
	case "in-place":
		os.Remove(src)
		if err := os.WriteFile(dst, C, 0o600); err != nil {
			out("harness", err.Error())
			return -1
		}
		if err := kos.CopyFile(dst, src); err != nil {
			out("harness", "CopyFile: "+err.Error())
			return -1
		}
	default:
		if err := os.WriteFile(src, C, 0o600); err != nil {
			out("harness", err.Error())
			return -1
		}
		os.Remove(dst)
		if mode == "over-existing" {
			if err := os.WriteFile(dst, bytes.Repeat([]byte{0x5a, 0xc3, 0x00, 0x7e}, (len(C)+len(lc.W))/4+24), 0o600); err != nil {
				out("harness", err.Error())
				return -1
			}
		}
	}
	var err error
	var perr interface{}
	func() {
		defer func() {
			if perr = recover(); perr != nil {
				perr = fmt.Sprintf("%v\n%s", perr, debug.Stack())
			}
		}()
		err = consensus.VerifC15RepairWalFile(src, dst)
	}()
	if perr != nil {
		out("panic", fmt.Sprintf("repairWalFile panicked: %v", perr))
		return -1
	}
	if err != nil {
		out("repair-error", "repairWalFile returned "+err.Error())
		return -1
	}
	got, err := os.ReadFile(dst)
	if err != nil {
		out("repair-error", "repaired file unreadable: "+err.Error())
		return -1
	}
	if ci.extra != nil && bytes.Equal(got, append(append([]byte{}, lc.W...), ci.extraBytes...)) {
		return lc.n() + 1 // completed the zero-tailed truncated copy (see corrInfo.extra)
	}
	kept = -1
	for k := 0; k <= lc.n(); k++ {
		if len(got) == lc.off[k] {
			kept = k
		}
	}
	if kept < 0 || !bytes.Equal(got, lc.W[:lc.off[kept]]) {
		nmsg, ec := decodeCount(got)
		out(oracle, fmt.Sprintf("not a prefix: the repaired WAL (%d bytes; source %d bytes) is not a whole-record prefix of the written log (boundaries %v); reading it gives %d messages then %s",
			len(got), len(C), lc.off, nmsg, ec))
		return -1
	}
	hi := ci.kStrict
	if ci.trunc {
		hi = lc.n()
	}
	if kept < ci.kStrict {
		out(oracle, fmt.Sprintf("lost a valid record: %d leading records are intact, the repaired file keeps %d", ci.kStrict, kept))
	} else if kept > hi {
		out(oracle, fmt.Sprintf("kept a damaged record: record #%d was damaged, the repaired file keeps %d records", ci.kStrict, kept))
	}
	// the repaired WAL must read back cleanly: exactly the kept messages, then end-of-log
	sub := &logCase{recs: lc.recs[:kept], W: got, off: lc.off[:kept+1], name: lc.name, shape: lc.shape}
	cci := corrInfo{class: "clean", rec: kept, kStrict: kept, clean: true}
	checkStream(sub, bytes.NewReader(got), len(got), &cci, func(o, what string) {
		out(oracle, "the repaired WAL does not read back cleanly ("+o+"): "+what)
	})
	return kept
}

// decodeCount reads bytes through the real decoder: messages before the first error and its class.
func decodeCount(b []byte) (n int, ec string) {
	defer func() {
		if p := recover(); p != nil {
			ec = "panic"
		}
	}()
	dec := consensus.NewWALDecoder(bytes.NewReader(b))
	for {
		_, err := dec.Decode()
		if err != nil {
			switch classify(err) {
			case ecEOF:
				return n, "end-of-log"
			case ecCorrupt:
				return n, "a corruption error"
			}
			return n, "error " + err.Error()
		}
		n++
		if n > len(b) {
			return n, "no end"
		}
	}
}

// repairLog runs the corruptions of one log through repairWalFile. full=false keeps one bit flip per byte.
func repairLog(lc *logCase, full bool, dir string) {
	var cur corr
	var ci corrInfo
	nviol := 0
	mode := "fresh"
	badMode := map[string]bool{} // modes whose undamaged case already fails: their corruptions would only repeat that
	out := func(oracle, what string) {
		nviol++
		if ci.clean {
			badMode[mode] = true
		}
		cc := cur
		reportViolation(sig(ci.class, oracle, "repair"), lc.name+": "+cur.String()+" ("+mode+" repair): "+what, caseSpec{Phase: "repair", Tokens: lc.toks, TokenNames: lc.name, Corr: &cc, Mode: mode})
	}
	var evals int64
	local := map[dkey]struct{}{}
	run := func(c corr) {
		C, info := c.apply(lc)
		if info.trivial {
			return
		}
		cur, ci = c, info
		for mi, m := range repairModes {
			if badMode[m] {
				continue
			}
			if m != "in-place" && c.Kind == "flip" && c.Bit != c.Off%8 {
				continue // fresh / over-existing destinations: one flip per byte; the production (in-place) path gets all eight
			}
			mode = m
			k := checkRepair(lc, C, &ci, m, dir, out)
			evals++
			local[dkey{ci.class, ci.rec, k, byte('R' + mi)}] = struct{}{}
		}
		mode = "fresh"
	}
	run(corr{Kind: "clean"})
	if len(badMode) == len(repairModes) {
		return
	}
	for t := 0; t < len(lc.W); t++ {
		run(corr{Kind: "trunc", Off: t})
	}
	for b := 0; b < len(lc.W); b++ {
		if full {
			for bit := 0; bit < 8; bit++ {
				run(corr{Kind: "flip", Off: b, Bit: bit})
			}
		} else {
			run(corr{Kind: "flip", Off: b, Bit: b % 8})
		}
	}
	for _, c := range fieldCorrs(lc, true) {
		run(c)
	}
	r.Add("evaluations", evals)
	r.Add("evaluations_repair", evals)
	for k := range local {
		r.Distinct("distinct_nontrivial", fmt.Sprintf("%s|%s|r%d|kept%d|%s", lc.shape, k.class, k.rec, k.j, repairModes[k.ec-'R']))
		r.Distinct("repair_distinct_outcomes", fmt.Sprintf("%s|r%d|kept%d|%s", k.class, k.rec, k.j, repairModes[k.ec-'R']))
	}
	if lc.n() == 2 && lc.toks[0] == 8 && wantSample("repair", 1) {
		c := corr{Kind: "len", Rec: 1, Name: "len+1"}
		C, info := c.apply(lc)
		k := checkRepair(lc, C, &info, "in-place", dir, func(string, string) {})
		r.Sample(map[string]interface{}{"log": lc.name, "corruption": c.String(), "via": "repairWalFile in place (wal -> wal.CORRUPTED -> wal, as OnStart)", "corrupted_bytes": len(C), "records_kept": k, "bytes_kept": lc.off[clampK(k, lc.n())]})
	}
}

func max0(k int) int {
	if k < 0 {
		return 0
	}
	return k
}

func repairPhase(logs [][]int, full bool) {
	done := par.For(int64(len(logs)), 1, phaseExpired, func(i int64) {
		lc, err := buildLog(logs[i])
		if err != nil {
			return
		}
		dir := dirPool.Get().(string)
		repairLog(lc, full, dir)
		dirPool.Put(dir)
		r.Add("repair_logs", 1)
	})
	if done < int64(len(logs)) {
		r.NotExhaustive(fmt.Sprintf("repair phase: deadline after %d of %d logs", done, len(logs)))
	}
}

func clampK(k, n int) int {
	if k < 0 {
		return 0
	}
	if k > n {
		return n
	}
	return k
}
