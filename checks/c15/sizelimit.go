package main

import (
	"bytes"
	"fmt"
	"strings"
	"sync"

	"github.com/gogo/protobuf/proto"
	"github.com/kardiachain/go-kardia/consensus"
	kcons "github.com/kardiachain/go-kardia/proto/kardiachain/consensus"
	kproto "github.com/kardiachain/go-kardia/proto/kardiachain/types"
	"github.com/kardiachain/go-kardia/types"
)

// payloadSize computes the size of the protobuf payload of a record without going through the
// encoder (which refuses oversize messages); only used to construct inputs of an exact size.
func payloadSize(m consensus.TimedWALMessage) (int, error) {
	pb, err := consensus.WALToProto(m.Msg)
	if err != nil {
		return 0, err
	}
	b, err := proto.Marshal(&kcons.TimedWALMessage{Time: m.Time, Msg: pb})
	return len(b), err
}

// sizedMsg returns a message whose encoded payload is exactly want bytes (peer id padding).
func sizedMsg(want int) (consensus.TimedWALMessage, error) {
	sizedMu.Lock()
	defer sizedMu.Unlock()
	if m, ok := sizedCache[want]; ok {
		return m, nil
	}
	m, err := sizedMsgBuild(want)
	if err == nil {
		sizedCache[want] = m
	}
	return m, err
}

var sizedMu sync.Mutex
var sizedCache = map[int]consensus.TimedWALMessage{}

func sizedMsgBuild(want int) (consensus.TimedWALMessage, error) {
	pad := want - 200
	for try := 0; try < 16; try++ {
		if pad < 0 {
			pad = 0
		}
		m := consensus.TimedWALMessage{Time: tFull, Msg: consensus.VerifC15MsgInfo(&consensus.VoteMessage{Vote: &types.Vote{
			Type: kproto.PrevoteType, Height: 3, Round: 1, Timestamp: tFull, Signature: fill(65, 7)}}, strings.Repeat("a", pad))}
		got, err := payloadSize(m)
		if err != nil {
			return m, err
		}
		if got == want {
			return m, nil
		}
		pad += want - got
	}
	return consensus.TimedWALMessage{}, fmt.Errorf("could not build a message with a %d-byte payload", want)
}

// sizeLimitCase checks one payload size around the limit; c (optional) is a corruption applied to
// the encoded record when the encoder accepted it.
func sizeLimitCase(want int, c *corr, out func(class, oracle, what string)) (accepted bool, lc *logCase) {
	class := fmt.Sprintf("payload=max%+d", want-maxSz)
	if want == maxSz {
		class = "payload=max"
	}
	m, err := sizedMsg(want)
	if err != nil {
		out(class, "harness", err.Error())
		return
	}
	var buf bytes.Buffer
	var perr interface{}
	func() {
		defer func() { perr = recover() }()
		err = consensus.NewWALEncoder(&buf).Encode(&m)
	}()
	if perr != nil {
		out(class, "panic", fmt.Sprintf("Encode panicked: %v", perr))
		return
	}
	if err != nil {
		if buf.Len() != 0 {
			out(class, "rejected-message-left-bytes", fmt.Sprintf("Encode returned %q but wrote %d bytes", err.Error(), buf.Len()))
		}
		return false, nil
	}
	lc = &logCase{recs: []consensus.TimedWALMessage{m}, name: class, shape: class, W: buf.Bytes(), off: []int{0, buf.Len()}}
	if c == nil {
		// whatever the encoder accepts must read back
		checkClean(lc, func(oracle, what string) {
			if oracle == "clean-roundtrip" {
				oracle = "accepted-by-encoder-unreadable"
			}
			out(class, oracle, what)
		})
		checkAlloc(lc, lc.W, func(oracle, what string) { out(class, oracle, what) })
		return true, lc
	}
	C, ci := c.apply(lc)
	if !ci.trivial {
		checkStream(lc, bytes.NewReader(C), len(C), &ci, func(oracle, what string) { out(class+"+"+ci.class, oracle, what) })
		checkAlloc(lc, C, func(oracle, what string) { out(class+"+"+ci.class, oracle, what) })
	}
	return true, lc
}

func sizeLimitPhase() {
	for _, want := range []int{maxSz - 1, maxSz, maxSz + 1, maxSz + 2} {
		want := want
		nviol := 0
		acc, lc := sizeLimitCase(want, nil, func(class, oracle, what string) {
			nviol++
			reportViolation(sig(class, oracle, "plain"), what, caseSpec{Phase: "sizelimit", PayloadLen: want})
		})
		r.Add("size_limit_cases", 1)
		if acc {
			r.Add("size_limit_accepted_by_encoder", 1)
		} else {
			r.Add("size_limit_rejected_by_encoder", 1)
		}
		if !acc || lc == nil || nviol > 0 || (want != maxSz && want != maxSz+1) {
			continue
		}
		if phaseExpired() {
			r.NotExhaustive("size-limit phase: deadline")
			return
		}
		L := len(lc.W)
		var cs []corr
		for _, t := range []int{0, 1, 4, 7, 8, 9, L / 2, L - 1} {
			cs = append(cs, corr{Kind: "trunc", Off: t})
		}
		for _, b := range []int{0, 3, 4, 7, 8, L / 2, L - 1} {
			cs = append(cs, corr{Kind: "flip", Off: b, Bit: 0}, corr{Kind: "flip", Off: b, Bit: 7})
		}
		cs = append(cs, fieldCorrs(lc, true)...)
		for _, c := range cs {
			c := c
			sizeLimitCase(want, &c, func(class, oracle, what string) {
				reportViolation(sig(class, oracle, "plain"), c.String()+": "+what, caseSpec{Phase: "sizelimit", PayloadLen: want, Corr: &c})
			})
			r.Add("evaluations", 1)
			r.Add("evaluations_sizelimit", 1)
			r.Distinct("distinct_nontrivial", fmt.Sprintf("size%+d|%s|%d|%d", want-maxSz, c.Kind, c.Off, c.Bit)+c.Name)
		}
	}
}
