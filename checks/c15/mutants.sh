#!/bin/bash
# Demonstrates that C15 fails on each mutant: applies every /verif/mutants/c15-*.patch to a scratch
# worktree of /repo, runs the repository's own tests of the touched package and the quick check.
export GOFLAGS=-mod=mod GOPROXY=off GOSUMDB=off GOTOOLCHAIN=local
for p in /verif/mutants/c15-*.patch; do
  name=$(basename "$p" .patch)
  WT=/tmp/wt-c15-$$
  git -C /repo worktree add --detach "$WT" HEAD >/dev/null 2>&1 || { echo "$name: worktree failed"; continue; }
  if ! git -C "$WT" apply "$p"; then echo "$name: patch does not apply"; git -C /repo worktree remove --force "$WT"; continue; fi
  if grep -q "lib/autofile" "$p"; then pkg=./lib/autofile/; run=""; else pkg=./consensus/; run="-run WAL|Wal"; fi
  if (cd "$WT" && timeout 600 go test -vet=off -count=1 $run $pkg >/tmp/c15-mut-test.log 2>&1); then tests=pass; else tests=FAIL; fi
  out=$(VERIF_REPO="$WT" VERIF_NOEVIDENCE=1 timeout 900 /verif/run.sh C15 quick 2>/dev/null)
  rc=$?
  sigs=$(echo "$out" | grep '^violation:' | sed 's/^violation: \(C15|[^:]*\):.*/\1/' | sort -u | head -8 | tr '\n' ' ')
  nv=$(echo "$out" | grep -c '^VIOLATION')
  echo "$name | repo tests: $tests | exit $rc | VIOLATION lines: $nv | $sigs"
  git -C /repo worktree remove --force "$WT"
done
rm -rf /verif/.build/*/bin/c15.tmp 2>/dev/null
