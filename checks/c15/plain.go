package main

import (
	"bytes"
	"fmt"
	"runtime"
	"strings"
	"sync"
	"sync/atomic"

	"github.com/kardiachain/go-kardia/consensus"

	"verif/mc/par"
)

// allLogs enumerates every token sequence of length lo..hi over the alphabet, shortest first.
func allLogs(lo, hi int) [][]int {
	var out [][]int
	for l := lo; l <= hi; l++ {
		idx := make([]int, l)
		for {
			out = append(out, append([]int{}, idx...))
			k := l - 1
			for k >= 0 {
				idx[k]++
				if idx[k] < nAlphabet {
					break
				}
				idx[k] = 0
				k--
			}
			if k < 0 {
				break
			}
		}
	}
	return out
}

type dkey struct {
	class string
	rec   int
	j     int
	ec    byte
}

// localStats gathers per-log measurements and flushes them into the report once per log.
type localStats struct {
	evals    int64
	eof      int64
	corrupt  int64
	skipped  int64
	zeroTail int64
	prefixed int64 // corrupted logs from which >= 1 message was still read
	distinct map[dkey]struct{}
	classes  map[string]struct{}
}

func newLocal() *localStats {
	return &localStats{distinct: map[dkey]struct{}{}, classes: map[string]struct{}{}}
}

func (ls *localStats) note(ci *corrInfo, o streamOutcome) {
	ls.evals++
	switch o.ec {
	case ecEOF:
		ls.eof++
	case ecCorrupt:
		ls.corrupt++
	}
	ls.skipped += int64(o.skipped)
	if (o.j > ci.kStrict && ci.trunc) || o.extraUsed {
		ls.zeroTail++
	}
	if o.j > 0 {
		ls.prefixed++
	}
	ls.distinct[dkey{ci.class, ci.rec, o.j, o.ec}] = struct{}{}
	ls.classes[ci.class] = struct{}{}
}

func (ls *localStats) flush(lc *logCase, via string) {
	r.Add("evaluations", ls.evals)
	r.Add("evaluations_"+via, ls.evals)
	r.Add("outcome_end_of_log", ls.eof)
	r.Add("outcome_corruption_error", ls.corrupt)
	r.Add("messages_read_after_skipping_a_corruption", ls.skipped)
	r.Add("info_truncated_zero_tail_reconstructed", ls.zeroTail)
	r.Add("corrupted_logs_with_nonempty_valid_prefix", ls.prefixed)
	for k := range ls.distinct {
		r.Distinct("distinct_nontrivial", fmt.Sprintf("%s|%s|r%d|j%d%c", lc.shape, k.class, k.rec, k.j, k.ec))
		r.Distinct("distinct_class_outcomes", fmt.Sprintf("%s|%c", k.class, k.ec))
	}
	for c := range ls.classes {
		r.Distinct("corruption_classes_"+via, c)
	}
}

// checkClean: framing of the encoder output and the uncorrupted round trip.
func checkClean(lc *logCase, out sink) {
	if ok, why := lc.framingOK(); !ok {
		out("encoder-framing", "WALEncoder output is not crc32c|length|payload: "+why)
	}
	ci := corr{Kind: "clean"}.info(lc)
	checkStream(lc, bytes.NewReader(lc.W), len(lc.W), &ci, out)
}

// plainLog runs every corruption of one log through the plain decoder.
func plainLog(lc *logCase, ls *localStats) {
	spec := func(c corr) caseSpec {
		cc := c
		return caseSpec{Phase: "plain", Tokens: lc.toks, TokenNames: lc.name, Corr: &cc}
	}
	var cur corr
	var curInfo corrInfo
	nviol := 0
	out := func(oracle, what string) {
		nviol++
		reportViolation(sig(curInfo.class, oracle, "plain"), lc.name+": "+cur.String()+": "+what, spec(cur))
	}
	cur, curInfo = corr{Kind: "clean"}, corr{Kind: "clean"}.info(lc)
	checkClean(lc, out)
	if nviol > 0 {
		return // the undamaged log does not read back: its corruptions would only repeat that
	}
	W := lc.W
	rd := bytes.NewReader(nil)
	// every truncation
	for t := 0; t < len(W); t++ {
		cur = corr{Kind: "trunc", Off: t}
		curInfo = cur.info(lc)
		rd.Reset(W[:t])
		o := checkStream(lc, rd, t, &curInfo, out)
		ls.note(&curInfo, o)
	}
	// every single-bit flip
	C := append([]byte{}, W...)
	for b := 0; b < len(W); b++ {
		for bit := 0; bit < 8; bit++ {
			cur = corr{Kind: "flip", Off: b, Bit: bit}
			curInfo = cur.info(lc)
			C[b] ^= 1 << uint(bit)
			rd.Reset(C)
			o := checkStream(lc, rd, len(C), &curInfo, out)
			ls.note(&curInfo, o)
			C[b] ^= 1 << uint(bit)
		}
	}
	// length fields, crc fields, garbage suffixes
	for _, c := range fieldCorrs(lc, true) {
		CC, ci := c.apply(lc)
		if ci.trivial {
			continue
		}
		cur, curInfo = c, ci
		rd.Reset(CC)
		o := checkStream(lc, rd, len(CC), &curInfo, out)
		ls.note(&curInfo, o)
	}
	if len(lc.toks) == 3 && lc.toks[0] != lc.toks[1] && lc.toks[2] == 12 && wantSample("plain", 2) {
		c := corr{Kind: "flip", Off: lc.off[1] + 5, Bit: 3}
		CC, ci := c.apply(lc)
		o := checkStream(lc, bytes.NewReader(CC), len(CC), &ci, func(string, string) {})
		r.Sample(map[string]interface{}{"log": lc.name, "bytes": len(lc.W), "corruption": c.String(), "class": ci.class,
			"messages_before_error": o.j, "first_error": o.firstErr, "messages_after_skipping": o.skipped})
	}
}

func plainPhase(logs [][]int) {
	done := par.For(int64(len(logs)), 1, phaseExpired, func(i int64) {
		lc, err := buildLog(logs[i])
		if err != nil {
			reportViolation(sig("clean", "encode-error", "plain"), tokensName(logs[i])+": "+err.Error(), caseSpec{Phase: "plain", Tokens: logs[i], Corr: &corr{Kind: "clean"}})
			return
		}
		ls := newLocal()
		plainLog(lc, ls)
		ls.flush(lc, "plain")
		r.Add("logs", 1)
		r.Add(fmt.Sprintf("logs_of_%d_records", len(logs[i])), 1)
		r.Max("largest_log_bytes", int64(len(lc.W)))
		for _, t := range logs[i] {
			r.Distinct("tokens_used", tokens[t].name)
		}
	})
	if done < int64(len(logs)) {
		r.NotExhaustive(fmt.Sprintf("plain-decoder phase: deadline after %d of %d logs", done, len(logs)))
	}
}

func tokensName(toks []int) string {
	var s []string
	for _, t := range toks {
		s = append(s, tokens[t].name)
	}
	return strings.Join(s, ",")
}

// ---------------------------------------------------------------------------------------------
// allocation bound (single-threaded)

const allocSlack = 64 << 10

// checkAlloc measures the bytes allocated by each Decode call over a corrupted log. The bound is
// the message size limit plus a fixed slack, plus (only when a message is returned) four times the
// largest written payload for the unmarshalled copy.
func checkAlloc(lc *logCase, C []byte, out sink) (maxDelta uint64) {
	defer func() {
		if p := recover(); p != nil {
			out("panic", fmt.Sprintf("Decode panicked: %v", p))
		}
	}()
	largest := 0
	for i := 0; i < lc.n(); i++ {
		if l := lc.payloadLen(i); l > largest {
			largest = l
		}
	}
	dec := consensus.NewWALDecoder(bytes.NewReader(C))
	var ms runtime.MemStats
	runtime.ReadMemStats(&ms)
	prev := ms.TotalAlloc
	for iter := 0; iter < len(C)+16 && iter < 512; iter++ {
		m, err := dec.Decode()
		runtime.ReadMemStats(&ms)
		d := ms.TotalAlloc - prev
		prev = ms.TotalAlloc
		if d > maxDelta {
			maxDelta = d
		}
		bound := uint64(maxSz + allocSlack)
		if m != nil {
			bound += uint64(4 * largest)
		}
		if d > bound {
			out("alloc-bound", fmt.Sprintf("Decode call #%d allocated %d bytes; the message size limit is %d (+%d slack)", iter, d, maxSz, bound-uint64(maxSz)))
			return
		}
		if err != nil && classify(err) != ecCorrupt {
			return
		}
	}
	return
}

var allocViolations int32

// allocPhase must run while no other goroutine of the checker is working.
func allocPhase(logs [][]int) {
	for _, toks := range logs {
		lc, err := buildLog(toks)
		if err != nil {
			continue // reported by the plain phase
		}
		var cs []corr
		for rec := 0; rec < lc.n(); rec++ {
			for _, nm := range lenNames {
				cs = append(cs, corr{Kind: "len", Rec: rec, Name: nm})
			}
		}
		for _, nm := range garbageNames {
			cs = append(cs, corr{Kind: "garbage", Name: nm})
		}
		cs = append(cs, corr{Kind: "clean"})
		for _, c := range cs {
			C, ci := c.apply(lc)
			if ci.trivial {
				continue
			}
			c := c
			d := checkAlloc(lc, C, func(oracle, what string) {
				atomic.AddInt32(&allocViolations, 1)
				reportViolation(sig(ci.class, oracle, "plain"), lc.name+": "+c.String()+": "+what, caseSpec{Phase: "alloc", Tokens: lc.toks, TokenNames: lc.name, Corr: &c})
			})
			r.Max("max_alloc_per_decode_bytes", int64(d))
			r.Add("alloc_measured_logs", 1)
			r.Add("evaluations", 1)
			r.Add("evaluations_alloc", 1)
			r.Distinct("distinct_nontrivial", fmt.Sprintf("%s|%s|r%d|alloc", lc.shape, ci.class, ci.rec))
		}
		if atomic.LoadInt32(&allocViolations) > 0 {
			return // fail fast: further oversize allocations could exhaust the machine
		}
		if phaseExpired() {
			r.NotExhaustive("allocation phase: deadline")
			return
		}
	}
}

// ---------------------------------------------------------------------------------------------
// one log with a block part of the maximum part size: every truncation and every bit flip

func bigPhase() {
	toks := []int{1, tokBig, 11}
	lc, err := buildLog(toks)
	if err != nil {
		reportViolation(sig("clean", "encode-error", "plain"), err.Error(), caseSpec{Phase: "plain", Tokens: toks, Corr: &corr{Kind: "clean"}})
		return
	}
	ls0 := newLocal()
	{
		ci := corr{Kind: "clean"}.info(lc)
		nviol := 0
		checkClean(lc, func(oracle, what string) {
			nviol++
			reportViolation(sig(ci.class, oracle, "plain"), lc.name+": "+what, caseSpec{Phase: "plain", Tokens: toks, TokenNames: lc.name, Corr: &corr{Kind: "clean"}})
		})
		if nviol > 0 {
			return
		}
		for _, c := range fieldCorrs(lc, true) {
			C, ci := c.apply(lc)
			c := c
			o := checkStream(lc, bytes.NewReader(C), len(C), &ci, func(oracle, what string) {
				reportViolation(sig(ci.class, oracle, "plain"), lc.name+": "+c.String()+": "+what, caseSpec{Phase: "plain", Tokens: toks, TokenNames: lc.name, Corr: &c})
			})
			ls0.note(&ci, o)
		}
		ls0.flush(lc, "plain")
	}
	var mu sync.Mutex
	pool := sync.Pool{New: func() interface{} { return append([]byte{}, lc.W...) }}
	const chunk = 128
	nch := (len(lc.W) + chunk - 1) / chunk
	done := par.For(int64(nch), 1, phaseExpired, func(ch int64) {
		ls := newLocal()
		C := pool.Get().([]byte)
		rd := bytes.NewReader(nil)
		var cur corr
		var ci corrInfo
		out := func(oracle, what string) {
			cc := cur
			reportViolation(sig(ci.class, oracle, "plain"), lc.name+": "+cur.String()+": "+what, caseSpec{Phase: "plain", Tokens: toks, TokenNames: lc.name, Corr: &cc})
		}
		for b := int(ch) * chunk; b < (int(ch)+1)*chunk && b < len(lc.W); b++ {
			cur = corr{Kind: "trunc", Off: b}
			ci = cur.info(lc)
			rd.Reset(lc.W[:b])
			ls.note(&ci, checkStream(lc, rd, b, &ci, out))
			for bit := 0; bit < 8; bit++ {
				cur = corr{Kind: "flip", Off: b, Bit: bit}
				ci = cur.info(lc)
				C[b] ^= 1 << uint(bit)
				rd.Reset(C)
				ls.note(&ci, checkStream(lc, rd, len(C), &ci, out))
				C[b] ^= 1 << uint(bit)
			}
		}
		pool.Put(C)
		mu.Lock()
		ls.flush(lc, "plain")
		mu.Unlock()
	})
	if done < int64(nch) {
		r.NotExhaustive("large-record log: deadline")
	}
	r.Add("logs", 1)
	r.Set("large_record_log_bytes", len(lc.W))
}
