// C15 — the consensus WAL returns exactly what was written and detects every corruption.
//
// Fault enumeration over the REAL consensus.WALEncoder / WALDecoder / BaseWAL / repairWalFile and
// lib/autofile.Group: every log of 1..3 (quick) / 1..4 (thorough) records over a 13-token alphabet
// (6 WAL message kinds with boundary field values); for each encoded log every truncation offset,
// every single-bit flip, every record's length / crc field set to boundary values and a set of
// garbage suffixes; read back through the plain decoder, through repairWalFile, and through a real
// BaseWAL on a real autofile.Group with head-size limits that rotate at every record boundary,
// followed by SearchForEndHeight for written and unwritten heights. See DESIGN.md section 4 / C15.
package main

import (
	"bytes"
	"fmt"
	"os"
	"runtime"
	"runtime/pprof"
	"strconv"
	"syscall"
	"time"

	ktime "github.com/kardiachain/go-kardia/types/time"

	"verif/mc/report"
)

var r *report.Run

type finding struct{ sig, what string }

var phaseStart = time.Now()
var stopProf = func() {}

var lastCPU float64

// Every phase gets a slice of the tier's budget (unused time carries over), so that a loaded machine
// shortens every phase a little instead of starving the last ones.
var (
	runStart      = time.Now()
	totalBudget   time.Duration
	phaseDeadline time.Time
)

func beginPhase(cumulativeShare float64) {
	phaseDeadline = runStart.Add(time.Duration(float64(totalBudget) * cumulativeShare))
	if min := time.Now().Add(totalBudget / 25); phaseDeadline.Before(min) {
		phaseDeadline = min // earlier phases overran: still give this one a minimum slice
	}
}

func phaseExpired() bool { return time.Now().After(phaseDeadline) }

func cpuSeconds() float64 {
	var ru syscall.Rusage
	syscall.Getrusage(syscall.RUSAGE_SELF, &ru)
	return float64(ru.Utime.Sec+ru.Stime.Sec) + float64(ru.Utime.Usec+ru.Stime.Usec)/1e6
}

func phaseDone(name string) {
	c := cpuSeconds()
	fmt.Fprintf(os.Stderr, "c15: phase %-12s %6.1fs wall %6.1fs cpu (evaluations so far %d)\n", name, time.Since(phaseStart).Seconds(), c-lastCPU, r.Get("evaluations"))
	lastCPU = c
	r.Set("wall_s_"+name, time.Since(phaseStart).Seconds())
	phaseStart = time.Now()
}

// runSpec re-executes one stored case and returns the violated oracles (used to confirm violations
// before they are reported and by -replay).
func runSpec(s caseSpec) (fs []finding) {
	add := func(class, oracle, via, what string) { fs = append(fs, finding{sig(class, oracle, via), what}) }
	switch s.Phase {
	case "sizelimit":
		sizeLimitCase(s.PayloadLen, s.Corr, func(class, oracle, what string) { add(class, oracle, "plain", what) })
		return
	case "bigbuf":
		dir := newDir()
		defer os.RemoveAll(dir)
		var st searchStats
		type pend struct{ oracle, what string }
		var ps []pend
		bi := checkBigbuf(s.History, s.SizeClass, s.Limit, dir, &st, func(oracle, what string) { ps = append(ps, pend{oracle, what}) })
		for _, p := range ps {
			add(bigClass(bi), p.oracle, "group", p.what)
		}
		return
	case "lives":
		dir := newDir()
		defer os.RemoveAll(dir)
		var st searchStats
		type pend struct{ oracle, what string }
		var ps []pend
		li := checkLife(s.History, s.Ticks, dir, &st, func(oracle, what string) { ps = append(ps, pend{oracle, what}) })
		for _, p := range ps {
			add(lifeClass(li), p.oracle, "group", p.what)
		}
		return
	case "group-write":
		dir := newDir()
		defer os.RemoveAll(dir)
		var st searchStats
		checkGroupWrite(s.Tokens, s.Limit, dir, &st, func(oracle, what string) { add("rotation", oracle, "group", what) })
		return
	}
	lc, err := buildLog(s.Tokens)
	if err != nil {
		add("clean", "encode-error", "plain", err.Error())
		return
	}
	c := corr{Kind: "clean"}
	if s.Corr != nil {
		c = *s.Corr
	}
	C, ci := c.apply(lc)
	switch s.Phase {
	case "plain":
		if ci.clean {
			checkClean(lc, func(oracle, what string) { add(ci.class, oracle, "plain", what) })
		} else {
			checkStream(lc, bytes.NewReader(C), len(C), &ci, func(oracle, what string) { add(ci.class, oracle, "plain", what) })
		}
	case "alloc":
		checkAlloc(lc, C, func(oracle, what string) { add(ci.class, oracle, "plain", what) })
	case "repair":
		dir := newDir()
		defer os.RemoveAll(dir)
		mode := s.Mode
		if mode == "" {
			mode = "fresh"
		}
		checkRepair(lc, C, &ci, mode, dir, func(oracle, what string) { add(ci.class, oracle, "repair", what) })
	case "group-read":
		// re-runs every corruption of this (log, rotation pattern) and keeps the findings of the stored one
		dir := newDir()
		defer os.RemoveAll(dir)
		fs = append(fs, groupReadOne(lc, s.Pattern, c, dir)...)
	case "group-index-base":
		dir := newDir()
		defer os.RemoveAll(dir)
		var st searchStats
		indexBaseCase(lc, s.Pattern, s.Base, dir, &st, func(oracle, what string) { add("clean", oracle, fmt.Sprintf("group-at-index-%d", s.Base), what) })
	default:
		add("harness", "unknown-phase", s.Phase, "")
	}
	return
}

func main() {
	r = report.New("C15", "fault_enumeration")
	// The decoder allocates up to 1 MiB per corrupted length field; with a tiny live heap the default
	// pacer would collect after every few calls. Collect on a memory budget instead.
	ballast := make([]byte, 512<<20) // never touched: virtual only
	defer runtime.KeepAlive(ballast)
	if pf := os.Getenv("VERIF_C15_PROF"); pf != "" {
		f, _ := os.Create(pf)
		pprof.StartCPUProfile(f)
		stopProf = pprof.StopCPUProfile
	}
	initTokens()
	initTemp()
	ktime.VerifClock = func() time.Time { return tClock }

	if r.ReplayPath != "" {
		var s caseSpec
		if err := r.LoadReplay(&s); err != nil {
			fmt.Println("MACHINERY-ERROR property=C15 cannot load replay:", err)
			cleanupTemp()
			os.Exit(2)
		}
		fmt.Printf("replaying phase=%s log=%s corruption=%v limit=%d pattern=%v repair-mode=%q\n", s.Phase, tokensName(s.Tokens), s.Corr, s.Limit, s.Pattern, s.Mode)
		fs := runSpec(s)
		if len(fs) == 0 {
			fmt.Println("observed: every oracle holds for this case")
		}
		for _, f := range fs {
			fmt.Printf("observed: %s: %s\n", f.sig, f.what)
		}
		cleanupTemp()
		// (not through r.Finish: it would overwrite the numbered replay files of the last run)
		if len(fs) > 0 {
			fmt.Printf("VIOLATION property=C15 replay=%s (still violates)\n", r.ReplayPath)
			os.Exit(1)
		}
		fmt.Println("OK property=C15 replayed case holds")
		os.Exit(0)
	}

	maxLen, fileLen := 3, 2
	lifeDepth, tickDepth, maxTicks := 7, 4, 2
	bigDepth := 4
	totalBudget = 50 * time.Second
	if r.Thorough() {
		maxLen, fileLen = 4, 3
		lifeDepth, tickDepth, maxTicks = 9, 5, 3
		bigDepth = 5
		totalBudget = 13 * time.Minute
	}
	if s := os.Getenv("VERIF_C15_BUDGET_S"); s != "" {
		if v, err := strconv.Atoi(s); err == nil {
			totalBudget = time.Duration(v) * time.Second
		}
	}
	logs := allLogs(1, maxLen)
	fileLogs := allLogs(1, fileLen)

	// 1. allocation bound, single-threaded, before anything else (fail fast)
	beginPhase(0.06)
	allocPhase(fileLogs)
	phaseDone("alloc")
	if allocViolations == 0 {
		// 2. size limit on both sides (sequential, allocation measured)
		beginPhase(0.10)
		sizeLimitPhase()
		phaseDone("sizelimit")
		// 3. plain decoder, every corruption of every log
		beginPhase(0.33)
		plainPhase(logs)
		phaseDone("plain")
		beginPhase(0.40)
		bigPhase()
		phaseDone("big")
		// 4. repairWalFile
		beginPhase(0.51)
		repairPhase(fileLogs, true)
		phaseDone("repair")
		// 5. real BaseWAL on a real group: rotation and SearchForEndHeight
		beginPhase(0.67)
		groupWritePhase(logs, fileLen)
		phaseDone("group-write")
		// 6. corrupted logs read through a real group
		beginPhase(0.77)
		livesPhase(lifeDepth, tickDepth, maxTicks)
		phaseDone("lives")
		beginPhase(0.86)
		bigbufPhase(bigDepth)
		phaseDone("bigbuf")
		beginPhase(1.0)
		groupReadPhase(fileLogs)
		phaseDone("group-read")
		groupIndexBasePhase(allLogs(3, 3))
		phaseDone("group-index-base")
	} else {
		r.NotExhaustive("stopped after an allocation-bound violation (further oversize allocations could exhaust the machine)")
	}
	cleanupTemp()
	stopProf()

	r.Set("rule", fmt.Sprintf("every log of 1..%d records over a %d-token alphabet (EndHeight{0,1,maxint64}, timeoutInfo{zero,max}, EventDataRoundState{zero,max}, "+
		"msgInfo{Proposal,BlockPart,Vote}x{minimal valid,max fields}) plus one log with a 64 KiB block part, encoded by the real WALEncoder; per log EVERY truncation offset, EVERY single-bit flip, "+
		"each record's length field := {0,1,len-1,len+1,max,max+1,2^32-1}, crc field := {0,crc(empty),ffffffff,IEEE crc}, 8 garbage suffixes; each read back by the real WALDecoder "+
		"(strict until the first error, then skipping corruption errors to end-of-log); logs of <=%d records additionally through repairWalFile (all corruptions in place, one flip per byte plus all other corruptions for the two other destinations; three ways: into a fresh file; IN PLACE exactly as ConsensusState.OnStart does — corrupted log is <dir>/wal, kos.CopyFile to <dir>/wal.CORRUPTED, repair back over the existing longer <dir>/wal; over a pre-existing destination with unrelated longer content — the result must be byte-exactly the longest valid prefix and read back cleanly to end-of-log) and through a real autofile.Group "+
		"laid out with every rotation pattern class (truncations, one flip per byte, all field/garbage cases) with SearchForEndHeight for every written height and one unwritten; "+
		"every log is also written through a real BaseWAL with the group's head-size check run after each write for every limit at/around each record boundary, read back, searched for "+
		"every written and 6 unwritten heights with both search options, restarted and checked again; "+
		"MULTI-LIFE histories of the real BaseWAL: every sequence of length 1..%d over {M write a message, E WriteSync EndHeight(next h=1,2,..), R head-size limit reached (flush + the group's own size check, rotates iff the head is non-empty), "+
		"S Stop+Wait then a new BaseWAL.Start on the same directory (OnStart writes EndHeight 0 iff the head is empty, e.g. right after a rotation)} with >=1 rotation and <=2 restarts at every position; reference = the list of records written; "+
		"after every history the files must concatenate to those records, read back completely, and SearchForEndHeight(h) for EVERY h in -1..hmax+1 with IgnoreDataCorruptionErrors both ways must report found iff EndHeight(h) is in the list "+
		"and the returned reader must yield exactly the records after the marker, then end-of-log, and every file of the group must start on a frame boundary (each file read ALONE decodes to whole written records until end-of-log). "+
		"SCHEDULING: the BaseWAL's encoder writes through an in-package wrapper, so every underlying Group.Write is a scheduling point where the checker may run what the two INDEPENDENT background tickers do: either the flush ticker then the size-check ticker (FlushAndSync + the group's own head-size check) or the size-check ticker ALONE (no flush before it); "+
		"every tick schedule with <=%d ticks at any underlying write is explored for all histories of length <=%d, and ticks that land INSIDE a record (bytes written so far not on a record boundary) for every history of every length "+
		"(the group-write phase runs the tick after every underlying write). "+
		"ROTATION VERSUS THE WRITE BUFFER (bufio 40960 bytes; the flush ticker and the group's size-check ticker are independent): every history of length 1..%d over {B wal.Write(big block-part record, unsynced), m wal.Write(small, unsynced), "+
		"E WriteSync EndHeight(next h), F FlushAndSync, C the group's own checkHeadSizeLimit WITHOUT a flush before it, X Group.RotateFile()} containing B and C|X, x 4 frame sizes of B (20480, 40900, 41000, 64 KiB part) x 4 head-size limits around them; "+
		"oracles evaluated on the files AS THEY ARE ON DISK before any final flush (concatenation is a prefix of the records written; every file starts on a frame boundary and every rotated file is whole, only the head may end inside a record; "+
		"read-back and strict+lenient SearchForEndHeight for every h on the visible records: found iff visible, reader yields exactly the visible records after the marker — soundness only when the head ends inside a record) "+
		"and again after a final FlushAndSync on all records. evaluations = corrupted logs decoded; "+
		"distinct_nontrivial = distinct (kind sequence, corruption class, record hit, outcome = messages returned + error class) where the corruption really changed the bytes", maxLen, nAlphabet, fileLen, lifeDepth, maxTicks, tickDepth, bigDepth))
	r.Assume(
		"readers are the ones the repository uses: bytes.Reader / os.File (short read only at the end) and autofile.GroupReader; io.Readers that return short reads mid-stream are out of scope",
		"written messages pass the kinds' own ValidateBasic (what a node writes); field values are the listed boundary values, not all values",
		"weakest reading of 'reported': a damaged tail may be reported as io.EOF, io.ErrUnexpectedEOF or DataCorruptionError; a truncation whose missing bytes were all zero may be completed to the written message (counted in info_truncated_zero_tail_reconstructed) since the message is unchanged and end-of-log follows",
		"'found iff written' is required when the EndHeight heights > 0 are non-decreasing in write order (the search's documented optimisation assumes it; EndHeight 0 may appear anywhere, OnStart writes it on every empty head); otherwise only 'found => written' and the position",
		"with duplicate markers the reader may be positioned after any occurrence",
		"allocation bound per Decode = maxMsgSizeBytes + 64 KiB, plus 4x the largest written payload when a message is returned (unmarshalled copy); measured as runtime.MemStats.TotalAlloc delta while no other checker goroutine runs",
		"rotation happens only where the group's own check performs it (record boundaries, since Encode issues one Write per record); a record split across files is not reachable through BaseWAL",
		"CRC-32 collisions on misaligned garbage are possible in principle (2^-32 per attempt); the enumeration is deterministic, none occurs in it",
		"a fixed clock stands behind ktime.Now() while BaseWAL writes (Time is then compared exactly)")
	r.Exhaustive(true) // NotExhaustive calls made by the phases win
	if allocViolations == 0 {
		r.Require(r.Get("evaluations") > 100000, "fewer than 100000 corrupted logs were decoded")
		r.Require(r.Get("outcome_end_of_log") > 0 && r.Get("outcome_corruption_error") > 0, "not both outcome classes (end-of-log, corruption error) were observed")
		r.Require(r.DistinctCount("tokens_used") == nAlphabet, "not every alphabet token was written")
		r.Require(r.DistinctCount("corruption_classes_plain") >= 7+len(lenNames)+len(crcNames)+len(garbageNames), "not every corruption class was executed through the plain decoder")
		r.Require(r.Get("corrupted_logs_with_nonempty_valid_prefix") > 0, "no corrupted log kept a non-empty valid prefix")
		r.Require(r.Get("messages_read_after_skipping_a_corruption") > 0, "skip mode never resynchronised after a corruption")
		r.Require(r.Get("searches_found") > 0 && r.Get("searches_not_found") > 0, "SearchForEndHeight did not both find and miss")
		r.Require(r.Get("bigbuf_runs_rotating_with_buffered_writes") > 0 && r.Get("bigbuf_runs_with_head_ending_inside_a_record_on_disk") > 0, "no big-record history rotated with buffered writes / spilled the write buffer inside a record")
		r.Require(r.Get("multi_life_runs_with_ticks") > 0 && r.Get("multi_life_ticks_executed") > 0, "no tick schedule was executed")
		r.Require(r.Get("multi_life_histories_with_restart_on_empty_head") > 0 && r.Get("searches_multi_life") > 0, "no multi-life history restarted the WAL on an empty head after a rotation")
		r.Require(r.Get("group_write_cases_with_rotation") > 0, "no rotation happened in the group phase")
		r.Require(r.Get("evaluations_repair") > 0 && r.DistinctCount("repair_distinct_outcomes") > 10, "repair phase did not run")
		r.Require(r.Get("size_limit_accepted_by_encoder") > 0 && r.Get("size_limit_rejected_by_encoder") > 0, "size-limit boundary was not exercised on both sides")
	}
	r.Finish()
}
