package main

import (
	"bytes"
	"fmt"
	"reflect"
	"sort"
	"strings"
	"time"

	"github.com/kardiachain/go-kardia/consensus"
)

var timeType = reflect.TypeOf(time.Time{})

// deepEq is the checker's notion of "unchanged": same dynamic types all the way down, every field
// equal; times compared as instants; nil and empty slices are the same (the wire format cannot tell).
func deepEq(a, b reflect.Value) bool {
	if a.IsValid() != b.IsValid() {
		return false
	}
	if !a.IsValid() {
		return true
	}
	if a.Type() != b.Type() {
		return false
	}
	switch a.Kind() {
	case reflect.Ptr, reflect.Interface:
		if a.IsNil() || b.IsNil() {
			return a.IsNil() == b.IsNil()
		}
		return deepEq(a.Elem(), b.Elem())
	case reflect.Struct:
		if a.Type() == timeType {
			if !a.CanInterface() || !b.CanInterface() {
				return false
			}
			return a.Interface().(time.Time).Equal(b.Interface().(time.Time))
		}
		for i := 0; i < a.NumField(); i++ {
			if !deepEq(a.Field(i), b.Field(i)) {
				return false
			}
		}
		return true
	case reflect.Slice:
		if a.Len() != b.Len() {
			return false
		}
		if a.Type().Elem().Kind() == reflect.Uint8 {
			return bytes.Equal(a.Bytes(), b.Bytes())
		}
		for i := 0; i < a.Len(); i++ {
			if !deepEq(a.Index(i), b.Index(i)) {
				return false
			}
		}
		return true
	case reflect.Array:
		for i := 0; i < a.Len(); i++ {
			if !deepEq(a.Index(i), b.Index(i)) {
				return false
			}
		}
		return true
	case reflect.String:
		return a.String() == b.String()
	case reflect.Bool:
		return a.Bool() == b.Bool()
	case reflect.Int, reflect.Int8, reflect.Int16, reflect.Int32, reflect.Int64:
		return a.Int() == b.Int()
	case reflect.Uint, reflect.Uint8, reflect.Uint16, reflect.Uint32, reflect.Uint64, reflect.Uintptr:
		return a.Uint() == b.Uint()
	case reflect.Float32, reflect.Float64:
		return a.Float() == b.Float()
	case reflect.Map:
		if a.Len() != b.Len() {
			return false
		}
		for _, k := range a.MapKeys() {
			if !deepEq(a.MapIndex(k), b.MapIndex(k)) {
				return false
			}
		}
		return true
	}
	return false
}

func eqTimed(got *consensus.TimedWALMessage, want *consensus.TimedWALMessage) bool {
	if got == nil {
		return false
	}
	return deepEq(reflect.ValueOf(got).Elem(), reflect.ValueOf(want).Elem())
}

// canon renders a message for reports (same normalisation as deepEq).
func canon(v reflect.Value) string {
	if !v.IsValid() {
		return "nil"
	}
	switch v.Kind() {
	case reflect.Ptr, reflect.Interface:
		if v.IsNil() {
			return "nil"
		}
		if v.Kind() == reflect.Ptr {
			return "&" + canon(v.Elem())
		}
		return canon(v.Elem())
	case reflect.Struct:
		if v.Type() == timeType && v.CanInterface() {
			t := v.Interface().(time.Time)
			return fmt.Sprintf("T(%d.%09d)", t.Unix(), t.Nanosecond())
		}
		var sb strings.Builder
		sb.WriteString(v.Type().String() + "{")
		for i := 0; i < v.NumField(); i++ {
			if i > 0 {
				sb.WriteString(" ")
			}
			sb.WriteString(v.Type().Field(i).Name + ":" + canon(v.Field(i)))
		}
		sb.WriteString("}")
		return sb.String()
	case reflect.Slice, reflect.Array:
		if v.Type().Elem().Kind() == reflect.Uint8 {
			b := make([]byte, v.Len())
			for i := range b {
				b[i] = byte(v.Index(i).Uint())
			}
			if len(b) > 40 {
				return fmt.Sprintf("%x..(%d bytes)", b[:16], len(b))
			}
			return fmt.Sprintf("%x", b)
		}
		var parts []string
		for i := 0; i < v.Len(); i++ {
			parts = append(parts, canon(v.Index(i)))
		}
		return "[" + strings.Join(parts, " ") + "]"
	case reflect.Map:
		var parts []string
		for _, k := range v.MapKeys() {
			parts = append(parts, canon(k)+"="+canon(v.MapIndex(k)))
		}
		sort.Strings(parts)
		return "map[" + strings.Join(parts, " ") + "]"
	case reflect.String:
		return fmt.Sprintf("%q", v.String())
	case reflect.Bool:
		return fmt.Sprint(v.Bool())
	case reflect.Int, reflect.Int8, reflect.Int16, reflect.Int32, reflect.Int64:
		return fmt.Sprint(v.Int())
	case reflect.Uint, reflect.Uint8, reflect.Uint16, reflect.Uint32, reflect.Uint64, reflect.Uintptr:
		return fmt.Sprint(v.Uint())
	}
	return "?" + v.Kind().String()
}

func canonTimed(m *consensus.TimedWALMessage) string {
	if m == nil {
		return "nil"
	}
	s := canon(reflect.ValueOf(m).Elem())
	if len(s) > 600 {
		s = s[:600] + "..."
	}
	return s
}
