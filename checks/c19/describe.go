package main

func describe() {
	r.Set("rule", "(a) every point of the product {validator: member of the set of the evidence height / never a validator / validator at another height only} x "+
		"{vote B: same/other height} x {same/other round} x {same/other type} x {targets: different hash, same id, ids differing only in PartsHeader.Total, only in the parts hash, nil vs block, nil vs nil} x "+
		"{signature A valid/forged} x {signature B valid/forged} x {canonical/swapped order} x {total power right/wrong} x {validator power right/wrong} x {evidence time = block time / a neighbour block's time} "+
		"(9216 points; restricted to at most one non-default among the eight binary dimensions for the (pool head, evidence height) combinations marked reduced in the quick tier) for each combination "+
		"of a 12-block chain with a validator-set change at height 4 and block spacing chosen so that each expiry class (fresh, only height window exceeded, only time window exceeded, both) occurs; "+
		"plus 38 single-field mutations of a valid evidence and everything the real VoteSet + types.NewDuplicateVoteEvidence build from two conflicting votes, each through four paths (reactor codec + AddEvidence, AddEvidence, "+
		"block decoding + ValidateBasic + CheckEvidence, CheckEvidence) and AddEvidenceFromConsensus + restart for constructor output. "+
		"(b) breadth-first reachable state graph of a real pool from head 5 over the alphabet add(e) / cons(report of e) / check(list<=2) / commit(block with list<=2 through the real ValidateBlock + ApplyBlock) / restart "+
		"with e in {E1, E2, E1 index-mutated, E1 swapped, E1 re-encoded signature, E1 re-typed (D4), Eold (expires with the next block), Eexp, Efut, Ecur (evidence of the height consensus works on)}; "+
		"a consensus report wraps e's two votes as tryAddVote does: canonically, with the NEXT block's time (late precommit), or with that time and the powers of the other validator set; "+
		"commit tokens carry evidence built canonically by the checker (as another node would have produced it) whether this pool has it pending, only as a report of its consensus, or not at all; "+
		"a state = pool databases + every in-memory field the alphabet reads + the buffered reports + (thorough) the gossip list + the model's open obligations; "+
		"oracles: who may become / stop being pending (also through the commit itself), pending and gossip list exclude committed and expired, no double-signing accepted again once committed, lists repeating evidence refused, restart preserves; "+
		"successors by cloning the live pool (validated against a replay of the whole history on every 64th transition). "+
		"(c) every placement {network: equivocator proposes height 4 / height 1} x {height of the equivocation} x {prevote/precommit} x {targets} x {which correct nodes get both votes, order} x {second vote before/after the decision} x "+
		"{which correct nodes additionally get the equivocator's late precommit for the previous block}, plus the mixed shape (one node gets both precommits during the height, the others the second one only in NewHeight of the next height), on netsim's synchronous schedule (thorough: plus every single schedule deviation on a selection), for two parameter sets, "+
		"and one run of the real single-validator stack. "+
		"A case is non-trivial when it reached the pool's own logic (not refused by the wire codec); distinct_nontrivial counts distinct (combination, reference class, expiry class, number of accepting paths) "+
		"tuples of (a) and distinct (scenario class, outcome, evidence created, evidence committed, rules violated) tuples of (c).")
	r.Assume(
		"Signature validity inside the reference predicate is types.Vote.Verify (covered by C11); consequently a pair of votes consistently re-typed prevote<->precommit counts as validly signed (D4, known finding of C11).",
		"Vote order: the property is silent on canonical order; reference-valid evidence in non-canonical order may be accepted or rejected (it is refused by ValidateBasic on every wire path). Evidence built by types.NewDuplicateVoteEvidence must be accepted whatever order the constructor chose.",
		"Fields no signature covers (ValidatorIndex, signature re-encoding) and non-vote type values: the property is silent on whether such a variant is acceptable while nothing is committed (part a: either outcome); after the double-signing is committed every variant must be refused (part b).",
		"Completeness (valid evidence is accepted) is judged on the wire paths and the consensus path; on the two in-memory entry points only soundness and panics are judged (an object the codec refuses never reaches them). Evidence whose time is the same instant in another time.Location is judged on the wire paths only.",
		"AddEvidenceFromConsensus is only offered evidence a correct consensus can have built: real VoteSet + constructor output in (a); in (b) reports of E1 / E2 / Ecur while the chain head is their height or the one below (consensus works on head+1 and reports evidence of that height or the one before), in the wrappings tryAddVote produces. The property does not say when such evidence must become pending: the weakest reading used is 'at the latest when the next block is committed'; a restart drops the obligation (the node would see the votes again in its WAL).",
		"Part (a) gives every pool its own empty evidence database over a shared read-only chain database (pool keys are prefix-separated from chain keys); part (b) and netsim use one database for both, as mainchain/backend.go does.",
		"Part (c) gossips like the evidence reactor: a holder sends evidence to a peer once the peer's consensus height is above the evidence height, through the reactor's encodeMsg/decodeMsg; netsim's simulated application transcribes BlockOperations.CreateProposalBlock; the original is exercised by the full-stack probe, and the rule 'pending evidence is proposed' is not judged on the transcription when the original behaves differently.",
		"Part (c) judges 'proposed' only for pending evidence of a height below the proposed block's height; a nil prevote on a complete block of a correct proposer is attributed to the evidence only if CheckEvidence of that node then returns an error for it.",
		"netsim pruning by state key is switched off in part (c): the key does not contain pool contents.",
		"Part (b), quick tier, leaves the pool's gossip list (evidenceList) out of the state key: no operation of the alphabet reads it, so only states with equal futures for pending / committed / acceptance are merged; the oracle 'the gossip list holds nothing committed' is then evaluated on each state's smallest history (which prefers add over check, i.e. the larger list). The thorough tier has the list in the key.",
	)
}
