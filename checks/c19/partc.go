package main

import (
	"fmt"
	"os"
	"sort"
	"strings"
	"sync"
	"time"

	"github.com/kardiachain/go-kardia/consensus"
	"github.com/kardiachain/go-kardia/lib/common"
	kproto "github.com/kardiachain/go-kardia/proto/kardiachain/types"
	"github.com/kardiachain/go-kardia/types"
	"github.com/kardiachain/go-kardia/types/evidence"

	"verif/mc/explore"
	"verif/mc/par"
	"verif/netsim"
)

// ---------------------------------------------------------------------------------------------
// Part (c): end to end through consensus. A network of real ConsensusState nodes (netsim: three correct
// nodes + one Byzantine validator, a REAL evidence.Pool per node) runs netsim's schedule; the Byzantine
// validator is this monitor: the explorer chooses at which height, with which vote type and targets,
// to which nodes and in which order it equivocates, and which nodes additionally get its (valid, late)
// precommit for the previous block, so that the correct nodes' views of the last commit differ.
// Everything consensus hands to its pool is then followed: gossip (the reactor's codec + AddEvidence on
// every peer that has committed the evidence height), proposals (CreateProposalBlock takes
// PendingEvidence), validateBlock on the receivers, the committed chain.

type cParams struct {
	Net     int // 0 = the Byzantine validator is validator 3 (round-1 proposer of height 4), 1 = it is the round-1 proposer of height 1 (that height needs a second round)
	Cfg     int // 0 = default consensus parameters, 1 = Evidence.MaxBytes raised so that evidence fits the proposer's byte budget
	He      uint64
	Type    kproto.SignedMsgType
	Targets int // 0: proposed block vs nil, 1: nil vs unknown id, 2: proposed block vs unknown id
	Both    int // index into bothSets: which correct nodes receive both votes
	Late    int // precommits only (LastCommit path): 1 = the second vote arrives after the height was decided; 2 = so it does at every node of Both but the first, which gets it at once (its evidence is on its way into block He+1 while the others' consensus reports the same pair late)
	Skew    int // bit set over correct nodes that get the Byzantine precommit for block He-1 while waiting in NewHeight
	Bound   int
}

var cfgName = []string{"default-params", "evidence-fits-proposal"}
var targetName = []string{"block-vs-nil", "nil-vs-unknown", "block-vs-unknown"}

// which correct nodes (positions in World.Correct) get both votes; the last three get them in the other order
var bothSets = [][]int{{0}, {1}, {2}, {0, 1}, {0, 2}, {1, 2}, {0, 1, 2}, {0}, {1}, {2}}

func (p cParams) reversed() bool { return p.Both >= 7 }

func (p cParams) String() string {
	late := ""
	if p.Late == 1 {
		late = ",second-vote-after-decision"
	}
	if p.Late == 2 {
		late = ",second-vote-after-decision-except-at-first"
	}
	rev := ""
	if p.reversed() {
		rev = "-reversed"
	}
	net := ""
	if p.Net == 1 {
		net = "byz-proposes-round-1,"
	}
	return fmt.Sprintf("%sheight=%d,type=%d,%s,both-to=%v%s%s,lastcommit-skew=%03b", net, p.He, p.Type, targetName[p.Targets], bothSets[p.Both], rev, late, p.Skew)
}

// flavour: the attributes a violation may NEED (a violation is reported for the minimal sets of
// attributes with which it occurs, so that two defects behind one rule get two signatures).
func (p cParams) flavour() []string {
	var f []string
	if p.Skew != 0 && p.Skew != 7 {
		f = append(f, "lastcommit-views-differ")
	}
	if p.Late == 1 {
		f = append(f, "second-vote-after-decision")
	}
	if p.Late == 2 {
		f = append(f, "second-vote-at-once-at-one-node-after-decision-at-others")
	}
	if p.Net == 1 {
		f = append(f, "height-needs-second-round")
	}
	if p.He > 1 {
		f = append(f, "later-height")
	}
	return f
}

func (p cParams) class() string {
	f := p.flavour()
	if len(f) == 0 {
		return "initial-height"
	}
	return strings.Join(f, ",")
}

func subset(a, b []string) bool {
	for _, x := range a {
		in := false
		for _, y := range b {
			if x == y {
				in = true
			}
		}
		if !in {
			return false
		}
	}
	return true
}

const bigEvidenceMaxBytes = 484 * 10 * 1000

type cMonitor struct {
	p        cParams
	byz      int
	round    uint32 // round of the equivocation (fixed at the first injection)
	idX, idY types.BlockID
	haveIDs  bool
	doneX    map[int]bool
	doneY    map[int]bool
	doneSkew map[int]bool
	byzVotes map[string]*types.Vote // signature -> vote, everything the adversary signed

	known     map[string]*types.DuplicateVoteEvidence // evidence hash -> evidence, everything seen pending anywhere
	creator   map[string][]int
	offered   map[string]map[int]bool
	prevPend  map[int]map[string]bool // pending set per node at the end of the previous hook
	examined  map[string]bool         // proposals already examined
	toConfirm []confirm
	stats     cStats
}

type confirm struct {
	node  int
	block *types.Block
}

type cStats struct {
	Created, Offered, OfferAccepted, ProposedWithEvidence, CommittedEvidence, Conflicts int
}

func newCMonitor(p cParams) *cMonitor {
	return &cMonitor{p: p, doneX: map[int]bool{}, doneY: map[int]bool{}, doneSkew: map[int]bool{}, byzVotes: map[string]*types.Vote{},
		known: map[string]*types.DuplicateVoteEvidence{}, creator: map[string][]int{}, offered: map[string]map[int]bool{},
		prevPend: map[int]map[string]bool{}, examined: map[string]bool{}}
}

var unknownTarget = types.BlockID{Hash: common.BytesToHash([]byte("c19-unknown-block-c19-unknown-bl")), PartsHeader: types.PartSetHeader{Total: 1, Hash: common.BytesToHash([]byte("c19-unknown-parts-c19-unknown-pa"))}}

func cBlockKey(id types.BlockID) string {
	if id.IsZero() {
		return "nil"
	}
	return fmt.Sprintf("%x/%d/%x", id.Hash[:6], id.PartsHeader.Total, id.PartsHeader.Hash[:6])
}

func (m *cMonitor) byzVote(w *netsim.World, vals *types.ValidatorSet, t kproto.SignedMsgType, h uint64, round uint32, id types.BlockID, ts time.Time, tag string) *netsim.Msg {
	vi, val := vals.GetByAddress(w.Addrs[m.byz])
	if val == nil {
		return nil
	}
	v := &types.Vote{Type: t, Height: h, Round: round, BlockID: id, Timestamp: ts, ValidatorAddress: w.Addrs[m.byz], ValidatorIndex: uint32(vi)}
	p := v.ToProto()
	if err := types.NewDefaultPrivValidator(w.Keys[m.byz]).SignVote(w.Gen.ChainID, p); err != nil {
		panic(err)
	}
	v.Signature = p.Signature
	m.byzVotes[string(v.Signature)] = v
	w.VoteReg[string(v.Signature)] = v
	return &netsim.Msg{ID: fmt.Sprintf("V|%d|%d|%d|%x|%s|%x", v.Height, v.Round, v.Type, v.ValidatorAddress[:4], cBlockKey(v.BlockID), v.Signature[:8]),
		M: consensus.VerifVoteMsg(v), Kind: "vote", Height: h, Round: round, Vote: v, From: m.byz, ByzTag: tag}
}

var cBase = time.Date(2024, 1, 1, 0, 0, 0, 0, time.UTC)

func (m *cMonitor) voteTime(h uint64, round uint32, t kproto.SignedMsgType, late bool) time.Time {
	ts := cBase.Add(time.Duration(h)*1000*time.Second + time.Duration(round)*10*time.Second + time.Duration(t)*time.Second + 700*time.Millisecond)
	if late {
		ts = ts.Add(500 * time.Second)
	}
	return ts
}

// hook runs between two steps of the network (never inside a node's step).
func (m *cMonitor) hook(w *netsim.World) {
	m.confirmRejections(w)
	m.inject(w)
	m.scanPools(w)
	m.gossip(w)
	m.examineProposals(w)
	m.snapshot(w)
}

func (m *cMonitor) inject(w *netsim.World) {
	p := m.p
	for pos, i := range w.Correct {
		n := w.Nodes[i]
		if n.Failed != nil {
			continue
		}
		rs := n.RS()
		// the Byzantine validator's own (valid) precommit for the block decided at He-1, delivered late to some nodes
		if p.Skew&(1<<uint(pos)) != 0 && !m.doneSkew[i] && p.He > 1 && rs.Height == p.He && rs.Step == 1 && rs.LastCommit != nil {
			m.doneSkew[i] = true
			st := n.State()
			if msg := m.byzVote(w, rs.LastValidators, kproto.PrecommitType, p.He-1, rs.LastCommit.GetRound(), st.LastBlockID, m.voteTime(p.He-1, rs.LastCommit.GetRound(), kproto.PrecommitType, true), "c19-late-precommit"); msg != nil {
				w.Deliver(i, msg)
			}
		}
		inBoth := false
		for _, q := range bothSets[p.Both] {
			if q == pos {
				inBoth = true
			}
		}
		if !inBoth {
			continue
		}
		lateHere := p.Late == 1 || (p.Late == 2 && pos != bothSets[p.Both][0])
		rs = n.RS()
		if rs.Height == p.He && rs.Step >= 4 && !m.doneX[i] {
			if !m.haveIDs {
				m.round = rs.Round
				blockID := unknownTarget
				if rs.ProposalBlock != nil && rs.ProposalBlockParts != nil {
					blockID = types.BlockID{Hash: rs.ProposalBlock.Hash(), PartsHeader: rs.ProposalBlockParts.Header()}
				}
				switch p.Targets {
				case 0:
					m.idX, m.idY = blockID, types.BlockID{}
				case 1:
					m.idX, m.idY = types.BlockID{}, unknownTarget
				default:
					m.idX, m.idY = blockID, unknownTarget
					if blockID.Equal(unknownTarget) {
						m.idY = types.BlockID{}
					}
				}
				if p.reversed() {
					m.idX, m.idY = m.idY, m.idX
				}
				m.haveIDs = true
			}
			m.doneX[i] = true
			if msg := m.byzVote(w, rs.Validators, p.Type, p.He, m.round, m.idX, m.voteTime(p.He, m.round, p.Type, false), "c19-equivocation-first"); msg != nil {
				w.Deliver(i, msg)
			}
			if !lateHere {
				m.doneY[i] = true
				if msg := m.byzVote(w, rs.Validators, p.Type, p.He, m.round, m.idY, m.voteTime(p.He, m.round, p.Type, false), "c19-equivocation-second"); msg != nil {
					w.Deliver(i, msg)
				}
			}
			continue
		}
		if lateHere && m.doneX[i] && !m.doneY[i] && rs.Height == p.He+1 && rs.Step == 1 && rs.LastCommit != nil {
			m.doneY[i] = true
			if msg := m.byzVote(w, rs.LastValidators, p.Type, p.He, m.round, m.idY, m.voteTime(p.He, m.round, p.Type, false), "c19-equivocation-second-late"); msg != nil {
				w.Deliver(i, msg)
			}
		}
	}
}

func evKey(e types.Evidence) string { return e.Hash().Hex() }

func pendingOf(n *consensus.VerifNode) []types.Evidence {
	if n.EvPool == nil {
		return nil
	}
	evs, _ := n.EvPool.PendingEvidence(-1)
	return evs
}

// scanPools: everything pending anywhere must accuse the Byzantine validator with votes it really signed.
func (m *cMonitor) scanPools(w *netsim.World) {
	for _, i := range w.Correct {
		n := w.Nodes[i]
		for _, e := range pendingOf(n) {
			k := evKey(e)
			dve, ok := e.(*types.DuplicateVoteEvidence)
			if !ok {
				continue
			}
			if _, seen := m.known[k]; !seen {
				m.known[k] = dve
				m.stats.Created++
				a, b := m.byzVotes[string(dve.VoteA.Signature)], m.byzVotes[string(dve.VoteB.Signature)]
				switch {
				case dve.VoteA.ValidatorAddress != w.Addrs[m.byz] || dve.VoteB.ValidatorAddress != w.Addrs[m.byz]:
					w.Violate("C19:correct-validator-accused", i, "node %d holds evidence against %x, who is not the Byzantine validator", i, dve.VoteA.ValidatorAddress[:4])
				case a == nil || b == nil:
					w.Violate("C19:evidence-of-unsigned-votes", i, "node %d holds evidence made of a vote the accused never signed", i)
				case a.Height != b.Height || a.Round != b.Round || a.Type != b.Type || idSame(a.BlockID, b.BlockID):
					w.Violate("C19:evidence-without-conflict", i, "node %d holds evidence whose two votes do not conflict", i)
				}
			}
			holders := m.creator[k]
			has := false
			for _, x := range holders {
				if x == i {
					has = true
				}
			}
			if !has && !m.offered[k][i] {
				m.creator[k] = append(holders, i)
			}
		}
	}
}

// gossip: what the evidence reactor does. A holder sends evidence to a peer once the peer's height is
// above the evidence height; the peer decodes and calls AddEvidence.
func (m *cMonitor) gossip(w *netsim.World) {
	var ks []string
	for k := range m.known {
		ks = append(ks, k)
	}
	sort.Strings(ks)
	for _, k := range ks {
		e := m.known[k]
		if len(m.creator[k]) == 0 {
			continue
		}
		for _, j := range w.Correct {
			n := w.Nodes[j]
			if n.Failed != nil || n.EvPool == nil || n.RS().Height <= e.Height() {
				continue
			}
			if m.offered[k] == nil {
				m.offered[k] = map[int]bool{}
			}
			isHolder := false
			for _, x := range m.creator[k] {
				if x == j {
					isHolder = true
				}
			}
			if isHolder || m.offered[k][j] {
				continue
			}
			m.offered[k][j] = true
			m.stats.Offered++
			bz, err := evidence.VerifC19EncodeMsg([]types.Evidence{e})
			var evs []types.Evidence
			if err == nil {
				evs, err = evidence.VerifC19DecodeMsg(bz)
			}
			if err != nil || len(evs) != 1 {
				w.Violate("C19:produced-evidence-rejected-by-peer:wire-codec", j, "evidence produced by node %v cannot be sent to node %d: %v", m.creator[k], j, err)
				continue
			}
			var aerr error
			func() {
				defer func() {
					if x := recover(); x != nil {
						aerr = fmt.Errorf("panic: %v", x)
						w.Violate("C19:add-evidence-panics", j, "AddEvidence panicked on node %d: %v", j, x)
					}
				}()
				aerr = n.EvPool.AddEvidence(evs[0])
			}()
			ok := false
			if aerr == nil {
				for _, pe := range pendingOf(n) {
					if evKey(pe) == k {
						ok = true
					}
				}
				if !ok && m.committedOn(w, j, k) {
					ok = true
				}
			}
			if ok {
				m.stats.OfferAccepted++
				continue
			}
			cause := "other"
			bt := "unknown"
			if meta := n.App.LoadBlockMeta(e.Height()); meta != nil {
				bt = meta.Header.Time.String()
			}
			switch {
			case aerr != nil && strings.Contains(aerr.Error(), "different time"):
				cause = "time-mismatch"
			case aerr != nil && strings.Contains(aerr.Error(), "don't have header"):
				cause = "no-header"
			case aerr == nil:
				cause = "silently-dropped"
			}
			w.Violate("C19:produced-evidence-rejected-by-peer:"+cause, j,
				"evidence for height %d produced by the consensus of node %v (evidence time %v) is refused by node %d at height %d (time of its block %d: %s): %v",
				e.Height(), m.creator[k], e.Time(), j, n.RS().Height, e.Height(), bt, aerr)
		}
	}
}

func (m *cMonitor) committedOn(w *netsim.World, j int, k string) bool {
	for _, rec := range w.Nodes[j].App.Saved {
		for _, e := range rec.Block.Evidence().Evidence {
			if evKey(e) == k {
				return true
			}
		}
	}
	return false
}

// examineProposals: a correct proposer puts its pending evidence of earlier heights into the block.
func (m *cMonitor) examineProposals(w *netsim.World) {
	for _, i := range w.Correct {
		n := w.Nodes[i]
		if n.Failed != nil {
			continue
		}
		rs := n.RS()
		if rs.Proposal == nil || rs.ProposalBlock == nil || rs.ProposalBlock.ProposerAddress() != n.Addr {
			continue
		}
		k := fmt.Sprintf("%d|%d|%d|%x", i, rs.Height, rs.Round, rs.ProposalBlock.Hash())
		if m.examined[k] {
			continue
		}
		m.examined[k] = true
		in := map[string]bool{}
		for _, e := range rs.ProposalBlock.Evidence().Evidence {
			in[evKey(e)] = true
		}
		if len(in) > 0 {
			m.stats.ProposedWithEvidence++
		}
		now := map[string]bool{}
		for _, e := range pendingOf(n) {
			now[evKey(e)] = true
		}
		for h := range m.prevPend[i] {
			e := m.known[h]
			if e == nil || !now[h] || in[h] || e.Height() >= rs.ProposalBlock.Height() {
				continue
			}
			w.Violate("C19:pending-evidence-not-proposed", i,
				"node %d proposes block %d (round %d) without the evidence for height %d that is pending in its pool (%d bytes; PendingEvidence is asked for at most %d BYTES)",
				i, rs.ProposalBlock.Height(), rs.Round, e.Height(), len(e.Bytes()), maxEvidenceArg(n))
		}
	}
}

func maxEvidenceArg(n *consensus.VerifNode) int64 {
	v, _ := types.MaxEvidencePerBlock(n.State().ConsensusParams.Evidence.MaxBytes)
	return v
}

func (m *cMonitor) snapshot(w *netsim.World) {
	for _, i := range w.Correct {
		s := map[string]bool{}
		for _, e := range pendingOf(w.Nodes[i]) {
			s[evKey(e)] = true
		}
		m.prevPend[i] = s
	}
}

// confirmRejections: a nil prevote although the node holds the complete block of a correct proposer.
func (m *cMonitor) confirmRejections(w *netsim.World) {
	for _, c := range m.toConfirm {
		n := w.Nodes[c.node]
		if n.Failed != nil || n.EvPool == nil {
			continue
		}
		var err error
		func() {
			defer func() {
				if x := recover(); x != nil {
					err = fmt.Errorf("panic: %v", x)
				}
			}()
			err = n.EvPool.CheckEvidence(c.block.Evidence().Evidence)
		}()
		if err == nil {
			continue
		}
		cause := "other"
		switch {
		case strings.Contains(err.Error(), "different time"):
			cause = "time-mismatch"
		case strings.Contains(err.Error(), "don't have header"):
			cause = "evidence-of-undecided-height"
		case strings.Contains(err.Error(), "already committed"):
			cause = "already-committed"
		}
		w.Violate("C19:block-with-evidence-rejected:"+cause, c.node,
			"node %d prevotes nil on block %d of a correct proposer because of the evidence in it: %v", c.node, c.block.Height(), err)
	}
	m.toConfirm = nil
}

func (m *cMonitor) OnDeliver(w *netsim.World, d netsim.Delivery) {
	if d.Ev == "own" || (d.Msg != nil && strings.HasPrefix(d.Msg.ByzTag, "c19-")) {
		return
	}
	m.hook(w)
}

func (m *cMonitor) OnSign(w *netsim.World, node int, rec consensus.VerifSignRecord) {
	if rec.Kind != "vote" || rec.Type != int32(kproto.PrevoteType) || !rec.BlockID.IsZero() {
		return
	}
	n := w.Nodes[node]
	rs := n.RS()
	if rs.ProposalBlock == nil || rs.LockedBlock != nil || len(rs.ProposalBlock.Evidence().Evidence) == 0 {
		return
	}
	if w.IsByz[whoIn(w, rs.ProposalBlock.ProposerAddress())] {
		return
	}
	m.toConfirm = append(m.toConfirm, confirm{node, rs.ProposalBlock})
}

func whoIn(w *netsim.World, a common.Address) int {
	for i, x := range w.Addrs {
		if x == a {
			return i
		}
	}
	return -1
}

func (m *cMonitor) OnCommit(w *netsim.World, node int, rec consensus.VerifCommitRecord) {}

func (m *cMonitor) OnEnd(w *netsim.World) {
	m.confirmRejections(w)
	m.scanPools(w)
	m.gossip(w)
	m.examineProposals(w)
	for _, i := range w.Correct {
		n := w.Nodes[i]
		if n.Failed != nil {
			w.Violate("C19:node-halted-by-panic", i, "node %d halted: %v", i, n.Failed)
			continue
		}
		byHash := map[string]int{}
		byClass := map[string]int{}
		for _, rec := range n.App.Saved {
			for _, e := range rec.Block.Evidence().Evidence {
				dve, ok := e.(*types.DuplicateVoteEvidence)
				if !ok {
					continue
				}
				byHash[evKey(e)]++
				byClass[equivocationID(dve, w.Gen.ChainID)]++
				if i == w.Correct[0] {
					m.stats.CommittedEvidence++
				}
				if dve.VoteA.ValidatorAddress != w.Addrs[m.byz] || m.byzVotes[string(dve.VoteA.Signature)] == nil || m.byzVotes[string(dve.VoteB.Signature)] == nil {
					w.Violate("C19:chain-holds-forged-evidence", i, "the chain of node %d contains evidence not made of two votes the Byzantine validator signed", i)
				}
			}
		}
		for _, c := range byClass {
			if c > 1 {
				w.Violate("C19:evidence-committed-twice", i, "the chain of node %d contains the same double-signing %d times", i, c)
			}
		}
		for _, e := range pendingOf(n) {
			if byHash[evKey(e)] > 0 {
				w.Violate("C19:pending-includes-committed", i, "node %d still lists evidence as pending that its own chain contains", i)
			}
		}
	}
	for _, v := range m.byzVotes {
		_ = v
	}
}

// ---------------------------------------------------------------------------------------------
// enumeration

type CCase struct {
	Part    string   `json:"part"`
	Params  cParams  `json:"params"`
	Choices []int    `json:"choices"`
	Rules   []string `json:"rules"`
	Trace   []string `json:"trace,omitempty"`
}

func cScenarios(cfg int) []cParams {
	var out []cParams
	heights := []uint64{1, 2}
	targets := []int{0, 1}
	if r.Thorough() {
		heights = []uint64{1, 2, 3}
		targets = []int{0, 1, 2}
	}
	for _, he := range heights {
		for _, t := range []kproto.SignedMsgType{kproto.PrevoteType, kproto.PrecommitType} {
			for _, tg := range targets {
				for both := range bothSets {
					if !r.Thorough() && both >= 3 && both != 6 && both != 7 {
						continue // quick: singletons, everybody, one reversed order
					}
					lates := []int{0}
					if t == kproto.PrecommitType {
						lates = []int{0, 1}
					}
					for _, late := range lates {
						skews := []int{0}
						if he > 1 {
							skews = []int{0, 1, 2, 4, 3, 6, 7}
							if !r.Thorough() {
								skews = []int{0, 1, 2, 4, 7}
							}
						}
						for _, sk := range skews {
							out = append(out, cParams{Cfg: cfg, He: he, Type: t, Targets: tg, Both: both, Late: late, Skew: sk})
						}
					}
				}
			}
		}
	}
	// one node sees both precommits during the height, the others of the set get the second one only while
	// they wait in NewHeight of the next height: their consensus reports the pair when the first node's
	// evidence is already on its way into (or in) the next block
	for _, he := range heights {
		for _, tg := range targets {
			for _, both := range []int{3, 4, 5, 6} {
				if !r.Thorough() && both != 3 && both != 6 {
					continue
				}
				out = append(out, cParams{Cfg: cfg, He: he, Type: kproto.PrecommitType, Targets: tg, Both: both, Late: 2})
			}
		}
	}
	// the Byzantine validator is the round-1 proposer of height 1: nobody proposes, the height needs round 2
	for _, t := range []kproto.SignedMsgType{kproto.PrevoteType, kproto.PrecommitType} {
		for _, tg := range []int{0, 1} {
			for both := range bothSets {
				if !r.Thorough() && both >= 3 && both != 6 && both != 7 {
					continue
				}
				out = append(out, cParams{Net: 1, Cfg: cfg, He: 1, Type: t, Targets: tg, Both: both})
			}
		}
	}
	return out
}

func cConfig(p cParams) netsim.Config {
	c := netsim.Config{Name: "c19-" + cfgName[p.Cfg], Powers: []int64{1, 1, 1, 1}, Byz: []int{3}, TargetHeight: p.He + 2, MaxRound: 4, MaxSteps: 2500}
	if p.Net == 1 {
		c.Byz, c.ByzProposer = nil, true
	}
	return c
}

// runC executes one scenario on one choice list.
func runC(p cParams, choices []int, trace bool) (*netsim.World, *cMonitor, *explore.Ctx) {
	ex := &explore.Explorer{Bound: p.Bound, NoPrune: true}
	var w *netsim.World
	var m *cMonitor
	ex.Body = func(c *explore.Ctx) { w, m = cBody(p, c, trace) }
	c := ex.RunOne(choices)
	return w, m, c
}

func cBody(p cParams, c *explore.Ctx, trace bool) (*netsim.World, *cMonitor) {
	w := netsim.NewWorld(cConfig(p), c)
	defer w.Close()
	w.KeepTrace = trace
	m := newCMonitor(p)
	m.byz = w.Cfg.Byz[0]
	if p.Cfg == 1 {
		for _, i := range w.Correct {
			w.Nodes[i].VerifC19SetEvidenceMaxBytes(bigEvidenceMaxBytes)
		}
	}
	w.Monitors = []netsim.Monitor{m}
	w.Run()
	c.Outcome = w.Outcome
	return w, m
}

func cRules(w *netsim.World) []string {
	u := map[string]bool{}
	for _, v := range w.Viol {
		if strings.HasPrefix(v.Rule, "C19:") {
			u[v.Rule] = true
		}
	}
	var out []string
	for k := range u {
		out = append(out, k)
	}
	sort.Strings(out)
	return out
}

type cFinding struct {
	rule   string
	what   string
	p      cParams
	idx    int
	choice []int
}

func runPartC(bound int) {
	var mu sync.Mutex
	best := map[string]*cFinding{} // cfg|rule|class -> smallest scenario
	var tot cStats
	executions, withConflict, withGossip, withCommit, withProposed := 0, 0, 0, 0, 0
	outcomes := map[string]bool{}
	classCount := map[string]int{}
	defer func() {
		if os.Getenv("C19_DEBUG") != "" {
			var ks []string
			for k := range classCount {
				ks = append(ks, k)
			}
			sort.Strings(ks)
			for _, k := range ks {
				fmt.Println("  ", classCount[k], k)
			}
			fmt.Println("outcomes", outcomes)
		}
	}()
	for cfg := 0; cfg < 2; cfg++ {
		scen := cScenarios(cfg)
		stop := false
		done := par.For(int64(len(scen)), 1, func() bool { return r.Expired() }, func(si int64) {
			p := scen[si]
			p.Bound = 0
			if bound > 0 && p.He == 2 && p.Targets == 0 && p.Both == 0 && p.Net == 0 && (p.Skew == 0 || p.Skew == 1) {
				p.Bound = bound // every single deviation (reorder, delay, early timeout) from the synchronous schedule
			}
			ex := &explore.Explorer{Bound: p.Bound, NoPrune: true, Workers: 1}
			if p.Bound > 0 {
				ex.Deadline = deadlineAt
			}
			ex.OnPanic = func(c *explore.Ctx, x interface{}) {
				r.Violation(fmt.Sprintf("C19|part=c|config=%s|oracle=harness-panic", cfgName[p.Cfg]), fmt.Sprintf("harness panicked in scenario %s: %v", p, x),
					CCase{Part: "c", Params: p, Choices: c.Choices()})
			}
			ex.Body = func(c *explore.Ctx) {
				w, m := cBody(p, c, false)
				rules := cRules(w)
				if os.Getenv("C19_DEBUG") == "2" && si%40 == 0 {
					fmt.Println(p.String(), "=>", w.Outcome)
				}
				mu.Lock()
				executions++
				outcomes[strings.SplitN(w.Outcome, " ", 2)[0]] = true
				if m.stats.Created > 0 {
					withConflict++
				}
				if m.stats.Offered > 0 {
					withGossip++
				}
				if m.stats.CommittedEvidence > 0 {
					withCommit++
				}
				if m.stats.ProposedWithEvidence > 0 {
					withProposed++
				}
				tot.Created += m.stats.Created
				tot.Offered += m.stats.Offered
				tot.OfferAccepted += m.stats.OfferAccepted
				tot.CommittedEvidence += m.stats.CommittedEvidence
				tot.ProposedWithEvidence += m.stats.ProposedWithEvidence
				for _, rule := range rules {
					classCount[cfgName[p.Cfg]+"|"+rule+"|"+p.class()]++
					k := cfgName[p.Cfg] + "|" + rule + "|" + p.class()
					if old, ok := best[k]; !ok || int(si) < old.idx || (int(si) == old.idx && len(c.Choices()) < len(old.choice)) {
						what := ""
						for _, v := range w.Viol {
							if v.Rule == rule {
								what = v.What
								break
							}
						}
						best[k] = &cFinding{rule: rule, what: what, p: p, idx: int(si), choice: c.Choices()}
					}
				}
				mu.Unlock()
				r.Add("transitions", int64(w.Step))
				r.Add("traces_validated_against_impl", int64(w.Step))
				r.Add("partc_network_steps", int64(w.Step))
				r.Distinct("distinct_nontrivial", fmt.Sprintf("c/%s/%s/%d/%d/%v", p.class(), strings.SplitN(w.Outcome, " ", 2)[0], m.stats.Created, m.stats.CommittedEvidence, rules))
				if m.stats.Created > 0 && si%7 == 3 && takeSample("c", 2) {
					r.Sample(map[string]interface{}{"part": "c", "config": cfgName[p.Cfg], "scenario": p.String(), "outcome": w.Outcome, "evidence_created": m.stats.Created,
						"gossip_offers": m.stats.Offered, "gossip_accepted": m.stats.OfferAccepted, "evidence_committed": m.stats.CommittedEvidence, "rules_violated": rules})
				}
			}
			s := ex.Explore()
			if !s.Completed {
				r.NotExhaustive("part (c): deadline inside the deviation-bounded exploration of scenario " + p.String())
			}
			if p.Bound > 0 {
				r.Add("partc_executions_with_schedule_deviation", s.Executions-1)
			}
			r.Add("partc_executions", s.Executions)
			r.Add("states", s.Executions) // every execution ends in a distinct terminal network state
		})
		if done < int64(len(scen)) {
			r.NotExhaustive(fmt.Sprintf("part (c): deadline after %d of %d scenarios of configuration %s", done, len(scen), cfgName[cfg]))
			stop = true
		}
		r.Add("partc_scenarios", done)
		if stop {
			break
		}
	}
	r.Set("partc_bound", bound)
	r.Set("partc_totals", map[string]int{"executions": executions, "executions_with_evidence_created": withConflict, "executions_with_gossip": withGossip,
		"executions_with_evidence_in_a_proposal": withProposed, "executions_with_evidence_committed": withCommit,
		"evidence_created": tot.Created, "gossip_offers": tot.Offered, "gossip_accepted": tot.OfferAccepted})
	r.Require(withConflict > 0, "part (c): no execution made a correct node's consensus produce evidence")
	r.Require(withGossip > 0, "part (c): no evidence was ever offered to another node")
	r.Require(len(outcomes) >= 1 && outcomes["done"], "part (c): no execution reached the target height")
	var ks []string
	for k := range best {
		ks = append(ks, k)
	}
	sort.Strings(ks)
	reported := map[string]bool{} // rule|cause already reported under an earlier configuration
	for _, k := range ks {
		f := best[k]
		// keep only the minimal flavours of this (configuration, rule)
		minimal := true
		for _, k2 := range ks {
			g := best[k2]
			if g != f && g.p.Cfg == f.p.Cfg && g.rule == f.rule && len(g.p.flavour()) < len(f.p.flavour()) && subset(g.p.flavour(), f.p.flavour()) {
				minimal = false
			}
		}
		if !minimal {
			continue
		}
		if f.rule == "C19:pending-evidence-not-proposed" && realProposes == "includes" {
			// netsim's simulated application is a transcription of BlockOperations.CreateProposalBlock; the
			// original (full-stack probe) does propose pending evidence, so the transcription is out of date
			r.Set("netsim_application_mirror_stale", "VerifSimApp.CreateProposalBlock omits pending evidence that the real BlockOperations.CreateProposalBlock includes; rule not judged on the mirror")
			continue
		}
		rc := f.rule + "|" + f.p.class()
		if reported[rc] {
			continue // same rule, same cause: the parameter set makes no difference
		}
		reported[rc] = true
		sig := fmt.Sprintf("C19|part=c|config=%s|oracle=%s|cause={%s}", cfgName[f.p.Cfg], strings.TrimPrefix(f.rule, "C19:"), f.p.class())
		cc := CCase{Part: "c", Params: f.p, Choices: f.choice, Rules: []string{f.rule}}
		if r.IsKnown(sig) {
			r.Violation(sig, "", nil)
			continue
		}
		r.ViolationConfirmed(sig, f.what, cc, func() string {
			w2, _, _ := runC(f.p, f.choice, false)
			for _, r2 := range cRules(w2) {
				if r2 == f.rule {
					return sig
				}
			}
			return "not-reproduced"
		})
	}
}

func replayC(c CCase) bool {
	w, m, _ := runC(c.Params, c.Choices, true)
	for _, l := range w.Trace {
		fmt.Println(l)
	}
	fmt.Println("scenario:", c.Params.String())
	fmt.Println("outcome:", w.Outcome)
	fmt.Printf("stats: %+v\n", m.stats)
	bad := false
	for _, v := range w.Viol {
		fmt.Printf("violation %s at step %d node %d: %s\n", v.Rule, v.Step, v.Node, v.What)
		for _, want := range c.Rules {
			if v.Rule == want {
				bad = true
			}
		}
	}
	return bad
}

var _ = os.Getenv
