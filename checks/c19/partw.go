package main

import (
	"fmt"
	"sort"
	"strings"
	"sync"

	kproto "github.com/kardiachain/go-kardia/proto/kardiachain/types"
	"github.com/kardiachain/go-kardia/types"
	"github.com/kardiachain/go-kardia/types/evidence"

	"verif/mc/par"
)

// ---------------------------------------------------------------------------------------------
// Part (a''), "expiry-order worlds": SEVERAL pieces of evidence pending at once, at heights on both sides
// of a boundary where the printed width of the height changes (15|16 = F|10, 255|256 = FF|100), on live
// chains (real store, pool, executor; one database). The fixture leaves a gap of 100 s before the block of
// the boundary height, so with MaxAgeNumBlocks 2 / MaxAgeDuration 30 s the evidence of heights B-2 and B-1
// expires with heads B+1 and B+2 while the evidence of heights B and B+1 stays valid (only its height
// window is ever exceeded).
//
//   history = at head B: every non-empty subset of {B-2, B-1, B} enters (all by AddEvidence / all by
//             CheckEvidence / first by AddEvidence, rest by CheckEvidence); then four blocks, with the
//             evidence of height B+1 optionally added at head B+1 and a restart (evidence.NewPool on the
//             same database) optionally placed before any one of the blocks or after the last.
//   oracle, after every Update and after every restart: the pending keys, what PendingEvidence lists and
//             (after a restart) the gossip list are EXACTLY the reference pending set = entered, not
//             committed, not expired at the new head - whatever else is pending and in whatever order the
//             database holds the keys; the gossip list never holds anything that is not pending;
//             CheckEvidence([e]) is nil exactly for the members of the reference set; a block of the next
//             height carrying an expired e is refused by the real ValidateBlock.

type WCase struct {
	Part     string   `json:"part"`
	Boundary uint64   `json:"boundary_height"`
	Heights  []uint64 `json:"evidence_heights_entered_at_boundary_head"`
	Entry    string   `json:"entry"`
	Younger  bool     `json:"evidence_of_next_height_added_after_first_block"`
	Restart  int      `json:"restart_before_block"` // 0 = none, k = before the k-th block, 5 = after the last
}

const wBlocks = 4

func (c WCase) label() string {
	var hs []string
	for _, h := range c.Heights {
		hs = append(hs, fmt.Sprint(h))
	}
	y := ""
	if c.Younger {
		y = fmt.Sprintf("+%d-later", c.Boundary+1)
	}
	rs := "none"
	if c.Restart > 0 && c.Restart <= wBlocks {
		rs = fmt.Sprintf("before-block-%d", c.Restart)
	} else if c.Restart > wBlocks {
		rs = "after-last-block"
	}
	return fmt.Sprintf("pending=%s%s|entry=%s|restart=%s", strings.Join(hs, "+"), y, c.Entry, rs)
}

func (c WCase) size() int {
	n := len(c.Heights) * 100
	if c.Younger {
		n += 50
	}
	switch c.Entry {
	case "check":
		n += 10
	case "add-then-check":
		n += 20
	}
	return n + c.Restart
}

func wEvidence(h uint64) *types.DuplicateVoteEvidence {
	who := 1 + int(h%2) // V1 / V2 alternate, both members of set B
	idx := idxIn(h, who)
	vts := fx.blockTime[h].Add(800 * 1e6)
	va := mkVote(who, who, h, 1, kproto.PrecommitType, idX, vts, idx, chainID)
	vb := mkVote(who, who, h, 1, kproto.PrecommitType, idY, vts, idx, chainID)
	if idLess(idY, idX) {
		va, vb = vb, va
	}
	vp, _ := refPower(h, addrs[who])
	return &types.DuplicateVoteEvidence{VoteA: va, VoteB: vb, TotalVotingPower: refTotal(h), ValidatorPower: vp, Timestamp: fx.blockTime[h]}
}

type wFailure struct {
	Oracle, What string
	Case         WCase
}

var (
	wMu    sync.Mutex
	wFails = map[string]*wFailure{}
	wStats = map[string]int64{}
)

func wBoundaryName(b uint64) string { return fmt.Sprintf("%d/%d", b-1, b) }

func noteW(oracle string, c WCase, what string) {
	key := fmt.Sprintf("%s|%d", oracle, c.Boundary)
	wMu.Lock()
	if old, ok := wFails[key]; !ok || c.size() < old.Case.size() || (c.size() == old.Case.size() && c.label() < old.Case.label()) {
		wFails[key] = &wFailure{Oracle: oracle, What: what, Case: c}
	}
	wMu.Unlock()
}

func runExpiryOrderWorlds(boundaries []uint64) {
	var jobs []WCase
	for _, b := range boundaries {
		if fx.snaps[b] == nil {
			r.Vacuous(fmt.Sprintf("expiry-order worlds: no snapshot at head %d", b))
			continue
		}
		base := []uint64{b - 2, b - 1, b}
		for mask := 1; mask < 8; mask++ {
			var hs []uint64
			for k, h := range base {
				if mask&(1<<uint(k)) != 0 {
					hs = append(hs, h)
				}
			}
			for _, entry := range []string{"add", "check", "add-then-check"} {
				if entry == "add-then-check" && len(hs) < 2 {
					continue
				}
				for _, y := range []bool{false, true} {
					for rs := 0; rs <= wBlocks+1; rs++ {
						jobs = append(jobs, WCase{Part: "w", Boundary: b, Heights: hs, Entry: entry, Younger: y, Restart: rs})
					}
				}
			}
		}
	}
	par.For(int64(len(jobs)), 1, func() bool { return r.Expired() }, func(i int64) { runW(jobs[i], true) })
	wMu.Lock()
	defer wMu.Unlock()
	r.Add("expiryorder_histories", int64(len(jobs)))
	for k, n := range wStats {
		r.Add("expiryorder_"+k, n)
	}
	r.Require(wStats["updates_with_expired_and_unexpired_pending_across_width_boundary"] > 0,
		"expiry-order worlds: no Update happened while an expired piece of evidence of a narrower height and an unexpired one of a wider height were both pending")
	r.Require(wStats["pruned_while_younger_stays"] > 0, "expiry-order worlds: no evidence was ever pruned while younger evidence stayed pending")
	var ks []string
	for k := range wFails {
		ks = append(ks, k)
	}
	sort.Strings(ks)
	for _, k := range ks {
		f := wFails[k]
		sig := fmt.Sprintf("C19|part=a|world=expiry-order|boundary=%s|%s|oracle=%s", wBoundaryName(f.Case.Boundary), f.Case.label(), f.Oracle)
		r.Violation(sig, f.What, f.Case)
	}
}

func wCount(k string, n int64) {
	wMu.Lock()
	wStats[k] += n
	wMu.Unlock()
}

func hashSetOf(evs []types.Evidence) map[string]bool {
	out := map[string]bool{}
	for _, e := range evs {
		out[normHash(e.Hash().Hex())] = true
	}
	return out
}

func runW(c WCase, judge bool) (violated bool) {
	s := fx.snaps[c.Boundary]
	d, err := openChain(s.kvs, s.state, s.last)
	if err != nil {
		r.Vacuous("expiry-order worlds: cannot open the snapshot: " + err.Error())
		return false
	}
	fail := func(oracle, what string) {
		violated = true
		if judge {
			noteW(oracle, c, what)
		} else {
			fmt.Printf("violation %s: %s\n", oracle, what)
		}
	}
	defer func() {
		if x := recover(); x != nil {
			fail("panic", "the history panicked: "+short(fmt.Sprint(x)))
		}
	}()
	r.Add("evaluations", 1)
	type piece struct {
		h    uint64
		ev   *types.DuplicateVoteEvidence
		wire types.Evidence
		hash string
		add  bool // entered through AddEvidence (so it belongs into the gossip list)
	}
	var entered []*piece
	enter := func(h uint64, byAdd bool) {
		ev := wEvidence(h)
		w, err := roundTrip(ev)
		if err != nil {
			panic(err)
		}
		p := &piece{h: h, ev: ev, wire: w, hash: normHash(ev.Hash().Hex()), add: byAdd}
		r.Add("transitions", 1)
		r.Add("traces_validated_against_impl", 1)
		if byAdd {
			err = d.pool.AddEvidence(w)
		} else {
			err = d.pool.CheckEvidence(types.EvidenceList{w})
		}
		if err != nil || !pendingHashes(d.pool)[p.hash] {
			fail("valid-rejected", fmt.Sprintf("head %d: valid, unexpired evidence of height %d is not pending after it was offered (%v)", d.state.LastBlockHeight, h, err))
			return
		}
		entered = append(entered, p)
	}
	head := func() uint64 { return d.state.LastBlockHeight }
	// judge compares everything observable with the reference pending set at the current head
	judgeNow := func(after string, restarted bool) {
		ctx := ctxAt(head())
		ref := map[string]*piece{}
		expired := map[string]*piece{}
		for _, p := range entered {
			if expiryClass(ctx, p.h) == "both" {
				expired[p.hash] = p
			} else {
				ref[p.hash] = p
			}
		}
		pend := pendingHashes(d.pool)
		evs, _ := d.pool.PendingEvidence(-1)
		listed := hashSetOf(evs)
		view := evidence.VerifC19Inspect(d.pool)
		gossip := hashSetOf(view.List)
		describe := func() string {
			var ps []string
			for _, p := range entered {
				st := "valid"
				if expired[p.hash] != nil {
					st = "EXPIRED"
				}
				ps = append(ps, fmt.Sprintf("%d:%s:pending=%v", p.h, st, pend[p.hash]))
			}
			return strings.Join(ps, " ")
		}
		if !judge {
			fmt.Printf("%s, head %d: %s; listed %d, gossip list %d, Size() %d\n", after, head(), describe(), len(listed), len(gossip), view.Size)
		}
		for h, p := range expired {
			if pend[h] || listed[h] {
				fail("pending-includes-expired", fmt.Sprintf("%s (head %d): evidence of height %d exceeds both the height and the time window but is still pending / listed by PendingEvidence [%s]", after, head(), p.h, describe()))
			}
			if gossip[h] {
				fail("gossip-list-includes-expired", fmt.Sprintf("%s (head %d): the gossip list holds the expired evidence of height %d [%s]", after, head(), p.h, describe()))
			}
			r.Add("transitions", 1)
			r.Add("traces_validated_against_impl", 1)
			if err := d.pool.CheckEvidence(types.EvidenceList{p.wire}); err == nil {
				fail("expired-evidence-accepted", fmt.Sprintf("%s (head %d): CheckEvidence returns nil for the expired evidence of height %d [%s]", after, head(), p.h, describe()))
			}
			b, _ := d.makeBlock([]types.Evidence{p.wire})
			if err := d.validate(b); err == nil {
				fail("expired-evidence-accepted-in-block", fmt.Sprintf("%s (head %d): the real ValidateBlock accepts a block of height %d carrying the expired evidence of height %d [%s]", after, head(), head()+1, p.h, describe()))
			}
		}
		for h, p := range ref {
			if !pend[h] || !listed[h] {
				fail("accepted-evidence-lost", fmt.Sprintf("%s (head %d): the unexpired, uncommitted evidence of height %d is no longer pending / listed (Size()=%d) [%s]", after, head(), p.h, view.Size, describe()))
				continue
			}
			if (p.add || restarted) && !gossip[h] {
				fail("gossip-list-misses-pending", fmt.Sprintf("%s (head %d): the pending evidence of height %d is not in the gossip list [%s]", after, head(), p.h, describe()))
			}
			r.Add("transitions", 1)
			r.Add("traces_validated_against_impl", 1)
			if err := d.pool.CheckEvidence(types.EvidenceList{p.wire}); err != nil {
				fail("valid-rejected", fmt.Sprintf("%s (head %d): CheckEvidence refuses the pending, unexpired evidence of height %d: %v", after, head(), p.h, err))
			}
		}
		for h := range pend {
			if ref[h] == nil && expired[h] == nil {
				fail("pending-unknown-evidence", fmt.Sprintf("%s (head %d): a pending key nobody entered", after, head()))
			}
		}
		for h := range gossip {
			if !pend[h] {
				fail("gossip-list-not-pending", fmt.Sprintf("%s (head %d): the gossip list holds evidence that is not pending", after, head()))
			}
		}
		if int(view.Size) != len(pend) {
			fail("size-counter-wrong", fmt.Sprintf("%s (head %d): Size() = %d with %d pending keys", after, head(), view.Size, len(pend)))
		}
		// vacuity bookkeeping
		wide := func(h uint64) int { return len(fmt.Sprintf("%X", h)) }
		for _, e := range expired {
			for _, v := range ref {
				if wide(e.h) < wide(v.h) && strings.HasPrefix(after, "block") {
					wCount("updates_with_expired_and_unexpired_pending_across_width_boundary", 1)
				}
			}
		}
		if len(expired) > 0 && len(ref) > 0 {
			ok := true
			for h := range expired {
				if pend[h] {
					ok = false
				}
			}
			if ok {
				wCount("pruned_while_younger_stays", 1)
			}
		}
	}
	restart := func(when string) {
		r.Add("transitions", 1)
		r.Add("traces_validated_against_impl", 1)
		if err := d.attach(); err != nil {
			fail("restart-fails", "evidence.NewPool on the same database fails: "+err.Error())
			return
		}
		judgeNow("restart "+when, true)
	}
	for k, h := range c.Heights {
		byAdd := c.Entry == "add" || (c.Entry == "add-then-check" && k == 0)
		enter(h, byAdd)
	}
	judgeNow("entry", false)
	for k := 1; k <= wBlocks; k++ {
		if c.Restart == k {
			restart(fmt.Sprintf("before block %d", head()+1))
		}
		if k == 2 && c.Younger {
			enter(c.Boundary+1, c.Entry != "check")
		}
		b, ps := d.makeBlock(nil)
		if err := d.validate(b); err != nil {
			panic(err)
		}
		if err := d.commit(b, ps); err != nil {
			panic(err)
		}
		r.Add("transitions", 1)
		r.Add("traces_validated_against_impl", 1)
		if !fx.blockTime[head()].Equal(b.Time()) {
			panic(fmt.Sprintf("harness: block %d has time %v, the fixture schedule says %v", head(), b.Time(), fx.blockTime[head()]))
		}
		judgeNow(fmt.Sprintf("block %d", head()), false)
	}
	if c.Restart > wBlocks {
		restart("after the last block")
	}
	return violated
}

func replayW(c WCase) bool { return runW(c, false) }
