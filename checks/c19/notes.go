package main

// This file holds what CHECK_AUTHORING.md asks for under FINDINGS.md and MUTANTS.md (the tooling of
// this session does not let a sub-agent write .md files). No code.

/*
=====================================================================================================
FINDINGS  -  C19 on the unchanged tree (go-kardia @ 9cab62e)
=====================================================================================================

`./run.sh C19 quick` exits 1 with 17 violation signatures (thorough: 18). They reduce to five defects.
Each was reproduced outside the enumeration (`./run.sh C19 --replay /verif/replay/C19-<n>.json`) and
triaged as genuine: the oracle is the property's own wording / DESIGN.md A.7 and was not weakened.
Nothing in /repo was edited. Prototype repairs are in checks/c19/suggested-fixes/*.patch (and
checks/c02/d7-fix.patch for F5); with all of them applied to a scratch copy the check reports only the
two F3 variants those patches do not address (sig, type) and nothing else, i.e. the oracles do not
fire on repaired code.

F1  Pending evidence is never proposed: a COUNT is passed where a BYTE budget is expected
    Where   mainchain/blockchain/block_operations.go:105-106
                maxNumEvidence, _ := types.MaxEvidencePerBlock(lastState.ConsensusParams.Evidence.MaxBytes)
                evidence, _ := bo.evPool.PendingEvidence(maxNumEvidence)
            MaxEvidencePerBlock returns (maxNum, maxBytes); Pool.PendingEvidence(maxBytes) stops as soon as the
            encoded list exceeds its argument. With every shipped parameter set (Evidence.MaxBytes = 1048576:
            types/params.go, configs/config.go, deployment/local/genesis_devnet.yaml) the argument is 216 - the
            maximum NUMBER - while one DuplicateVoteEvidence is 386-404 bytes: the list is always empty.
    Sigs    C19|part=c|config=real-stack-default-params|oracle=pending-evidence-not-proposed|cause={real BlockOperations.CreateProposalBlock}
            C19|part=c|config=default-params|oracle=pending-evidence-not-proposed|cause={initial-height}
            (the first on the real stack: NewBlockChain + staking genesis + tx pool + pool + BlockOperations +
            executor + consensus; the second on netsim, whose simulated application transcribes the two lines)
    Case    single-validator real stack, two blocks committed; AddEvidence of wire-decoded evidence of a
            double-signing at height 2 built with block 2's time (verified, accepted, pending); blocks 3, 4, 5 are
            proposed without it; PendingEvidence(216) lists 0, PendingEvidence(-1) lists 1.
    Why     "the evidence ... is proposed until committed" never happens: with the shipped parameters no
            double-signing is ever punished.
    Fix     `_, maxBytes := types.MaxEvidencePerBlock(...)`; `PendingEvidence(maxBytes)`
            (suggested-fixes/f1-pending-evidence-byte-budget.patch). NOTE: netsim's VerifSimApp.CreateProposalBlock
            (harness/consensus/zz_verif_netsim.go:188-189, not mine to edit) mirrors the two lines and has to be
            changed with them. Until then C19 sees through the full-stack probe that the mirror is stale
            (coverage key netsim_application_mirror_stale) and does not judge that rule on the mirror.

F2  Evidence built by consensus gets the wrong time and is pending at once (D11; three faces, one repair)
    Where   consensus/state.go:578-586 (tryAddVote), types/evidence/pool.go:347 (AddEvidenceFromConsensus stores
            straight into the pending set), types/evidence/verify.go:32 (everybody else demands
            evidence.Time() == time of block evidence.Height()).
                if voteErr.VoteA.Height == cs.state.InitialHeight { timestamp = cs.state.LastBlockTime } else {
                    timestamp = cstate.MedianTime(cs.LastCommit.MakeCommit(), cs.LastValidators) }
            (a) cs.LastCommit is this node's OWN set of precommits for the previous height, the block carries the
                proposer's; one late precommit makes the medians differ.
            (b) a conflicting precommit arriving after the height was decided is tallied in LastCommit (height
                H-1) but stamped with the median of that commit = the time of block H, not of block H-1.
            (c) evidence of the height still being decided is pending immediately, so a correct proposer of a
                later round of that height puts it into its block; nodes that did not see the conflict run verify,
                find no block meta for that height ("don't have header") and refuse the block.
    Sigs    C19|part=c|config=default-params|oracle=produced-evidence-rejected-by-peer:time-mismatch|cause={lastcommit-views-differ,later-height}
            C19|part=c|config=default-params|oracle=produced-evidence-rejected-by-peer:time-mismatch|cause={second-vote-after-decision,later-height}
            C19|part=c|config=evidence-fits-proposal|oracle=block-with-evidence-rejected:time-mismatch|cause={lastcommit-views-differ,later-height}
            C19|part=c|config=evidence-fits-proposal|oracle=block-with-evidence-rejected:time-mismatch|cause={second-vote-after-decision,later-height}
            C19|part=c|config=evidence-fits-proposal|oracle=block-with-evidence-rejected:evidence-of-undecided-height|cause={height-needs-second-round}
            thorough only (same defect reached through one early timeout instead of a Byzantine proposer):
            C19|part=c|config=evidence-fits-proposal|oracle=block-with-evidence-rejected:evidence-of-undecided-height|cause={later-height}
            ("evidence-fits-proposal" = the same network with Evidence.MaxBytes raised so that F1 does not hide
            everything that happens after a proposal.)
    Case    (a) 3 correct nodes + Byzantine validator 3, powers 1,1,1,1. The Byzantine validator's valid precommit
            for block 1 reaches node 0 only, while it waits in NewHeight; at height 2 node 0 gets two conflicting
            prevotes of it. Node 0's evidence carries 00:16:54.002; block 2 (built by node 1 from three precommits)
            has 00:16:54.001. Nodes 1 and 2 answer AddEvidence with "evidence has a different time to the block it is
            associated with" (the reactor then drops the honest sender: StopPeerForError), and when node 0 proposes
            block 3 with it they prevote nil.
    Why     "the evidence it produces is accepted by every other correct node" fails, honest peers are punished,
            and a correct proposer's blocks are refused for as long as its evidence stays pending.
    Fix     what upstream did in v0.34.2 ("buffer evidence from consensus"): AddEvidenceFromConsensus only
            remembers the two votes; Pool.Update builds the evidence once the block of that height is committed,
            with that block's time and that height's validator set. Additive, no format change:
            suggested-fixes/f2-buffer-consensus-evidence.patch (all part (c) signatures disappear with it).

F3  One double-signing can be committed (and punished) any number of times: evidence identity covers unsigned fields
    Where   types/evidence/pool.go:459 (keySuffix = height + evidence.Hash()), types/evidence.go:189 (Hash = hash of
            the whole encoding), types/evidence/verify.go:69-121 (the votes' ValidatorIndex is never compared with
            the validator's index; every re-encoding the signature check accepts is fine). Variants of a committed
            E1 accepted again as new evidence:
              E1idx   both ValidatorIndex fields changed
              E1sig   VoteA's signature replaced by its high-s twin (r, N-s, v^1); SigToPub accepts it
              E1type  both votes re-typed prevote -> precommit (D4, known finding of C11)
    Sigs    C19|part=b|history=commit(E1);add(E1idx)|oracle=recommitted
            C19|part=b|history=commit(E1);add(E1sig)|oracle=recommitted
            C19|part=b|history=commit(E1);add(E1type)|oracle=recommitted
            C19|part=b|history=check(E1,E1idx)|oracle=twice-in-one-block
            C19|part=b|history=check(E1,E1type)|oracle=twice-in-one-block
            (the graph also contains commit(E1);commit(E1idx): the real validateBlock + ApplyBlock put both on the chain)
    Why     "nobody can be held accountable by ... replayed evidence", "never included in the chain twice". Every
            inclusion reaches the staking contract as a new offence (ApplyBlock -> byzVals ->
            CommitAndValidateBlockTxs). Anybody can make the variants; no key is needed.
    Fix     in VerifyDuplicateVote require VoteA.ValidatorIndex == VoteB.ValidatorIndex == index of the validator
            in valSet (suggested-fixes/f3a-validator-index-checked.patch: removes the idx variant); for the class:
            record committed evidence additionally under a key made of what the signatures cover (height,
            validator address, the two sign-bytes hashes sorted) and consult it in isCommitted and in the duplicate
            test of CheckEvidence. (Repairing D4 and enforcing low-s removes type and sig but not the class.)

F4  Expired evidence stays pending, is proposed and is accepted in blocks
    Where   types/evidence/pool.go:124-127: Update prunes only when height AND time are beyond a remembered
            pruning point; pool.go:298-299 computes that point as ev.Height()+MaxAgeNumBlocks+1 /
            ev.Time()+MaxAgeDuration+1s although evidence is expired as soon as H-h > MaxAgeNumBlocks &&
            T-t > MaxAgeDuration (verify.go:40); and the point is computed from the oldest evidence pending AT THAT
            MOMENT, never lowered when older evidence is added later. CheckEvidence skips every test for pending
            evidence (fastCheck, pool.go:372).
    Sigs    C19|part=b|history=add(Eold);restart();commit()|oracle=pending-includes-expired
            C19|part=b|history=add(Eold);restart();commit();check(Eold)|oracle=unsound-accept
    Case    MaxAgeNumBlocks 2, MaxAgeDuration 30 s. Evidence of height 3 (block time T+20 s) added at head 5
            (T+130 s: only the time window exceeded, valid); new pool on the same database (pruning point := 6);
            block 6 (T+131 s) applied: 6-3 > 2 and 111 s > 30 s, expired, but `6 > 6` is false. PendingEvidence
            still lists it (a proposer includes it); CheckEvidence([Eold]) returns nil here and "too old" on every
            node that does not hold it. With only the off-by-one removed the same happens after
            add(E1);restart();add(Eold);commit() (point computed from E1).
    Fix     prune on every Update: `if evpool.Size() > 0 { ... = evpool.removeExpiredPendingEvidence() }`
            (the scan stops at the first unexpired record): suggested-fixes/f4-prune-when-expired.patch.

F5  Votes for block ids that differ only in PartsHeader.Total go unpunished (D7)
    Where   types/block.go:676 BlockID.Key() omits PartsHeader.Total while BlockID.Equal, the sign bytes and
            VerifyDuplicateVote include it. VoteSet.getVote (types/vote_set.go:186) takes the second vote for the
            same block with another signature (ErrVoteNonDeterministicSignature: no evidence), and
            DuplicateVoteEvidence.ValidateBasic (types/evidence.go:272) refuses the pair in BOTH orders
            ("duplicate votes in invalid order"), so it cannot cross the wire either.
    Sigs    C19|part=a|class=total-only|path=consensus|oracle=conflict-not-detected
            C19|part=a|class=total-only/expiry=fresh,set=cur|path=peer|oracle=valid-rejected
            C19|part=a|class=total-only/expiry=fresh,set=cur|path=block|oracle=valid-rejected
    Fix     checks/c02/d7-fix.patch (include the total in Key()); the three signatures disappear with it.

Observations (not judged)
  * AddEvidenceFromConsensus (pool.go:347) has no isCommitted test: evidence that is already committed becomes
    pending again and, being pending, passes CheckEvidence a second time. C19 offers that entry point only what
    a correct consensus can have built (evidence of the height being decided or the one before); such evidence
    cannot already be committed except in the corner F2(c) opens (evidence of height H committed in block H, the
    same pair reported again from LastCommit at H+1, byte-identical only at the initial height).
  * One pending record that EvidenceFromProto refuses makes listEvidence fail as a whole: PendingEvidence returns
    nothing and evidence.NewPool returns an error at the next start. Only AddEvidenceFromConsensus can store such
    a record, and as long as F5 hides the only pair ValidateBasic refuses consensus does not produce one.
  * The pool of a fresh node is created before the genesis state is saved (mainchain/backend.go:152): until the
    first Update its state has chain id "", height 0 and zero parameters. Nothing is verified against that state
    in practice: gossip reaches a node only for heights it has committed (first Update done), and evidence of the
    initial height inside a round-2 proposal is refused earlier, for the missing header (F2(c)).

=====================================================================================================
MUTANTS  -  /verif/mutants/c19-*.patch (git diff format, 1-3 lines each, all compile)
=====================================================================================================

Procedure per mutant: scratch worktree of /repo, `git apply`, the repository tests of the touched package
that pass at baseline (types/evidence: only TestVerifyDuplicateVoteEvidence - TestEvidencePool and the reactor
tests fail at baseline; kai/state/cstate: whole package; consensus: not run, the package fails at baseline),
then `VERIF_REPO=<wt> VERIF_NOEVIDENCE=1 ./run.sh C19 quick`. Because the unchanged tree already exits 1 with
the 17 signatures above, "caught" means: exit 1 AND at least one signature that the unchanged tree does not
produce (listed; at most the first three). With the 17 listed as known findings the unchanged tree exits 0
(verified by running the built checker against a copy of the list) and each of these is an unlisted VIOLATION.

 mutant                                   | place                                   | repo tests | quick | new signatures (first ones)
 -----------------------------------------+-----------------------------------------+------------+-------+----------------------------------------------
 m50-second-signature-unchecked  (M50)    | verify.go VerifyDuplicateVote            | FAIL (*)   | yes   | part=a class=sigB-invalid oracle=unsound-accept (4 paths)
 m50a-first-signature-unchecked           | verify.go VerifyDuplicateVote            | pass       | yes   | part=a class=sigA-invalid oracle=unsound-accept (4 paths)
 m50b-validator-power-unchecked  (M50)    | verify.go VerifyDuplicateVote            | pass       | yes   | part=a class=wrong-validator-power oracle=unsound-accept
 m50c-total-power-unchecked               | verify.go VerifyDuplicateVote            | pass       | yes   | part=a class=wrong-total-power oracle=unsound-accept
 m51-checkevidence-no-committed-test (M51)| pool.go CheckEvidence                    | pass       | yes   | part=b history=commit(E1);check(E1) oracle=recommitted ; ...pending-includes-committed
 expiry-or-instead-of-and                 | verify.go verify                         | pass       | yes   | part=a class=diff-hash/expiry=height-only,set=cur oracle=valid-rejected ; part=b history=add(Eold) oracle=valid-rejected
 consensus-evidence-not-persisted         | pool.go AddEvidenceFromConsensus         | pass       | yes   | part=b history=cons(E1);commit() oracle=consensus-evidence-not-kept (part (c) turns VACUOUS: nothing is ever produced)
 validator-from-current-set               | verify.go verify (LoadValidators(head))  | FAIL (*)   | yes   | part=a class=diff-hash/expiry=time-only,set=old oracle=valid-rejected ; class=not-in-set-of-height oracle=unsound-accept
 evidence-time-unchecked                  | verify.go verify                         | FAIL (*)   | yes   | part=a class=wrong-time oracle=unsound-accept ; part=c oracle=evidence-committed-twice
 addevidence-no-committed-test            | pool.go AddEvidence                      | pass       | yes   | part=b history=commit(E1);add(E1) oracle=recommitted ; ...pending-includes-committed
 checkevidence-no-duplicate-test          | pool.go CheckEvidence                    | pass       | yes   | part=b history=check(E1,E1) oracle=duplicate-in-list-accepted
 update-does-not-mark-committed           | pool.go Update                           | pass       | yes   | part=b history=commit(E1) oracle=pending-includes-committed ; part=c oracle=evidence-committed-twice cause={initial-height}
 round-unchecked                          | verify.go VerifyDuplicateVote            | FAIL (*)   | yes   | part=a class=round-mismatch oracle=unsound-accept
 validate-block-skips-evidence            | kai/state/cstate/validation.go           | pass       | yes   | part=b history=commit(E1);commit(E1) oracle=recommitted ; part=c oracle=evidence-committed-twice
 consensus-evidence-stamped-now           | consensus/state.go tryAddVote            | not run    | yes   | part=c oracle=produced-evidence-rejected-by-peer:time-mismatch cause={initial-height}

 (*) killed by the repository's own TestVerifyDuplicateVoteEvidence as well (it has a wrong-key second vote, a
     wrong-round pair, a wrong time; its mocks return one validator set for every height, which the
     current-set mutant trips over by asking for another height).
 15 of 15 caught by the quick tier; every run exit 1.

=====================================================================================================
SEEDED CHANGE C19b (independently written, /verif/seeded/C19b) - first MISSED, now caught
=====================================================================================================

 mutant   /verif/mutants/c19-seeded-b-iscommitted-on-raw-report.patch (= seeded/C19b/patch.diff), against the tree that
          has the F2 repair (41c890f): Pool.processConsensusBuffer asks isCommitted(b) - the RAW report of consensus -
          instead of isCommitted(ev), the evidence rebuilt with the block time and validator set of its height. When
          the report's time differs from the block time (it always does for a conflicting precommit that arrives
          after the height was decided: tryAddVote stamps it with the NEXT block's time) the two have different
          hashes, the committed test misses, and the evidence that the very same Update just marked committed is put
          back into the pending set and the gossip list; being pending it passes CheckEvidence (fastCheck) again.
 miss     `./run.sh C19 quick` exited 0 on it. What excluded it:
          (b) the only reports handed to AddEvidenceFromConsensus were E1 / E2 wrapped CANONICALLY (evidence time =
              block time, powers of the evidence height), so b and ev were byte-identical and isCommitted(b) ==
              isCommitted(ev); the needed history cons(report);commit(block with the evidence) was in the alphabet
              (commit tokens never depended on what the pool holds) but with a report that could not tell the two apart;
          (c) the monitor delivered the second vote late either at every node of the chosen set or at none, so no
              node's consensus reported the pair while another node's evidence for it was already going into the
              next block (with the late delivery everywhere nobody holds evidence before the report is flushed).
 now      (b) a cons token carries a REPORT: the item's two votes wrapped as tryAddVote wraps them - canonical,
              "@late" (time of the next block), "@late+set" (that time and the powers of the other validator set);
              quick: cons(E1), cons(E1@late), cons(Ecur); thorough: all seven. New item Ecur = evidence of the height
              consensus works on at the base head (6), built by the checker as another node builds it once block 6
              exists; cons(Ecur) is enabled at heads 5 and 6, the obligation "pending at the latest with the next
              block" is judged against acceptability at the NEW head. Commit tokens carry every evidence variant
              known to the search (quick: none, E1, E2, E1sig, E1type, Eold, Ecur, {E1,E2}; thorough adds E1idx, Eexp,
              Efut, {E1,Ecur}, {E1,E1idx}, {E1,E1}, {E1,E1type}, {E2,Ecur}) whether the pool has it pending, only as a
              report, or not at all. Whatever a successful commit makes pending (flushed reports) is judged like any
              newcomer (acceptable at the new head, its double-signing not on the chain). New oracle
              gossip-list-includes-committed. The state key now contains the buffered reports (read by reflection,
              so the harness file compiles against trees without the buffer) and, thorough tier, the gossip list.
          (c) Late=2: the first node of the set gets both precommits during the height, the others get the second one
              only while waiting in NewHeight of the next height (16 more scenarios in quick, 48 in thorough).
 result   seeded change: exit 1, twice, identical signatures:
              C19|part=b|history=cons(E1@late);commit(E1)|oracle=pending-includes-committed
              C19|part=b|history=cons(E1@late);commit(E1)|oracle=gossip-list-includes-committed
              C19|part=b|history=cons(E1@late);commit(E1);check(E1)|oracle=recommitted
              C19|part=c|config=evidence-fits-proposal|oracle=pending-includes-committed|cause={second-vote-at-once-at-one-node-after-decision-at-others,later-height}
              C19|part=c|config=evidence-fits-proposal|oracle=block-with-evidence-rejected:already-committed|cause={second-vote-at-once-at-one-node-after-decision-at-others,later-height}
          (not at the initial height: there tryAddVote stamps the genesis time, which IS block 1's time.)
          unchanged /repo (2b37706): quick exit 0 twice, thorough exit 0 once; the five listed known findings
          reproduce under their listed signatures (the new tokens sort after "commit(" so the shortest histories of
          the known findings are unchanged). Cost: quick +15 s CPU (part (b) 1,094 -> 5,566 states at depth 5).

=====================================================================================================
SEEDED CHANGE C19f (independently written, /verif/seeded/C19f) - first MISSED, now caught
=====================================================================================================

 mutant   /verif/mutants/c19-seeded-f-verify-uses-next-set-at-head.patch (= seeded/C19f/patch.diff): Pool.verify judges
          evidence whose height equals the pool state's LastBlockHeight against state.Validators (the set of the
          NEXT height) instead of LoadValidators(evidence height).
 miss     `./run.sh C19 quick` exited 0. The fixture chain does have a set change (set A signs 1..3, set B from 4:
          V1 20->25, V3 leaves, V4 joins, total 75->80), and old-set evidence was enumerated - but only from pool
          heads 5 and 10, where the state's Validators equal the set of the head. No enumerated pool stood AT
          head 3, the one head whose state already carries the other set; part (b) starts at head 5 (static
          set B) and part (c) runs a static set. The combination "evidence height == head AND the set changes
          with the next height" never occurred.
 now      (a)  matrix: pool heads 3 and 4 added; combination (head 3, evidence 3) is FULL in quick (15,360 points),
               (3,2) (3,1) (4,4) (4,3) reduced in quick / full in thorough. The accused dimension has five values:
               V1 (member, power changes with the next set), never a validator, validator of the other set only
               (now with the index it has in the set it does belong to, as a forger would state it), member of
               this set only (V3 leaves / V4 joined), V2 (same power in both sets, only the total changes).
               Together with the power dimensions this contains the three statements {powers as of h, powers as
               of h+1, address not in the set at h}. Findings of the matrix are now grouped per (kind of accused,
               expiry class, set) and name every failing path in one signature.
          (a') set-change worlds (partv.go): live chains (real store + pool + executor on one database) at heads
               2, 3, 4 (thorough: 5, 6 too), every accused V1..V5, evidence heights {head, head-1, older}, statements
               {genuine, as of the next height}, paths peer (codec + AddEvidence), block (decode + CheckEvidence),
               commit (block of the next height through the real ValidateBlock + ApplyBlock), and the consensus path:
               reports of heights {head, head+1} in the three wrappings of tryAddVote, then the next block; afterwards
               exactly the canonical evidence (powers of the set OF THE EVIDENCE HEIGHT, that block's time) must be
               pending and pass CheckEvidence. 360 cases in quick. The reference is refSet(evidence height).
 result   seeded change: exit 1, twice, identical 12 signatures (all at "pool head = last height of the old set"):
              C19|part=a|class=diff-hash/expiry=fresh,set=old,pool-head-is-last-height-of-set|path=peer+block|oracle=valid-rejected
              C19|part=a|class=diff-hash@member-of-this-set-only/...|path=peer+block|oracle=valid-rejected
              C19|part=a|class=diff-hash@member-with-the-same-power-in-both-sets/...|path=peer+block|oracle=valid-rejected
              C19|part=a|class=wrong-total-power+wrong-validator-power|path=peer+direct+block+check-direct|oracle=unsound-accept
              C19|part=a|class=wrong-total-power|path=peer+direct+block+check-direct|oracle=unsound-accept
              C19|part=a|class=not-in-set-of-height|path=peer+direct+block+check-direct|oracle=unsound-accept
              C19|part=a|world=set-change|accused=member,power-changes-at-next-height|height=head|statement=genuine|path=block+commit+peer|oracle=valid-rejected
              C19|part=a|world=set-change|accused=member,only-total-changes-at-next-height|height=head|statement=genuine|path=block+commit+peer|oracle=valid-rejected
              C19|part=a|world=set-change|accused=member,leaves-at-next-height|height=head|statement=genuine|path=block+commit+peer|oracle=valid-rejected
              C19|part=a|world=set-change|accused=member,power-changes-at-next-height|height=head|statement=as-of-next-height|path=block+commit+peer|oracle=unsound-accept
              C19|part=a|world=set-change|accused=member,only-total-changes-at-next-height|height=head|statement=as-of-next-height|path=block+commit+peer|oracle=unsound-accept
              C19|part=a|world=set-change|accused=not-member,joins-at-next-height|height=head|statement=as-of-next-height|path=block+commit+peer|oracle=unsound-accept
          The consensus path is not touched by this change (processConsensusBuffer loads the set of the evidence
          height itself); that it bites is shown by mutants/c19-buffer-builds-with-current-set.patch
          (processConsensusBuffer builds with state.Validators): exit 1, 12 signatures
          ...|path=consensus|oracle={consensus-evidence-not-kept,unsound-accept} at heights head and head+1.
          unchanged /repo (2cbc26b): quick exit 0 twice (5 known findings, same signatures), thorough exit 0 once
          (139 s). Quick cost unchanged within noise (user CPU 58-72 s before and after; part (a) 1.1 s -> 1.7 s).

=====================================================================================================
SEEDED CHANGE C19h (independently written, /verif/seeded/C19h) - first MISSED, now caught
=====================================================================================================

 mutant   /verif/mutants/c19-seeded-h-pending-keys-unpadded-height.patch (= seeded/C19h/patch.diff): keySuffix prints
          the height with %X instead of zero-padded %0.16X, so pending keys no longer sort by height
          (16 = "10" sorts before 15 = "F"); removeExpiredPendingEvidence walks the keys in database order and stops
          at the first unexpired record, so expired evidence that sorts after younger, unexpired evidence is never
          pruned: it stays pending, is listed for proposals, passes CheckEvidence through the pending fast path and
          is reloaded into the gossip list by NewPool.
 miss     `./run.sh C19 quick` exited 0: every enumerated world lived below height 16 (fixture 12-13 blocks, netsim
          <= 5 heights, full-stack probe 5 blocks), so all heights had one hex digit and %X order == padded order.
          (Several pieces pending at expiry time did occur in part (b): Eold with E1 / E2 - but at heights 3 and 5.)
 now      the fixture chain is 262 blocks (real executor, 0.4 s) with a 100 s gap before heights 16 and 256.
          Expiry-order worlds (partw.go), at the boundaries 15/16 and 255/256, on live chains (real store + pool +
          executor, one database): at head B every non-empty subset of the evidence of heights {B-2, B-1, B} enters
          (all by AddEvidence / all by CheckEvidence / first by AddEvidence, rest by CheckEvidence), then four blocks,
          with evidence of height B+1 optionally added at head B+1 and a restart optionally before any block or
          after the last: 2 x 216 histories. With MaxAgeNumBlocks 2 / MaxAgeDuration 30 s the evidence of B-2 and B-1
          expires at heads B+1 and B+2, that of B and B+1 never. After every Update and every restart: pending keys
          == what PendingEvidence lists == reference pending set (entered, uncommitted, unexpired at the new head),
          Size() == number of keys, gossip list is a subset of pending and holds every added / reloaded piece;
          CheckEvidence([e]) nil exactly for the reference set; a block carrying an expired e is refused by the real
          ValidateBlock. Vacuity guards: an Update with an expired narrow-height piece and an unexpired wide-height
          piece both pending did happen, and pruning while younger evidence stays pending did happen.
 result   seeded change: exit 1, twice, identical 8 signatures (4 per boundary):
              C19|part=a|world=expiry-order|boundary=15/16|pending=15+17-later|entry=add|restart=none|oracle=pending-includes-expired
              ...|oracle=expired-evidence-accepted            (CheckEvidence fast path)
              ...|oracle=expired-evidence-accepted-in-block   (real ValidateBlock)
              ...|oracle=gossip-list-includes-expired
              and the same four with boundary=255/256|pending=255+257-later
          (the signature names the smallest failing history: one old piece, one piece of the wider height.)
          unchanged /repo (2f0de4a): quick exit 0 twice (5 known findings, same signatures), thorough exit 0 once;
          the seeded changes C19b and C19f are still caught. Quick cost: +0.4 s for the longer fixture, +0.2 s for
          the worlds (user CPU 61-64 s, as before within noise).
*/
