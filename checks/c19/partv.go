package main

import (
	"fmt"
	"sort"
	"strings"
	"sync"
	"time"

	kproto "github.com/kardiachain/go-kardia/proto/kardiachain/types"
	"github.com/kardiachain/go-kardia/types"
	"github.com/kardiachain/go-kardia/types/evidence"

	"verif/mc/par"
)

// ---------------------------------------------------------------------------------------------
// Part (a'), "set-change worlds": the heights around the validator-set change of the fixture chain
// (set A signs 1..3, set B signs 4..: V1 20->25, V2 30=30 with the total 75->80, V3 leaves, V4 joins),
// on a LIVE chain (real store, pool and executor on one database) at every head from 2 to 4.
// For every accused validator, every evidence height {head+1 (reports only), head, head-1, older} and the
// statements {powers as of the evidence height (genuine), powers as of the NEXT height} the evidence is
// offered through the reactor codec + AddEvidence, through block decoding + CheckEvidence, inside a block
// through the real ValidateBlock (+ ApplyBlock), and - for members of the evidence height - as a report of
// consensus in each wrapping tryAddVote produces, followed by the next block. The reference judges by
// the checker's own record of the set OF THE EVIDENCE HEIGHT (refSet), never by what the pool's state holds.

type VCase struct {
	Part      string `json:"part"`
	Base      uint64 `json:"snapshot_head"`
	Commits   int    `json:"empty_blocks_before"`
	Accused   int    `json:"accused_validator"`
	EvH       uint64 `json:"evidence_height"`
	Statement string `json:"statement"`
	Path      string `json:"path"`
	Rep       int    `json:"report_wrapping,omitempty"`
}

func inSet(ms []member, who int) bool { return powerIn(ms, who) != 0 }

// vRole: what happens to the accused between the evidence height and the next one.
func vRole(who int, h uint64) string {
	cur, nxt := refSet(h), refSet(h+1)
	switch {
	case !inSet(cur, who) && inSet(nxt, who):
		return "not-member,joins-at-next-height"
	case !inSet(cur, who):
		return "not-member"
	case !inSet(nxt, who):
		return "member,leaves-at-next-height"
	case powerIn(cur, who) != powerIn(nxt, who):
		return "member,power-changes-at-next-height"
	case totalOf(cur) != totalOf(nxt):
		return "member,only-total-changes-at-next-height"
	}
	return "member,set-static"
}

func vHeightRel(h, head uint64) string {
	switch {
	case h == head+1:
		return "head+1"
	case h == head:
		return "head"
	case h+1 == head:
		return "head-1"
	}
	return "older"
}

func idxInSet(ms []member, who int) (uint32, bool) {
	vs := types.NewValidatorSet(valList(ms))
	i, v := vs.GetByAddress(addrs[who])
	if v == nil {
		return 0, false
	}
	return uint32(i), true
}

// vEvidence builds the evidence against `who` for height h stating the powers of height h ("genuine")
// or of height h+1 ("as-of-next-height"); index and power are those of the set the statement refers to
// (what a forger who only knows the newer set would write), falling back to the other set.
func vEvidence(who int, h uint64, statement string) *types.DuplicateVoteEvidence {
	ref := refSet(h)
	if statement == "as-of-next-height" {
		ref = refSet(h + 1)
	}
	idx, ok := idxInSet(ref, who)
	if !ok {
		if statement == "genuine" {
			idx, _ = idxInSet(refSet(h+1), who)
		} else {
			idx, _ = idxInSet(refSet(h), who)
		}
	}
	vts := fx.blockTime[h].Add(900 * time.Millisecond)
	va := mkVote(who, who, h, 1, kproto.PrevoteType, idX, vts, idx, chainID)
	vb := mkVote(who, who, h, 1, kproto.PrevoteType, idY, vts, idx, chainID)
	if idLess(idY, idX) {
		va, vb = vb, va
	}
	vp := powerIn(ref, who)
	if vp == 0 {
		vp = powerIn(refSet(h), who) + powerIn(refSet(h+1), who)
		if vp == 0 {
			vp = 10
		}
	}
	return &types.DuplicateVoteEvidence{VoteA: va, VoteB: vb, TotalVotingPower: totalOf(ref), ValidatorPower: vp, Timestamp: fx.blockTime[h]}
}

type vFailure struct {
	Oracle, Role, HRel, Statement, What string
	Paths                               map[string]bool
	Case                                VCase
	rank                                int
}

var (
	vMu    sync.Mutex
	vFails = map[string]*vFailure{}
	vStats = map[string]int64{}
)

func noteV(oracle string, c VCase, head uint64, what string) {
	role, hrel := vRole(c.Accused, c.EvH), vHeightRel(c.EvH, head)
	key := oracle + "|" + role + "|" + hrel + "|" + c.Statement
	rank := int(c.Base)*100 + c.Commits*10 + c.Accused
	vMu.Lock()
	f := vFails[key]
	if f == nil {
		f = &vFailure{Oracle: oracle, Role: role, HRel: hrel, Statement: c.Statement, What: what, Paths: map[string]bool{}, Case: c, rank: rank}
		vFails[key] = f
	} else if rank < f.rank || (rank == f.rank && c.Path < f.Case.Path) {
		f.Case, f.What, f.rank = c, what, rank
	}
	f.Paths[c.Path] = true
	vMu.Unlock()
}

func vCount(k string) {
	vMu.Lock()
	vStats[k]++
	vMu.Unlock()
}

// openWorld opens the snapshot and applies `commits` empty blocks.
func openWorld(base uint64, commits int) (*drv, error) {
	s := fx.snaps[base]
	d, err := openChain(s.kvs, s.state, s.last)
	if err != nil {
		return nil, err
	}
	for i := 0; i < commits; i++ {
		b, ps := d.makeBlock(nil)
		if err := d.validate(b); err != nil {
			return nil, err
		}
		if err := d.commit(b, ps); err != nil {
			return nil, err
		}
	}
	return d, nil
}

func ctxAt(head uint64) poolCtx {
	c := poolCtx{H: head, T: fx.blockTime[head], Times: map[uint64]time.Time{}, Chain: chainID}
	for h := uint64(0); h <= head; h++ {
		c.Times[h] = fx.blockTime[h]
	}
	return c
}

func pendingHashes(p *evidence.Pool) map[string]bool {
	out := map[string]bool{}
	pend, _ := evidence.VerifC19Keys(p)
	for _, k := range pend {
		out[normHash(k[strings.IndexByte(k, '/')+1:])] = true
	}
	return out
}

// vOffer runs one of the three offering paths; accepted tells the verdict of the code under test.
func vOffer(d *drv, path string, ev *types.DuplicateVoteEvidence) (accepted bool, detail string) {
	defer func() {
		if x := recover(); x != nil {
			accepted, detail = false, "PANIC: "+short(fmt.Sprint(x))
		}
	}()
	r.Add("transitions", 1)
	r.Add("traces_validated_against_impl", 1)
	switch path {
	case "peer":
		bz, err := evidence.VerifC19EncodeMsg([]types.Evidence{ev})
		if err != nil {
			return false, "encode: " + err.Error()
		}
		evs, err := evidence.VerifC19DecodeMsg(bz)
		if err != nil || len(evs) != 1 {
			return false, fmt.Sprintf("decode: %v", err)
		}
		err = d.pool.AddEvidence(evs[0])
		if err != nil {
			return false, short(err.Error())
		}
		return pendingHashes(d.pool)[normHash(ev.Hash().Hex())], "AddEvidence returned nil"
	case "block":
		w, err := roundTrip(ev)
		if err == nil {
			err = w.ValidateBasic()
		}
		if err != nil {
			return false, "decode: " + err.Error()
		}
		if err := d.pool.CheckEvidence(types.EvidenceList{w}); err != nil {
			return false, short(err.Error())
		}
		return true, ""
	default: // "commit": a proposed block of the next height carrying it, through the real ValidateBlock / ApplyBlock
		w, err := roundTrip(ev)
		if err != nil {
			return false, "decode: " + err.Error()
		}
		b, ps := d.makeBlock([]types.Evidence{w})
		if err := d.validate(b); err != nil {
			return false, short(err.Error())
		}
		if err := d.commit(b, ps); err != nil {
			return false, "ApplyBlock after ValidateBlock: " + short(err.Error())
		}
		if pendingHashes(d.pool)[normHash(ev.Hash().Hex())] {
			return true, "committed but still pending"
		}
		return true, ""
	}
}

type vWorld struct {
	base    uint64
	commits int
}

func runSetChangeWorlds() {
	worlds := []vWorld{{2, 0}, {2, 1}, {3, 0}, {3, 1}, {2, 2}}
	if r.Thorough() {
		worlds = append(worlds, vWorld{4, 0}, vWorld{4, 1}, vWorld{3, 2})
	}
	type job struct {
		w  vWorld
		c  VCase
		ev *types.DuplicateVoteEvidence
	}
	var jobs []job
	for _, w := range worlds {
		head := w.base + uint64(w.commits)
		for who := 1; who <= 5; who++ {
			hs := []uint64{head, head - 1}
			if head > 2 {
				hs = append(hs, 1)
			}
			for _, h := range hs {
				for _, st := range []string{"genuine", "as-of-next-height"} {
					ev := vEvidence(who, h, st)
					if st == "as-of-next-height" && ev.Hash() == vEvidence(who, h, "genuine").Hash() {
						continue // nothing changes with the next height: the two statements coincide
					}
					for _, path := range []string{"peer", "block", "commit"} {
						jobs = append(jobs, job{w, VCase{Part: "v", Base: w.base, Commits: w.commits, Accused: who, EvH: h, Statement: st, Path: path}, ev})
					}
				}
			}
			// reports of consensus: evidence of the height being decided or the one before, members only
			// (the vote set takes votes of the validators of its height only)
			for _, h := range []uint64{head, head + 1} {
				if !inSet(refSet(h), who) {
					continue
				}
				for rep := 0; rep < nReps; rep++ {
					jobs = append(jobs, job{w, VCase{Part: "v", Base: w.base, Commits: w.commits, Accused: who, EvH: h, Statement: "genuine", Path: "consensus", Rep: rep}, nil})
				}
			}
		}
	}
	par.For(int64(len(jobs)), 1, func() bool { return r.Expired() }, func(i int64) {
		j := jobs[i]
		runV(j.c, j.ev, true)
	})
	vMu.Lock()
	for k, n := range vStats {
		r.Add("setchange_"+k, n)
	}
	r.Add("setchange_cases", int64(len(jobs)))
	r.Require(vStats["genuine_at_head_before_set_change_accepted"] > 0, "set-change worlds: no genuine evidence of the last height of the old set was accepted by a pool whose head is that height")
	r.Require(vStats["consensus_report_turned_into_evidence_across_set_change"] > 0, "set-change worlds: no consensus report of a height next to the set change became evidence")
	var ks []string
	for k := range vFails {
		ks = append(ks, k)
	}
	sort.Strings(ks)
	for _, k := range ks {
		f := vFails[k]
		var ps []string
		for p := range f.Paths {
			ps = append(ps, p)
		}
		sort.Strings(ps)
		sig := fmt.Sprintf("C19|part=a|world=set-change|accused=%s|height=%s|statement=%s|path=%s|oracle=%s", f.Role, f.HRel, f.Statement, strings.Join(ps, "+"), f.Oracle)
		r.Violation(sig, f.What, f.Case)
	}
	vMu.Unlock()
}

// runV executes one case on a fresh copy of the world; with judge=false it only prints (replay).
func runV(c VCase, ev *types.DuplicateVoteEvidence, judge bool) (violated bool) {
	head := c.Base + uint64(c.Commits)
	d, err := openWorld(c.Base, c.Commits)
	if err != nil {
		r.Vacuous(fmt.Sprintf("set-change worlds: cannot open head %d+%d: %v", c.Base, c.Commits, err))
		return false
	}
	fail := func(oracle, what string) {
		violated = true
		if judge {
			noteV(oracle, c, head, what)
		} else {
			fmt.Printf("violation %s: %s\n", oracle, what)
		}
	}
	r.Add("evaluations", 1)
	if c.Path != "consensus" {
		if ev == nil {
			ev = vEvidence(c.Accused, c.EvH, c.Statement)
		}
		ref := refJudge(ev, ctxAt(head))
		acc, detail := vOffer(d, c.Path, ev)
		if !judge {
			fmt.Printf("head %d, evidence of height %d against V%d (%s), statement %s, path %s: reference valid=%v %v; accepted=%v %s\n",
				head, c.EvH, c.Accused, vRole(c.Accused, c.EvH), c.Statement, c.Path, ref.Valid, ref.Why, acc, detail)
		}
		switch {
		case strings.HasPrefix(detail, "PANIC"):
			fail("panic", detail)
		case ref.Valid && !acc:
			fail("valid-rejected", fmt.Sprintf("head %d: evidence of height %d against V%d, a member of THAT height's set with the stated power %d of %d, is refused on path %s: %s",
				head, c.EvH, c.Accused, ev.ValidatorPower, ev.TotalVotingPower, c.Path, detail))
		case !ref.Valid && acc:
			fail("unsound-accept", fmt.Sprintf("head %d: evidence of height %d against V%d stating power %d of %d is accepted on path %s although the reference rejects it (%s): the set of height %d is %s",
				head, c.EvH, c.Accused, ev.ValidatorPower, ev.TotalVotingPower, c.Path, whyString(ref.Why), c.EvH, setStringRef(refSet(c.EvH))))
		case acc && detail == "committed but still pending":
			fail("pending-includes-committed", fmt.Sprintf("head %d: evidence committed in block %d is still pending", head, head+1))
		}
		if ref.Valid && acc && c.EvH == head && setName(c.EvH) != setName(c.EvH+1) {
			vCount("genuine_at_head_before_set_change_accepted")
		}
		return violated
	}
	// consensus path: report, then the next block(s) until the evidence height is committed; the pool must
	// then hold exactly the canonical evidence (time of block EvH, powers of the set of EvH)
	canon := vEvidence(c.Accused, c.EvH, "genuine")
	it := &item{Ev: canon, Height: c.EvH}
	report := reportOf(it, c.Rep)
	func() {
		defer func() {
			if x := recover(); x != nil {
				fail("panic", "consensus report path panicked: "+short(fmt.Sprint(x)))
			}
		}()
		r.Add("transitions", 2)
		r.Add("traces_validated_against_impl", 2)
		if err := d.pool.AddEvidenceFromConsensus(report); err != nil {
			fail("consensus-evidence-not-kept", "AddEvidenceFromConsensus returns "+err.Error())
			return
		}
		b, ps := d.makeBlock(nil)
		if err := d.validate(b); err != nil {
			panic(err)
		}
		if err := d.commit(b, ps); err != nil {
			panic(err)
		}
		newHead := head + 1
		pend := pendingHashes(d.pool)
		want := normHash(canon.Hash().Hex())
		if !judge {
			fmt.Printf("head %d -> %d, report (wrapping %q) of V%d's double-signing at height %d: pending afterwards %v, canonical evidence %s\n", head, newHead, repSuffix[c.Rep], c.Accused, c.EvH, len(pend), want[:12])
		}
		ref := refJudge(canon, ctxAt(newHead))
		if ref.Valid && !pend[want] {
			fail("consensus-evidence-not-kept", fmt.Sprintf("V%d's double-signing at height %d was reported by consensus at head %d (wrapping %q); after block %d the evidence with the powers of height %d (%d of %d) and block %d's time is not pending (%d other pending)",
				c.Accused, c.EvH, head, repSuffix[c.Rep], newHead, c.EvH, canon.ValidatorPower, canon.TotalVotingPower, c.EvH, len(pend)))
		}
		for h := range pend {
			if h != want {
				fail("unsound-accept", fmt.Sprintf("after a consensus report of V%d's double-signing at height %d the pool holds evidence other than the canonical one (powers of height %d, block time)", c.Accused, c.EvH, c.EvH))
			}
		}
		if ref.Valid && pend[want] {
			if setName(c.EvH) != setName(c.EvH+1) || setName(c.EvH) != setName(c.EvH-1) {
				vCount("consensus_report_turned_into_evidence_across_set_change")
			}
			// and a block carrying it is accepted
			w, _ := roundTrip(canon)
			if err := d.pool.CheckEvidence(types.EvidenceList{w}); err != nil {
				fail("valid-rejected", "the evidence the pool built from a consensus report is refused by its own CheckEvidence: "+short(err.Error()))
			}
		}
	}()
	return violated
}

func replayV(c VCase) bool {
	// every path of the stored case
	bad := false
	if c.Path == "consensus" {
		return runV(c, nil, false)
	}
	for _, p := range []string{"peer", "block", "commit"} {
		cc := c
		cc.Path = p
		if runV(cc, nil, false) {
			bad = true
		}
	}
	return bad
}
