package main

import (
	"fmt"
	"math/big"
	"sort"
	"strings"
	"sync"
	"sync/atomic"
	"time"

	"github.com/kardiachain/go-kardia/consensus"
	"github.com/kardiachain/go-kardia/kai/kaidb/memorydb"
	"github.com/kardiachain/go-kardia/kai/state/cstate"
	kproto "github.com/kardiachain/go-kardia/proto/kardiachain/types"
	"github.com/kardiachain/go-kardia/types"
	"github.com/kardiachain/go-kardia/types/evidence"

	"verif/mc/par"
)

// ---------------------------------------------------------------------------------------------
// Part (a): acceptance matrix. Every case is ONE DuplicateVoteEvidence offered to a pool that holds
// nothing, through four paths; the verdict is compared with refJudge.

const (
	pathPeer        = iota // reactor codec (decodeMsg incl. ValidateBasic) then AddEvidence
	pathDirect             // AddEvidence on the in-memory object
	pathBlock              // evidence proto round trip + ValidateBasic (block decoding / Block.ValidateBasic) then CheckEvidence([e])
	pathCheckDirect        // CheckEvidence([e]) on the in-memory object
	nPaths
)

const pathConsensus = nPaths // label only: VoteSet -> NewDuplicateVoteEvidence -> AddEvidenceFromConsensus

var pathName = []string{"peer", "direct", "block", "check-direct", "consensus"}

// dimensions of the matrix
const (
	dVal = iota
	dHB
	dRB
	dTB
	dID
	dSigA
	dSigB
	dSwap
	dTVP
	dVP
	dTS
	nDims
)

var radices = []int{5, 2, 2, 2, 6, 2, 2, 2, 2, 2, 2}
var valName = []string{"member", "never-validator", "validator-at-other-height-only", "member-of-this-set-only", "member-with-the-same-power-in-both-sets"}
var idName = []string{"diff-hash", "same-id", "total-only", "partshash-only", "nil-vs-block", "nil-nil"}

// ACase is the replayable description of one part-(a) case.
type ACase struct {
	Part  string `json:"part"`
	PoolH uint64 `json:"pool_height"`
	EvH   uint64 `json:"evidence_height"`
	D     []int  `json:"dims,omitempty"` // matrix coordinates (see radices)
	Mut   string `json:"mutation,omitempty"`
	Ctor  string `json:"constructor,omitempty"`
	Path  string `json:"path"`
}

var (
	idX  = types.BlockID{Hash: hashOf("block X"), PartsHeader: types.PartSetHeader{Total: 1, Hash: hashOf("parts X")}}
	idY  = types.BlockID{Hash: hashOf("block Y"), PartsHeader: types.PartSetHeader{Total: 1, Hash: hashOf("parts Y")}}
	idXt = types.BlockID{Hash: idX.Hash, PartsHeader: types.PartSetHeader{Total: 2, Hash: idX.PartsHeader.Hash}}
	idXp = types.BlockID{Hash: idX.Hash, PartsHeader: types.PartSetHeader{Total: 1, Hash: hashOf("parts X'")}}
	idN  = types.BlockID{}
)

func idPair(k int) (lo, hi types.BlockID) {
	var a, b types.BlockID
	switch k {
	case 0:
		a, b = idX, idY
	case 1:
		a, b = idX, idX
	case 2:
		a, b = idX, idXt
	case 3:
		a, b = idX, idXp
	case 4:
		a, b = idN, idX
	case 5:
		a, b = idN, idN
	}
	if idLess(b, a) {
		a, b = b, a
	}
	return a, b
}

func otherSetOf(h uint64) []member {
	if h < firstHeightOfB {
		return setB
	}
	return setA
}

func powerIn(ms []member, who int) int64 {
	for _, m := range ms {
		if m.who == who {
			return m.power
		}
	}
	return 0
}

func totalOf(ms []member) int64 {
	var t int64
	for _, m := range ms {
		t += m.power
	}
	return t
}

// accused picks the validator of the "validator" dimension for evidence height h.
func accused(val int, h uint64) int {
	switch val {
	case 0:
		return 1 // V1: member of both sets, power 20 in A and 25 in B
	case 1:
		return 5 // never a validator
	case 2:
		if h < firstHeightOfB {
			return 4 // only in set B
		}
		return 3 // only in set A
	case 3:
		if h < firstHeightOfB {
			return 3 // member of set A only: leaves with height 4
		}
		return 4 // member of set B only: joined with height 4
	default:
		return 2 // V2: power 30 in both sets, only the total differs
	}
}

func neighbourTime(h uint64) time.Time {
	if h > 1 {
		return fx.blockTime[h-1]
	}
	return fx.blockTime[h+1]
}

// matrixEvidence builds the evidence of matrix coordinates d at evidence height h.
func matrixEvidence(h uint64, d []int) *types.DuplicateVoteEvidence {
	who := accused(d[dVal], h)
	lo, hi := idPair(d[dID])
	idA, idB := lo, hi
	if d[dSwap] == 1 {
		idA, idB = hi, lo
	}
	hB, rB, tB := h, uint32(1), kproto.PrevoteType
	if d[dHB] == 1 {
		if h > 1 {
			hB = h - 1
		} else {
			hB = h + 1
		}
	}
	if d[dRB] == 1 {
		rB = 2
	}
	if d[dTB] == 1 {
		tB = kproto.PrecommitType
	}
	signerA, signerB := who, who
	if d[dSigA] == 1 {
		signerA = 0 // another validator's valid signature over the same bytes
	}
	if d[dSigB] == 1 {
		signerB = 0
	}
	idx := idxIn(h, who)
	if powerIn(refSet(h), who) == 0 && powerIn(otherSetOf(h), who) != 0 {
		// not a validator at this height: the forger states the index the address has in the set it does belong to
		vs := types.NewValidatorSet(valList(otherSetOf(h)))
		i, _ := vs.GetByAddress(addrs[who])
		idx = uint32(i)
	}
	vts := fx.blockTime[h].Add(1500 * time.Millisecond)
	va := mkVote(who, signerA, h, 1, kproto.PrevoteType, idA, vts, idx, chainID)
	vb := mkVote(who, signerB, hB, rB, tB, idB, vts, idx, chainID)
	vp := powerIn(refSet(h), who)
	if vp == 0 {
		vp = powerIn(otherSetOf(h), who)
		if vp == 0 {
			vp = 10
		}
	}
	if d[dVP] == 1 {
		alt := powerIn(otherSetOf(h), who)
		if alt == 0 || alt == vp {
			alt = vp + 5
		}
		vp = alt
	}
	tvp := refTotal(h)
	if d[dTVP] == 1 {
		tvp = totalOf(otherSetOf(h))
	}
	ts := fx.blockTime[h]
	if d[dTS] == 1 {
		ts = neighbourTime(h)
	}
	return &types.DuplicateVoteEvidence{VoteA: va, VoteB: vb, TotalVotingPower: tvp, ValidatorPower: vp, Timestamp: ts}
}

// ---------------------------------------------------------------------------------------------
// pools holding nothing, over a shared read-only chain database per head height

type poolEnv struct {
	H     uint64
	db    *memorydb.Database
	store cstate.Store
	app   *consensus.VerifSimApp
	ctx   poolCtx
	free  chan *evidence.Pool
}

var envs = map[uint64]*poolEnv{}
var poolsMade int64

func initEnv(H uint64) {
	s := fx.snaps[H]
	db := restoreDB(s.kvs)
	e := &poolEnv{H: H, db: db, store: cstate.NewStore(db), app: newApp(db), free: make(chan *evidence.Pool, 64)}
	e.ctx = poolCtx{H: H, T: fx.blockTime[H], Times: map[uint64]time.Time{}, Chain: chainID}
	for h := uint64(0); h <= H; h++ {
		e.ctx.Times[h] = fx.blockTime[h]
	}
	envs[H] = e
}

func (e *poolEnv) get() *evidence.Pool {
	select {
	case p := <-e.free:
		return p
	default:
	}
	p, err := evidence.NewPool(e.store, memorydb.New(), e.app)
	if err != nil {
		panic(err)
	}
	atomic.AddInt64(&poolsMade, 1)
	return p
}

func (e *poolEnv) put(p *evidence.Pool) {
	select {
	case e.free <- p:
	default:
	}
}

func poolClean(p *evidence.Pool) bool {
	pe, co := evidence.VerifC19Keys(p)
	v := evidence.VerifC19Inspect(p)
	return len(pe) == 0 && len(co) == 0 && v.Size == 0 && len(v.List) == 0
}

type outcome struct {
	Accepted bool
	Stage    string // where it was rejected: encode | decode | validate-basic | pool
	Err      string
	Panic    string
	Trace    bool // rejected, but the pool is no longer empty
}

func roundTrip(ev types.Evidence) (types.Evidence, error) {
	pb, err := types.EvidenceToProto(ev)
	if err != nil {
		return nil, err
	}
	bz, err := pb.Marshal()
	if err != nil {
		return nil, err
	}
	var pb2 kproto.Evidence
	if err := pb2.Unmarshal(bz); err != nil {
		return nil, err
	}
	return types.EvidenceFromProto(&pb2)
}

// offer runs one path on a pool that holds nothing.
func offer(e *poolEnv, path int, ev *types.DuplicateVoteEvidence) (o outcome) {
	p := e.get()
	reusable := false
	defer func() {
		if x := recover(); x != nil {
			o = outcome{Panic: short(fmt.Sprint(x))}
			return
		}
		if reusable {
			e.put(p)
		}
	}()
	var in types.Evidence = ev
	switch path {
	case pathPeer:
		bz, err := evidence.VerifC19EncodeMsg([]types.Evidence{ev})
		if err != nil {
			reusable = true
			return outcome{Stage: "encode", Err: short(err.Error())}
		}
		evs, err := evidence.VerifC19DecodeMsg(bz)
		if err != nil || len(evs) != 1 {
			reusable = true
			return outcome{Stage: "decode", Err: short(fmt.Sprint(err))}
		}
		in = evs[0]
	case pathBlock:
		rt, err := roundTrip(ev)
		if err != nil {
			reusable = true
			return outcome{Stage: "decode", Err: short(err.Error())}
		}
		if err := rt.ValidateBasic(); err != nil {
			reusable = true
			return outcome{Stage: "validate-basic", Err: short(err.Error())}
		}
		in = rt
	}
	var err error
	if path == pathPeer || path == pathDirect {
		err = p.AddEvidence(in)
		// accepted = stored as pending (part (b) judges what PendingEvidence lists)
		if pend, _ := evidence.VerifC19Keys(p); err == nil && len(pend) == 1 && strings.HasSuffix(pend[0], normHash(in.Hash().Hex())) {
			return outcome{Accepted: true}
		}
	} else {
		err = p.CheckEvidence(types.EvidenceList{in})
		if err == nil {
			return outcome{Accepted: true}
		}
	}
	o = outcome{Stage: "pool"}
	if err != nil {
		o.Err = short(err.Error())
	}
	if poolClean(p) {
		reusable = true
	} else {
		o.Trace = true
	}
	return o
}

func short(s string) string {
	if len(s) > 160 {
		return s[:160]
	}
	return s
}

// ---------------------------------------------------------------------------------------------
// failures are collected, grouped, and the smallest member of each group is reported

type aFailure struct {
	Oracle string
	Path   int
	Class  string
	Second string
	Rank   int
	What   string
	Case   ACase
	Group  string       // failures with the same oracle and group are one finding (default: the class)
	Paths  map[int]bool // every path on which a member of the group failed
}

var (
	aFailMu sync.Mutex
	aFails  = map[string]*aFailure{}
)

func aLess(a, b *aFailure) bool {
	if a.Rank != b.Rank {
		return a.Rank < b.Rank
	}
	if a.Path != b.Path {
		return a.Path < b.Path
	}
	return a.Class < b.Class
}

func noteAFailure(f aFailure) {
	g := f.Group
	if g == "" {
		g = f.Class
	}
	key := f.Oracle + "|" + g
	aFailMu.Lock()
	if old, ok := aFails[key]; !ok {
		c := f
		c.Paths = map[int]bool{f.Path: true}
		aFails[key] = &c
	} else {
		old.Paths[f.Path] = true
		if aLess(&f, old) {
			c := f
			c.Paths = old.Paths
			aFails[key] = &c
		}
	}
	aFailMu.Unlock()
}

// aSignature names the smallest member of the group and every path on which the group failed.
func aSignature(f *aFailure) string {
	cl := f.Class
	if f.Second != "" {
		cl += "/" + f.Second
	}
	var ps []string
	for p := 0; p < len(pathName); p++ {
		if f.Paths[p] {
			ps = append(ps, pathName[p])
		}
	}
	return fmt.Sprintf("C19|part=a|class=%s|path=%s|oracle=%s", cl, strings.Join(ps, "+"), f.Oracle)
}

func setName(h uint64) string {
	if h < firstHeightOfB {
		return "old"
	}
	return "cur"
}

var expiryRank = map[string]int{"fresh": 0, "height-only": 1, "time-only": 2, "both": 3}

// judge compares one outcome with the reference verdict.
func judge(e *poolEnv, c ACase, path int, ev *types.DuplicateVoteEvidence, ref refVerdict, o outcome, class string) {
	c.Path = pathName[path]
	c.Part = "a"
	r.Add("evaluations", 1)
	r.Add("evaluations_"+pathName[path], 1)
	second := fmt.Sprintf("expiry=%s,set=%s", ref.Expiry, setName(c.EvH))
	if c.EvH == c.PoolH && setName(c.EvH) != setName(c.EvH+1) {
		second += ",pool-head-is-last-height-of-set"
	}
	rank := expiryRank[ref.Expiry]*4 + int(c.PoolH%2)
	if setName(c.EvH) == "old" {
		rank += 2
	}
	switch {
	case o.Panic != "":
		noteAFailure(aFailure{Oracle: "panic", Path: path, Class: class, Rank: rank, Case: c,
			What: fmt.Sprintf("offering the evidence panicked: %s", o.Panic)})
	case ref.DontCare:
		r.Add("dontcare_evaluations", 1)
	case ref.Valid && !o.Accepted && (path == pathDirect || path == pathCheckDirect):
		// completeness is a statement about what arrives over the wire (or from consensus); an object the
		// codec would have refused never reaches these entry points
		r.Add("in_memory_valid_not_accepted", 1)
	case ref.Valid && !o.Accepted:
		// one finding per (kind of accused, expiry class, set): named after its plainest pair of targets
		val, id := 0, 0
		if c.D != nil {
			val, id = c.D[dVal], c.D[dID]
		} else {
			for k, n := range idName {
				if n == class {
					id = k
				}
			}
		}
		noteAFailure(aFailure{Oracle: "valid-rejected", Path: path, Class: class, Second: second, Rank: rank*10 + id, Case: c, Group: valName[val] + "|" + second,
			What: fmt.Sprintf("reference-valid evidence (two differently-targeted validly signed votes of a member of the set of height %d, stated powers and block time, expiry class %s) rejected at stage %s: %s",
				c.EvH, ref.Expiry, o.Stage, o.Err)})
	case !ref.Valid && o.Accepted:
		noteAFailure(aFailure{Oracle: "unsound-accept", Path: path, Class: whyString(ref.Why), Rank: rank, Case: c,
			What: fmt.Sprintf("evidence accepted although the reference predicate rejects it (%s); pool at height %d, evidence height %d", whyString(ref.Why), c.PoolH, c.EvH)})
	case !o.Accepted && o.Trace:
		noteAFailure(aFailure{Oracle: "rejected-but-stored", Path: path, Class: whyString(ref.Why), Rank: rank, Case: c,
			What: "the evidence was rejected but the pool is no longer empty"})
	}
	if o.Accepted {
		r.Add("accepted_evaluations", 1)
	}
}

func countNonDefault(d []int) int {
	n := 0
	for _, k := range []int{dHB, dRB, dTB, dSigA, dSigB, dTVP, dVP, dTS} {
		if d[k] != 0 {
			n++
		}
	}
	return n
}

type combo struct {
	PoolH, EvH uint64
	Full       bool
}

func matrixClass(d []int, ref refVerdict) string {
	if ref.Valid || ref.DontCare {
		if d[dVal] != 0 {
			return idName[d[dID]] + "@" + valName[d[dVal]]
		}
		return idName[d[dID]]
	}
	return whyString(ref.Why)
}

// runMatrix enumerates the matrix of one (pool head, evidence height) combination.
func runMatrix(cb combo) {
	e := envs[cb.PoolH]
	total := par.Product(radices)
	var nontrivial int64
	par.For(total, 64, func() bool { return r.Expired() }, func(i int64) {
		d := make([]int, nDims)
		par.MixedRadix(i, radices, d)
		if !cb.Full && countNonDefault(d) > 1 {
			return
		}
		ev := matrixEvidence(cb.EvH, d)
		ref := refJudge(ev, e.ctx)
		c := ACase{PoolH: cb.PoolH, EvH: cb.EvH, D: d}
		cls := matrixClass(d, ref)
		acc := 0
		for path := 0; path < nPaths; path++ {
			o := offer(e, path, ev)
			judge(e, c, path, ev, ref, o, cls)
			if o.Accepted {
				acc++
			}
			if o.Stage == "pool" || o.Accepted {
				atomic.AddInt64(&nontrivial, 1)
			}
		}
		r.Add("matrix_cases", 1)
		if ref.Valid && !ref.DontCare {
			r.Add("matrix_reference_valid_cases", 1)
		}
		r.Distinct("distinct_nontrivial", fmt.Sprintf("%d/%d/%s/%s/%d", cb.PoolH, cb.EvH, cls, ref.Expiry, acc))
		if ref.Valid && !ref.DontCare && acc == nPaths && d[dID] == 0 && takeSample("a", 2) {
			r.Sample(map[string]interface{}{"part": "a", "pool_height": cb.PoolH, "evidence_height": cb.EvH, "dims": d, "reference": "valid", "accepted_on_paths": acc,
				"evidence_hash": ev.Hash().Hex()})
		}
	})
	r.Add("reached_pool_logic", nontrivial)
}

// ---------------------------------------------------------------------------------------------
// single-field mutations of a valid evidence

type mutation struct {
	Name string
	// Apply returns the mutated evidence; expect: "reject" | "accept" | "dontcare" | "" (= ask refJudge).
	Apply  func(base *types.DuplicateVoteEvidence, h uint64) *types.DuplicateVoteEvidence
	Expect string
	// DirectDontCare: on the two in-memory paths the outcome is not judged (the variation does not survive the wire codec)
	DirectDontCare bool
}

func cloneEv(e *types.DuplicateVoteEvidence) *types.DuplicateVoteEvidence {
	c := *e
	c.VoteA = e.VoteA.Copy()
	c.VoteB = e.VoteB.Copy()
	c.VoteA.Signature = append([]byte{}, e.VoteA.Signature...)
	c.VoteB.Signature = append([]byte{}, e.VoteB.Signature...)
	return &c
}

var secpN, _ = new(big.Int).SetString("fffffffffffffffffffffffffffffffebaaedce6af48a03bbfd25e8cd0364141", 16)

// malleate returns the (r, N-s, v^1) twin of a signature.
func malleate(sig []byte) []byte {
	if len(sig) != 65 {
		return sig
	}
	out := append([]byte{}, sig...)
	s := new(big.Int).SetBytes(sig[32:64])
	s.Sub(secpN, s)
	b := s.Bytes()
	for i := 32; i < 64; i++ {
		out[i] = 0
	}
	copy(out[64-len(b):64], b)
	out[64] ^= 1
	return out
}

func resign(e *types.DuplicateVoteEvidence, chain string) {
	for _, v := range []*types.Vote{e.VoteA, e.VoteB} {
		v.Signature = signVote(whoOf(v.ValidatorAddress), v, chain)
	}
}

func mutations() []mutation {
	mut := func(name, expect string, f func(e *types.DuplicateVoteEvidence, h uint64)) mutation {
		return mutation{Name: name, Expect: expect, Apply: func(b *types.DuplicateVoteEvidence, h uint64) *types.DuplicateVoteEvidence {
			c := cloneEv(b)
			f(c, h)
			return c
		}}
	}
	ms := []mutation{
		mut("none", "", func(e *types.DuplicateVoteEvidence, h uint64) {}),
		// fields no signature covers: the property is silent on whether such a variant is acceptable
		// BEFORE anything was committed (part (b) judges the replay after a commit)
		mut("index-A+1", "dontcare", func(e *types.DuplicateVoteEvidence, h uint64) { e.VoteA.ValidatorIndex++ }),
		mut("index-B+1", "dontcare", func(e *types.DuplicateVoteEvidence, h uint64) { e.VoteB.ValidatorIndex++ }),
		mut("index-both+1", "dontcare", func(e *types.DuplicateVoteEvidence, h uint64) { e.VoteA.ValidatorIndex++; e.VoteB.ValidatorIndex++ }),
		mut("index-both=99", "dontcare", func(e *types.DuplicateVoteEvidence, h uint64) {
			e.VoteA.ValidatorIndex, e.VoteB.ValidatorIndex = 99, 99
		}),
		mut("sigA-malleated-high-s", "", func(e *types.DuplicateVoteEvidence, h uint64) { e.VoteA.Signature = malleate(e.VoteA.Signature) }),
		mut("sigA-trailing-byte", "reject", func(e *types.DuplicateVoteEvidence, h uint64) { e.VoteA.Signature = append(e.VoteA.Signature, 0) }),
		mut("sigB-trailing-byte", "reject", func(e *types.DuplicateVoteEvidence, h uint64) { e.VoteB.Signature = append(e.VoteB.Signature, 7) }),
		mut("sigA-64-bytes", "reject", func(e *types.DuplicateVoteEvidence, h uint64) { e.VoteA.Signature = e.VoteA.Signature[:64] }),
		mut("sigB-empty", "reject", func(e *types.DuplicateVoteEvidence, h uint64) { e.VoteB.Signature = nil }),
		mut("sigA-bitflip", "reject", func(e *types.DuplicateVoteEvidence, h uint64) { e.VoteA.Signature[10] ^= 1 }),
		mut("sigs-swapped", "reject", func(e *types.DuplicateVoteEvidence, h uint64) {
			e.VoteA.Signature, e.VoteB.Signature = e.VoteB.Signature, e.VoteA.Signature
		}),
		mut("voteB=voteA", "reject", func(e *types.DuplicateVoteEvidence, h uint64) { e.VoteB = e.VoteA.Copy() }),
		mut("voteA=voteB", "reject", func(e *types.DuplicateVoteEvidence, h uint64) { e.VoteA = e.VoteB.Copy() }),
		mut("height-0-resigned", "reject", func(e *types.DuplicateVoteEvidence, h uint64) {
			e.VoteA.Height, e.VoteB.Height = 0, 0
			resign(e, chainID)
			e.Timestamp = fx.blockTime[0]
		}),
		mut("future-height+1-resigned", "reject", func(e *types.DuplicateVoteEvidence, h uint64) {
			e.VoteA.Height, e.VoteB.Height = fx.head+1, fx.head+1
			resign(e, chainID)
		}),
		mut("future-height+5-resigned", "reject", func(e *types.DuplicateVoteEvidence, h uint64) {
			e.VoteA.Height, e.VoteB.Height = fx.head+5, fx.head+5
			resign(e, chainID)
		}),
		mut("time+1ns", "reject", func(e *types.DuplicateVoteEvidence, h uint64) { e.Timestamp = e.Timestamp.Add(1) }),
		mut("time-1ns", "reject", func(e *types.DuplicateVoteEvidence, h uint64) { e.Timestamp = e.Timestamp.Add(-1) }),
		mut("time-zero", "reject", func(e *types.DuplicateVoteEvidence, h uint64) { e.Timestamp = time.Time{} }),
		mut("time-genesis", "", func(e *types.DuplicateVoteEvidence, h uint64) { e.Timestamp = genesisTime }),
		mut("vote-times-changed-unsigned", "reject", func(e *types.DuplicateVoteEvidence, h uint64) {
			e.VoteA.Timestamp = e.VoteA.Timestamp.Add(time.Millisecond)
			e.VoteB.Timestamp = e.VoteB.Timestamp.Add(time.Millisecond)
		}),
		mut("addressB-other-validator", "reject", func(e *types.DuplicateVoteEvidence, h uint64) { e.VoteB.ValidatorAddress = addrs[0] }),
		mut("both-addresses-other-validator", "reject", func(e *types.DuplicateVoteEvidence, h uint64) {
			e.VoteA.ValidatorAddress, e.VoteB.ValidatorAddress = addrs[0], addrs[0]
		}),
		mut("signed-for-other-chain", "reject", func(e *types.DuplicateVoteEvidence, h uint64) { resign(e, "some-other-chain") }),
		mut("roundB+1-unsigned", "reject", func(e *types.DuplicateVoteEvidence, h uint64) { e.VoteB.Round++ }),
		mut("both-rounds+1-unsigned", "reject", func(e *types.DuplicateVoteEvidence, h uint64) { e.VoteA.Round++; e.VoteB.Round++ }),
		mut("both-heights-1-unsigned", "reject", func(e *types.DuplicateVoteEvidence, h uint64) { e.VoteA.Height--; e.VoteB.Height-- }),
		mut("targetB-changed-unsigned", "reject", func(e *types.DuplicateVoteEvidence, h uint64) { e.VoteB.BlockID.Hash = hashOf("never signed") }),
		// D4 (known finding of C11): the type is not covered by the signature; refJudge (which uses
		// the repository's Vote.Verify) therefore calls the consistently re-typed pair valid
		mut("both-retyped-precommit", "", func(e *types.DuplicateVoteEvidence, h uint64) {
			e.VoteA.Type, e.VoteB.Type = kproto.PrecommitType, kproto.PrecommitType
		}),
		mut("typeB-retyped-precommit", "reject", func(e *types.DuplicateVoteEvidence, h uint64) { e.VoteB.Type = kproto.PrecommitType }),
		mut("both-types-proposal", "dontcare", func(e *types.DuplicateVoteEvidence, h uint64) {
			e.VoteA.Type, e.VoteB.Type = kproto.ProposalType, kproto.ProposalType
		}),
		mut("validator-power-0", "reject", func(e *types.DuplicateVoteEvidence, h uint64) { e.ValidatorPower = 0 }),
		mut("validator-power-negative", "reject", func(e *types.DuplicateVoteEvidence, h uint64) { e.ValidatorPower = -e.ValidatorPower }),
		mut("total-power+1", "reject", func(e *types.DuplicateVoteEvidence, h uint64) { e.TotalVotingPower++ }),
		mut("total-power-0", "reject", func(e *types.DuplicateVoteEvidence, h uint64) { e.TotalVotingPower = 0 }),
	}
	// same instant in another Location: identical on the wire; in memory the property is silent
	loc := mutation{Name: "time-same-instant-other-location", Expect: "accept", DirectDontCare: true,
		Apply: func(b *types.DuplicateVoteEvidence, h uint64) *types.DuplicateVoteEvidence {
			c := cloneEv(b)
			c.Timestamp = c.Timestamp.In(time.FixedZone("c19", 3600))
			return c
		}}
	return append(ms, loc)
}

func baseEvidence(h uint64) *types.DuplicateVoteEvidence {
	return matrixEvidence(h, make([]int, nDims))
}

func runMutations(cb combo) {
	e := envs[cb.PoolH]
	ms := mutations()
	par.Each(len(ms), func(i int) {
		m := ms[i]
		base := baseEvidence(cb.EvH)
		ev := m.Apply(base, cb.EvH)
		ref := refJudge(ev, e.ctx)
		switch m.Expect {
		case "reject":
			if ref.Valid {
				// the harness's own expectation and the reference disagree: a harness bug, never a verdict
				r.Vacuous(fmt.Sprintf("mutation %s: reference predicate calls it valid but the mutation list expects a rejection", m.Name))
				return
			}
		case "accept":
			if !ref.Valid && whyString(ref.Why) != "expired" {
				r.Vacuous(fmt.Sprintf("mutation %s: reference predicate calls it invalid (%s) but the mutation list expects acceptance", m.Name, whyString(ref.Why)))
				return
			}
		case "dontcare":
			if ref.Valid {
				ref.DontCare = true
			}
		}
		c := ACase{PoolH: cb.PoolH, EvH: cb.EvH, Mut: m.Name}
		for path := 0; path < nPaths; path++ {
			rr := ref
			if m.DirectDontCare && (path == pathDirect || path == pathCheckDirect) {
				rr.DontCare = true
			}
			o := offer(e, path, ev)
			cls := "mut:" + m.Name
			if rr.Valid {
				cls = idName[0] // a valid variant of the plain pair: same class as the matrix point
			}
			judge(e, c, path, ev, rr, o, cls)
			r.Distinct("distinct_nontrivial", fmt.Sprintf("mut/%d/%d/%s/%d/%v", cb.PoolH, cb.EvH, m.Name, path, o.Accepted))
		}
		r.Add("mutation_cases", 1)
	})
}

// nil votes can only be expressed on the wire
func runNilVoteWire() {
	base := baseEvidence(fx.head)
	for _, which := range []string{"A", "B", "both"} {
		pb := base.ToProto()
		if which == "A" || which == "both" {
			pb.VoteA = nil
		}
		if which == "B" || which == "both" {
			pb.VoteB = nil
		}
		func() {
			defer func() {
				if x := recover(); x != nil {
					noteAFailure(aFailure{Oracle: "panic", Path: pathPeer, Class: "mut:nil-vote-" + which, Case: ACase{Part: "a", Mut: "nil-vote-" + which, PoolH: fx.head, EvH: fx.head, Path: "peer"},
						What: fmt.Sprintf("decoding evidence with a missing vote panicked: %v", x)})
				}
			}()
			r.Add("evaluations", 1)
			_, err := types.EvidenceFromProto(&kproto.Evidence{Sum: &kproto.Evidence_DuplicateVoteEvidence{DuplicateVoteEvidence: pb}})
			if err == nil {
				noteAFailure(aFailure{Oracle: "unsound-accept", Path: pathPeer, Class: "nil-vote", Case: ACase{Part: "a", Mut: "nil-vote-" + which, PoolH: fx.head, EvH: fx.head, Path: "peer"},
					What: "evidence with a missing vote decodes without error"})
			}
		}()
	}
}

// ---------------------------------------------------------------------------------------------
// completeness for what a correct node builds: types.NewDuplicateVoteEvidence(v1, v2, block time, set)

func runConstructor(cb combo) {
	e := envs[cb.PoolH]
	h := cb.EvH
	valset, err := e.store.LoadValidators(h)
	if err != nil {
		r.Vacuous(fmt.Sprintf("fixture: LoadValidators(%d) failed: %v", h, err))
		return
	}
	for _, k := range []int{0, 2, 3, 4} { // every pair of different targets
		for _, t := range []kproto.SignedMsgType{kproto.PrevoteType, kproto.PrecommitType} {
			for order := 0; order < 2; order++ {
				lo, hi := idPair(k)
				who := 1
				idx := idxIn(h, who)
				vts := fx.blockTime[h].Add(700 * time.Millisecond)
				v1 := mkVote(who, who, h, 2, t, lo, vts, idx, chainID)
				v2 := mkVote(who, who, h, 2, t, hi, vts.Add(time.Millisecond), idx, chainID)
				if order == 1 {
					v1, v2 = v2, v1
				}
				name := idName[k]
				c := ACase{PoolH: cb.PoolH, EvH: h, Ctor: fmt.Sprintf("%s/type=%d/arg-order=%d", idName[k], t, order)}
				// what consensus does: the second vote makes the real VoteSet report the conflict, and
				// tryAddVote hands the two votes of the error to NewDuplicateVoteEvidence
				flagged := false
				var ev *types.DuplicateVoteEvidence
				func() {
					defer func() {
						if x := recover(); x != nil {
							noteAFailure(aFailure{Oracle: "panic", Path: pathDirect, Class: name, Case: c, What: fmt.Sprintf("VoteSet.AddVote / NewDuplicateVoteEvidence panicked: %v", x)})
						}
					}()
					vs := types.NewVoteSet(chainID, h, 2, t, valset)
					if _, err := vs.AddVote(v1); err != nil {
						panic(fmt.Sprintf("harness: first vote refused by the vote set: %v", err))
					}
					_, err := vs.AddVote(v2)
					a, b := v1, v2
					if ce, ok := err.(*types.ErrVoteConflictingVotes); ok {
						flagged = true
						a, b = ce.VoteA, ce.VoteB
					}
					ev = types.NewDuplicateVoteEvidence(a, b, fx.blockTime[h], valset)
				}()
				r.Add("evaluations", 1)
				if !flagged {
					c2 := c
					c2.Part, c2.Path = "a", "consensus"
					noteAFailure(aFailure{Oracle: "conflict-not-detected", Path: pathConsensus, Class: name, Case: c2,
						What: fmt.Sprintf("two validly signed votes of one validator for the same height/round/type and different targets (%s) are not reported as conflicting by the real VoteSet, so consensus never produces evidence for them", idName[k])})
				}
				ref := refJudge(ev, e.ctx)
				if !ref.Valid && ref.Expiry != "both" {
					r.Vacuous("constructor case is not reference-valid: " + whyString(ref.Why))
					continue
				}
				// what a correct node builds must be accepted whatever order the constructor chose
				ref.DontCare = false
				for path := 0; path < nPaths; path++ {
					o := offer(e, path, ev)
					judge(e, c, path, ev, ref, o, name)
				}
				r.Add("constructor_cases", 1)
				// consensus path: stored without verification, listed as pending, survives a restart
				if ref.Valid && flagged {
					consensusPath(e, c, ev, name)
				}
			}
		}
	}
}

func consensusPath(e *poolEnv, c ACase, ev *types.DuplicateVoteEvidence, class string) {
	c.Path = "consensus"
	c.Part = "a"
	defer func() {
		if x := recover(); x != nil {
			noteAFailure(aFailure{Oracle: "panic", Path: pathConsensus, Class: class, Case: c, What: fmt.Sprintf("AddEvidenceFromConsensus path panicked: %v", x)})
		}
	}()
	evdb := memorydb.New()
	p, err := evidence.NewPool(e.store, evdb, e.app)
	if err != nil {
		panic(err)
	}
	r.Add("evaluations", 1)
	r.Add("evaluations_consensus", 1)
	err = p.AddEvidenceFromConsensus(ev)
	pend, _ := p.PendingEvidence(-1)
	if err == nil && len(pend) == 0 {
		// not pending at once: a pool may keep consensus evidence aside until the next block is committed;
		// part (b) (next commit) and part (c) (end to end) judge that
		r.Add("consensus_evidence_deferred", 1)
		return
	}
	ok := err == nil && len(pend) == 1 && pend[0].Hash() == ev.Hash()
	if ok {
		p2, err2 := evidence.NewPool(e.store, evdb, e.app)
		if err2 != nil {
			ok = false
			err = err2
		} else {
			pend2, _ := p2.PendingEvidence(-1)
			ok = len(pend2) == 1 && pend2[0].Hash() == ev.Hash()
			if !ok {
				err = fmt.Errorf("not pending after a restart on the same database")
			}
		}
	}
	if !ok {
		noteAFailure(aFailure{Oracle: "consensus-evidence-not-kept", Path: pathConsensus, Class: class, Case: c,
			What: fmt.Sprintf("evidence handed over by consensus is not (durably) pending: %v", err)})
	}
}

// ---------------------------------------------------------------------------------------------

var envHeads = []uint64{3, 4, 5, 10}

func partACombos() []combo {
	full := r.Thorough()
	return []combo{
		{10, 10, true}, // newest height, current set
		{5, 3, true},   // old set (V1 has another power, V3/V4 swapped), only the time window exceeded
		{10, 7, full},  // only the height window exceeded
		{10, 4, full},  // only the height window exceeded, first height of the current set
		{10, 3, full},  // both windows exceeded: expired
		{5, 5, full},
		{5, 2, full}, // expired, old set
		{5, 1, full}, // initial height, expired
		// the pool has just committed the LAST height of the old set: its state already carries the next
		// set (V1 20->25, V3 leaves, V4 joins, total 75->80) while the evidence height is signed by the old one
		{3, 3, true},
		{3, 2, full}, // one below the head, same set
		{3, 1, full},
		{4, 4, full}, // first height of the new set at the head
		{4, 3, full}, // one below the head, the other set
	}
}

func runPartA() {
	for _, h := range envHeads {
		initEnv(h)
	}
	cbs := partACombos()
	for _, cb := range cbs {
		if r.Expired() {
			r.NotExhaustive(fmt.Sprintf("part (a): deadline before combination pool=%d evidence=%d", cb.PoolH, cb.EvH))
			break
		}
		runMatrix(cb)
		runMutations(cb)
		runConstructor(cb)
	}
	runNilVoteWire()
	r.Add("pools_constructed", atomic.LoadInt64(&poolsMade))
	// report: one violation per group, the smallest member
	var keys []string
	for k := range aFails {
		keys = append(keys, k)
	}
	sort.Strings(keys)
	for _, k := range keys {
		f := aFails[k]
		r.Violation(aSignature(f), f.What, f.Case)
	}
}

// replayA re-executes one stored part-(a) case.
func replayA(c ACase) bool {
	for _, h := range envHeads {
		initEnv(h)
	}
	e := envs[c.PoolH]
	if e == nil {
		fmt.Println("unknown pool height", c.PoolH)
		return false
	}
	var ev *types.DuplicateVoteEvidence
	switch {
	case c.Mut != "":
		for _, m := range mutations() {
			if m.Name == c.Mut {
				ev = m.Apply(baseEvidence(c.EvH), c.EvH)
			}
		}
	case c.D != nil:
		ev = matrixEvidence(c.EvH, c.D)
	}
	if ev == nil {
		fmt.Println("constructor / wire-only cases are re-executed by the full part (a) run")
		runPartA()
		return len(aFails) > 0
	}
	ref := refJudge(ev, e.ctx)
	fmt.Printf("evidence: %v\nreference: valid=%v dontcare=%v why=%v canonical=%v expiry=%s\n", ev, ref.Valid, ref.DontCare, ref.Why, ref.Canonical, ref.Expiry)
	bad := false
	for path := 0; path < nPaths; path++ {
		o := offer(e, path, ev)
		fmt.Printf("path %-12s accepted=%v stage=%s err=%s panic=%s\n", pathName[path], o.Accepted, o.Stage, o.Err, o.Panic)
		if pathName[path] == c.Path && !ref.DontCare && (o.Panic != "" || o.Accepted != ref.Valid) {
			bad = true
		}
	}
	return bad
}
