package main

import (
	"fmt"
	"os"
	"time"

	"github.com/kardiachain/go-kardia/consensus"
	"github.com/kardiachain/go-kardia/lib/crypto"
	kproto "github.com/kardiachain/go-kardia/proto/kardiachain/types"
	"github.com/kardiachain/go-kardia/types"
	"github.com/kardiachain/go-kardia/types/evidence"
)

// ---------------------------------------------------------------------------------------------
// Part (c'), the REAL application: netsim's simulated application mirrors
// mainchain/blockchain.BlockOperations.CreateProposalBlock; this probe runs the original. The full
// single-validator stack (blockchain, staking genesis, tx pool, evidence pool, BlockOperations, executor,
// consensus, WAL - wired like mainchain/backend.go) commits two blocks, its pool is offered wire-decoded
// evidence of a double-signing at height 2 (through AddEvidence, i.e. fully verified), and the next
// blocks it proposes are inspected.

func tmpDir() string {
	base := "/dev/shm"
	if _, err := os.Stat(base); err != nil {
		base = os.TempDir()
	}
	d, err := os.MkdirTemp(base, "verif-c19-")
	if err != nil {
		panic(err)
	}
	return d
}

// realProposes: what the probe saw the REAL BlockOperations do with verified pending evidence
// ("" = probe unavailable, "omits" / "includes").
var realProposes string

type FCase struct {
	Part string `json:"part"`
	What string `json:"what"`
}

func runFullProbe() (violated bool) {
	const cfg = "real-stack-default-params"
	defer func() {
		if x := recover(); x != nil {
			r.Set("full_stack_probe", fmt.Sprintf("unavailable: harness panic %v", x))
		}
	}()
	key := keys[0]
	addr := crypto.PubkeyToAddress(key.PublicKey)
	dir := tmpDir()
	defer os.RemoveAll(dir)
	rec := &consensus.VerifRecorder{Off: true}
	n, err := consensus.VerifBootFull(consensus.VerifFullConfig{Key: key, DB: consensus.VerifNewRecDB(rec), WalDir: dir, Rec: rec})
	if err != nil {
		r.Set("full_stack_probe", "unavailable: the full stack does not boot: "+short(err.Error()))
		return false
	}
	defer n.StopFull()
	n.Begin()
	nop := func(uint64) {}
	if !n.RunToHeight(2, 40, nop) || n.Failed != nil {
		r.Set("full_stack_probe", fmt.Sprintf("unavailable: the full stack does not reach height 2 (failed=%v)", n.Failed))
		return false
	}
	const h = 2
	meta := n.Full.BC.LoadBlockMeta(h)
	valset, verr := n.Store.LoadValidators(h)
	if meta == nil || verr != nil {
		r.Set("full_stack_probe", fmt.Sprintf("unavailable: no block meta / validators of height %d: %v", h, verr))
		return false
	}
	chain := n.State().ChainID
	idx, _ := valset.GetByAddress(addr)
	mk := func(id types.BlockID) *types.Vote {
		v := &types.Vote{Type: kproto.PrevoteType, Height: h, Round: 1, BlockID: id, Timestamp: meta.Header.Time.Add(time.Second), ValidatorAddress: addr, ValidatorIndex: uint32(idx)}
		p := v.ToProto()
		if err := types.NewDefaultPrivValidator(key).SignVote(chain, p); err != nil {
			panic(err)
		}
		v.Signature = p.Signature
		return v
	}
	ev := types.NewDuplicateVoteEvidence(mk(idX), mk(idY), meta.Header.Time, valset)
	bz, err := evidence.VerifC19EncodeMsg([]types.Evidence{ev})
	var evs []types.Evidence
	if err == nil {
		evs, err = evidence.VerifC19DecodeMsg(bz)
	}
	r.Add("evaluations", 1)
	r.Add("transitions", 1)
	r.Add("traces_validated_against_impl", 1)
	if err == nil {
		err = n.EvPool.AddEvidence(evs[0])
	}
	pend, _ := n.EvPool.PendingEvidence(-1)
	if err != nil || len(pend) != 1 {
		r.Violation("C19|part=c|config="+cfg+"|oracle=valid-rejected", fmt.Sprintf("the real stack's pool refuses evidence of a double-signing of its validator at height %d built with the block time: %v", h, err), FCase{"full", "add"})
		return true
	}
	arg, _ := types.MaxEvidencePerBlock(n.State().ConsensusParams.Evidence.MaxBytes)
	listed, _ := n.EvPool.PendingEvidence(arg)
	included := uint64(0)
	var inspected []uint64
	for target := uint64(3); target <= 5 && included == 0; target++ {
		if !n.RunToHeight(target, 40, nop) || n.Failed != nil {
			break
		}
		r.Add("transitions", 1)
		r.Add("traces_validated_against_impl", 1)
		for _, s := range n.Full.Saved {
			if s.Height == target {
				inspected = append(inspected, target)
				for _, e := range s.Block.Evidence().Evidence {
					if e.Hash() == ev.Hash() {
						included = target
					}
				}
			}
		}
	}
	still, _ := n.EvPool.PendingEvidence(-1)
	r.Set("full_stack_probe", map[string]interface{}{"evidence_bytes": len(ev.Bytes()), "pending_evidence_argument": arg, "listed_for_proposal": len(listed),
		"blocks_inspected": inspected, "included_at_height": included, "still_pending": len(still), "node_failed": fmt.Sprint(n.Failed)})
	if included > 0 {
		realProposes = "includes"
	} else if len(inspected) > 0 && len(still) == 1 {
		realProposes = "omits"
	}
	if included == 0 && len(inspected) > 0 && len(still) == 1 {
		r.Violation("C19|part=c|config="+cfg+"|oracle=pending-evidence-not-proposed|cause={real BlockOperations.CreateProposalBlock}",
			fmt.Sprintf("the real BlockOperations.CreateProposalBlock proposed blocks %v without the verified evidence (%d bytes) pending in its pool: it calls PendingEvidence(%d) - the maximum NUMBER of evidence - where the pool expects a BYTE budget, so nothing ever fits",
				inspected, len(ev.Bytes()), arg), FCase{"full", "propose"})
		return true
	}
	if included > 0 && len(still) != 0 {
		r.Violation("C19|part=c|config="+cfg+"|oracle=pending-includes-committed", "evidence committed on the real stack is still pending", FCase{"full", "propose"})
		return true
	}
	return false
}
