package main

import (
	"crypto/ecdsa"
	"fmt"
	"math/big"
	"sync"
	"time"

	"github.com/kardiachain/go-kardia/configs"
	"github.com/kardiachain/go-kardia/consensus"
	"github.com/kardiachain/go-kardia/kai/kaidb/memorydb"
	"github.com/kardiachain/go-kardia/kai/rawdb"
	"github.com/kardiachain/go-kardia/kai/state/cstate"
	"github.com/kardiachain/go-kardia/lib/common"
	"github.com/kardiachain/go-kardia/lib/crypto"
	"github.com/kardiachain/go-kardia/lib/log"
	"github.com/kardiachain/go-kardia/mainchain/genesis"
	kproto "github.com/kardiachain/go-kardia/proto/kardiachain/types"
	"github.com/kardiachain/go-kardia/trie"
	"github.com/kardiachain/go-kardia/types"
	"github.com/kardiachain/go-kardia/types/evidence"
)

// ---------------------------------------------------------------------------------------------
// The fixture chain of parts (a) and (b): a hand-driven chain on a memorydb, every block produced,
// validated, committed and applied by the REAL cstate.BlockExecutor (validateBlock -> CheckEvidence,
// ApplyBlock -> Store.Save -> evpool.Update) with the harness holding every validator key.
//
//   validators   V0..V5 (V5 is never a validator)
//   set A (heights 1..3):  V0=10 V1=20 V2=30 V3=15   total 75
//   set B (heights >= 4):  V0=10 V1=25 V2=30 V4=15   total 80   (reported by the application after block 2)
//   block times  T0 + {0,10,20,120,130,131,132,...} s (+ a few ms from the weighted median)
//   evidence parameters: MaxAgeNumBlocks 2, MaxAgeDuration 30 s
//
// so that, seen from head 5, height 3 exceeds only the time window, heights 1-2 exceed both; seen from
// head 10, heights 4..7 exceed only the height window and heights <= 3 exceed both.

const nKeys = 6

var (
	keys  [nKeys]*ecdsa.PrivateKey
	addrs [nKeys]common.Address
	pvs   [nKeys]*types.DefaultPrivValidator
)

type member struct {
	who   int
	power int64
}

var setA = []member{{0, 10}, {1, 20}, {2, 30}, {3, 15}}
var setB = []member{{0, 10}, {1, 25}, {2, 30}, {4, 15}}

const (
	changeReportedAt = 2 // the application reports set B after executing block 2 => effective at height 4
	firstHeightOfB   = changeReportedAt + 2
	chainID          = "c19-chain"
	maxAgeBlocks     = 2
	maxAgeDur        = 30 * time.Second
)

var genesisTime = time.Date(2023, 5, 6, 7, 8, 9, 0, time.UTC)

// refSet is the checker's own record of which validators (with which power) form the set of height h.
func refSet(h uint64) []member {
	if h < firstHeightOfB {
		return setA
	}
	return setB
}

func refTotal(h uint64) int64 {
	var t int64
	for _, m := range refSet(h) {
		t += m.power
	}
	return t
}

func refPower(h uint64, a common.Address) (int64, bool) {
	for _, m := range refSet(h) {
		if addrs[m.who] == a {
			return m.power, true
		}
	}
	return 0, false
}

func valList(ms []member) []*types.Validator {
	var out []*types.Validator
	for _, m := range ms {
		out = append(out, types.NewValidator(addrs[m.who], m.power))
	}
	return out
}

// schedSec is the scripted time of block h in seconds after genesis.
func schedSec(h uint64) int64 {
	switch {
	case h <= 1:
		return 0
	case h == 2:
		return 10
	case h == 3:
		return 20
	case h == 4:
		return 120
	default:
		// one second per block, with a gap of 100 s before each height whose printed (hex) width grows:
		// the expiry-order worlds need evidence on the old side of the boundary to leave the time window
		// while evidence on the new side stays inside it
		t := 130 + int64(h-5)
		for _, b := range widthBoundaries {
			if h >= b {
				t += 100
			}
		}
		return t
	}
}

var widthBoundaries = []uint64{16, 256}

func whoOf(a common.Address) int {
	for i, x := range addrs {
		if x == a {
			return i
		}
	}
	return -1
}

func initKeys() {
	for i := 0; i < nKeys; i++ {
		k, err := crypto.ToECDSA(crypto.Keccak256([]byte(fmt.Sprintf("c19 validator key %d", i))))
		if err != nil {
			panic(err)
		}
		keys[i] = k
		addrs[i] = crypto.PubkeyToAddress(k.PublicKey)
		pvs[i] = types.NewDefaultPrivValidator(k)
	}
}

func evidenceParams() *kproto.ConsensusParams {
	p := types.DefaultConsensusParams()
	p.Evidence.MaxAgeNumBlocks = maxAgeBlocks
	p.Evidence.MaxAgeDuration = maxAgeDur
	return p
}

func genesisDoc() *genesis.Genesis {
	doc := &genesis.Genesis{ChainID: chainID, InitialHeight: 1, Timestamp: genesisTime, ConsensusParams: evidenceParams()}
	for _, m := range setA {
		tokens := new(big.Int).Mul(big.NewInt(m.power), configs.PowerReduction)
		doc.Validators = append(doc.Validators, &genesis.GenesisValidator{Address: addrs[m.who].Hex(), SelfDelegate: tokens.String(), StartWithGenesis: true})
	}
	return doc
}

// ---------------------------------------------------------------------------------------------
// signing, cached (signatures are RFC-6979 deterministic, so a cache changes nothing but time)

var sigCache sync.Map // string -> []byte

func signVote(signer int, v *types.Vote, chain string) []byte {
	p := v.ToProto()
	p.Signature = nil
	key := fmt.Sprintf("%d|%s|%x", signer, chain, types.VoteSignBytes(chain, p))
	if s, ok := sigCache.Load(key); ok {
		return append([]byte{}, s.([]byte)...)
	}
	if err := pvs[signer].SignVote(chain, p); err != nil {
		panic(err)
	}
	sigCache.Store(key, append([]byte{}, p.Signature...))
	return p.Signature
}

// mkVote builds a vote of validator `who` signed with the key of `signer` (signer != who = forged).
func mkVote(who, signer int, h uint64, round uint32, t kproto.SignedMsgType, id types.BlockID, ts time.Time, idx uint32, chain string) *types.Vote {
	v := &types.Vote{Type: t, Height: h, Round: round, BlockID: id, Timestamp: ts, ValidatorAddress: addrs[who], ValidatorIndex: idx}
	v.Signature = signVote(signer, v, chain)
	return v
}

// ---------------------------------------------------------------------------------------------
// driver: one live chain (database + real store + real pool + real executor)

var sharedBus *types.EventBus

func initBus() {
	sharedBus = types.NewEventBus()
	if err := sharedBus.Start(); err != nil {
		panic(err)
	}
}

type kv struct{ k, v []byte }

func dumpDB(db *memorydb.Database) []kv {
	it := db.NewIterator(nil, nil)
	defer it.Release()
	var out []kv
	for it.Next() {
		out = append(out, kv{common.CopyBytes(it.Key()), common.CopyBytes(it.Value())})
	}
	return out
}

func restoreDB(kvs []kv) *memorydb.Database {
	db := memorydb.NewWithCap(len(kvs) + 64)
	for _, e := range kvs {
		db.Put(e.k, e.v)
	}
	return db
}

type drv struct {
	db    *memorydb.Database
	store cstate.Store
	app   *consensus.VerifSimApp
	pool  *evidence.Pool
	exec  *cstate.BlockExecutor
	state cstate.LatestBlockState
	last  *types.Commit // seen commit of state.LastBlockHeight
}

func newApp(db *memorydb.Database) *consensus.VerifSimApp {
	return &consensus.VerifSimApp{DB: db, ChainCfg: configs.TestChainConfig,
		ValScript: map[uint64][]*types.Validator{changeReportedAt: valList(setB)}}
}

var quietLogger = log.New()

// attach (re)creates store, pool and executor on d.db: a process restart as far as the pool goes.
func (d *drv) attach() error {
	d.store = cstate.NewStore(d.db)
	d.app = newApp(d.db)
	pool, err := evidence.NewPool(d.store, d.db, d.app)
	if err != nil {
		return err
	}
	d.pool = pool
	d.exec = cstate.NewBlockExecutor(d.store, quietLogger, pool, d.app)
	d.exec.SetEventBus(sharedBus)
	return nil
}

// newChain starts a chain from genesis in the order mainchain/backend.go uses: genesis block, store,
// evidence pool (its state is EMPTY: nothing was saved yet), then LoadStateFromDBOrGenesisDoc.
func newChain() (*drv, error) {
	d := &drv{db: memorydb.New()}
	gen := &consensus.VerifGenesis{ChainID: chainID, Time: genesisTime, Validators: valList(setA), Params: evidenceParams()}
	consensus.VerifWriteGenesisBlock(d.db, gen)
	if err := d.attach(); err != nil {
		return nil, err
	}
	st, err := d.store.LoadStateFromDBOrGenesisDoc(genesisDoc())
	if err != nil {
		return nil, err
	}
	d.state = st
	d.last = types.NewCommit(0, 0, types.BlockID{}, nil)
	return d, nil
}

// openChain resumes a snapshot.
func openChain(kvs []kv, state cstate.LatestBlockState, last *types.Commit) (*drv, error) {
	d := &drv{db: restoreDB(kvs), state: state, last: last}
	if err := d.attach(); err != nil {
		return nil, err
	}
	return d, nil
}

// clone copies the live chain: databases copied, pool cloned field by field (validated against replay).
func (d *drv) clone() *drv {
	c := &drv{db: restoreDB(dumpDB(d.db)), state: d.state, last: d.last}
	c.store = cstate.NewStore(c.db)
	c.app = newApp(c.db)
	c.pool = evidence.VerifC19Clone(d.pool, c.store, c.db, c.app)
	c.exec = cstate.NewBlockExecutor(c.store, quietLogger, c.pool, c.app)
	c.exec.SetEventBus(sharedBus)
	return c
}

// makeBlock fills the header the way BlockOperations.CreateProposalBlock does, with the given evidence.
func (d *drv) makeBlock(ev []types.Evidence) (*types.Block, *types.PartSet) {
	st := d.state
	h := st.LastBlockHeight + 1
	ts := st.LastBlockTime
	if h > 1 {
		ts = cstate.MedianTime(d.last, st.LastValidators)
	}
	header := &types.Header{
		Height:             h,
		Time:               ts,
		LastBlockID:        st.LastBlockID,
		ProposerAddress:    st.Validators.GetProposer().Address,
		ValidatorsHash:     st.Validators.Hash(),
		NextValidatorsHash: st.NextValidators.Hash(),
		AppHash:            st.AppHash,
		GasLimit:           configs.BlockGasLimit,
	}
	block := types.NewBlock(header, nil, d.last, ev, trie.NewStackTrie(nil))
	return block, block.MakePartSet(types.BlockPartSizeBytes)
}

// validate is the real BlockExecutor.ValidateBlock (validateBlock -> evpool.CheckEvidence).
func (d *drv) validate(b *types.Block) error { return d.exec.ValidateBlock(d.state, b) }

// commit signs the precommits of every validator of the height, stores the block the way
// finalizeCommit does and applies it through the real ApplyBlock.
func (d *drv) commit(b *types.Block, ps *types.PartSet) error {
	h := b.Height()
	id := types.BlockID{Hash: b.Hash(), PartsHeader: ps.Header()}
	vals := d.state.Validators
	sigs := make([]types.CommitSig, vals.Size())
	base := genesisTime.Add(time.Duration(schedSec(h+1)) * time.Second)
	// the validators sign in set order until they hold more than 2/3 of the power; the rest is absent
	// (signature checks dominate the run time; the quorum is what VerifyCommit needs)
	var signed int64
	for i, v := range vals.Validators {
		if signed*3 > vals.TotalVotingPower()*2 {
			sigs[i] = types.NewCommitSigAbsent()
			continue
		}
		w := whoOf(v.Address)
		vote := mkVote(w, w, h, 1, kproto.PrecommitType, id, base.Add(time.Duration(i+1)*time.Millisecond), uint32(i), chainID)
		sigs[i] = vote.CommitSig()
		signed += v.VotingPower
	}
	seen := types.NewCommit(h, 1, id, sigs)
	rawdb.WriteBlock(d.db, b, ps, seen)
	st, _, err := d.exec.ApplyBlock(d.state, id, b)
	if err != nil {
		return err
	}
	d.state = st
	d.last = seen
	return nil
}

// ---------------------------------------------------------------------------------------------
// fixture: the chain built once, with snapshots at the heads the checks start from

type snapshot struct {
	kvs   []kv
	state cstate.LatestBlockState
	last  *types.Commit
}

type fixture struct {
	snaps     map[uint64]*snapshot
	blockTime map[uint64]time.Time
	head      uint64
}

var fx *fixture

func buildFixture(head uint64, snapAt ...uint64) (*fixture, error) {
	d, err := newChain()
	if err != nil {
		return nil, err
	}
	f := &fixture{snaps: map[uint64]*snapshot{}, blockTime: map[uint64]time.Time{0: genesisTime}, head: head}
	want := map[uint64]bool{}
	for _, h := range snapAt {
		want[h] = true
	}
	for h := uint64(1); h <= head; h++ {
		b, ps := d.makeBlock(nil)
		if err := d.validate(b); err != nil {
			return nil, fmt.Errorf("fixture block %d rejected: %v", h, err)
		}
		if err := d.commit(b, ps); err != nil {
			return nil, fmt.Errorf("fixture block %d not applied: %v", h, err)
		}
		f.blockTime[h] = b.Time()
		// harness self-check: the set that will sign h+1 is the scripted one
		if got, wantSet := setString(d.state.Validators), setStringRef(refSet(h+1)); got != wantSet {
			return nil, fmt.Errorf("fixture: validators of height %d are %s, script says %s", h+1, got, wantSet)
		}
		if want[h] {
			f.snaps[h] = &snapshot{kvs: dumpDB(d.db), state: d.state.Copy(), last: d.last}
		}
	}
	return f, nil
}

func setString(vs *types.ValidatorSet) string {
	s := ""
	for i := 0; i < nKeys; i++ {
		if _, v := vs.GetByAddress(addrs[i]); v != nil {
			s += fmt.Sprintf("V%d=%d ", i, v.VotingPower)
		}
	}
	return s
}

func setStringRef(ms []member) string {
	s := ""
	for i := 0; i < nKeys; i++ {
		for _, m := range ms {
			if m.who == i {
				s += fmt.Sprintf("V%d=%d ", i, m.power)
			}
		}
	}
	return s
}

// idxIn gives the index validator `who` has in the (sorted) set of height h, or 0 if it is no member.
func idxIn(h uint64, who int) uint32 {
	vs := types.NewValidatorSet(valList(refSet(h)))
	i, v := vs.GetByAddress(addrs[who])
	if v == nil {
		return 0
	}
	return uint32(i)
}
