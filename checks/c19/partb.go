package main

import (
	"fmt"
	"sort"
	"strings"
	"sync"
	"time"

	kproto "github.com/kardiachain/go-kardia/proto/kardiachain/types"
	"github.com/kardiachain/go-kardia/types"
	"github.com/kardiachain/go-kardia/types/evidence"

	"verif/mc/par"
)

// ---------------------------------------------------------------------------------------------
// Part (b): reachable state graph of a real pool (on the real store / executor, evidence database =
// chain database as in mainchain/backend.go) from the fixture's head 5, breadth first. A state is the
// shortest history that reaches it; every expansion replays that history on a fresh copy of the
// snapshot. The checker-side model (what must / may be pending, which double-signings are committed)
// is advanced next to it and compared after every operation.

const baseHeadB = 5

type item struct {
	Name   string
	Ev     *types.DuplicateVoteEvidence
	Wire   types.Evidence // what arrives after the wire codec (nil: the codec refuses it)
	WireEr string
	Class  string // equivocationID
	Hash   string
	Plain  bool // evidence exactly as a correct node builds it: completeness is required
	Height uint64
}

var items []*item
var itemByHash = map[string]*item{}

const (
	iE1 = iota
	iE2
	iE1idx
	iE1swap
	iE1sig
	iE1type
	iEold
	iEexp
	iEfut
)

func buildItems() {
	mk := func(who int, h uint64, t kproto.SignedMsgType, ts time.Time) *types.DuplicateVoteEvidence {
		idx := idxIn(h, who)
		vts := genesisTime.Add(time.Duration(schedSec(h))*time.Second + 2500*time.Millisecond)
		va := mkVote(who, who, h, 1, t, idX, vts, idx, chainID)
		vb := mkVote(who, who, h, 1, t, idY, vts, idx, chainID)
		if idLess(idY, idX) {
			va, vb = vb, va
		}
		vp, _ := refPower(h, addrs[who])
		return &types.DuplicateVoteEvidence{VoteA: va, VoteB: vb, TotalVotingPower: refTotal(h), ValidatorPower: vp, Timestamp: ts}
	}
	e1 := mk(1, 5, kproto.PrevoteType, fx.blockTime[5])
	e2 := mk(2, 5, kproto.PrevoteType, fx.blockTime[5])
	idx := cloneEv(e1)
	idx.VoteA.ValidatorIndex++
	idx.VoteB.ValidatorIndex++
	swap := cloneEv(e1)
	swap.VoteA, swap.VoteB = swap.VoteB, swap.VoteA
	sig := cloneEv(e1)
	sigName := "E1sig"
	sig.VoteA.Signature = append(sig.VoteA.Signature, 0)
	if sig.VoteA.Verify(chainID, sig.VoteA.ValidatorAddress) != nil {
		// trailing bytes no longer verify (D6 fix); the other way to re-encode a signature is its high-s twin
		sig = cloneEv(e1)
		sig.VoteA.Signature = malleate(sig.VoteA.Signature)
		r.Set("E1sig_variant", "high-s twin of VoteA's signature (a trailing byte does not verify)")
		if sig.VoteA.Verify(chainID, sig.VoteA.ValidatorAddress) != nil {
			r.Set("E1sig_variant", "high-s twin of VoteA's signature (does not verify either: the item is plainly invalid)")
		}
	} else {
		r.Set("E1sig_variant", "VoteA's signature with a trailing zero byte (still verifies)")
	}
	typ := cloneEv(e1)
	typ.VoteA.Type, typ.VoteB.Type = kproto.PrecommitType, kproto.PrecommitType
	old := mk(2, 3, kproto.PrecommitType, fx.blockTime[3])
	exp := mk(1, 2, kproto.PrevoteType, fx.blockTime[2])
	fut := mk(1, 20, kproto.PrevoteType, genesisTime.Add(time.Hour))
	for _, x := range []struct {
		n     string
		e     *types.DuplicateVoteEvidence
		plain bool
	}{{"E1", e1, true}, {"E2", e2, true}, {"E1idx", idx, false}, {"E1swap", swap, false}, {sigName, sig, false}, {"E1type", typ, false},
		{"Eold", old, true}, {"Eexp", exp, true}, {"Efut", fut, true}} {
		it := &item{Name: x.n, Ev: x.e, Class: equivocationID(x.e, chainID), Hash: x.e.Hash().Hex(), Plain: x.plain, Height: x.e.Height()}
		w, err := roundTrip(x.e)
		if err == nil {
			err = w.ValidateBasic()
		}
		if err != nil {
			it.WireEr = short(err.Error())
		} else {
			it.Wire = w
		}
		items = append(items, it)
		itemByHash[strings.ToUpper(strings.TrimPrefix(it.Hash, "0x"))] = it
	}
}

// ---- tokens

type token struct {
	Kind string // add | cons | check | commit | restart
	Is   []int
}

func (t token) String() string {
	var ns []string
	for _, i := range t.Is {
		ns = append(ns, items[i].Name)
	}
	return fmt.Sprintf("%s(%s)", t.Kind, strings.Join(ns, ","))
}

func alphabet() []token {
	var ts []token
	for i := range items {
		ts = append(ts, token{"add", []int{i}})
	}
	for _, i := range []int{iE1, iE2, iEold} {
		ts = append(ts, token{"cons", []int{i}})
	}
	for i := range items {
		ts = append(ts, token{"check", []int{i}})
	}
	for _, p := range [][]int{{iE1, iE2}, {iE1, iE1}, {iE1, iE1idx}, {iE1, iE1type}, {iE2, iE1}, {iE1idx, iE1idx}} {
		ts = append(ts, token{"check", p})
	}
	for _, s := range [][]int{{}, {iE1}, {iE2}, {iE1idx}, {iE1type}, {iE1sig}, {iEold}, {iE1, iE2}, {iE1, iE1idx}, {iE1, iE1}} {
		ts = append(ts, token{"commit", s})
	}
	ts = append(ts, token{"restart", nil})
	return ts
}

// ---- model

type model struct {
	H        uint64
	Must     map[int]bool    // accepted through add / cons: must be listed as pending until committed or expired
	May      map[int]bool    // stored as a side effect (CheckEvidence) or by an acceptance already reported as unsound
	Hashes   map[string]bool // evidence hashes committed
	Classes  map[string]bool // double-signings committed
	Executed map[string]bool
}

func newModel() *model {
	return &model{H: baseHeadB, Must: map[int]bool{}, May: map[int]bool{}, Hashes: map[string]bool{}, Classes: map[string]bool{}}
}

func (m *model) digest() string {
	var a, b, c []string
	for i := range m.Must {
		a = append(a, items[i].Name)
	}
	for i := range m.May {
		b = append(b, items[i].Name)
	}
	for h := range m.Hashes {
		c = append(c, itemName(h))
	}
	sort.Strings(a)
	sort.Strings(b)
	sort.Strings(c)
	return fmt.Sprintf("must%v may%v comm%v", a, b, c)
}

func itemName(hash string) string {
	if it := itemByHash[strings.ToUpper(strings.TrimPrefix(hash, "0x"))]; it != nil {
		return it.Name
	}
	return "?" + hash
}

func (m *model) ctx() poolCtx {
	c := poolCtx{H: m.H, T: fx.blockTime[m.H], Times: map[uint64]time.Time{}, Chain: chainID}
	for h := uint64(0); h <= m.H; h++ {
		c.Times[h] = fx.blockTime[h]
	}
	return c
}

// acceptable: the reference verdict for offering item i now.
func (m *model) acceptable(i int) (ok bool, why string) {
	it := items[i]
	ref := refJudge(it.Ev, m.ctx())
	if !ref.Valid {
		return false, whyString(ref.Why)
	}
	if m.Classes[it.Class] {
		return false, "already-committed"
	}
	return true, ""
}

// ---- violations: per (oracle, subject) the shortest history

type bViolation struct {
	Oracle, Subject, What string
	History                []string
}

var (
	bMu    sync.Mutex
	bViols = map[string]*bViolation{}
)

func histLess(a, b []string) bool {
	if len(a) != len(b) {
		return len(a) < len(b)
	}
	return strings.Join(a, ";") < strings.Join(b, ";")
}

func noteB(oracle, subject, what string, hist []string) {
	k := oracle + "|" + subject
	bMu.Lock()
	if old, ok := bViols[k]; !ok || histLess(hist, old.History) {
		bViols[k] = &bViolation{Oracle: oracle, Subject: subject, What: what, History: append([]string{}, hist...)}
	}
	bMu.Unlock()
}

// BCase is the replayable artefact of part (b).
type BCase struct {
	Part    string   `json:"part"`
	History []string `json:"history"`
	Oracle  string   `json:"oracle"`
	Subject string   `json:"subject"`
}

// ---- execution of one token on the live chain, with the oracle

type live struct {
	d *drv
	m *model
}

func pendingItems(p *evidence.Pool) (names []string, idxs map[int]bool, unknown []string) {
	idxs = map[int]bool{}
	pend, _ := evidence.VerifC19Keys(p)
	for _, k := range pend {
		h := k[strings.IndexByte(k, '/')+1:]
		if it := itemByHash[strings.ToUpper(h)]; it != nil {
			names = append(names, it.Name)
			for i, x := range items {
				if x == it {
					idxs[i] = true
				}
			}
		} else {
			unknown = append(unknown, k)
		}
	}
	sort.Strings(names)
	return
}

func committedHashes(p *evidence.Pool) []string {
	_, comm := evidence.VerifC19Keys(p)
	var out []string
	for _, k := range comm {
		out = append(out, strings.ToUpper(k[strings.IndexByte(k, '/')+1:]))
	}
	sort.Strings(out)
	return out
}

func (l *live) key() string {
	v := evidence.VerifC19Inspect(l.d.pool)
	pn, _, unk := pendingItems(l.d.pool)
	var ls []string
	for _, e := range v.List {
		ls = append(ls, itemName(e.Hash().Hex()))
	}
	var cs []string
	for _, h := range committedHashes(l.d.pool) {
		cs = append(cs, itemName(h))
	}
	return fmt.Sprintf("H%d|P%v%v|C%v|S%d|L%v|ph%d|pt%d|sh%d|%s", l.d.state.LastBlockHeight, pn, unk, cs, v.Size, ls, v.PruningHeight, v.PruningTime.UnixNano(), v.StateHeight, l.m.digest())
}

// apply executes tok; hist is the history INCLUDING tok (for reporting); judge=false while replaying.
func (l *live) apply(tok token, hist []string, judge bool) (panicked string) {
	defer func() {
		if x := recover(); x != nil {
			panicked = short(fmt.Sprint(x))
			if judge {
				noteB("panic", tok.String(), "the operation panicked: "+panicked, hist)
			}
		}
	}()
	m, d := l.m, l.d
	report := func(oracle, subject, what string) {
		if judge {
			noteB(oracle, subject, what, hist)
		}
	}
	_, before, _ := pendingItems(d.pool)
	switch tok.Kind {
	case "add", "cons":
		i := tok.Is[0]
		it := items[i]
		ok, why := m.acceptable(i)
		var err error
		executed := true
		if tok.Kind == "add" {
			if it.Wire == nil {
				executed = false // refused by the wire codec: never reaches the pool
			} else {
				err = d.pool.AddEvidence(it.Wire)
			}
		} else {
			err = d.pool.AddEvidenceFromConsensus(it.Ev)
		}
		_, after, _ := pendingItems(d.pool)
		accepted := executed && after[i] && !before[i]
		switch {
		case accepted && !ok && why == "already-committed":
			report("recommitted", it.Name, fmt.Sprintf("%s makes %s pending although the double-signing it is made of is already committed (evidence hash differs only in fields no signature covers, or the committed test is missing)", tok, it.Name))
			m.May[i] = true
		case accepted && !ok && tok.Kind == "add":
			report("unsound-accept", it.Name, fmt.Sprintf("%s accepted although the reference predicate rejects it (%s) at height %d", tok, why, m.H))
			m.May[i] = true
		case accepted && !ok && tok.Kind == "cons":
			// the consensus path does not verify; what consensus may legitimately hand over is decided in part (c)
			m.May[i] = true
		case accepted:
			m.Must[i] = true
			delete(m.May, i)
		case !accepted && ok && it.Plain && executed && !before[i]:
			o := "valid-rejected"
			if tok.Kind == "cons" {
				o = "consensus-evidence-not-kept"
			}
			report(o, it.Name, fmt.Sprintf("%s: reference-valid, uncommitted evidence is not pending afterwards (err=%v)", tok, err))
		}
	case "check":
		var list types.EvidenceList
		decodable := true
		for _, i := range tok.Is {
			if items[i].Wire == nil {
				decodable = false
				break
			}
			list = append(list, items[i].Wire)
		}
		if !decodable {
			break // a block carrying it cannot be decoded by anybody
		}
		err := d.pool.CheckEvidence(list)
		want, why, plain := l.listAcceptable(tok.Is)
		switch {
		case err == nil && !want:
			o := "unsound-accept"
			switch why {
			case "already-committed":
				o = "recommitted"
			case "same-double-signing-twice":
				o = "twice-in-one-block"
			case "duplicate":
				o = "duplicate-in-list-accepted"
			}
			report(o, tokNames(tok.Is), fmt.Sprintf("%s returns nil although the list must be refused (%s) at height %d", tok, why, m.H))
		case err != nil && want && plain:
			report("valid-rejected", tokNames(tok.Is), fmt.Sprintf("%s refuses a list of reference-valid, uncommitted, distinct evidence: %v", tok, err))
		}
		_, after, _ := pendingItems(d.pool)
		for i := range after {
			if !before[i] && !m.Must[i] {
				m.May[i] = true
			}
		}
	case "commit":
		var list []types.Evidence
		for _, i := range tok.Is {
			if items[i].Wire == nil {
				return
			}
			list = append(list, items[i].Wire)
		}
		b, ps := d.makeBlock(list)
		want, why, plain := l.listAcceptable(tok.Is)
		verr := d.validate(b)
		if verr != nil {
			if want && plain {
				report("valid-block-rejected", tokNames(tok.Is), fmt.Sprintf("a block of height %d carrying reference-valid, uncommitted, distinct evidence is refused by validateBlock: %v", m.H+1, verr))
			}
			_, after, _ := pendingItems(d.pool)
			for i := range after {
				if !before[i] && !m.Must[i] {
					m.May[i] = true
				}
			}
			break
		}
		if !want {
			o := "unsound-accept"
			switch why {
			case "already-committed":
				o = "recommitted"
			case "same-double-signing-twice", "duplicate":
				o = "twice-in-one-block"
			}
			report(o, tokNames(tok.Is), fmt.Sprintf("validateBlock accepts a block of height %d whose evidence must be refused (%s): the chain would contain it", m.H+1, why))
		}
		if err := d.commit(b, ps); err != nil {
			panic(fmt.Sprintf("ApplyBlock failed after ValidateBlock succeeded: %v", err))
		}
		m.H++
		for _, i := range tok.Is {
			m.Hashes[strings.ToUpper(strings.TrimPrefix(items[i].Hash, "0x"))] = true
			m.Classes[items[i].Class] = true
			delete(m.Must, i)
			delete(m.May, i)
		}
		if !fx.blockTime[m.H].Equal(b.Time()) {
			panic(fmt.Sprintf("harness: block %d has time %v, the fixture schedule says %v", m.H, b.Time(), fx.blockTime[m.H]))
		}
	case "restart":
		pb, _, _ := pendingItems(d.pool)
		cb := committedHashes(d.pool)
		if err := d.attach(); err != nil {
			report("restart-fails", "restart", "evidence.NewPool on the same databases fails: "+err.Error())
			return
		}
		pa, _, _ := pendingItems(d.pool)
		ca := committedHashes(d.pool)
		if fmt.Sprint(cb) != fmt.Sprint(ca) {
			report("restart-loses-committed", "restart", fmt.Sprintf("committed keys before %v, after %v", cb, ca))
		}
		_ = pb
		_ = pa // pending is judged by the invariants below (expired entries may legitimately go)
	}
	l.invariants(tok, report)
	return ""
}

func tokNames(is []int) string {
	var ns []string
	for _, i := range is {
		ns = append(ns, items[i].Name)
	}
	return strings.Join(ns, ",")
}

// listAcceptable: must a block / list with these items be accepted now?
func (l *live) listAcceptable(is []int) (ok bool, why string, plain bool) {
	plain = true
	seenHash := map[string]bool{}
	seenClass := map[string]bool{}
	for _, i := range is {
		it := items[i]
		if !it.Plain {
			plain = false
		}
		if seenHash[it.Hash] {
			return false, "duplicate", plain
		}
		if seenClass[it.Class] {
			return false, "same-double-signing-twice", plain
		}
		seenHash[it.Hash], seenClass[it.Class] = true, true
	}
	for _, i := range is {
		if a, w := l.m.acceptable(i); !a {
			return false, w, plain
		}
	}
	return true, "", plain
}

// invariants: what PendingEvidence lists is exactly right
func (l *live) invariants(tok token, report func(oracle, subject, what string)) {
	m, d := l.m, l.d
	_, keys, unknown := pendingItems(d.pool)
	listed := map[int]bool{}
	evs, _ := d.pool.PendingEvidence(-1)
	for _, e := range evs {
		it := itemByHash[strings.ToUpper(strings.TrimPrefix(e.Hash().Hex(), "0x"))]
		if it == nil {
			report("pending-unknown-evidence", "pending", "PendingEvidence lists evidence nobody offered")
			continue
		}
		for i, x := range items {
			if x == it {
				listed[i] = true
			}
		}
	}
	if len(unknown) > 0 {
		report("pending-unknown-evidence", "pending", fmt.Sprintf("pending keys of evidence nobody offered: %v", unknown))
	}
	c := m.ctx()
	for i := range listed {
		it := items[i]
		switch {
		case m.Hashes[strings.ToUpper(strings.TrimPrefix(it.Hash, "0x"))]:
			report("pending-includes-committed", it.Name, fmt.Sprintf("after %s PendingEvidence lists %s, which is committed", tok, it.Name))
		case expiryClass(c, it.Height) == "both" && it.Height <= m.H:
			report("pending-includes-expired", it.Name, fmt.Sprintf("after %s (height %d) PendingEvidence lists %s of height %d, which exceeds both the height and the time window", tok, m.H, it.Name, it.Height))
		case !m.Must[i] && !m.May[i]:
			report("pending-never-accepted", it.Name, fmt.Sprintf("after %s PendingEvidence lists %s, which no operation accepted", tok, it.Name))
		}
	}
	for i := range m.Must {
		it := items[i]
		if expiryClass(c, it.Height) == "both" {
			continue // may be pruned
		}
		if !listed[i] {
			report("accepted-evidence-lost", it.Name, fmt.Sprintf("after %s PendingEvidence no longer lists %s although it was accepted, is not committed and not expired (pending key present: %v)", tok, it.Name, keys[i]))
		}
	}
}

func replayHistory(hist []token) (*live, string) {
	s := fx.snaps[baseHeadB]
	d, err := openChain(s.kvs, s.state, s.last)
	if err != nil {
		return nil, err.Error()
	}
	l := &live{d: d, m: newModel()}
	var names []string
	for _, t := range hist {
		names = append(names, t.String())
		if p := l.apply(t, names, false); p != "" {
			return nil, "replay panicked: " + p
		}
	}
	return l, ""
}

type bState struct {
	hist []token
	key  string
}

func histNames(h []token) []string {
	out := make([]string, len(h))
	for i, t := range h {
		out[i] = t.String()
	}
	return out
}

func runPartB(maxDepth int) {
	buildItems()
	alpha := alphabet()
	l0, e := replayHistory(nil)
	if l0 == nil {
		r.Vacuous("part (b): cannot open the base pool: " + e)
		return
	}
	seen := map[string]bool{l0.key(): true}
	var seenMu sync.Mutex
	frontier := []bState{{nil, l0.key()}}
	r.Add("states", 1)
	tokenRan := map[string]bool{}
	var tokMu sync.Mutex
	depthDone := 0
	exhausted := false
	for depth := 1; depth <= maxDepth; depth++ {
		if len(frontier) == 0 {
			exhausted = true
			break
		}
		if r.Expired() {
			break
		}
		next := make([][]bState, len(frontier))
		done := par.For(int64(len(frontier)), 1, func() bool { return r.Expired() }, func(si int64) {
			st := frontier[si]
			var l *live
			for _, tok := range alpha {
				if l == nil {
					var why string
					l, why = replayHistory(st.hist)
					if l == nil {
						noteB("replay-diverged", "harness", why, histNames(st.hist))
						return
					}
					r.Add("replays", 1)
				}
				hist := append(histNames(st.hist), tok.String())
				p := l.apply(tok, hist, true)
				r.Add("transitions", 1)
				r.Add("traces_validated_against_impl", 1)
				tokMu.Lock()
				tokenRan[tok.Kind] = true
				tokMu.Unlock()
				if p != "" {
					l = nil
					continue
				}
				k := l.key()
				if k == st.key {
					continue // self loop: the live object is still in the state being expanded
				}
				seenMu.Lock()
				isNew := !seen[k]
				if isNew {
					seen[k] = true
				}
				seenMu.Unlock()
				if isNew {
					nh := append(append([]token{}, st.hist...), tok)
					next[si] = append(next[si], bState{nh, k})
					r.Add("states", 1)
					if r.WantSample() && len(nh) >= 3 {
						r.Sample(map[string]interface{}{"part": "b", "history": histNames(nh), "state": k})
					}
				}
				l = nil
			}
		})
		if done < int64(len(frontier)) {
			break
		}
		var nf []bState
		for _, g := range next {
			nf = append(nf, g...)
		}
		sort.Slice(nf, func(i, j int) bool { return histLess(histNames(nf[i].hist), histNames(nf[j].hist)) })
		frontier = nf
		depthDone = depth
		fmt.Printf("part (b): depth %d done, %d new states, %d states total\n", depth, len(nf), len(seen))
	}
	if len(frontier) == 0 {
		exhausted = true
	}
	r.Set("partb_depth_completed", depthDone)
	r.Set("partb_fixpoint", exhausted)
	r.Set("partb_alphabet", len(alpha))
	if depthDone < maxDepth && !exhausted {
		r.NotExhaustive(fmt.Sprintf("part (b): deadline at depth %d of %d", depthDone+1, maxDepth))
	}
	for _, k := range []string{"add", "cons", "check", "commit", "restart"} {
		r.Require(tokenRan[k], "part (b): token kind "+k+" never executed")
	}
	var ks []string
	for k := range bViols {
		ks = append(ks, k)
	}
	sort.Strings(ks)
	for _, k := range ks {
		v := bViols[k]
		sig := fmt.Sprintf("C19|part=b|history=%s|oracle=%s", strings.Join(v.History, ";"), v.Oracle)
		r.Violation(sig, v.What, BCase{Part: "b", History: v.History, Oracle: v.Oracle, Subject: v.Subject})
	}
}

func parseToken(s string) (token, error) {
	for _, t := range alphabet() {
		if t.String() == s {
			return t, nil
		}
	}
	return token{}, fmt.Errorf("unknown token %q", s)
}

func replayB(c BCase) bool {
	buildItems()
	var hist []token
	for _, s := range c.History {
		t, err := parseToken(s)
		if err != nil {
			fmt.Println(err)
			return false
		}
		hist = append(hist, t)
	}
	if len(hist) == 0 {
		return false
	}
	l, why := replayHistory(hist[:len(hist)-1])
	if l == nil {
		fmt.Println("cannot replay:", why)
		return false
	}
	fmt.Println("state before the last operation:", l.key())
	p := l.apply(hist[len(hist)-1], c.History, true)
	fmt.Println("state after:", l.key(), "panic:", p)
	bad := false
	for _, v := range bViols {
		fmt.Printf("violation %s (%s): %s\n", v.Oracle, v.Subject, v.What)
		if v.Oracle == c.Oracle {
			bad = true
		}
	}
	return bad
}
