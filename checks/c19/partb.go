package main

import (
	"fmt"
	"sort"
	"strings"
	"sync"
	"time"

	kproto "github.com/kardiachain/go-kardia/proto/kardiachain/types"
	"github.com/kardiachain/go-kardia/types"
	"github.com/kardiachain/go-kardia/types/evidence"

	"verif/mc/par"
)

// ---------------------------------------------------------------------------------------------
// Part (b): reachable state graph of a real pool (on the real store / executor, evidence database =
// chain database as in mainchain/backend.go) from the fixture's head 5, breadth first. A state is the
// shortest history that reaches it; every expansion replays that history on a fresh copy of the
// snapshot. The checker-side model (what must / may be pending, which double-signings are committed)
// is advanced next to it and compared after every operation.

const baseHeadB = 5

type item struct {
	Name   string
	Ev     *types.DuplicateVoteEvidence
	Wire   types.Evidence // what arrives after the wire codec (nil: the codec refuses it)
	WireEr string
	Class  string // equivocationID
	Hash   string
	Plain  bool // evidence exactly as a correct node builds it: completeness is required
	Height uint64
	Idx    int
}

var items []*item
var itemByHash = map[string]*item{}

const (
	iE1 = iota
	iE2
	iE1idx
	iE1swap
	iE1sig
	iE1type
	iEold
	iEexp
	iEfut
	iEcur
	iE1idxA
	iE1idxB
)

func buildItems() {
	mk := func(who int, h uint64, t kproto.SignedMsgType, ts time.Time) *types.DuplicateVoteEvidence {
		idx := idxIn(h, who)
		vts := genesisTime.Add(time.Duration(schedSec(h))*time.Second + 2500*time.Millisecond)
		va := mkVote(who, who, h, 1, t, idX, vts, idx, chainID)
		vb := mkVote(who, who, h, 1, t, idY, vts, idx, chainID)
		if idLess(idY, idX) {
			va, vb = vb, va
		}
		vp, _ := refPower(h, addrs[who])
		return &types.DuplicateVoteEvidence{VoteA: va, VoteB: vb, TotalVotingPower: refTotal(h), ValidatorPower: vp, Timestamp: ts}
	}
	e1 := mk(1, 5, kproto.PrevoteType, fx.blockTime[5])
	e2 := mk(2, 5, kproto.PrevoteType, fx.blockTime[5])
	idx := cloneEv(e1)
	idx.VoteA.ValidatorIndex++
	idx.VoteB.ValidatorIndex++
	// one index changed only (the index is unsigned but part of the evidence hash: a replay of committed evidence under a new hash)
	idxA := cloneEv(e1)
	idxA.VoteA.ValidatorIndex++
	idxB := cloneEv(e1)
	idxB.VoteB.ValidatorIndex++
	swap := cloneEv(e1)
	swap.VoteA, swap.VoteB = swap.VoteB, swap.VoteA
	sig := cloneEv(e1)
	sigName := "E1sig"
	sig.VoteA.Signature = append(sig.VoteA.Signature, 0)
	if sig.VoteA.Verify(chainID, sig.VoteA.ValidatorAddress) != nil {
		// trailing bytes no longer verify (D6 fix); the other way to re-encode a signature is its high-s twin
		sig = cloneEv(e1)
		sig.VoteA.Signature = malleate(sig.VoteA.Signature)
		r.Set("E1sig_variant", "high-s twin of VoteA's signature (a trailing byte does not verify)")
		if sig.VoteA.Verify(chainID, sig.VoteA.ValidatorAddress) != nil {
			r.Set("E1sig_variant", "high-s twin of VoteA's signature (does not verify either: the item is plainly invalid)")
		}
	} else {
		r.Set("E1sig_variant", "VoteA's signature with a trailing zero byte (still verifies)")
	}
	typ := cloneEv(e1)
	typ.VoteA.Type, typ.VoteB.Type = kproto.PrecommitType, kproto.PrecommitType
	old := mk(2, 3, kproto.PrecommitType, fx.blockTime[3])
	exp := mk(1, 2, kproto.PrevoteType, fx.blockTime[2])
	fut := mk(1, 20, kproto.PrevoteType, genesisTime.Add(time.Hour))
	// evidence of the height consensus is working on at the base head (6), as another node builds it once
	// block 6 is committed: block 6's time, the set of height 6
	cur := mk(2, baseHeadB+1, kproto.PrecommitType, fx.blockTime[baseHeadB+1])
	for _, x := range []struct {
		n     string
		e     *types.DuplicateVoteEvidence
		plain bool
	}{{"E1", e1, true}, {"E2", e2, true}, {"E1idx", idx, false}, {"E1swap", swap, false}, {sigName, sig, false}, {"E1type", typ, false},
		{"Eold", old, true}, {"Eexp", exp, true}, {"Efut", fut, true}, {"Ecur", cur, true}, {"E1idxA", idxA, false}, {"E1idxB", idxB, false}} {
		it := &item{Name: x.n, Ev: x.e, Class: equivocationID(x.e, chainID), Hash: x.e.Hash().Hex(), Plain: x.plain, Height: x.e.Height()}
		w, err := roundTrip(x.e)
		if err == nil {
			err = w.ValidateBasic()
		}
		if err != nil {
			it.WireEr = short(err.Error())
		} else {
			it.Wire = w
		}
		it.Idx = len(items)
		items = append(items, it)
		itemByHash[normHash(it.Hash)] = it
	}
	for _, it := range items {
		for rep := 0; rep < nReps; rep++ {
			reportName[normHash(reportOf(it, rep).Hash().Hex())] = it.Name + repSuffix[rep]
		}
	}
}

// What consensus hands to AddEvidenceFromConsensus is a REPORT: the two conflicting votes wrapped by
// tryAddVote with whatever time and validator set consensus had at hand. rep 0: the canonical wrapping;
// rep 1: the time tryAddVote has for a conflicting precommit that arrives after the height was decided
// (the median of that height's commit = the NEXT block's time); rep 2: that time and the powers of the
// other validator set (cs.Validators is the set of the height consensus works on, not of the vote's).
const nReps = 3

var repSuffix = [nReps]string{"", "@late", "@late+set"}
var reportName = map[string]string{}

func reportOf(it *item, rep int) *types.DuplicateVoteEvidence {
	e := cloneEv(it.Ev)
	if rep >= 1 {
		if t, ok := fx.blockTime[it.Height+1]; ok {
			e.Timestamp = t
		} else {
			e.Timestamp = e.Timestamp.Add(time.Second)
		}
	}
	if rep >= 2 {
		who := whoOf(e.VoteA.ValidatorAddress)
		e.TotalVotingPower = totalOf(otherSetOf(it.Height))
		if p := powerIn(otherSetOf(it.Height), who); p != 0 {
			e.ValidatorPower = p
		} else {
			e.ValidatorPower++
		}
	}
	return e
}

// ---- tokens

type token struct {
	Kind string // add | cons | check | commit | restart
	Is   []int
	Rep  int // cons only: which report of the item's two votes (see reportOf)
}

func (t token) String() string {
	var ns []string
	for _, i := range t.Is {
		ns = append(ns, items[i].Name+repSuffix[t.Rep])
	}
	return fmt.Sprintf("%s(%s)", t.Kind, strings.Join(ns, ","))
}

func alphabet() []token {
	var ts []token
	for i := range items {
		ts = append(ts, token{Kind: "add", Is: []int{i}})
	}
	reports := [][2]int{{iE1, 0}, {iE1, 1}, {iEcur, 0}}
	if r.Thorough() {
		reports = [][2]int{{iE1, 0}, {iE1, 1}, {iE1, 2}, {iE2, 0}, {iE2, 1}, {iEcur, 0}, {iEcur, 1}}
	}
	for _, c := range reports {
		ts = append(ts, token{Kind: "cons", Is: []int{c[0]}, Rep: c[1]})
	}
	for i := range items {
		ts = append(ts, token{Kind: "check", Is: []int{i}})
	}
	for _, p := range [][]int{{iE1, iE2}, {iE1, iE1}, {iE1, iE1idx}, {iE1, iE1type}, {iE1, iE1idxA}, {iE1, iE1idxB}} {
		ts = append(ts, token{Kind: "check", Is: p})
	}
	// a block may carry ANY evidence known to the search, built canonically as another node would have
	// produced it - whether this pool has it pending, only as a report of its consensus, or not at all
	commits := [][]int{{}, {iE1}, {iE2}, {iE1sig}, {iE1type}, {iEold}, {iEcur}, {iE1, iE2}}
	if r.Thorough() {
		commits = append(commits, []int{iE1idx}, []int{iEexp}, []int{iEfut}, []int{iE1, iEcur}, []int{iE1, iE1idx}, []int{iE1, iE1}, []int{iE1, iE1type}, []int{iE2, iEcur})
	}
	for _, s := range commits {
		ts = append(ts, token{Kind: "commit", Is: s})
	}
	ts = append(ts, token{Kind: "restart"})
	return ts
}

// ---- model: the chain height and what is committed. What is pending is read from the pool and
// judged transition by transition (who may appear, who may disappear), so the model is a function of
// the implementation state and need not be part of the state key.

type model struct {
	H       uint64
	Hashes  map[string]bool  // evidence hashes committed
	Classes map[string][]int // double-signing -> items committed for it
	// Owed: evidence consensus handed over that is not pending yet. The property does not say WHEN it has
	// to become pending; the weakest reading is "with the next committed block" (a pool may keep it
	// aside until the block of its height gives it a time). A restart drops the obligation (the real
	// node would see the conflicting votes again when it replays its WAL).
	Owed map[int]bool
}

func newModel() *model {
	return &model{H: baseHeadB, Hashes: map[string]bool{}, Classes: map[string][]int{}, Owed: map[int]bool{}}
}

func (m *model) owedString() string {
	var ns []string
	for i := range m.Owed {
		ns = append(ns, items[i].Name)
	}
	sort.Strings(ns)
	return strings.Join(ns, ",")
}

func normHash(h string) string { return strings.ToUpper(strings.TrimPrefix(h, "0x")) }

func itemName(hash string) string {
	if it := itemByHash[normHash(hash)]; it != nil {
		return it.Name
	}
	return "?" + hash
}

func (m *model) ctx() poolCtx {
	c := poolCtx{H: m.H, T: fx.blockTime[m.H], Times: map[uint64]time.Time{}, Chain: chainID}
	for h := uint64(0); h <= m.H; h++ {
		c.Times[h] = fx.blockTime[h]
	}
	return c
}

// acceptable: the reference verdict for offering item i now.
func (m *model) acceptable(i int) (ok bool, why string) {
	it := items[i]
	ref := refJudge(it.Ev, m.ctx())
	if !ref.Valid {
		return false, whyString(ref.Why)
	}
	if len(m.Classes[it.Class]) > 0 {
		return false, "already-committed"
	}
	return true, ""
}

func (m *model) expired(i int) bool {
	return items[i].Height <= m.H && expiryClass(m.ctx(), items[i].Height) == "both"
}

// variantOf names what distinguishes the items involved from the plain evidence: "same-evidence" when
// nothing does, otherwise the first non-plain member (idx / sig / type / swap).
func variantOf(is []int) string {
	for _, i := range is {
		if n := items[i].Name; strings.HasPrefix(n, "E1") && len(n) > 2 {
			return "variant:" + n[2:]
		}
	}
	return "same-evidence"
}

func (m *model) clone() *model {
	c := &model{H: m.H, Hashes: map[string]bool{}, Classes: map[string][]int{}, Owed: map[int]bool{}}
	for k, v := range m.Owed {
		c.Owed[k] = v
	}
	for k, v := range m.Hashes {
		c.Hashes[k] = v
	}
	for k, v := range m.Classes {
		c.Classes[k] = append([]int{}, v...)
	}
	return c
}

// ---- violations: per (oracle, subject) the shortest history

type bViolation struct {
	Oracle, Subject, What string
	History               []string
}

var (
	bMu    sync.Mutex
	bViols = map[string]*bViolation{}
)

func histLess(a, b []string) bool {
	if len(a) != len(b) {
		return len(a) < len(b)
	}
	return strings.Join(a, ";") < strings.Join(b, ";")
}

func noteB(oracle, subject, what string, hist []string) {
	k := oracle + "|" + subject
	bMu.Lock()
	if old, ok := bViols[k]; !ok || histLess(hist, old.History) {
		bViols[k] = &bViolation{Oracle: oracle, Subject: subject, What: what, History: append([]string{}, hist...)}
	}
	bMu.Unlock()
}

// BCase is the replayable artefact of part (b).
type BCase struct {
	Part    string   `json:"part"`
	History []string `json:"history"`
	Oracle  string   `json:"oracle"`
	Subject string   `json:"subject"`
}

// ---- execution of one token on the live chain, with the oracle

type live struct {
	d *drv
	m *model
}

func pendingItems(p *evidence.Pool) (names []string, idxs map[int]bool, unknown []string) {
	idxs = map[int]bool{}
	pend, _ := evidence.VerifC19Keys(p)
	for _, k := range pend {
		h := k[strings.IndexByte(k, '/')+1:]
		if it := itemByHash[normHash(h)]; it != nil {
			names = append(names, it.Name)
			idxs[it.Idx] = true
		} else {
			unknown = append(unknown, k)
		}
	}
	sort.Strings(names)
	return
}

func committedHashes(p *evidence.Pool) []string {
	_, comm := evidence.VerifC19Keys(p)
	var out []string
	for _, k := range comm {
		out = append(out, normHash(k[strings.IndexByte(k, '/')+1:]))
	}
	sort.Strings(out)
	return out
}

// key: every in-memory field of the pool (size, pruning point, state height, the buffered reports of
// consensus as a set and - thorough tier - the gossip list as a set) plus both key spaces of its database
// and the model's open obligations. No operation of the alphabet READS the gossip list, so leaving it out
// (quick tier) merges only states with equal futures as far as pending / committed / accepted go; the
// oracle "the gossip list holds nothing committed" is then evaluated on the representative history of each
// state, which is the smallest one and therefore prefers add(e) (listed) over check(e) (stored, not listed).
func (l *live) key() string {
	v := evidence.VerifC19Inspect(l.d.pool)
	pn, _, unk := pendingItems(l.d.pool)
	var cs []string
	for _, h := range committedHashes(l.d.pool) {
		cs = append(cs, itemName(h))
	}
	list := []string{"-"}
	if r.Thorough() {
		list = nameSet(v.List, itemName)
	}
	return fmt.Sprintf("H%d|P%v%v|C%v|S%d|ph%d|pt%d|sh%d|O[%s]|L%v|B%v", l.d.state.LastBlockHeight, pn, unk, cs, v.Size, v.PruningHeight, v.PruningTime.UnixNano(), v.StateHeight,
		l.m.owedString(), list, nameSet(v.Buffered, func(h string) string {
			if n, ok := reportName[normHash(h)]; ok {
				return n
			}
			return "?" + h
		}))
}

func nameSet(evs []types.Evidence, name func(string) string) []string {
	u := map[string]bool{}
	for _, e := range evs {
		u[name(e.Hash().Hex())] = true
	}
	var out []string
	for k := range u {
		out = append(out, k)
	}
	sort.Strings(out)
	return out
}

// enabled: AddEvidenceFromConsensus is only called by a consensus that is working on height H+1, with
// evidence of that height or (late precommits) of height H.
func (l *live) enabled(tok token) bool {
	if tok.Kind == "cons" {
		h := items[tok.Is[0]].Height
		return h >= l.m.H && h <= l.m.H+1
	}
	return true
}

// apply executes tok; hist is the history INCLUDING tok (for reporting); judge=false while replaying.
func (l *live) apply(tok token, hist []string, judge bool) (panicked string) {
	defer func() {
		if x := recover(); x != nil {
			panicked = short(fmt.Sprint(x))
			if judge {
				noteB("panic", tok.Kind, "the operation panicked: "+panicked, hist)
			}
		}
	}()
	m, d := l.m, l.d
	report := func(oracle, subject, what string) {
		if judge {
			noteB(oracle, subject, what, hist)
		}
	}
	_, before, _ := pendingItems(d.pool)
	committedNow := map[int]bool{}
	// newcomer judges an item that became pending through this operation
	newcomer := func(i int, viaConsensus bool) {
		ok, why := m.acceptable(i)
		switch {
		case ok || viaConsensus:
		case why == "already-committed":
			report("recommitted", variantOf(append([]int{i}, m.Classes[items[i].Class]...)),
				fmt.Sprintf("%s makes %s pending although the double-signing it is made of is already committed as %s", tok, items[i].Name, tokNames(m.Classes[items[i].Class])))
		default:
			report("unsound-accept", why, fmt.Sprintf("%s stores %s although the reference predicate rejects it (%s) at height %d", tok, items[i].Name, why, m.H))
		}
	}
	switch tok.Kind {
	case "add", "cons":
		i := tok.Is[0]
		it := items[i]
		ok, _ := m.acceptable(i)
		var err error
		executed := true
		if tok.Kind == "add" {
			if it.Wire == nil {
				executed = false // refused by the wire codec: never reaches the pool
			} else {
				err = d.pool.AddEvidence(it.Wire)
			}
		} else {
			err = d.pool.AddEvidenceFromConsensus(reportOf(it, tok.Rep))
			// evidence of the height being decided becomes acceptable with that height's block
			if it.Height == m.H+1 && len(m.Classes[it.Class]) == 0 {
				ok = true
			}
		}
		_, after, _ := pendingItems(d.pool)
		if executed && !after[i] && !before[i] && ok && it.Plain {
			if tok.Kind == "cons" {
				m.Owed[i] = true // judged when the next block is committed
			} else {
				report("valid-rejected", it.Name, fmt.Sprintf("%s: reference-valid, uncommitted evidence is not pending afterwards (err=%v)", tok, err))
			}
		}
		if after[i] {
			delete(m.Owed, i)
		}
		for j := range after {
			if !before[j] {
				newcomer(j, tok.Kind == "cons")
			}
		}
	case "check":
		var list types.EvidenceList
		for _, i := range tok.Is {
			if items[i].Wire == nil {
				list = nil
				break
			}
			list = append(list, items[i].Wire)
		}
		if list == nil {
			break // a block carrying it cannot be decoded by anybody
		}
		err := d.pool.CheckEvidence(list)
		want, why, plain := l.listAcceptable(tok.Is)
		switch {
		case err == nil && !want:
			l.reportListAccepted(tok, why, report)
		case err != nil && want && plain:
			report("valid-rejected", tokNames(tok.Is), fmt.Sprintf("%s refuses a list of reference-valid, uncommitted, distinct evidence: %v", tok, err))
		}
		_, after, _ := pendingItems(d.pool)
		for j := range after {
			if !before[j] && err != nil {
				// stored although the list was refused: only acceptable members may stay
				newcomer(j, false)
			}
		}
	case "commit":
		var list []types.Evidence
		for _, i := range tok.Is {
			if items[i].Wire == nil {
				return
			}
			list = append(list, items[i].Wire)
		}
		b, ps := d.makeBlock(list)
		want, why, plain := l.listAcceptable(tok.Is)
		verr := d.validate(b)
		if verr != nil {
			if want && plain {
				report("valid-block-rejected", tokNames(tok.Is), fmt.Sprintf("a block of height %d carrying reference-valid, uncommitted, distinct evidence is refused by validateBlock: %v", m.H+1, verr))
			}
			_, after, _ := pendingItems(d.pool)
			for j := range after {
				if !before[j] {
					newcomer(j, false)
				}
			}
			break
		}
		if !want {
			l.reportListAccepted(tok, why, report)
		}
		if err := d.commit(b, ps); err != nil {
			panic(fmt.Sprintf("ApplyBlock failed after ValidateBlock succeeded: %v", err))
		}
		m.H++
		for _, i := range tok.Is {
			m.Hashes[normHash(items[i].Hash)] = true
			m.Classes[items[i].Class] = append(m.Classes[items[i].Class], i)
			committedNow[i] = true
		}
		if !fx.blockTime[m.H].Equal(b.Time()) {
			panic(fmt.Sprintf("harness: block %d has time %v, the fixture schedule says %v", m.H, b.Time(), fx.blockTime[m.H]))
		}
		_, nowPending, _ := pendingItems(d.pool)
		for i := range m.Owed {
			if okNow, _ := m.acceptable(i); okNow && !nowPending[i] && !committedNow[i] {
				report("consensus-evidence-not-kept", "consensus", fmt.Sprintf("%s was handed over by consensus and is still not pending after block %d was committed", items[i].Name, m.H))
			}
			delete(m.Owed, i)
		}
		// what the commit itself made pending (reports of consensus turned into evidence) is judged like
		// any other newcomer: acceptable at the new height, its double-signing not on the chain
		for j := range nowPending {
			if !before[j] && !m.Hashes[normHash(items[j].Hash)] {
				newcomer(j, false)
			}
		}
	case "restart":
		cb := committedHashes(d.pool)
		m.Owed = map[int]bool{}
		if err := d.attach(); err != nil {
			report("restart-fails", "restart", "evidence.NewPool on the same databases fails: "+err.Error())
			return
		}
		ca := committedHashes(d.pool)
		if fmt.Sprint(cb) != fmt.Sprint(ca) {
			report("restart-loses-committed", "restart", fmt.Sprintf("committed keys before %v, after %v", cb, ca))
		}
	}
	// who disappeared?
	_, after, unknown := pendingItems(d.pool)
	for i := range before {
		if !after[i] && !committedNow[i] && !m.expired(i) {
			report("accepted-evidence-lost", tok.Kind, fmt.Sprintf("%s removes %s from the pending set although it is neither committed nor expired at height %d", tok, items[i].Name, m.H))
		}
	}
	if len(unknown) > 0 {
		report("pending-unknown-evidence", "pending", fmt.Sprintf("pending keys of evidence nobody offered: %v", unknown))
	}
	// what PendingEvidence lists is exactly the pending keys, none committed, none expired
	listed := map[int]bool{}
	evs, _ := d.pool.PendingEvidence(-1)
	for _, e := range evs {
		if it := itemByHash[normHash(e.Hash().Hex())]; it != nil {
			listed[it.Idx] = true
		}
	}
	for i := range after {
		if !listed[i] {
			report("accepted-evidence-lost", "not-listed", fmt.Sprintf("after %s the pending key of %s exists but PendingEvidence does not list it (Size()=%d)", tok, items[i].Name, d.pool.Size()))
		}
	}
	for _, e := range evidence.VerifC19Inspect(d.pool).List {
		if h := normHash(e.Hash().Hex()); m.Hashes[h] {
			report("gossip-list-includes-committed", "same-evidence", fmt.Sprintf("after %s the gossip list (what the reactor sends to peers) holds %s, which is committed", tok, itemName(h)))
		}
	}
	for i := range listed {
		it := items[i]
		switch {
		case m.Hashes[normHash(it.Hash)]:
			report("pending-includes-committed", "same-evidence", fmt.Sprintf("after %s PendingEvidence lists %s, which is committed", tok, it.Name))
		case m.expired(i):
			report("pending-includes-expired", "expired", fmt.Sprintf("after %s (height %d) PendingEvidence lists %s of height %d, which exceeds both the height and the time window", tok, m.H, it.Name, it.Height))
		}
	}
	return ""
}

func (l *live) reportListAccepted(tok token, why string, report func(oracle, subject, what string)) {
	verb := "CheckEvidence returns nil for"
	if tok.Kind == "commit" {
		verb = fmt.Sprintf("validateBlock accepts a block of height %d with", l.m.H+1)
	}
	switch why {
	case "already-committed":
		var inv []int
		for _, i := range tok.Is {
			if c := l.m.Classes[items[i].Class]; len(c) > 0 {
				inv = append(append(inv, i), c...)
			}
		}
		report("recommitted", variantOf(inv), fmt.Sprintf("%s %s although a double-signing in it is already committed: the chain would contain it twice", verb, tok))
	case "same-double-signing-twice":
		report("twice-in-one-block", variantOf(tok.Is), fmt.Sprintf("%s %s: two evidences made of the same two signed votes", verb, tok))
	case "duplicate":
		report("duplicate-in-list-accepted", "same-evidence", fmt.Sprintf("%s %s: the same evidence twice", verb, tok))
	default:
		report("unsound-accept", why, fmt.Sprintf("%s %s although the reference predicate rejects it (%s) at height %d", verb, tok, why, l.m.H))
	}
}

func tokNames(is []int) string {
	var ns []string
	for _, i := range is {
		ns = append(ns, items[i].Name)
	}
	return strings.Join(ns, ",")
}

// listAcceptable: must a block / list with these items be accepted now?
func (l *live) listAcceptable(is []int) (ok bool, why string, plain bool) {
	plain = true
	seenHash := map[string]bool{}
	seenClass := map[string]bool{}
	for _, i := range is {
		it := items[i]
		if !it.Plain {
			plain = false
		}
		if seenHash[it.Hash] {
			return false, "duplicate", plain
		}
		if seenClass[it.Class] {
			return false, "same-double-signing-twice", plain
		}
		seenHash[it.Hash], seenClass[it.Class] = true, true
	}
	for _, i := range is {
		if a, w := l.m.acceptable(i); !a {
			return false, w, plain
		}
	}
	return true, "", plain
}

func replayHistory(hist []token) (*live, string) {
	s := fx.snaps[baseHeadB]
	d, err := openChain(s.kvs, s.state, s.last)
	if err != nil {
		return nil, err.Error()
	}
	l := &live{d: d, m: newModel()}
	var names []string
	for _, t := range hist {
		names = append(names, t.String())
		if p := l.apply(t, names, false); p != "" {
			return nil, "replay panicked: " + p
		}
	}
	return l, ""
}

type bState struct {
	hist []token
	key  string
}

func histNames(h []token) []string {
	out := make([]string, len(h))
	for i, t := range h {
		out[i] = t.String()
	}
	return out
}

func runPartB(maxDepth int) {
	buildItems()
	alpha := alphabet()
	l0, e := replayHistory(nil)
	if l0 == nil {
		r.Vacuous("part (b): cannot open the base pool: " + e)
		return
	}
	seen := map[string]bool{l0.key(): true} // read-only while a level is being expanded
	frontier := []bState{{nil, l0.key()}}
	r.Add("states", 1)
	tokenRan := map[string]bool{}
	var tokMu sync.Mutex
	depthDone := 0
	exhausted := false
	for depth := 1; depth <= maxDepth; depth++ {
		if len(frontier) == 0 {
			exhausted = true
			break
		}
		if r.Expired() {
			break
		}
		next := make([][]bState, len(frontier))
		done := par.For(int64(len(frontier)), 1, func() bool { return r.Expired() }, func(si int64) {
			st := frontier[si]
			base, why := replayHistory(st.hist)
			if base == nil {
				noteB("replay-diverged", "harness", why, histNames(st.hist))
				return
			}
			r.Add("replays", 1)
			if k := base.key(); k != st.key {
				noteB("replay-diverged", "harness", "replaying a history gives another state: "+k+" vs "+st.key, histNames(st.hist))
				return
			}
			var l *live
			for _, tok := range alpha {
				if !base.enabled(tok) {
					continue
				}
				if l == nil {
					l = &live{d: base.d.clone(), m: base.m.clone()}
				}
				hist := append(histNames(st.hist), tok.String())
				p := l.apply(tok, hist, true)
				n := r.Get("transitions")
				r.Add("transitions", 1)
				r.Add("traces_validated_against_impl", 1)
				tokMu.Lock()
				tokenRan[tok.Kind] = true
				tokMu.Unlock()
				if p != "" {
					l = nil
					continue
				}
				k := l.key()
				if n%64 == 0 {
					// the clone is validated against a fresh replay of the whole history
					if l2, why := replayHistory(append(append([]token{}, st.hist...), tok)); l2 == nil || l2.key() != k {
						got := why
						if l2 != nil {
							got = l2.key()
						}
						noteB("clone-diverged", "harness", "a cloned pool and a replayed one disagree after "+tok.String()+": "+k+" vs "+got, hist)
					}
					r.Add("clone_validations", 1)
				}
				if k == st.key {
					continue // self loop: the clone is still in the state being expanded
				}
				if !seen[k] {
					nh := append(append([]token{}, st.hist...), tok)
					next[si] = append(next[si], bState{nh, k})
				}
				l = nil
			}
		})
		if done < int64(len(frontier)) {
			break
		}
		// merge: per new state the smallest history (deterministic whatever the worker interleaving)
		bestOf := map[string]bState{}
		for _, g := range next {
			for _, c := range g {
				if old, ok := bestOf[c.key]; !ok || histLess(histNames(c.hist), histNames(old.hist)) {
					bestOf[c.key] = c
				}
			}
		}
		var nf []bState
		for k, c := range bestOf {
			seen[k] = true
			nf = append(nf, c)
		}
		sort.Slice(nf, func(i, j int) bool { return histLess(histNames(nf[i].hist), histNames(nf[j].hist)) })
		r.Add("states", int64(len(nf)))
		for _, c := range nf {
			if len(c.hist) >= 3 && len(c.hist)%2 == 1 && takeSample("b", 2) {
				r.Sample(map[string]interface{}{"part": "b", "history": histNames(c.hist), "state": c.key})
				break
			}
		}
		frontier = nf
		depthDone = depth
		fmt.Printf("part (b): depth %d done, %d new states, %d states total\n", depth, len(nf), len(seen))
	}
	if len(frontier) == 0 {
		exhausted = true
	}
	r.Set("partb_depth_completed", depthDone)
	r.Set("partb_fixpoint", exhausted)
	r.Set("partb_alphabet", len(alpha))
	if depthDone < maxDepth && !exhausted {
		r.NotExhaustive(fmt.Sprintf("part (b): deadline at depth %d of %d", depthDone+1, maxDepth))
	}
	for _, k := range []string{"add", "cons", "check", "commit", "restart"} {
		r.Require(tokenRan[k], "part (b): token kind "+k+" never executed")
	}
	var ks []string
	for k := range bViols {
		ks = append(ks, k)
	}
	sort.Strings(ks)
	for _, k := range ks {
		v := bViols[k]
		if v.Subject == "harness" {
			r.Vacuous(fmt.Sprintf("part (b) machinery: %s after %v: %s", v.Oracle, v.History, v.What))
			continue
		}
		sig := fmt.Sprintf("C19|part=b|history=%s|oracle=%s", strings.Join(v.History, ";"), v.Oracle)
		r.Violation(sig, v.What, BCase{Part: "b", History: v.History, Oracle: v.Oracle, Subject: v.Subject})
	}
}

func parseToken(s string) (token, error) {
	for _, t := range alphabet() {
		if t.String() == s {
			return t, nil
		}
	}
	return token{}, fmt.Errorf("unknown token %q", s)
}

func replayB(c BCase) bool {
	buildItems()
	var hist []token
	for _, s := range c.History {
		t, err := parseToken(s)
		if err != nil {
			fmt.Println(err)
			return false
		}
		hist = append(hist, t)
	}
	if len(hist) == 0 {
		return false
	}
	l, why := replayHistory(hist[:len(hist)-1])
	if l == nil {
		fmt.Println("cannot replay:", why)
		return false
	}
	fmt.Println("state before the last operation:", l.key())
	p := l.apply(hist[len(hist)-1], c.History, true)
	fmt.Println("state after:", l.key(), "panic:", p)
	bad := false
	for _, v := range bViols {
		fmt.Printf("violation %s (%s): %s\n", v.Oracle, v.Subject, v.What)
		if v.Oracle == c.Oracle {
			bad = true
		}
	}
	return bad
}
