package main

import (
	"bytes"
	"sort"
	"strings"
	"time"

	"github.com/kardiachain/go-kardia/lib/crypto"
	kproto "github.com/kardiachain/go-kardia/proto/kardiachain/types"
	"github.com/kardiachain/go-kardia/types"
)

// ---------------------------------------------------------------------------------------------
// Reference acceptance predicate (DESIGN.md appendix A.7), written against the checker's own record of
// the chain (refSet, block times), never against the pool's stores. Signature validity is delegated to
// types.Vote.Verify (covered by C11); all arithmetic is the checker's.

type poolCtx struct {
	H     uint64               // height of the pool's state
	T     time.Time            // time of block H
	Times map[uint64]time.Time // time of block h for every h <= H the chain has
	Chain string
}

type refVerdict struct {
	Valid     bool
	DontCare  bool     // the property is silent: either outcome is fine
	Why       []string // violated clauses (sorted) when !Valid, or the don't-care reasons
	Canonical bool
	Expiry    string // fresh | height-only | time-only | both
}

func idLess(a, b types.BlockID) bool {
	if c := bytes.Compare(a.Hash.Bytes(), b.Hash.Bytes()); c != 0 {
		return c < 0
	}
	if c := bytes.Compare(a.PartsHeader.Hash.Bytes(), b.PartsHeader.Hash.Bytes()); c != 0 {
		return c < 0
	}
	return a.PartsHeader.Total < b.PartsHeader.Total
}

func idSame(a, b types.BlockID) bool {
	return a.Hash == b.Hash && a.PartsHeader.Hash == b.PartsHeader.Hash && a.PartsHeader.Total == b.PartsHeader.Total
}

func expiryClass(c poolCtx, h uint64) string {
	th, ok := c.Times[h]
	if !ok || h > c.H {
		return "fresh"
	}
	byHeight := int64(c.H)-int64(h) > maxAgeBlocks
	byTime := c.T.Sub(th) > maxAgeDur
	switch {
	case byHeight && byTime:
		return "both"
	case byHeight:
		return "height-only"
	case byTime:
		return "time-only"
	}
	return "fresh"
}

func refJudge(e *types.DuplicateVoteEvidence, c poolCtx) refVerdict {
	var why, dc []string
	if e == nil || e.VoteA == nil || e.VoteB == nil {
		return refVerdict{Why: []string{"nil-vote"}}
	}
	a, b := e.VoteA, e.VoteB
	if a.Height != b.Height {
		why = append(why, "height-mismatch")
	}
	if a.Round != b.Round {
		why = append(why, "round-mismatch")
	}
	if a.Type != b.Type {
		why = append(why, "type-mismatch")
	}
	if a.ValidatorAddress != b.ValidatorAddress {
		why = append(why, "address-mismatch")
	}
	for _, t := range []kproto.SignedMsgType{a.Type, b.Type} {
		if t != kproto.PrevoteType && t != kproto.PrecommitType {
			dc = append(dc, "not-a-vote-type")
			break
		}
	}
	if idSame(a.BlockID, b.BlockID) {
		why = append(why, "same-target")
	}
	h := a.Height
	th, haveBlock := c.Times[h]
	if h < 1 || h > c.H || !haveBlock {
		why = append(why, "no-such-height")
	} else {
		p, member := refPower(h, a.ValidatorAddress)
		if !member {
			why = append(why, "not-in-set-of-height")
		} else {
			if e.ValidatorPower != p {
				why = append(why, "wrong-validator-power")
			}
			if e.TotalVotingPower != refTotal(h) {
				why = append(why, "wrong-total-power")
			}
		}
		if !e.Timestamp.Equal(th) {
			why = append(why, "wrong-time")
		}
	}
	if a.Verify(c.Chain, a.ValidatorAddress) != nil {
		why = append(why, "sigA-invalid")
	}
	if b.Verify(c.Chain, b.ValidatorAddress) != nil {
		why = append(why, "sigB-invalid")
	}
	exp := expiryClass(c, h)
	if exp == "both" {
		why = append(why, "expired")
	}
	canon := idLess(a.BlockID, b.BlockID)
	sort.Strings(why)
	v := refVerdict{Valid: len(why) == 0, Why: why, Canonical: canon, Expiry: exp}
	if v.Valid && !canon {
		dc = append(dc, "non-canonical-order")
	}
	if len(dc) > 0 {
		// a don't-care reason never turns an invalid evidence into an acceptable one
		if v.Valid {
			v.DontCare = true
			v.Why = dc
		}
	}
	return v
}

// signedVoteID identifies a signed vote by (signer, hash of the bytes the signature covers): fields no
// signature covers do not make a vote "another vote" (A.7).
func signedVoteID(v *types.Vote, chain string) string {
	p := v.ToProto()
	return string(v.ValidatorAddress.Bytes()) + string(crypto.Keccak256(types.VoteSignBytes(chain, p)))
}

// equivocationID identifies the double-signing an evidence is made of (unordered pair of signed votes).
func equivocationID(e *types.DuplicateVoteEvidence, chain string) string {
	x, y := signedVoteID(e.VoteA, chain), signedVoteID(e.VoteB, chain)
	if y < x {
		x, y = y, x
	}
	return x + y
}

func whyString(w []string) string { return strings.Join(w, "+") }
