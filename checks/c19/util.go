package main

import (
	"github.com/kardiachain/go-kardia/lib/common"
	"github.com/kardiachain/go-kardia/lib/crypto"
)

func hashOf(s string) common.Hash { return common.BytesToHash(crypto.Keccak256([]byte("c19 " + s))) }
