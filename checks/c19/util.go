package main

import (
	"sync"
	"time"

	"github.com/kardiachain/go-kardia/lib/common"
	"github.com/kardiachain/go-kardia/lib/crypto"
)

func hashOf(s string) common.Hash { return common.BytesToHash(crypto.Keccak256([]byte("c19 " + s))) }

var sampleMu sync.Mutex
var sampleCount = map[string]int{}

// takeSample spreads the six evidence samples over the three parts.
func takeSample(part string, max int) bool {
	sampleMu.Lock()
	defer sampleMu.Unlock()
	if sampleCount[part] >= max || !r.WantSample() {
		return false
	}
	sampleCount[part]++
	return true
}

var deadlineAt time.Time
