// C19 — accountability: duplicate-vote evidence is accepted exactly for real double-signing, once.
//
//	(a) acceptance matrix: every vote pair of a small-scope product and every single-field mutation of a
//	    valid evidence, offered to a real evidence.Pool on a hand-driven chain (real cstate.Store and
//	    BlockExecutor, one validator-set change), judged by the reference predicate of DESIGN.md A.7;
//	(b) the reachable state graph of a real pool under add / consensus-add / check / commit / restart,
//	    with replay variants of a committed evidence;
//	(c) netsim: real ConsensusState nodes with real pools and an equivocating validator; what consensus
//	    produces is gossiped, proposed, validated and committed; plus the real BlockOperations on the
//	    full single-validator stack.
package main

import (
	"encoding/json"
	"fmt"
	"os"
	"runtime/pprof"
	"time"

	"verif/mc/report"
)

var r *report.Run

func main() {
	r = report.New("C19", "model_checking")
	initKeys()
	initBus()
	depth, bound := 5, 0
	dl := 75 * time.Second
	if r.Thorough() {
		depth, bound = 6, 1 // bound 1 = one deviation from netsim's synchronous schedule, on a selection of scenarios
		dl = 13 * time.Minute
	}
	r.SetDeadline(dl)
	deadlineAt = time.Now().Add(dl)
	// the expiry-order worlds stand at the heights where the printed width of a height grows; the 262
	// blocks go through the real executor in well under a second
	boundaries := widthBoundaries
	fxHead := baseHeadB + uint64(depth) + 2
	if h := boundaries[len(boundaries)-1] + wBlocks + 2; h > fxHead {
		fxHead = h
	}
	tf := time.Now()
	f, err := buildFixture(fxHead, 2, 3, 4, 5, 10, 16, 256)
	if err != nil {
		fmt.Println("MACHINERY-ERROR: cannot build the fixture chain:", err)
		os.Exit(2)
	}
	fx = f
	fmt.Printf("fixture chain of %d blocks built in %.2fs\n", fxHead, time.Since(tf).Seconds())

	if r.ReplayPath != "" {
		var probe struct {
			Part string `json:"part"`
		}
		if err := r.LoadReplay(&probe); err != nil {
			fmt.Println("cannot load replay:", err)
			os.Exit(2)
		}
		bad := false
		switch probe.Part {
		case "a":
			var c ACase
			r.LoadReplay(&c)
			bad = replayA(c)
		case "w":
			var c WCase
			r.LoadReplay(&c)
			bad = replayW(c)
		case "v":
			var c VCase
			r.LoadReplay(&c)
			bad = replayV(c)
		case "b":
			var c BCase
			r.LoadReplay(&c)
			bad = replayB(c)
		case "c":
			var c CCase
			r.LoadReplay(&c)
			bad = replayC(c)
		case "full":
			bad = runFullProbe()
		default:
			b, _ := json.Marshal(probe)
			fmt.Println("unknown replay case", string(b))
			os.Exit(2)
		}
		if bad {
			fmt.Printf("VIOLATION property=C19 replay=%s\n", r.ReplayPath)
			os.Exit(1)
		}
		fmt.Println("not reproduced")
		os.Exit(0)
	}

	if pf := os.Getenv("C19_PROF"); pf != "" {
		f, _ := os.Create(pf)
		pprof.StartCPUProfile(f)
		defer pprof.StopCPUProfile()
	}
	only := os.Getenv("C19_ONLY")
	t0 := time.Now()
	if only == "" || only == "a" {
		runPartA()
		runSetChangeWorlds()
		runExpiryOrderWorlds(boundaries)
		fmt.Printf("part (a) done in %.1fs\n", time.Since(t0).Seconds())
	}
	t1 := time.Now()
	if only == "" || only == "b" {
		runPartB(depth)
		fmt.Printf("part (b) done in %.1fs\n", time.Since(t1).Seconds())
	}
	t2 := time.Now()
	if only == "" || only == "c" {
		runFullProbe()
		fmt.Printf("full-stack probe done in %.1fs\n", time.Since(t2).Seconds())
		runPartC(bound)
		fmt.Printf("part (c) done in %.1fs\n", time.Since(t2).Seconds())
	}
	describe()
	r.Exhaustive(true)
	pprof.StopCPUProfile()
	r.Finish()
}
