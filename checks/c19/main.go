package main

import (
	"fmt"
	"time"

	"github.com/kardiachain/go-kardia/types"
	"github.com/kardiachain/go-kardia/types/evidence"
	kproto "github.com/kardiachain/go-kardia/proto/kardiachain/types"

	"verif/mc/report"
)

var r *report.Run

func main() {
	r = report.New("C19", "model_checking")
	initKeys()
	initBus()
	t0 := time.Now()
	f, err := buildFixture(10, 5, 10)
	if err != nil {
		panic(err)
	}
	fx = f
	fmt.Println("fixture built in", time.Since(t0))
	for h := uint64(0); h <= 10; h++ {
		fmt.Println(h, fx.blockTime[h])
	}
	d, err := openChain(fx.snaps[5].kvs, fx.snaps[5].state, fx.snaps[5].last)
	if err != nil {
		panic(err)
	}
	v := evidence.VerifC19Inspect(d.pool)
	fmt.Printf("%+v\n", v)
	idA := types.BlockID{Hash: hashOf("A"), PartsHeader: types.PartSetHeader{Total: 1, Hash: hashOf("pA")}}
	idB := types.BlockID{Hash: hashOf("B"), PartsHeader: types.PartSetHeader{Total: 1, Hash: hashOf("pB")}}
	va := mkVote(1, 1, 4, 1, kproto.PrevoteType, idA, fx.blockTime[4].Add(time.Second), idxIn(4, 1), chainID)
	vb := mkVote(1, 1, 4, 1, kproto.PrevoteType, idB, fx.blockTime[4].Add(time.Second), idxIn(4, 1), chainID)
	ev := types.NewDuplicateVoteEvidence(va, vb, fx.blockTime[4], types.NewValidatorSet(valList(refSet(4))))
	fmt.Println("evidence bytes", len(ev.Bytes()), "validate", ev.ValidateBasic())
	t1 := time.Now()
	fmt.Println("add:", d.pool.AddEvidence(ev), time.Since(t1))
	p, c := evidence.VerifC19Keys(d.pool)
	fmt.Println(p, c)
	evs, sz := d.pool.PendingEvidence(216)
	fmt.Println("pending(216)", len(evs), sz)
	evs, sz = d.pool.PendingEvidence(-1)
	fmt.Println("pending(-1)", len(evs), sz)
	r.Finish()
}
