package main

// The transaction-template alphabet and the hand-assembled contract the call templates talk to.

import (
	"crypto/ecdsa"
	"fmt"
	"math/big"
	"strings"

	"github.com/kardiachain/go-kardia/configs"
	"github.com/kardiachain/go-kardia/kai/accounts/abi"
	"github.com/kardiachain/go-kardia/lib/common"
	"github.com/kardiachain/go-kardia/lib/crypto"
	"github.com/kardiachain/go-kardia/types"
)

// ---------------------------------------------------------------------------------------------
// a tiny two-pass assembler (PUSH1 only)

const (
	opSTOP         = 0x00
	opADD          = 0x01
	opEQ           = 0x14
	opBYTE         = 0x1a
	opCALLER       = 0x33
	opCALLDATALOAD = 0x35
	opCODECOPY     = 0x39
	opTIMESTAMP    = 0x42
	opNUMBER       = 0x43
	opMSTORE       = 0x52
	opSLOAD        = 0x54
	opSSTORE       = 0x55
	opJUMP         = 0x56
	opJUMPI        = 0x57
	opJUMPDEST     = 0x5b
	opPUSH1        = 0x60
	opPUSH2        = 0x61
	opPUSH5        = 0x64
	opDUP1         = 0x80
	opLOG2         = 0xa2
	opCREATE       = 0xf0
	opCREATE2      = 0xf5
	opBALANCE      = 0x31
	opCALLVALUE    = 0x34
	opEXTCODESIZE  = 0x3b
	opPOP          = 0x50
	opGAS          = 0x5a
	opPUSH20       = 0x73
	opCALL         = 0xf1
	opCALLDATASIZE = 0x36
	opCALLDATACOPY = 0x37
	opRETURN       = 0xf3
	opREVERT       = 0xfd
	opSELFDESTRUCT = 0xff
)

// asm: ints are opcode bytes, "#n" pushes the byte n (decimal or 0x..), "@l" pushes the address of label l,
// ":l" defines label l (emits JUMPDEST), "raw:hex" emits raw bytes.
func asm(toks ...interface{}) []byte {
	labels := map[string]int{}
	var out []byte
	for pass := 0; pass < 2; pass++ {
		out = out[:0]
		for _, t := range toks {
			switch v := t.(type) {
			case int:
				out = append(out, byte(v))
			case string:
				switch {
				case strings.HasPrefix(v, "#"):
					var n int
					if _, err := fmt.Sscanf(v[1:], "%v", &n); err != nil || n < 0 || n > 255 {
						panic("asm: bad push " + v)
					}
					out = append(out, opPUSH1, byte(n))
				case strings.HasPrefix(v, "@"):
					a := labels[v[1:]]
					if pass == 1 {
						if _, ok := labels[v[1:]]; !ok {
							panic("asm: unknown label " + v)
						}
					}
					out = append(out, opPUSH1, byte(a))
				case strings.HasPrefix(v, ":"):
					labels[v[1:]] = len(out)
					out = append(out, opJUMPDEST)
				case strings.HasPrefix(v, "raw:"):
					out = append(out, common.FromHex(v[4:])...)
				default:
					panic("asm: bad token " + v)
				}
			}
		}
		if len(out) > 255 {
			panic("asm: code too long for PUSH1 labels")
		}
	}
	return append([]byte{}, out...)
}

// The multi-purpose contract. First calldata byte selects:
//
//	1 set    slot2 = TIMESTAMP; slot1 = slot1+1; LOG2(topic 0xAA, caller; data = block number)
//	2 clear  slot1 = 0 (refund when it was non-zero)
//	3 revert slot3 = 0x55, then REVERT
//	4 kill   SELFDESTRUCT(caller)
//	5 child  CREATE a child with empty runtime code, slot4 = child address
//	6 read   slot5 = slot1 + 7 (the result depends on READING slot 1; slot 1 itself is not written)
//
// The constructor stores 0x1234 in slot 1 (a value whose RLP encoding differs from the value itself).
var contractRuntime = asm(
	"#0", opCALLDATALOAD, "#0", opBYTE,
	opDUP1, "#1", opEQ, "@set", opJUMPI,
	opDUP1, "#2", opEQ, "@clr", opJUMPI,
	opDUP1, "#3", opEQ, "@rev", opJUMPI,
	opDUP1, "#4", opEQ, "@kill", opJUMPI,
	opDUP1, "#5", opEQ, "@child", opJUMPI,
	opDUP1, "#6", opEQ, "@read", opJUMPI,
	opSTOP,
	":set", opTIMESTAMP, "#2", opSSTORE,
	"#1", opSLOAD, "#1", opADD, "#1", opSSTORE,
	opNUMBER, "#0", opMSTORE,
	opCALLER, "#0xAA", "#0x20", "#0", opLOG2,
	opSTOP,
	":clr", "#0", "#1", opSSTORE, opSTOP,
	":rev", "#0x55", "#3", opSSTORE, "#0", "#0", opREVERT,
	":kill", opCALLER, opSELFDESTRUCT,
	":child", opPUSH5, "raw:60006000f3", "#0", opMSTORE,
	"#5", "#27", "#0", opCREATE, "#4", opSSTORE, opSTOP,
	":read", "#1", opSLOAD, "#7", opADD, "#5", opSSTORE, opSTOP,
)

func initCodeFor(runtime []byte) []byte {
	// constructor: slot1 = 0x1234 ; CODECOPY(0, off, len) ; RETURN(0, len)
	mk := func(off int) []byte {
		return asm(opPUSH2, "raw:1234", "#1", opSSTORE,
			fmt.Sprintf("#%d", len(runtime)), fmt.Sprintf("#%d", off), "#0", opCODECOPY,
			fmt.Sprintf("#%d", len(runtime)), "#0", opRETURN)
	}
	head := mk(0)
	head = mk(len(head))
	return append(head, runtime...)
}

var contractInit = initCodeFor(contractRuntime)

// The FACTORY (part of the genesis allocation on "+factory" chains): CREATE2(value 0, init code = calldata, salt 0);
// slot6 = the created address (0 on failure). Calling it again after the child self-destructed re-creates the child at
// the SAME address.
var factoryRuntime = asm(
	opCALLDATASIZE, "#0", "#0", opCALLDATACOPY,
	"#0", opCALLDATASIZE, "#0", "#0", opCREATE2,
	"#6", opSSTORE, opSTOP,
)

// Init code of the CREATE2 child: the constructor READS slot 1 of the address it is created at (zero on a fresh address,
// and zero again after a previous incarnation self-destructed) and stores slot3 = slot1 + 0x100; slot 1 is not written.
// The runtime is the multi-purpose contract.
func init2CodeFor(runtime []byte) []byte {
	mk := func(off int) []byte {
		return asm("#1", opSLOAD, opPUSH2, "raw:0100", opADD, "#3", opSSTORE,
			fmt.Sprintf("#%d", len(runtime)), fmt.Sprintf("#%d", off), "#0", opCODECOPY,
			fmt.Sprintf("#%d", len(runtime)), "#0", opRETURN)
	}
	head := mk(0)
	head = mk(len(head))
	return append(head, runtime...)
}

var child2Init = init2CodeFor(contractRuntime)

// The FORWARDER (genesis allocation of the "+factory" chains): CALL(x, value = CALLVALUE) - a CALL with value, which charges
// CallNewAccountGas when x does not exist - then slot1 = BALANCE(x), slot2 = EXTCODESIZE(x).
func forwarderRuntime(x common.Address) []byte {
	ax := "raw:" + common.Bytes2Hex(x.Bytes())
	return asm("#0", "#0", "#0", "#0", opCALLVALUE, opPUSH20, ax, opGAS, opCALL, opPOP,
		opPUSH20, ax, opBALANCE, "#1", opSSTORE,
		opPUSH20, ax, opEXTCODESIZE, "#2", opSSTORE,
		opSTOP)
}

var revertingInit = asm("#0x66", "#1", opSSTORE, "#0", "#0", opREVERT)
var loopingInit = asm(":top", "#1", "#1", opSSTORE, "@top", opJUMP) // burns all gas

// ---------------------------------------------------------------------------------------------
// templates

type world struct {
	kind     string         // "legacy" | "galaxias" | "legacy+alloc" | "galaxias+alloc"
	X        common.Address // the multi-purpose contract: contractAddr(kind)
	ValSmc   [3]common.Address
	NewValB  common.Address // validator contract that createValidator by B creates
	valAbi   *abi.ABI
	stakeAbi *abi.ABI
	chainID  *big.Int
	// every key/value of a database on which NewBlockChain has just committed the genesis block
	genesisDB [][2][]byte
}

type tmpl struct {
	Name string
	From string // "A" | "B" | "V3"
	// nonce to use given the sender's next expected nonce, and whether the template is DESIGNED to consume it
	Nonce func(next uint64) (nonce uint64, consumes bool)
	Make  func(w *world, nonce uint64) *types.Transaction
	// designed outcome when nothing earlier in the block interferes: "ok" | "failed" (receipt with status 0) | "skipped"
	Want string
	// ChainOnly templates are used by the multi-block chains only (not by the single-block enumeration)
	ChainOnly bool
}

func keyOf(from string) *ecdsa.PrivateKey {
	switch from {
	case "A":
		return keyA
	case "B":
		return keyB
	case "V3":
		return valKeys[2]
	}
	panic("keyOf " + from)
}

func addrOf(from string) common.Address { return crypto.PubkeyToAddress(keyOf(from).PublicKey) }

func sign(tx *types.Transaction, k *ecdsa.PrivateKey) *types.Transaction {
	stx, err := types.SignTx(types.HomesteadSigner{}, tx, k)
	if err != nil {
		panic(err)
	}
	return stx
}

func plain(next uint64) (uint64, bool) { return next, true }
func inert(next uint64) (uint64, bool) { return next, false }

var one = big.NewInt(1)
var two = big.NewInt(2)

func kai(n int64) *big.Int {
	return new(big.Int).Mul(big.NewInt(n), new(big.Int).Exp(big.NewInt(10), big.NewInt(18), nil))
}

func call(w *world, from string, nonce uint64, sel byte, price *big.Int) *types.Transaction {
	return sign(types.NewTransaction(nonce, w.X, big.NewInt(0), 300000, price, []byte{sel}), keyOf(from))
}

// The REVERTER (genesis allocation of the "+factory" chains): CALL(x, value = CALLVALUE) and then REVERT; with first
// calldata byte 1 it instead loops until it is out of gas. Either way the value call to x is undone by the caller's frame.
func reverterRuntime(x common.Address) []byte {
	ax := "raw:" + common.Bytes2Hex(x.Bytes())
	return asm("#0", "#0", "#0", "#0", opCALLVALUE, opPUSH20, ax, opGAS, opCALL, opPOP,
		"#0", opCALLDATALOAD, "#0", opBYTE, "@loop", opJUMPI,
		"#0", "#0", opREVERT,
		":loop", "@loop", opJUMP)
}

var alphabet = []tmpl{
	{Name: "xferA", From: "A", Nonce: plain, Want: "ok", Make: func(w *world, n uint64) *types.Transaction {
		return sign(types.NewTransaction(n, common.BytesToAddress([]byte{0xee, 1}), big.NewInt(1000), 30000, one, nil), keyA)
	}},
	{Name: "xferB", From: "B", Nonce: plain, Want: "ok", Make: func(w *world, n uint64) *types.Transaction {
		return sign(types.NewTransaction(n, addrA, big.NewInt(5000), 30000, two, nil), keyB)
	}},
	{Name: "xferProtB", From: "B", Nonce: inert, Want: "kind", Make: func(w *world, n uint64) *types.Transaction {
		// replay-protected signature: the pool accepts it (its signer is the chain-id signer), the legacy state
		// processor (HomesteadSigner) cannot recover a sender and skips it; the Galaxias processor executes it
		tx := types.NewTransaction(n, common.BytesToAddress([]byte{0xee, 2}), big.NewInt(7), 30000, two, nil)
		stx, err := types.SignTx(types.NewChainIDSigner(w.chainID), tx, keyB)
		if err != nil {
			panic(err)
		}
		return stx
	}},
	{Name: "poorA", From: "A", Nonce: inert, Want: "skipped", Make: func(w *world, n uint64) *types.Transaction {
		return sign(types.NewTransaction(n, common.BytesToAddress([]byte{0xee, 3}), kai(2000000000), 30000, one, nil), keyA)
	}},
	{Name: "lowA", From: "A", Want: "skipped", Nonce: func(next uint64) (uint64, bool) {
		if next == 0 {
			return 0, true // no lower nonce exists: degenerates into a plain transfer (and makes the NEXT A nonce collide)
		}
		return next - 1, false
	}, Make: func(w *world, n uint64) *types.Transaction {
		return sign(types.NewTransaction(n, common.BytesToAddress([]byte{0xee, 4}), big.NewInt(11), 30000, one, nil), keyA)
	}},
	{Name: "highB", From: "B", Want: "skipped", Nonce: func(next uint64) (uint64, bool) { return next + 1, false },
		Make: func(w *world, n uint64) *types.Transaction {
			return sign(types.NewTransaction(n, common.BytesToAddress([]byte{0xee, 5}), big.NewInt(13), 30000, two, nil), keyB)
		}},
	{Name: "bigGasA", From: "A", Nonce: inert, Want: "skipped", Make: func(w *world, n uint64) *types.Transaction {
		return sign(types.NewTransaction(n, common.BytesToAddress([]byte{0xee, 6}), big.NewInt(17), configs.BlockGasLimit+1, one, nil), keyA)
	}},
	{Name: "mkA", From: "A", Nonce: plain, Want: "ok", Make: func(w *world, n uint64) *types.Transaction {
		return sign(types.NewContractCreation(n, big.NewInt(0), 500000, one, contractInit), keyA)
	}},
	{Name: "mkRevB", From: "B", Nonce: plain, Want: "failed", Make: func(w *world, n uint64) *types.Transaction {
		return sign(types.NewContractCreation(n, big.NewInt(0), 500000, two, revertingInit), keyB)
	}},
	{Name: "mkOogA", From: "A", Nonce: plain, Want: "failed", Make: func(w *world, n uint64) *types.Transaction {
		return sign(types.NewContractCreation(n, big.NewInt(0), 200000, one, loopingInit), keyA)
	}},
	{Name: "setB", From: "B", Nonce: plain, Want: "ok", Make: func(w *world, n uint64) *types.Transaction { return call(w, "B", n, 1, two) }},
	{Name: "clrA", From: "A", Nonce: plain, Want: "ok", Make: func(w *world, n uint64) *types.Transaction { return call(w, "A", n, 2, one) }},
	{Name: "revB", From: "B", Nonce: plain, Want: "failed", Make: func(w *world, n uint64) *types.Transaction { return call(w, "B", n, 3, two) }},
	{Name: "killA", From: "A", Nonce: plain, Want: "ok", Make: func(w *world, n uint64) *types.Transaction { return call(w, "A", n, 4, one) }},
	{Name: "childB", From: "B", Nonce: plain, Want: "ok", Make: func(w *world, n uint64) *types.Transaction { return call(w, "B", n, 5, two) }},
	{Name: "stakeA", From: "A", Nonce: plain, Want: "ok", Make: func(w *world, n uint64) *types.Transaction {
		// delegate 40 000 KAI to genesis validator 2: its voting power changes
		in, err := w.valAbi.Pack("delegate")
		if err != nil {
			panic(err)
		}
		return sign(types.NewTransaction(n, w.ValSmc[1], kai(40000), 3000000, one, in), keyA)
	}},
	{Name: "newValB", From: "B", Nonce: plain, Want: "ok", Make: func(w *world, n uint64) *types.Transaction {
		var name [32]byte
		copy(name[:], "valB")
		in, err := w.stakeAbi.Pack("createValidator", name, big.NewInt(100000000000000000), big.NewInt(250000000000000000), big.NewInt(50000000000000000))
		if err != nil {
			panic(err)
		}
		return sign(types.NewTransaction(n, common.HexToAddress(configs.DefaultStakingContractAddress), kai(13300000), 9000000, two, in), keyB)
	}},
	{Name: "startB", From: "B", Nonce: plain, Want: "dep", Make: func(w *world, n uint64) *types.Transaction {
		in, err := w.valAbi.Pack("start")
		if err != nil {
			panic(err)
		}
		return sign(types.NewTransaction(n, w.NewValB, big.NewInt(0), 3000000, two, in), keyB)
	}},
	{Name: "readB", From: "B", Nonce: plain, Want: "ok", ChainOnly: true, Make: func(w *world, n uint64) *types.Transaction { return call(w, "B", n, 6, two) }},
	{Name: "mk2B", From: "B", Nonce: plain, Want: "ok", ChainOnly: true, Make: func(w *world, n uint64) *types.Transaction {
		// (re-)create the multi-purpose contract through the factory: CREATE2, always the same address
		return sign(types.NewTransaction(n, factoryAddr, big.NewInt(0), 700000, two, child2Init), keyB)
	}},
	{Name: "payA", From: "A", Nonce: plain, Want: "ok", ChainOnly: true, Make: func(w *world, n uint64) *types.Transaction {
		// plain value transfer TO the contract's address (re-funds the address when the contract is gone)
		return sign(types.NewTransaction(n, w.X, big.NewInt(12345), 100000, one, nil), keyA)
	}},
	{Name: "fwdA", From: "A", Nonce: plain, Want: "ok", ChainOnly: true, Make: func(w *world, n uint64) *types.Transaction {
		// pays the contract's address THROUGH the forwarder (CALL with value) which then reads its balance and code size
		return sign(types.NewTransaction(n, forwarderAddr, big.NewInt(777), 300000, one, nil), keyA)
	}},
	{Name: "rvA", From: "A", Nonce: plain, Want: "failed", ChainOnly: true, Make: func(w *world, n uint64) *types.Transaction {
		// the reverter CALLs the contract's address with value and then REVERTs
		return sign(types.NewTransaction(n, reverterAddr, big.NewInt(555), 200000, one, nil), keyA)
	}},
	{Name: "oogA", From: "A", Nonce: plain, Want: "failed", ChainOnly: true, Make: func(w *world, n uint64) *types.Transaction {
		// the reverter CALLs the contract's address with value and then runs out of gas
		return sign(types.NewTransaction(n, reverterAddr, big.NewInt(555), 200000, one, []byte{1}), keyA)
	}},
	{Name: "exitV3", From: "V3", Nonce: plain, Want: "ok", Make: func(w *world, n uint64) *types.Transaction {
		// genesis validator 3 withdraws its whole self delegation: it leaves the validator set
		in, err := w.valAbi.Pack("undelegate")
		if err != nil {
			panic(err)
		}
		return sign(types.NewTransaction(n, w.ValSmc[2], big.NewInt(0), 3000000, one, in), valKeys[2])
	}},
}

// buildTxs instantiates a template sequence over a pre-state (base nonces of the senders).
func buildTxs(w *world, seq []int, base map[string]uint64) []*types.Transaction {
	txs, _ := buildTxsNext(w, seq, base)
	return txs
}

// buildTxsNext also returns the senders' next expected nonces after the sequence (by design, see tmpl.Nonce).
func buildTxsNext(w *world, seq []int, base map[string]uint64) ([]*types.Transaction, map[string]uint64) {
	next := map[string]uint64{}
	for k, v := range base {
		next[k] = v
	}
	var out []*types.Transaction
	for _, ti := range seq {
		t := alphabet[ti]
		var n uint64
		var consumes bool
		if t.Name == "xferProtB" {
			n, consumes = next[t.From], strings.HasPrefix(w.kind, "galaxias")
		} else {
			n, consumes = t.Nonce(next[t.From])
		}
		out = append(out, t.Make(w, n))
		if consumes {
			next[t.From]++
		}
	}
	return out, next
}

func seqName(seq []int) string {
	if len(seq) == 0 {
		return "(empty)"
	}
	var s []string
	for _, t := range seq {
		s = append(s, alphabet[t].Name)
	}
	return strings.Join(s, ",")
}
