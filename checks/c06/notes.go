package main

/*
The Write tool refuses *.md files in this environment, so FINDINGS.md and MUTANTS.md of this check live here.

=====================================================================================================
FINDINGS — C06 on the unchanged repository
=====================================================================================================

Result: NO C06 violation on the unchanged tree (/repo HEAD 9cab62e) in the quick tier (3 consecutive runs,
exhaustive) and in the thorough tier. Every enumerated block gave the same application hash, stored
block-info record (receipts, bloom, gas, rewards), validator report (as a set) and resulting
LatestBlockState (three validator sets with priorities, proposer, change height) on every node variant,
every repetition, every worker process and through both the proposer and the receiver path; every
permutation of every duplicate-free validator report gave the same result.

Seen while building the check. None is a C06 violation (all are deterministic across nodes, the check does
not fire on them); listed for the owners of the neighbouring properties.

O1. rawdb.ReadBlockInfo returns nil for every block in which a transaction was skipped.
    kai/rawdb/accessors.go:286 calls Receipts.DeriveFields(config, hash, number, block.Transactions());
    types/receipt.go:231 rejects len(txs) != len(rs). On the pre-Galaxias path commitBlock
    (mainchain/blockchain/block_operations.go:301-313) SKIPS a failing transaction (no receipt) while the
    transaction stays in the block, so for every such block the public accessor logs "Failed to derive block
    receipts fields" and returns nil: receipts, gas used and bloom of the whole block are unreadable through
    the API (and DeriveFields assigns TxHash/ContractAddress by INDEX, so it would mis-attribute receipts
    whenever the counts happened to match). Reproduction: any enumerated block with a skipped template, e.g.
    poorA,xferA@legacy-genesis (evidence sample: public_read_block_info "nil" while the stored record holds
    one receipt). The check reads the stored record through an injected raw accessor
    (harness/kai/rawdb/zz_verif_c06_blockinfo.go) and additionally compares the accessor's nil-ness.
    Suggested minimal fix: in ReadBlockInfo match receipts to transactions by the stored Receipt.TxHash when
    the counts differ.

O2. CacheConfig.TrieCleanNoPrefetch is dead configuration: nothing in the block path calls
    StateDB.StartPrefetcher (grep finds only the definition). The prefetch axis of the enumeration cannot
    differ by construction (stated as an assumption in the evidence).

O3. calculateValidatorSetUpdates is order dependent for a report that names an address twice.
    kai/state/cstate/execution.go:268-274: delete(last, val.Address) after the first occurrence makes a
    second occurrence look "new". Report [a:5 (= current power), a:7] yields the single update a:7
    (accepted); report [a:7, a:5] yields [a:7, a:5], which processChanges rejects as a duplicate, ApplyBlock
    fails and finalizeCommit kills the node. The staking contract keeps each validator once in valSets, so a
    correct application never reports duplicates; the check enumerates duplicate-free reports only
    (assumption in the evidence). Defensive fix: reject duplicates before the diff.

O4. The proposer's transaction order is random (not a violation). TxPool.GetPendingData
    (mainchain/tx_pool/tx_pool.go:323) appends the per-account batches in map order, so two proposers with
    identical pools build different blocks. The block is fixed once proposed and every node executes the
    same list. The check records the proposed order per case and compares only what nodes make of ONE block.

O5. Galaxias CreateProposalBlock dereferences a nil proposal on error (block_operations.go:123-127): when
    newProposalBlock fails (blockchain.State() error) pb is nil and pb.header panics in the consensus
    goroutine. Not reachable in this harness; belongs to C18/C04.

O6. CommitAndValidateBlockTxs drops the error of WriteBlockAndSetHead (block_operations.go:167).
    WriteBlockAndSetHead fails with errChainStopped whenever bc.mu.TryLock() fails (BlockChain.Stop holds the
    mutex while it flushes) and when StateDB.Commit fails; in both cases nothing of the block is written
    (no block info, no app hash, head unchanged) yet ApplyBlock goes on, returns success and SAVES the
    consensus state for height H. A shutdown racing with a commit therefore leaves cstate at H and the chain
    head at H-1 (C05's R2 "stores disagree" class). Seen here only under the snapshot mutant (state database
    error => "stored block info does not decode: EOF" after a successful ApplyBlock). Fix: return the error.

O7. Harness note: snapshot.Tree.Disable after Journal blocks forever (snapshot.go:262-266: genAbort stays
    non-nil after Journal stopped the generator). Same as upstream go-ethereum; the injected release helper
    skips Disable for a stopped chain.

=====================================================================================================
MUTANTS — /verif/mutants/c06-*.patch, reproduced by /verif/checks/c06/mutants.sh
=====================================================================================================

Each patch: scratch worktree of /repo HEAD, git apply, `go test -vet=off -count=1 <touched pkg>`, then
`VERIF_REPO=<worktree> VERIF_NOEVIDENCE=1 /verif/run.sh C06 quick`; worktree removed afterwards.

mutant (file : change)                                   | repo tests of pkg        | quick   | signature(s)
---------------------------------------------------------+--------------------------+---------+--------------------------------------------
m19-valupdates-compared-by-position                      | pass (kai/state/cstate)  | exit 1  | C06|report=add=1,repower=0,unchanged=1,remove-by-zero=0,
  kai/state/cstate/execution.go calculateValidatorSet-   |                          |         |  remove-by-absence=2,zero-for-unknown=0|axis=report-order|
  Updates: reported validator compared with the current  |                          |         |  field=updates-handed-to-validator-set
  set BY POSITION instead of by address (M19-style:      |                          |         |  (the block paths cannot see it: the contract always
  result depends on the order of the report)             |                          |         |  reports in the same order on every node)
m19-valset-changes-unsorted                              | FAIL (types: TestValSet- | exit 1  | C06|report=...|axis=repetition|field=accepted-vs-rejected,
  types/validator_set.go processChanges: sort removed    |  UpdatesDuplicateEntries |         | C06|report=...|axis=repetition|field=resulting-validator-sets
  (with the map-ordered removal loop that is already in  |  ...) => already killed  |         |  (classes vary from run to run: the mutant is map-order
  calculateValidatorSetUpdates this is M19 verbatim)     |  by the repo's own suite |         |  dependent); extra, not counted among the >= 4
snapshot-slot-not-rlp-encoded                            | no tests (kai/state)     | exit 1  | C06|block=(empty)@legacy-deployed|axis=snapshot|field=error,
  kai/state/state_object.go updateTrie: the value kept   |                          |         |  ...|axis=snapshot+cold-restart|field=error (+ repetition:
  for the snapshot is not RLP encoded => nodes WITH      |                          |         |  garbage reads make the mutant's own behaviour random)
  snapshots read other slot values in the next block     |                          |         |
kvm-time-from-wall-clock                                 | no tests (mainchain/kvm) | exit 1  | C06|block=(empty)@legacy-genesis|axis=repetition-after-
  mainchain/kvm/kvm.go NewKVMContext: Time =             |                          |         |  one-second|field=app-hash (+ repetition / receiver-path /
  time.Now().Unix() instead of header.Time.Unix()        |                          |         |  start-on-existing-genesis-db where a second boundary fell)
sender-cache-ignores-signer                              | pass (types)             | exit 1  | C06|block=xferProtB@legacy-genesis|axis=proposer-vs-
  types/transaction_signing.go Sender: cached sender     |                          |         |  receiver|field=app-hash
  returned whatever signer derived it => the proposer    |                          |         |
  (pool cached the chain-id signer's answer) executes a  |                          |         |
  replay-protected tx that every receiver skips          |                          |         |
receipt-logs-in-map-order                                | no tests (mainchain/     | exit 1  | C06|block=setB@legacy-deployed|axis=repetition|
  mainchain/blockchain/state_processor.go: receipt.Logs  |  blockchain)             |         |  field=receipt-logs
  = statedb.Logs() (map iteration) instead of GetLogs    |                          |         |
m20-no-revert-on-tx-error (checks/c06/m20-not-visible   | no tests                 | exit 0  | legitimately invisible to C06, see below
  .patch, deliberately NOT in /verif/mutants)            |                          |         |

seeded-rebloom-skips-deleted-slots (independently written; | no tests (kai/state/     | exit 1  | C06|block=clrA@legacy+alloc-genesis|axis=snapshot|
  /verif/seeded/C06): kai/state/snapshot/difflayer.go     |  snapshot)               | (2 of 2 |  field=state-read-back,
  rebloom() does not add DELETED storage slots to the     |                          |  runs,  | C06|block=clrA/setB@legacy+alloc-genesis|axis=snapshot|
  diff layers' bloom => a slot whose non-zero value is in |                          |  same   |  field=app-hash,
  the snapshot DISK layer stays visible to snapshot nodes |                          |  sigs)  | C06|block=setB/clrA@legacy+alloc-genesis|axis=snapshot+
  after a block cleared it; a LATER block reading it      |                          |         |  restart-enabling-snapshot|field=state-read-back
  splits snapshot-on from snapshot-off nodes              |                          |         |

The seeded change was MISSED by the first version of this check (quick exit 0). What excluded it: (1) every
enumerated case was ONE block on a fixed parent state, while the defect needs a block that clears a slot and a LATER
block that reads it; (2) the contract of the "deployed" parent states is created by a transaction in block 1, so its
storage lives in a snapshot DIFF layer (already in the bloom) and never in the disk layer; the cold-restart variants
journal the diff layers, they do not flatten them. Added (chains.go): parent states legacy+alloc-genesis and
galaxias+alloc-genesis whose multi-purpose contract is part of the GENESIS allocation with non-zero slots 1..5 (in the
snapshot disk layer from the start); CHAINS = every sequence of 2 (thorough 3) consecutive blocks with <= 1
transaction of {(empty), setB, clrA, readB (new: slot5 = slot1 + 7), revB, killA}, built block after block through the
real proposer path, executed on fresh nodes under 9 (thorough 30) variants {cache configuration corners / all 16} x
{repetition} x {no restart, clean restart between blocks, restart that ENABLES snapshots}, compared field by field
after EVERY block; new observation field state-read-back (the contract's account and slots 1..5 read through
BlockChain.State(), snapshot-backed on snapshot nodes) in every observation of the whole check. A parent state older
than the 128-layer cap was NOT added: flattening to disk by age also needs > 4 MB of accumulated diffs
(aggregatorMemoryLimit) and heights >= 50 make tx_pool.UpdateBlacklist issue HTTP requests with 2 s timeouts; instead
the restart that enables snapshots regenerates the snapshot from the head state, which puts transaction-written values
into the disk layer cheaply (third signature above: 0x1235 written by setB in block 1, regenerated into the disk layer,
cleared in block 2, still read back by the snapshot node).

seeded-f-difftodisk-keeps-destructed-slots-in-cache       | no tests (kai/state/     | exit 1  | C06|block=killA/mk2B@legacy+factory-deployed|
  (independently written; /verif/seeded/C06f):            |  snapshot)               | (3 of 3 |  axis=snapshot+flatten-every-block|field=app-hash
  kai/state/snapshot/snapshot.go diffToDisk, destruct     |                          |  runs,  |
  loop: base.cache.Del(key) instead of Del(key[1:]) =>    |                          |  same   |
  a destructed contract's slots stay in the disk layer's  |                          |  sig)   |
  clean cache; a CREATE2 re-creation at the same address  |                          |         |
  on a long-running snapshot node reads the dead          |                          |         |
  incarnation's slot                                      |                          |         | (since the two-transaction block letters exist also:
                                                          |                          |         |  C06|block=killA,payA@legacy+factory-deployed|axis=snapshot+
                                                          |                          |         |  flatten-every-block|field=state-read-back)

The second seeded change (C06f) was MISSED by the version with the chains above (quick exit 0). What excluded it:
(1) diffToDisk never ran: no snapshot diff layer was ever merged into the disk layer (that needs > 128 layers plus the
4 MB accumulator limit, a running generator, or Cap(root, 0)); (2) no template re-created a contract at the SAME
address after a self-destruct (mkA uses CREATE: a new address each time; the genesis-allocation contract is never
re-created). Added: chain kinds legacy+factory / galaxias+factory (thorough) with a CREATE2 factory in the genesis
allocation; parent block 1 creates the multi-purpose contract through it (constructor: slot3 = slot1 + 0x100, i.e. it
READS slot 1 of its address before anything is written) and calls set; chain template mk2B re-creates the contract at
the same address; chain-variant axis flatten-every-block: after every applied block (parent blocks included) a
long-running snapshot node merges all diff layers into the disk layer through the tree's public Cap(root, 0)
(injected accessor VerifC06FlattenSnapshot, access only), alone and combined with a journal + reload (clean restart)
before the last block. So the compared node kinds are {snapshots off, snapshots on long-running, snapshots on
flattened every block (pruning and archive), flattened + restarted before the last block}. Guards: some chain must
re-create the contract after a self-destruct, and Cap(root, 0) must have succeeded.

seeded-g-difflayer-destruct-checked-before-account-data   | no tests (kai/state/     | exit 1  | C06|block=killA,payA@legacy+factory-deployed|axis=snapshot|
  (independently written; /verif/seeded/C06g):            |  snapshot)               | (3 of 3 |  field=state-read-back,
  kai/state/snapshot/difflayer.go accountRLP: the         |                          |  runs,  | C06|block=killA,payA/mk2B@legacy+factory-deployed|
  destructSet is consulted BEFORE accountData => an       |                          |  same   |  axis=snapshot|field=app-hash
  account destructed and re-created within ONE block      |                          |  sigs)  |
  reads as deleted in the following blocks on snapshot    |                          |         |
  nodes                                                   |                          |         |

The third seeded change (C06g) was MISSED by the version above (quick exit 0). What excluded it: no block destructed
the contract and re-funded / re-created the SAME address within one block and was FOLLOWED by another block: the
single-block cases have no following block (and no template sends value to the contract's address or re-creates it),
the chains held <= 1 transaction per block. Added: chain-only templates payA (plain value transfer to the contract's
address) and fwdA (pays it through a FORWARDER contract in the +factory genesis allocation: CALL with value - charges
CallNewAccountGas when the callee does not exist - then slot1 = BALANCE, slot2 = EXTCODESIZE of it); the +factory
chains are now enumerated over BLOCK letters {(empty), setB, clrA, killA, mk2B, payA, fwdA, "killA,payA",
"killA,mk2B"} where the last two are blocks of two transactions (destruct, then re-fund / CREATE2 re-create in the
same block), every 2-block sequence, under the same node kinds {snapshots off, on long-running, flattened every
block, flattened + restarted before the last block} (thorough: 30 variants incl. all 16 configurations; the earlier
3-block family is kept). Guard: some chain must destruct and re-create in one block (both receipts successful, the
address exists afterwards) and pay the address in a later block.

seeded-i-snapshot-not-covered-yet-treated-as-absent       | no tests (kai/state)     | exit 1  | C06|block=(empty)@legacy-genesis|axis=snapshot+
  (independently written; /verif/seeded/C06i):            |                          | (3 of 3 |  snapshot-still-generating|field=error
  kai/state/statedb.go getDeletedStateObject: a snapshot  |                          |  runs,  |  (the commit aborts, nothing of the block is stored:
  error other than ErrSnapshotStale (in particular        |                          |  same   |  "stored block info does not decode: EOF"; 1296 of the
  ErrNotCoveredYet of a disk layer still being generated) |                          |  sig)   |  1296 blocks/chains show it)
  is memoised and the account reported absent             |                          |         |

The fourth seeded change (C06i) was MISSED (quick exit 0). What excluded it: every snapshot node of the check waited for
the snapshot generation (SnapshotWait true), so no disk-layer read ever answered ErrNotCoveredYet. Added: node kind
"snapshot still generating" (variant flag snapshot_generation_held, axis name snapshot-still-generating): after the node
executed the parent blocks, its snapshot tree is replaced (injected VerifC06HoldSnapshotGeneration, construction through
the public snapshot.New / Rebuild) by one over the same database, with the snapshot data wiped (a FIRST generation) and a
generator that is given a node database without the head root, so it stops at its first step ("Trie missing, state
snapshotting paused") with an EMPTY generation marker: deterministic, every account / slot read of the disk layer answers
ErrNotCoveredYet. Every single block and every chain is executed on such a node (quick: configuration 0010; thorough:
also 0111 for blocks of <= 2 transactions) and compared with the trie-only reference. Measured before and after every such
execution (VerifC06SnapshotProbe): genMarker != nil and an account read at the head answers ErrNotCoveredYet; guards:
> 0 such executions and none that found the generation finished. (With the old snapshot data left in the database the
generator re-validates it by range proof and finishes without opening the trie - that is why the data is wiped.)

seeded-j-reverted-resurrection-drops-destruct-marker      | no tests (kai/state)     | exit 1  | C06|block=killA,rvA@legacy+factory-deployed|axis=snapshot|
  (independently written; /verif/seeded/C06j):            |                          | (2 of 2 |  field=state-read-back,
  kai/state/journal.go resetObjectChange.revert drops the |                          |  runs,  | C06|block=killA,rvA/setB@legacy+factory-deployed|
  `!ch.prevdestruct` guard => a contract destructed       |                          |  same   |  axis=snapshot|field=app-hash
  earlier in the block and resurrected by a value CALL in |                          |  sigs)  |
  a frame that REVERTS loses its destruct marker: the     |                          |         |
  snapshot diff layer keeps the dead account              |                          |         |

The fifth seeded change (C06j) was outside the space before: no template made a contract CALL the destructed contract's
address with value and then revert. Added: a REVERTER contract in the +factory genesis allocation (CALL(x, CALLVALUE)
then REVERT, or with calldata byte 1 loop until out of gas), chain-only templates rvA / oogA, and the two-transaction
block letters "killA,rvA" and "killA,oogA" in every 2-block sequence of the +factory chains (letters now {(empty), setB,
killA, mk2B, payA, fwdA, "killA,payA", "killA,mk2B", "killA,rvA", "killA,oogA"}; clrA left to the genesis-allocation
chains to keep the cost), compared across {snapshots off, on long-running, flattened every block, flattened + restarted,
still generating}. Guard: some chain must have kill succeed, the reverted value call fail (receipt status 0), the address
gone afterwards, and a later block touch it (payA / fwdA / mk2B).

M20 (commitBlock does not RevertToSnapshot after a failing transaction: `_ = snap` instead of
`state.RevertToSnapshot(snap)`): tried, quick exits 0, and that is correct for THIS property. Every node —
proposer and receivers alike — executes the block through the same commitBlock, so the un-reverted residue
of the failing transaction (gas bought, nonce) is the same everywhere: same app hash, same receipts. On the
Galaxias chain the proposer's pre-execution (commitTransaction) has its own revert and only selects the
transactions; the block is then executed by commitBlock on every node. M20 breaks C09 (a rejected
transaction changes state), not C06. Picked instead: receipt-logs-in-map-order and sender-cache-ignores-signer.

"ApplyBlock returns the validators in map order" is an equivalent mutant by design: the property compares
the report as a set and processChanges sorts; it only becomes visible together with the sort removal (above).
*/
