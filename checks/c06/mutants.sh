#!/bin/bash
# Demonstrates that the C06 quick tier fails on each property-breaking mutant (CHECK_AUTHORING.md rule 7).
# usage: mutants.sh [name-substring]      results: /tmp/c06-mutants/<name>.{test,check}.log and a table on stdout
export GOFLAGS=-mod=mod GOPROXY=off GOSUMDB=off GOTOOLCHAIN=local
OUT=/tmp/c06-mutants; mkdir -p $OUT
declare -A PKG=(
 [m19-valset-changes-unsorted]=./types/
 [m19-valupdates-compared-by-position]=./kai/state/cstate/
 [snapshot-slot-not-rlp-encoded]=./kai/state/
 [kvm-time-from-wall-clock]=./mainchain/kvm/
 [sender-cache-ignores-signer]=./types/
 [receipt-logs-in-map-order]=./mainchain/blockchain/
 [seeded-rebloom-skips-deleted-slots]=./kai/state/snapshot/
 [seeded-j-reverted-resurrection-drops-destruct-marker]=./kai/state/
 [seeded-i-snapshot-not-covered-yet-treated-as-absent]=./kai/state/
 [seeded-g-difflayer-destruct-checked-before-account-data]=./kai/state/snapshot/
 [seeded-f-difftodisk-keeps-destructed-slots-in-cache]=./kai/state/snapshot/
)
printf "%-36s %-12s %-8s %s\n" mutant repo-tests quick-rc signatures
for p in /verif/mutants/c06-*.patch; do
  name=$(basename $p .patch); name=${name#c06-}
  case "$name" in *"${1:-}"*) ;; *) continue;; esac
  WT=/tmp/wt-c06-$$-$name
  git -C /repo worktree add --detach $WT HEAD >/dev/null 2>&1 || { echo "worktree failed"; exit 2; }
  ( cd $WT && git apply $p ) || { echo "$name: patch does not apply"; git -C /repo worktree remove --force $WT; continue; }
  ( cd $WT && timeout 900 go test -vet=off -count=1 ${PKG[$name]} > $OUT/$name.test.log 2>&1 ); trc=$?
  tests=pass; [ $trc != 0 ] && tests="FAIL($trc)"
  grep -q "no test files" $OUT/$name.test.log && tests="no-tests"
  VERIF_REPO=$WT VERIF_NOEVIDENCE=1 timeout 600 /verif/run.sh C06 quick > $OUT/$name.check.log 2>&1; rc=$?
  sigs=$(grep "^violation:" $OUT/$name.check.log | sed 's/^violation: \(C06|[^:]*\): .*/\1/' | tr '\n' ' ')
  printf "%-36s %-12s %-8s %s\n" $name "$tests" $rc "$sigs"
  git -C /repo worktree remove --force $WT
done
