package main

// Sub-check: the validator-set update applied to consensus does not depend on the ORDER in which the
// application reports validators. Every permutation of every report of <= 4 validators over a 5-address
// universe is pushed through the real calculateValidatorSetUpdates -> updateState (the two steps
// BlockExecutor.ApplyBlock performs with the application's answer) on several base sets.

import (
	"fmt"
	"sort"
	"strings"
	"time"

	"github.com/kardiachain/go-kardia/kai/state/cstate"
	"github.com/kardiachain/go-kardia/lib/common"
	"github.com/kardiachain/go-kardia/types"
)

// five addresses whose byte order interleaves members and newcomers
var vrAddr = []common.Address{
	common.HexToAddress("0x1000000000000000000000000000000000000001"),
	common.HexToAddress("0x3000000000000000000000000000000000000003"),
	common.HexToAddress("0x5000000000000000000000000000000000000005"),
	common.HexToAddress("0x7000000000000000000000000000000000000007"),
	common.HexToAddress("0x9000000000000000000000000000000000000009"),
}

// current power of an address when it is a member of a base set
var vrPower = []int64{10, 7, 7, 3, 12}

type vrBase struct {
	Name    string `json:"base"`
	Members []int  `json:"members"`    // indices into vrAddr
	Incr    int    `json:"increments"` // IncrementProposerPriority calls before the update (evolved priorities)
}

var vrBases = []vrBase{
	{"three-fresh", []int{1, 2, 3}, 0},
	{"three-evolved", []int{1, 2, 3}, 5},
	{"two-evolved", []int{0, 3}, 3},
	{"one", []int{2}, 1},
	{"four-evolved", []int{0, 1, 2, 4}, 7},
}

func (b vrBase) state() cstate.LatestBlockState {
	var vals []*types.Validator
	for _, m := range b.Members {
		vals = append(vals, types.NewValidator(vrAddr[m], vrPower[m]))
	}
	cur := types.NewValidatorSet(vals)
	if b.Incr > 0 {
		cur.IncrementProposerPriority(int64(b.Incr))
	}
	next := cur.CopyIncrementProposerPriority(1)
	return cstate.LatestBlockState{
		ChainID: "verif-c06", InitialHeight: 1, LastBlockHeight: 6, LastBlockTime: time.Unix(1605528000, 0).UTC(),
		Validators: cur, NextValidators: next, LastValidators: cur.Copy(), LastHeightValidatorsChanged: 1,
	}
}

// a report entry option per address: 0 absent, 1 power 0, 2 the member's current power (or 5 for a newcomer), 3 another power
func vrEntry(addr int, opt int, member bool) *types.Validator {
	switch opt {
	case 1:
		return &types.Validator{Address: vrAddr[addr], VotingPower: 0}
	case 2:
		if member {
			return types.NewValidator(vrAddr[addr], vrPower[addr])
		}
		return types.NewValidator(vrAddr[addr], 5)
	case 3:
		return types.NewValidator(vrAddr[addr], vrPower[addr]+4)
	}
	return nil
}

type vrCase struct {
	Base   vrBase `json:"base"`
	Opts   []int  `json:"options_per_address"` // see vrEntry
	Perm   []int  `json:"order"`               // order of the present addresses in the failing report
	Sub    string `json:"subcheck"`
	Sig    string `json:"signature"`
	Expect string `json:"canonical_order_result"`
	Got    string `json:"this_order_result"`
}

type vrResult struct {
	err     bool
	updates string // as a set
	state   string
}

func vrRun(st cstate.LatestBlockState, report []*types.Validator) (res vrResult) {
	defer func() {
		if p := recover(); p != nil {
			res = vrResult{err: true, state: "panic: " + firstLine(fmt.Sprint(p))}
		}
	}()
	// fresh copies: the code under test may keep or mutate what it is given
	in := make([]*types.Validator, len(report))
	for i, v := range report {
		in[i] = &types.Validator{Address: v.Address, VotingPower: v.VotingPower}
	}
	hdr := &types.Header{Height: st.LastBlockHeight + 1, Time: st.LastBlockTime.Add(time.Second)}
	id := types.BlockID{Hash: common.BytesToHash([]byte{7}), PartsHeader: types.PartSetHeader{Total: 1, Hash: common.BytesToHash([]byte{8})}}
	ups, ns, err := cstate.VerifC06ApplyValidatorReport(st.Copy(), id, hdr, in)
	if err != nil {
		return vrResult{err: true}
	}
	var us []string
	for _, u := range ups {
		us = append(us, fmt.Sprintf("%x:%d", u.Address.Bytes()[:1], u.VotingPower))
	}
	sort.Strings(us)
	res.updates = strings.Join(us, ",")
	res.state = fmt.Sprintf("next=%+v cur=%+v last=%+v changed=%d", obsValSet(ns.NextValidators), obsValSet(ns.Validators), obsValSet(ns.LastValidators), ns.LastHeightValidatorsChanged)
	return res
}

func vrDiff(a, b vrResult) string {
	switch {
	case a.err != b.err:
		return "accepted-vs-rejected"
	case a.err:
		return ""
	case a.updates != b.updates:
		return "updates-handed-to-validator-set"
	case a.state != b.state:
		return "resulting-validator-sets"
	}
	return ""
}

func permutations(n int, f func(p []int)) {
	p := make([]int, n)
	for i := range p {
		p[i] = i
	}
	var rec func(k int)
	rec = func(k int) {
		if k == n {
			f(p)
			return
		}
		for i := k; i < n; i++ {
			p[k], p[i] = p[i], p[k]
			rec(k + 1)
			p[k], p[i] = p[i], p[k]
		}
	}
	rec(0)
}

// vrClass names the composition of a report relative to a base set.
func vrClass(b vrBase, opts []int) string {
	member := map[int]bool{}
	for _, m := range b.Members {
		member[m] = true
	}
	var add, repower, same, zero, zeroNew, implicit int
	for a, o := range opts {
		switch {
		case o == 0 && member[a]:
			implicit++
		case o == 1 && member[a]:
			zero++
		case o == 1:
			zeroNew++
		case o == 2 && member[a]:
			same++
		case o >= 2 && !member[a]:
			add++
		case o == 3:
			repower++
		}
	}
	return fmt.Sprintf("add=%d,repower=%d,unchanged=%d,remove-by-zero=%d,remove-by-absence=%d,zero-for-unknown=%d", add, repower, same, zero, implicit, zeroNew)
}

func vrOne(b vrBase, opts []int, order []int) (canon, got vrResult, present []int) {
	member := map[int]bool{}
	for _, m := range b.Members {
		member[m] = true
	}
	for a, o := range opts {
		if o != 0 {
			present = append(present, a)
		}
	}
	mk := func(ord []int) []*types.Validator {
		var rep []*types.Validator
		for _, k := range ord {
			a := present[k]
			rep = append(rep, vrEntry(a, opts[a], member[a]))
		}
		return rep
	}
	id := make([]int, len(present))
	for i := range id {
		id[i] = i
	}
	st := b.state()
	canon = vrRun(st, mk(id))
	if order != nil {
		got = vrRun(st, mk(order))
	}
	return
}

// runValidatorReports enumerates the whole space; returns the number of evaluations.
func runValidatorReports() {
	type bad struct {
		size int
		c    vrCase
	}
	worst := map[string]bad{} // field -> smallest failing case
	classes := map[string]bool{}
	for _, b := range vrBases {
		st := b.state()
		member := map[int]bool{}
		for _, m := range b.Members {
			member[m] = true
		}
		opts := make([]int, len(vrAddr))
		var rec func(a int)
		rec = func(a int) {
			if a < len(vrAddr) {
				for o := 0; o < 4; o++ {
					opts[a] = o
					rec(a + 1)
				}
				return
			}
			var present []int
			for x, o := range opts {
				if o != 0 {
					present = append(present, x)
				}
			}
			if len(present) > 4 {
				return
			}
			var canon vrResult
			first := true
			permutations(len(present), func(p []int) {
				var rep []*types.Validator
				for _, k := range p {
					x := present[k]
					rep = append(rep, vrEntry(x, opts[x], member[x]))
				}
				res := vrRun(st, rep)
				r.Add("validator_report_evaluations", 1)
				if first {
					canon, first = res, false
					if !res.err && res.updates != "" {
						r.Distinct("validator_reports_nontrivial", b.Name+fmt.Sprint(opts))
					}
					if res.err {
						classes["rejected"] = true
					} else {
						cl := vrClass(b, opts)
						for _, k := range []string{"add=", "repower=", "remove-by-zero=", "remove-by-absence="} {
							if !strings.Contains(cl, k+"0") {
								classes[k] = true
							}
						}
					}
					return
				}
				if f := vrDiff(canon, res); f != "" {
					c := vrCase{Base: b, Opts: append([]int{}, opts...), Perm: append([]int{}, p...), Sub: "validator-report-order"}
					c.Expect, c.Got = fmt.Sprintf("%+v", canon), fmt.Sprintf("%+v", res)
					if w, ok := worst[f]; !ok || len(present) < w.size {
						worst[f] = bad{len(present), c}
					}
				}
			})
		}
		rec(0)
	}
	for f, w := range worst {
		c := w.c
		// confirm by re-execution. The functions are pure in their inputs unless they iterate a map: if the SAME
		// report in the SAME order does not always give the same result that is the finding (axis=repetition).
		axis, seen := "report-order", 0
		first, _, _ := vrOne(c.Base, c.Opts, nil)
		for k := 0; k < 16; k++ {
			canon, got, _ := vrOne(c.Base, c.Opts, c.Perm)
			if vrDiff(first, canon) != "" {
				axis = "repetition"
			}
			if vrDiff(canon, got) != "" {
				seen++
			}
		}
		if axis == "report-order" && seen != 16 {
			axis = "repetition"
		}
		c.Sig = fmt.Sprintf("C06|report=%s|axis=%s|field=%s", vrClass(c.Base, c.Opts), axis, f)
		what := fmt.Sprintf("the same validator report (%s, base set %s) handed to consensus in two different orders gives different results (%s): ascending-address order -> %s ; order %v -> %s",
			vrClass(c.Base, c.Opts), c.Base.Name, f, c.Expect, c.Perm, c.Got)
		if axis == "repetition" {
			what = fmt.Sprintf("the result of applying a validator report (%s, base set %s) is not a function of the report: re-executions disagree (%s; %d of 16 re-executions differ between two orders): %s vs %s",
				vrClass(c.Base, c.Opts), c.Base.Name, f, seen, c.Expect, c.Got)
		}
		r.Violation(c.Sig, what, c)
	}
	for _, k := range []string{"add=", "repower=", "remove-by-zero=", "remove-by-absence=", "rejected"} {
		r.Require(classes[k], "validator-report sub-check: no accepted report of class "+k)
	}
}

func replayValidatorReport(c vrCase) bool {
	bad := false
	first, _, present := vrOne(c.Base, c.Opts, nil)
	fmt.Printf("replaying validator report: base=%s options=%v present=%v order=%v (16 re-executions)\n", c.Base.Name, c.Opts, present, c.Perm)
	for k := 0; k < 16; k++ {
		canon, got, _ := vrOne(c.Base, c.Opts, c.Perm)
		if f := vrDiff(first, canon); f != "" {
			fmt.Printf("  ascending order, execution %d differs from execution 0 in %s: %+v vs %+v\n", k, f, first, canon)
			bad = true
		}
		if f := vrDiff(canon, got); f != "" {
			fmt.Printf("  execution %d: order %v differs from ascending order in %s:\n    ascending: %+v\n    this:      %+v\n", k, c.Perm, f, canon, got)
			bad = true
		}
	}
	return bad
}
