// C06 — block execution is deterministic: same block + same parent state => same application hash,
// receipts, logs bloom, gas used and validator-set updates on every node and run.
//
// Engine E3 (small-scope exhaustive enumeration) on the REAL node stack (blockchain.NewBlockChain over a
// memorydb with the staking contracts and three genesis validators, tx pool, evidence pool,
// BlockOperations, cstate.BlockExecutor; no consensus state machine). Blocks = every sequence of <= 2
// (quick) / <= 3 (thorough) transaction templates over a 19-template alphabet, over three parent states.
// Every block is
//
//	(i)   built through the PROPOSER path (pool.AddLocal -> CreateProposalBlock -> SaveBlock -> ApplyBlock on
//	      node P) and run through the RECEIVER path on fresh nodes (parts -> PartSet.AddPart -> BlockFromProto
//	      -> ValidateBlock -> SaveBlock -> ApplyBlock);
//	(ii)  executed under cache configurations {TrieDirtyDisabled} x {SnapshotLimit} x {Preimages} x
//	      {TrieCleanNoPrefetch}, on nodes that executed the parent blocks themselves (warm) and on nodes
//	      restarted from a stopped node's database (cold);
//	(iii) repeated in fresh objects, once more after >1 s of wall-clock time, and (thorough) in three worker
//	      processes of this binary.
//
// Oracle: every observation (node.go, type obs) is identical across all variants; the proposer's block
// validates and applies on the receiver. Plus the validator-report permutation sub-check (valrep.go).
package main

import (
	"bufio"
	"flag"
	"fmt"
	"math/big"
	"os"
	"os/exec"
	"os/signal"
	"runtime"
	"sort"
	"strings"
	"sync"
	"syscall"
	"time"

	"github.com/kardiachain/go-kardia/kai/kaidb/memorydb"
	"github.com/kardiachain/go-kardia/kai/state/cstate"
	"github.com/kardiachain/go-kardia/kvm"
	"github.com/kardiachain/go-kardia/lib/common"
	"github.com/kardiachain/go-kardia/mainchain/staking"
	"github.com/kardiachain/go-kardia/trie"
	"github.com/kardiachain/go-kardia/types"

	"verif/mc/par"
	"verif/mc/report"
)

var r *report.Run

var workerOut = flag.String("c06worker", "", "worker-process mode: write reference digests of every case to this file")
var workerMaxLen = flag.Int("c06maxlen", 2, "worker-process mode: longest template sequence")

// ---------------------------------------------------------------------------------------------
// parent states

type image struct {
	kv    [][2][]byte
	state cstate.LatestBlockState
}

type prestate struct {
	Kind   string // legacy | galaxias
	Name   string // genesis | deployed
	w      *world
	blocks []*wireBlock
	base   map[string]uint64
	imgMu  sync.Mutex
	images map[cacheCfg]*image
}

func (p *prestate) id() string { return p.Kind + "-" + p.Name }

func fatal(a ...interface{}) {
	fmt.Println(append([]interface{}{"MACHINERY-ERROR:"}, a...)...)
	os.Exit(2)
}

func newWorld(kind string) *world {
	w := &world{kind: kind}
	n, err := boot(cfgFromBits(0), kind)
	if err != nil {
		fatal("boot:", err)
	}
	defer n.close()
	// the database right after NewBlockChain committed the genesis block (repetitions >= 1 start on a copy of it)
	it := n.db.NewIterator(nil, nil)
	for it.Next() {
		w.genesisDB = append(w.genesisDB, [2][]byte{append([]byte{}, it.Key()...), append([]byte{}, it.Value()...)})
	}
	it.Release()
	w.chainID = n.bc.Config().ChainID
	w.X = contractAddr(kind)
	su, err1 := staking.NewSmcStakingUtil()
	vu, err2 := staking.NewSmcValidatorUtil()
	if err1 != nil || err2 != nil {
		fatal("staking utils:", err1, err2)
	}
	w.valAbi, w.stakeAbi = vu.Abi, su.Abi
	st, err := n.bc.State()
	if err != nil {
		fatal(err)
	}
	for i := range valKeys {
		a, err := su.GetValFromOwner(st, n.bc.CurrentBlock().Header(), n.bc, kvm.Config{}, valAddr(i))
		if err != nil || (a == common.Address{}) {
			fatal("validator contract of genesis validator", i, a, err)
		}
		w.ValSmc[i] = a
	}
	// the address of the validator contract that B's createValidator creates (CREATE2: independent of the parent state):
	// execute the template once on the scratch node and ask the staking contract
	var newVal int
	for i, t := range alphabet {
		if t.Name == "newValB" {
			newVal = i
		}
	}
	txs := buildTxs(w, []int{newVal}, map[string]uint64{})
	if err := n.pool.AddLocal(txs[0]); err != nil {
		fatal("newValB rejected by the pool:", err)
	}
	block, parts, err := n.propose(nil)
	if err != nil {
		fatal(err)
	}
	if o := n.applyBlock(block, parts, n.seenCommit(block, parts)); o.Err != "" || len(o.Receipts) != 1 || o.Receipts[0].Status != 1 {
		fatal("scratch execution of newValB failed:", fmt.Sprintf("%+v", o))
	}
	st, _ = n.bc.State()
	a, err := su.GetValFromOwner(st, n.bc.CurrentBlock().Header(), n.bc, kvm.Config{}, addrB)
	if err != nil || (a == common.Address{}) {
		fatal("validator contract created by B not found", err)
	}
	w.NewValB = a
	return w
}

// buildPrestates constructs the parent chains through the real proposer path (single sender => the pool's order is fixed).
func buildPrestates(kinds []string) []*prestate {
	var out []*prestate
	for _, kind := range kinds {
		w := newWorld(kind)
		gen := &prestate{Kind: kind, Name: "genesis", w: w, base: map[string]uint64{"A": 0, "B": 0, "V3": 0}, images: map[cacheCfg]*image{}}
		out = append(out, gen)
		if strings.HasSuffix(kind, "+alloc") {
			continue // the contract is part of the genesis: no deploying parent block
		}
		n, err := boot(cfgFromBits(0), kind)
		if err != nil {
			fatal("boot:", err)
		}
		// block 1: A deploys the multi-purpose contract and calls "set" on it (slot1 = 0x1235, a log, a timestamp)
		txs := []*types.Transaction{
			sign(types.NewContractCreation(0, bigZero(), 500000, one, contractInit), keyA),
			call(w, "A", 1, 1, one),
		}
		if strings.HasSuffix(kind, "+factory") {
			// block 1: A creates the contract through the CREATE2 factory (slot3 = 0x100) and calls "set" (slot1 = 1)
			txs[0] = sign(types.NewTransaction(0, factoryAddr, bigZero(), 700000, one, child2Init), keyA)
		}
		for _, tx := range txs {
			if err := n.pool.AddLocal(tx); err != nil {
				fatal("parent block transaction rejected by the pool:", err)
			}
		}
		block, parts, err := n.propose(nil)
		if err != nil {
			fatal(err)
		}
		seen := n.seenCommit(block, parts)
		o := n.applyBlock(block, parts, seen)
		if o.Err != "" || len(o.Receipts) != 2 || o.Receipts[0].Status != 1 || o.Receipts[1].Status != 1 {
			fatal("parent block 1 did not execute as designed:", fmt.Sprintf("%+v", o))
		}
		n.close()
		dep := &prestate{Kind: kind, Name: "deployed", w: w, blocks: []*wireBlock{toWire(block, parts, seen)},
			base: map[string]uint64{"A": 2, "B": 0, "V3": 0}, images: map[cacheCfg]*image{}}
		out = append(out, dep)
	}
	return out
}

func bigZero() *big.Int { return new(big.Int) }

// imageFor returns the database of a node with configuration c that executed the parent blocks and was stopped
// (BlockChain.Stop: cached state flushed, snapshot journalled), plus the consensus state it held.
func (p *prestate) imageFor(c cacheCfg) (*image, error) {
	p.imgMu.Lock()
	defer p.imgMu.Unlock()
	if im, ok := p.images[c]; ok {
		return im, nil
	}
	n, err := boot(c, p.Kind)
	if err != nil {
		return nil, err
	}
	defer n.close()
	for _, b := range p.blocks {
		if o := n.receive(b); o.Err != "" {
			return nil, fmt.Errorf("parent block %d: %s", b.Height, o.Err)
		}
	}
	n.pool.Stop()
	n.pool = nil
	n.bc.Stop()
	im := &image{state: n.state.Copy()}
	it := n.db.NewIterator(nil, nil)
	for it.Next() {
		im.kv = append(im.kv, [2][]byte{append([]byte{}, it.Key()...), append([]byte{}, it.Value()...)})
	}
	it.Release()
	p.images[c] = im
	return im, nil
}

// ---------------------------------------------------------------------------------------------
// variants

// How a variant's node gets into the parent state:
//
//	own genesis           NewBlockChain executes and commits the genesis document, then the node receives the parent blocks
//	                      (the reference execution of every block, and every delayed repetition; the genesis commit does not
//	                      depend on the cache configuration)
//	otherwise             the node starts on a copy of a database that already holds the genesis block (NewBlockChain loads it,
//	                      SetupGenesisBlock's "no genesis document given" path), then receives the parent blocks
//	cold restart          the node starts on a copy of the database of a node with the same configuration that executed the
//	                      parent blocks and was stopped (BlockChain.Stop); with own_genesis it is also handed the genesis
//	                      document (SetupGenesisBlock re-executes it to compare hashes), otherwise it keeps the stored configuration
type variant struct {
	Cfg     cacheCfg `json:"cache_config"`
	Rep     int      `json:"repetition"`
	Cold    bool     `json:"cold_restart"`
	Scratch bool     `json:"own_genesis"`
	// CapEvery: after every block the node applies (parent blocks included) its snapshot diff layers are merged into the
	// disk layer (chains only)
	CapEvery bool `json:"flatten_snapshot_every_block,omitempty"`
	// Generating: the node executes the block(s) under test while its snapshot is still being generated and the generator has
	// not covered any account yet (held deterministically, see VerifC06HoldSnapshotGeneration); the parent blocks are
	// executed before, with the finished snapshot
	Generating bool `json:"snapshot_generation_held,omitempty"`
}

func (v variant) String() string {
	s := v.Cfg.String() + fmt.Sprintf(",rep=%d", v.Rep)
	if v.Scratch {
		s += ",own-genesis"
	}
	if v.Cold {
		s += ",cold"
	}
	if v.Generating {
		s += ",snapshot-still-generating"
	}
	return s
}

// fastVariant: reference configuration, started on the genesis database (used for node P and for re-executions)
var fastVariant = variant{Cfg: cfgFromBits(0), Rep: 1}

var refVariant = variant{Cfg: cfgFromBits(0), Scratch: true}

// quick: four corner configurations in which every axis is on twice and off twice
var cornerCfgs = []int{0b0000, 0b1111, 0b0110, 0b1001}

func variantsFor(p *prestate, seqLen int) []variant {
	var vs []variant
	cold := func(b int) {
		if len(p.blocks) > 0 {
			vs = append(vs, variant{Cfg: cfgFromBits(b), Cold: true, Scratch: b == 0 || b == 0b0110})
		}
	}
	all := make([]int, 16)
	for i := range all {
		all[i] = i
	}
	switch {
	case r.Quick():
		// 4 corner configurations x 3 repetitions, one cold restart (snapshot + preimages, GC mode)
		for _, b := range cornerCfgs {
			for k := 0; k < 3; k++ {
				vs = append(vs, variant{Cfg: cfgFromBits(b), Rep: k})
			}
		}
		cold(0b0110)
	case seqLen <= 2:
		// all 16 configurations x 3 repetitions, a cold restart under each configuration
		for _, b := range all {
			for k := 0; k < 3; k++ {
				vs = append(vs, variant{Cfg: cfgFromBits(b), Rep: k})
			}
			cold(b)
		}
	default:
		// length-3 blocks: the reference configuration three times, the other 15 configurations once, cold restarts on two corners
		for k := 0; k < 3; k++ {
			vs = append(vs, variant{Cfg: cfgFromBits(0), Rep: k})
		}
		for _, b := range all[1:] {
			vs = append(vs, variant{Cfg: cfgFromBits(b), Rep: 1})
		}
		cold(0b0110)
		cold(0b1111)
	}
	// a snapshot node whose snapshot is still being generated when the block executes
	vs = append(vs, variant{Cfg: cfgFromBits(0b0010), Rep: 1, Generating: true})
	if r.Thorough() && seqLen <= 2 {
		vs = append(vs, variant{Cfg: cfgFromBits(0b0111), Rep: 1, Generating: true})
	}
	vs[0].Scratch = true // == refVariant
	return vs
}

// nodeFor builds a fresh node in the parent state of p, the way variant v says.
func nodeFor(p *prestate, v variant) (*node, error) {
	if v.Cold {
		im, err := p.imageFor(v.Cfg)
		if err != nil {
			return nil, err
		}
		db := memorydb.New()
		for _, kv := range im.kv {
			db.Put(kv[0], kv[1])
		}
		var n *node
		if v.Scratch {
			n, err = bootOn(db, v.Cfg, p.Kind) // a restart that is given the genesis document (backend.go does)
		} else {
			n, err = bootOnExisting(db, v.Cfg, p.Kind)
		}
		if err != nil {
			return nil, err
		}
		if n.bc.CurrentBlock().Height() != im.state.LastBlockHeight {
			n.close()
			return nil, fmt.Errorf("restarted node is at height %d, the stopped node was at %d", n.bc.CurrentBlock().Height(), im.state.LastBlockHeight)
		}
		// the consensus state a running node holds in memory (cstate persistence is C14's subject, not this check's)
		n.state = im.state.Copy()
		return n, nil
	}
	var n *node
	var err error
	if v.Scratch {
		n, err = boot(v.Cfg, p.Kind)
	} else {
		db := memorydb.New()
		for _, kv := range p.w.genesisDB {
			db.Put(kv[0], kv[1])
		}
		n, err = bootOnExisting(db, v.Cfg, p.Kind)
	}
	if err != nil {
		return nil, err
	}
	n.capEvery = v.CapEvery
	for _, b := range p.blocks {
		if o := n.receive(b); o.Err != "" {
			n.close()
			return nil, fmt.Errorf("parent block %d: %s", b.Height, o.Err)
		}
	}
	if v.Generating {
		if err := n.bc.VerifC06HoldSnapshotGeneration(); err != nil {
			n.close()
			return nil, fmt.Errorf("holding the snapshot generation: %v", err)
		}
		n.generating = true
	}
	return n, nil
}

func (p *prestate) prev() *wireBlock {
	if len(p.blocks) == 0 {
		return nil
	}
	return p.blocks[len(p.blocks)-1]
}

// execute runs block w on a fresh node of variant v.
func execute(p *prestate, v variant, w *wireBlock) *obs {
	n, err := nodeFor(p, v)
	if err != nil {
		return &obs{Err: "node construction: " + firstLine(err.Error())}
	}
	defer n.close()
	r.Add("evaluations", 1)
	return n.receive(w)
}

// ---------------------------------------------------------------------------------------------
// one case = one (parent state, template sequence)

type caseID struct {
	Sub     string   `json:"subcheck"`
	Kind    string   `json:"chain"`
	Pre     string   `json:"parent_state"`
	Seq     []string `json:"templates"`
	Axis    string   `json:"axis"`
	Field   string   `json:"field"`
	Variant *variant `json:"variant,omitempty"`
	// chains (subcheck "chain"): the template sequence of every block up to the failing one, and the variant
	Chain        [][]string    `json:"chain_blocks,omitempty"`
	ChainVariant *chainVariant `json:"chain_variant,omitempty"`
	Block        string        `json:"which_block"` // "enumerated" (template order) | "proposed" (what the pool produced)
	RefValue     string        `json:"reference_value"`
	GotValue     string        `json:"variant_value"`
}

type finding struct {
	axis, field, what string
	cid               caseID
	seqLen, idx       int
}

type proposal struct {
	poolVerdict []string
	wireP       *wireBlock
	obsP        *obs
	wireF       *wireBlock
	pOrder      []string
	err         string
}

// proposerPath: node P in the parent state, pool.AddLocal of every template transaction, CreateProposalBlock, apply on P.
// Also derives the ENUMERATED block F: P's header with the template transactions in template order.
func proposerPath(p *prestate, seq []int) (pr *proposal) {
	pr = &proposal{}
	defer func() {
		if x := recover(); x != nil {
			pr.err = "panic: " + firstLine(fmt.Sprint(x))
		}
	}()
	n, err := nodeFor(p, fastVariant)
	if err != nil {
		pr.err = "node construction: " + firstLine(err.Error())
		return pr
	}
	defer n.close()
	n.syncPool()
	txs := buildTxs(p.w, seq, p.base)
	for _, tx := range txs {
		if err := n.pool.AddLocal(tx); err != nil {
			pr.poolVerdict = append(pr.poolVerdict, err.Error())
		} else {
			pr.poolVerdict = append(pr.poolVerdict, "accepted")
		}
	}
	block, parts, err := n.propose(p.prev())
	if err != nil || block == nil {
		pr.err = fmt.Sprint("CreateProposalBlock: ", err)
		return pr
	}
	seen := n.seenCommit(block, parts)
	pr.wireP = toWire(block, parts, seen)
	byHash := map[common.Hash]string{}
	for i, tx := range txs {
		byHash[tx.Hash()] = alphabet[seq[i]].Name
	}
	for _, tx := range block.Transactions() {
		pr.pOrder = append(pr.pOrder, byHash[tx.Hash()])
	}
	// F: same header fields, every template transaction, template order; fresh transaction objects
	fresh := buildTxs(p.w, seq, p.base)
	hdr := block.Header()
	hdr.TxHash, hdr.NumTxs = common.Hash{}, 0
	fb := types.NewBlock(hdr, fresh, n.lastCommitFor(p.prev()), nil, trie.NewStackTrie(nil))
	fparts := fb.MakePartSet(types.BlockPartSizeBytes)
	if fb.Hash() == block.Hash() {
		pr.wireF = pr.wireP
	} else {
		pr.wireF = toWire(fb, fparts, n.seenCommit(fb, fparts))
	}
	r.Add("evaluations", 1)
	pr.obsP = n.applyBlock(block, parts, seen)
	return pr
}

type caseResult struct {
	ref      *obs
	refAt    time.Time
	findings []finding
	pr       *proposal
}

func describe(p *prestate, seq []int) string { return seqName(seq) + "@" + p.id() }

// confirmRuns re-executions of each side must agree before a difference is attributed to a configuration axis
// (a 50/50 map-order dependence survives that with probability 2^-(2*confirmRuns)).
const confirmRuns = 5

// localise re-executes to confirm a discrepancy and to name the axis.
func localise(p *prestate, w *wireBlock, ref *obs, v variant, o *obs) (axis, field, a, b string) {
	field, a, b = diff(ref, o)
	// Is each side a function of (block, parent state, configuration) at all? Re-execute both sides: a side whose
	// re-executions disagree is nondeterministic (axis "repetition") whatever the configuration.
	for k := 0; k < confirmRuns; k++ {
		if f, x, y := diff(ref, execute(p, refVariant, w)); f != "" {
			return "repetition", f, x, y
		}
	}
	for k := 0; k < confirmRuns; k++ {
		if f, x, y := diff(o, execute(p, v, w)); f != "" {
			return "repetition", f, x, y
		}
	}
	// both sides are reproducible and differ: the difference is caused by how the variant's node was made
	if v.Cfg == refVariant.Cfg && !v.Cold {
		if !v.Scratch {
			return "start-on-existing-genesis-db", field, a, b // reproducibly differs from a node that executed the genesis itself
		}
		return "repetition", field, a, b
	}
	if !v.Scratch && !v.Cold {
		og := execute(p, fastVariant, w)
		if f, _, _ := diff(ref, og); f != "" {
			return "start-on-existing-genesis-db", field, a, b
		}
	}
	if v.Cold {
		oc := execute(p, variant{Cfg: refVariant.Cfg, Cold: true, Scratch: v.Scratch}, w)
		if f, _, _ := diff(ref, oc); f != "" {
			return "cold-restart", field, a, b
		}
	}
	names := []string{"trie-dirty-disabled", "snapshot", "preimages", "prefetch"}
	var set, guilty []string
	bits := 0
	for bit := 0; bit < 4; bit++ {
		if axesBetween(refVariant.Cfg, v.Cfg) != "repetition" && cfgFromBits(1<<bit) == maskCfg(v.Cfg, bit) {
			bits |= 1 << bit
			set = append(set, names[bit])
		}
	}
	if len(set) == 0 {
		return "repetition", field, a, b // cold, reference configuration, and the cold reference run agreed: not reproducible
	}
	if len(set) > 1 {
		for bit := 0; bit < 4; bit++ {
			if bits&(1<<bit) == 0 {
				continue
			}
			os := execute(p, variant{Cfg: cfgFromBits(1 << bit), Cold: v.Cold, Scratch: v.Scratch, Generating: v.Generating}, w)
			if f, _, _ := diff(ref, os); f != "" {
				guilty = append(guilty, names[bit])
			}
		}
	}
	if len(guilty) == 0 {
		guilty = set
	}
	axis = strings.Join(guilty, "+")
	if v.Cold {
		axis += "+cold-restart"
	}
	if v.Generating {
		// the same configuration with the FINISHED snapshot agrees with the reference: the unfinished generation is needed
		if f, _, _ := diff(ref, execute(p, variant{Cfg: v.Cfg, Rep: v.Rep, Scratch: v.Scratch}, w)); f == "" {
			axis += "+snapshot-still-generating"
		}
	}
	return axis, field, a, b
}

// maskCfg keeps only axis `bit` of c.
func maskCfg(c cacheCfg, bit int) cacheCfg {
	switch bit {
	case 0:
		return cacheCfg{Archive: c.Archive}
	case 1:
		return cacheCfg{Snapshot: c.Snapshot}
	case 2:
		return cacheCfg{Preimages: c.Preimages}
	}
	return cacheCfg{NoPrefetch: c.NoPrefetch}
}

func runCase(p *prestate, seq []int, idx int, variants []variant) *caseResult {
	cr := &caseResult{}
	names := strings.Split(seqName(seq), ",")
	mk := func(axis, field, what string, v *variant, which, a, b string) {
		cr.findings = append(cr.findings, finding{axis: axis, field: field, what: what, seqLen: len(seq), idx: idx,
			cid: caseID{Sub: "block", Kind: p.Kind, Pre: p.Name, Seq: names, Axis: axis, Field: field, Variant: v, Block: which, RefValue: clip(a), GotValue: clip(b)}})
	}
	pr := proposerPath(p, seq)
	cr.pr = pr
	if pr.err != "" {
		mk("proposer-path", "proposal-failed", "the proposer path fails for "+describe(p, seq)+": "+pr.err, nil, "proposed", "", pr.err)
		return cr
	}
	// --- the enumerated block on every variant
	for i, v := range variants {
		v := v
		o := execute(p, v, pr.wireF)
		if i == 0 {
			cr.ref, cr.refAt = o, time.Now()
			if o.Err != "" {
				mk("receiver-path", "block-rejected", fmt.Sprintf("a fresh node rejects block [%s]: %s", describe(p, seq), o.Err), &v, "enumerated", "", o.Err)
				return cr
			}
			continue
		}
		if f, _, _ := diff(cr.ref, o); f != "" {
			axis, field, a, b := localise(p, pr.wireF, cr.ref, v, o)
			mk(axis, field, fmt.Sprintf("block [%s] executed on two fresh nodes in the same parent state gives different %s (axis %s; variant %s): %s vs %s",
				describe(p, seq), field, axis, v, clip(a), clip(b)), &v, "enumerated", a, b)
		}
	}
	// --- proposer vs receiver
	if pr.obsP.Err != "" {
		mk("proposer-vs-receiver", "proposer-cannot-apply-own-block", fmt.Sprintf("the proposer cannot apply its own block [%s]: %s", describe(p, seq), pr.obsP.Err), nil, "proposed", "", pr.obsP.Err)
		return cr
	}
	recv := cr.ref
	if pr.wireP.Hash != pr.wireF.Hash {
		recv = execute(p, fastVariant, pr.wireP)
		r.Add("proposed_block_differs_from_enumerated", 1)
	}
	if recv.Err != "" {
		mk("proposer-vs-receiver", "block-rejected", fmt.Sprintf("the block a correct proposer built from the pool for [%s] (transactions %v) is rejected by a fresh validator: %s",
			describe(p, seq), pr.pOrder, recv.Err), nil, "proposed", "", recv.Err)
	} else if f, a, b := diff(pr.obsP, recv); f != "" {
		// confirm: receivers must agree among themselves, and fresh proposers must disagree with receivers of THEIR block again
		axis := "proposer-vs-receiver"
		for k := 0; k < confirmRuns && axis != "repetition"; k++ {
			if f2, _, _ := diff(recv, execute(p, fastVariant, pr.wireP)); f2 != "" {
				axis, f = "repetition", f2
			}
		}
		for k := 0; k < confirmRuns && axis != "repetition"; k++ {
			pr2 := proposerPath(p, seq)
			if pr2.err != "" || pr2.obsP.Err != "" {
				continue
			}
			if f2, _, _ := diff(pr2.obsP, execute(p, fastVariant, pr2.wireP)); f2 == "" {
				axis = "repetition" // this proposer agrees with its receiver: the disagreement is not tied to the path
			}
		}
		mk(axis, f, fmt.Sprintf("the proposer of block [%s] (transactions %v) and a validator that received it end in different %s: %s vs %s", describe(p, seq), pr.pOrder, f, clip(a), clip(b)),
			nil, "proposed", a, b)
	}
	return cr
}

func workerProcs() int {
	if n := runtime.NumCPU() / 4; n > 2 {
		return n
	}
	return 2
}

func clip(s string) string {
	if len(s) > 300 {
		return s[:300] + "..."
	}
	return s
}

// ---------------------------------------------------------------------------------------------
// enumeration

type job struct {
	p   *prestate
	seq []int
}

// length-3 blocks are enumerated over this core of the alphabet (near-duplicates of the other templates dropped)
// on the two parent states in which the contract exists; blocks of <= 2 transactions use the whole alphabet on
// every parent state.
var coreNames = []string{"xferA", "poorA", "lowA", "highB", "mkA", "mkRevB", "setB", "clrA", "revB", "killA", "stakeA", "newValB", "startB", "exitV3"}

func enumerate(pres []*prestate, maxLen int) []job {
	var jobs []job
	var core []int
	for _, nm := range coreNames {
		for i, t := range alphabet {
			if t.Name == nm {
				core = append(core, i)
			}
		}
	}
	if len(core) != len(coreNames) {
		fatal("core alphabet names a template that does not exist")
	}
	var full []int
	for i, t := range alphabet {
		if !t.ChainOnly {
			full = append(full, i)
		}
	}
	for l := 0; l <= maxLen; l++ {
		letters := full
		if l >= 3 {
			letters = core
		}
		var seqs [][]int
		var rec func(cur []int)
		rec = func(cur []int) {
			if len(cur) == l {
				seqs = append(seqs, append([]int{}, cur...))
				return
			}
			for _, t := range letters {
				rec(append(cur, t))
			}
		}
		rec(nil)
		for _, s := range seqs {
			for _, p := range pres {
				if l >= 3 && p.Name == "genesis" {
					continue // length 3 only on the parent states in which the contract exists
				}
				jobs = append(jobs, job{p, s})
			}
		}
	}
	return jobs
}

func kindsAndPrestates() []*prestate {
	all := buildPrestates([]string{"legacy", "galaxias"})
	var use []*prestate
	for _, p := range all {
		// legacy chain: genesis and deployed; galaxias chain (fork at block 1): the block AFTER the fork block,
		// built by the pre-executing proposer; thorough additionally executes the fork block itself
		if p.Kind == "galaxias" && p.Name == "genesis" && !r.Thorough() {
			continue
		}
		use = append(use, p)
	}
	return use
}

// outcome of template i of a sequence in observation o
func outcomes(p *prestate, seq []int, o *obs) []string {
	txs := buildTxs(p.w, seq, p.base)
	out := make([]string, len(seq))
	for i, tx := range txs {
		h := tx.Hash().Hex()
		out[i] = "?"
		for _, rc := range o.Receipts {
			if rc.TxHash == h {
				if rc.Status == 1 {
					out[i] = "ok"
				} else {
					out[i] = "failed"
				}
			}
		}
		for k, s := range o.Skipped {
			if s == h {
				out[i] = "skipped:" + o.SkipWhy[k]
			}
		}
	}
	return out
}

func workerMain() {
	// worker process: reference execution of every case, digests to a file; no evidence, no verdict
	sig := make(chan os.Signal, 1)
	signal.Notify(sig, syscall.SIGTERM)
	go func() { <-sig; fmt.Println("worker: SIGTERM"); os.Exit(3) }()
	pres := kindsAndPrestates()
	jobs := enumerate(pres, *workerMaxLen)
	lines := make([]string, len(jobs))
	par.For(int64(len(jobs)), 1, nil, func(i int64) {
		j := jobs[i]
		pr := proposerPath(j.p, j.seq)
		if pr.err != "" {
			lines[i] = fmt.Sprintf("%s|%s|proposer-error|%s", j.p.id(), seqName(j.seq), pr.err)
			return
		}
		o := execute(j.p, refVariant, pr.wireF)
		lines[i] = fmt.Sprintf("%s|%s|%s|%s|%s", j.p.id(), seqName(j.seq), pr.wireF.Hash.Hex(), o.digest(), o.Err)
	})
	cjobs := enumerateChains(chainPrestates(), 2)
	clines := make([]string, len(cjobs))
	par.For(int64(len(cjobs)), 1, nil, func(i int64) {
		j := cjobs[i]
		bc := buildChain(j)
		if bc.err != "" {
			clines[i] = fmt.Sprintf("chain:%s|%s|proposer-error|%s", j.p.id(), chainName(j.blocks), bc.err)
			return
		}
		var hs, ds []string
		for k, o := range runChain(j.p, bc.wires, refChainVariant) {
			hs = append(hs, bc.wires[k].Hash.Hex())
			ds = append(ds, o.digest())
		}
		clines[i] = fmt.Sprintf("chain:%s|%s|%s|%s|", j.p.id(), chainName(j.blocks), strings.Join(hs, ","), strings.Join(ds, ","))
	})
	lines = append(lines, clines...)
	f, err := os.Create(*workerOut)
	if err != nil {
		fatal(err)
	}
	bw := bufio.NewWriter(f)
	for _, l := range lines {
		fmt.Fprintln(bw, l)
	}
	bw.Flush()
	f.Close()
	os.Exit(0)
}

func main() {
	r = report.New("C06", "exploration")
	if *workerOut != "" {
		workerMain()
	}
	if r.ReplayPath != "" {
		replay()
	}
	maxLen := 2
	dl := 75 * time.Second
	if r.Thorough() {
		maxLen, dl = 3, 14*time.Minute
	}
	r.SetDeadline(dl)

	// worker processes (thorough): started first, compared at the end
	type wproc struct {
		cmd  *exec.Cmd
		path string
	}
	var workers []wproc
	if r.Thorough() {
		for k := 0; k < 3; k++ {
			path := fmt.Sprintf("/dev/shm/verif-c06-%d-w%d.txt", os.Getpid(), k)
			if _, err := os.Stat("/dev/shm"); err != nil {
				path = fmt.Sprintf("%s/verif-c06-%d-w%d.txt", os.TempDir(), os.Getpid(), k)
			}
			cmd := exec.Command(os.Args[0], "-tier", "thorough", "-no-evidence", "-c06worker", path, "-c06maxlen", "2")
			cmd.Env = append(os.Environ(), fmt.Sprintf("GOMAXPROCS=%d", workerProcs()), "VERIF_NOEVIDENCE=1")
			cmd.Stdout, cmd.Stderr = os.Stderr, os.Stderr
			if err := cmd.Start(); err != nil {
				fatal("cannot start worker process:", err)
			}
			workers = append(workers, wproc{cmd, path})
		}
	}

	// 1. validator-report order sub-check (pure, fast)
	runValidatorReports()

	// 2. chains of consecutive blocks on the parent states whose contract is part of the genesis allocation
	chainBlocks := 2
	if r.Thorough() {
		chainBlocks = 3
	}
	cpres := chainPrestates()
	cjobs := enumerateChains(cpres, 0)
	cresults := make([]*chainResult, len(cjobs))
	cvariantsOf := map[string][]chainVariant{}
	nChainVariants := map[string]int{}
	for _, p := range cpres {
		for _, fam := range chainFamiliesFor(p) {
			k := fmt.Sprintf("%s/%d-blocks", p.id(), fam.n)
			cvariantsOf[k] = chainVariantsFor(p, fam.n)
			nChainVariants[k] = len(cvariantsOf[k])
		}
	}
	var recreatedInBlock, revertedResurrection int64
	var recreated int64
	var cmu sync.Mutex
	var clearThenRead, readOK int64
	cdone := par.For(int64(len(cjobs)), 1, r.Expired, func(i int64) {
		j := cjobs[i]
		cvariants := cvariantsOf[fmt.Sprintf("%s/%d-blocks", j.p.id(), len(j.blocks))]
		cr := runChainCase(j, int(i), cvariants)
		cresults[i] = cr
		r.Add("chains", 1)
		if len(cr.ref) != len(j.blocks) {
			return
		}
		// measured: which chains clear a non-zero slot 1 of the genesis contract in one block and read it in a later one
		nontrivial := false
		was, cleared, ctr := "1234", -1, false
		for k, b := range j.blocks {
			o := cr.ref[k]
			for _, rc := range o.Receipts {
				if rc.Status == 1 {
					nontrivial = true
				}
			}
			now := slot1Of(o)
			nm := seqName(b)
			if cleared >= 0 && (nm == "setB" || nm == "readB") && len(o.Receipts) == 1 && o.Receipts[0].Status == 1 {
				ctr = true
			}
			if nm == "readB" && len(o.Receipts) == 1 && o.Receipts[0].Status == 1 {
				cmu.Lock()
				readOK++
				cmu.Unlock()
			}
			if was != "0" && now == "0" && nm == "clrA" {
				cleared = k
			} else if now != "0" {
				cleared = -1
			}
			was = now
		}
		if ctr {
			cmu.Lock()
			clearThenRead++
			cmu.Unlock()
		}
		// measured: the contract self-destructed in one block and was re-created at the SAME address by a later one
		killed := false
		for k, b := range j.blocks {
			o := cr.ref[k]
			ok := len(o.Receipts) == 1 && o.Receipts[0].Status == 1
			switch nm := seqName(b); {
			case nm == "killA" && ok && strings.HasPrefix(o.ReadBack, "exists=false"):
				killed = true
			case nm == "mk2B" && ok && killed && strings.HasPrefix(o.ReadBack, "exists=true"):
				cmu.Lock()
				recreated++
				cmu.Unlock()
				killed = false
			}
		}
		// measured: ONE block destructs the contract and re-funds / re-creates the same address (both receipts successful, the
		// address exists afterwards), and a LATER block pays it directly or through the forwarder
		both, undone := false, false
		for k, b := range j.blocks {
			o := cr.ref[k]
			nm := seqName(b)
			allOK := len(o.Receipts) == len(b)
			for _, rc := range o.Receipts {
				allOK = allOK && rc.Status == 1
			}
			if (nm == "killA,rvA" || nm == "killA,oogA") && len(o.Receipts) == 2 && o.Receipts[0].Status == 1 && o.Receipts[1].Status == 0 && strings.HasPrefix(o.ReadBack, "exists=false") {
				undone = true
			} else if undone && (nm == "payA" || nm == "fwdA" || nm == "mk2B") && allOK {
				cmu.Lock()
				revertedResurrection++
				cmu.Unlock()
				undone = false
			}
			switch {
			case (nm == "killA,payA" || nm == "killA,mk2B") && allOK && strings.HasPrefix(o.ReadBack, "exists=true"):
				both = true
			case both && (nm == "payA" || nm == "fwdA") && allOK:
				cmu.Lock()
				recreatedInBlock++
				cmu.Unlock()
				both = false
			}
		}
		if nontrivial {
			r.Distinct("distinct_nontrivial", "chain:"+j.describe(len(j.blocks)-1))
		}
		if r.WantSample() && chainName(j.blocks) == "clrA/readB" {
			var rb []string
			for _, o := range cr.ref {
				rb = append(rb, o.ReadBack)
			}
			r.Sample(map[string]interface{}{"chain": chainName(j.blocks), "parent_state": j.p.id(), "variants_executed": len(cvariants),
				"contract_read_back_after_each_block": rb, "app_hash_after_each_block": []string{cr.ref[0].AppHash, cr.ref[1].AppHash}})
		}
	})
	r.Set("chain_blocks", chainBlocks)
	r.Set("snapshot_flattenings", flattenings.Load())
	r.Set("chain_variants", nChainVariants)
	r.Set("chains_recreating_the_contract_at_the_same_address_after_selfdestruct", recreated)
	r.Set("chains_destructing_and_recreating_in_one_block_then_paying_the_address", recreatedInBlock)
	r.Set("chains_with_a_reverted_value_call_to_the_destructed_contract_then_touching_it", revertedResurrection)
	r.Set("chains_clearing_a_genesis_slot_then_reading_it", clearThenRead)

	// 3. blocks
	pres := kindsAndPrestates()
	jobs := enumerate(pres, maxLen)
	results := make([]*caseResult, len(jobs))
	var mu sync.Mutex
	seenOutcome := map[string]map[string]bool{}
	skipReasons := map[string]bool{}
	appHashes := map[string]bool{}
	var grew, shrank, repowered, pDiffers int64
	done := par.For(int64(len(jobs)), 1, r.Expired, func(i int64) {
		j := jobs[i]
		vs := variantsFor(j.p, len(j.seq))
		cr := runCase(j.p, j.seq, int(i), vs)
		results[i] = cr
		r.Add("blocks", 1)
		if cr.ref == nil || cr.ref.Err != "" {
			return
		}
		oc := outcomes(j.p, j.seq, cr.ref)
		okOrSkipped := false
		mu.Lock()
		for k, t := range j.seq {
			nm := alphabet[t].Name
			if seenOutcome[nm] == nil {
				seenOutcome[nm] = map[string]bool{}
			}
			cls := oc[k]
			if strings.HasPrefix(cls, "skipped:") {
				skipReasons[strings.TrimPrefix(cls, "skipped:")] = true
				cls = "skipped"
				okOrSkipped = true
			}
			if cls == "ok" {
				okOrSkipped = true
			}
			seenOutcome[nm][cls] = true
		}
		appHashes[cr.ref.AppHash] = true
		cur, nxt := len(cr.ref.Validators.Vals), len(cr.ref.NextVals.Vals)
		switch {
		case nxt > cur:
			grew++
		case nxt < cur:
			shrank++
		case cr.ref.NextVals.Hash != cr.ref.Validators.Hash:
			repowered++
		}
		if cr.pr != nil && cr.pr.wireP != nil && cr.pr.wireP.Hash != cr.pr.wireF.Hash {
			pDiffers++
		}
		mu.Unlock()
		if okOrSkipped {
			r.Distinct("distinct_nontrivial", describe(j.p, j.seq))
		}
		if r.WantSample() && len(j.seq) == 2 && (strings.Contains(seqName(j.seq), "stakeA") || strings.Contains(seqName(j.seq), "poorA")) {
			r.Sample(map[string]interface{}{"chain": j.p.Kind, "parent_state": j.p.Name, "templates": strings.Split(seqName(j.seq), ","),
				"pool_verdicts": cr.pr.poolVerdict, "proposed_block_order": cr.pr.pOrder, "outcomes_in_enumerated_block": oc,
				"variants_executed": len(vs), "observation": cr.ref})
		}
	})
	exhaustive := done == int64(len(jobs))

	// 3. delayed repetition: every block of <= 1 transaction once more, at least 1.1 s after its reference execution
	// (anything that reads the wall clock at second granularity shows only now)
	var delayed int
	for i, j := range jobs {
		if len(j.seq) > 1 || results[i] == nil || results[i].ref == nil || results[i].ref.Err != "" || results[i].pr.wireF == nil {
			continue
		}
		if w := 1100*time.Millisecond - time.Since(results[i].refAt); w > 0 {
			time.Sleep(w)
		}
		o := execute(j.p, refVariant, results[i].pr.wireF)
		delayed++
		if f, a, b := diff(results[i].ref, o); f != "" {
			// confirm: more late executions must agree with the first late one (else it is not the clock but chance)
			axis := "repetition-after-one-second"
			for k := 0; k < confirmRuns; k++ {
				if f2, _, _ := diff(o, execute(j.p, refVariant, results[i].pr.wireF)); f2 != "" {
					axis = "repetition"
				}
			}
			names := strings.Split(seqName(j.seq), ",")
			v := refVariant
			results[i].findings = append(results[i].findings, finding{axis: axis, field: f, seqLen: len(j.seq), idx: i,
				what: fmt.Sprintf("block [%s] executed again on a fresh node more than one second later gives different %s: %s vs %s", describe(j.p, j.seq), f, clip(a), clip(b)),
				cid:  caseID{Sub: "block", Kind: j.p.Kind, Pre: j.p.Name, Seq: names, Axis: axis, Field: f, Variant: &v, Block: "enumerated", RefValue: clip(a), GotValue: clip(b)}})
		}
	}
	r.Set("delayed_repetitions", delayed)

	// 4. worker processes
	if len(workers) > 0 {
		idxOf := map[string]int{}
		for i, j := range jobs {
			idxOf[j.p.id()+"|"+seqName(j.seq)] = i
		}
		// the workers run the 2-block chains; in the thorough tier the parent's chains have 3 blocks: compare with the
		// parent's chain whose first two blocks are the worker's and whose last block is empty
		cidxOf := map[string]int{}
		for i, j := range cjobs {
			if len(j.blocks) == 2 || len(j.blocks[2]) == 0 {
				cidxOf[j.p.id()+"|"+chainName(j.blocks[:2])] = i
			}
		}
		compared := 0
		for k, w := range workers {
			err := w.cmd.Wait()
			b, rerr := os.ReadFile(w.path)
			os.Remove(w.path)
			if err != nil || rerr != nil {
				fatal(fmt.Sprintf("worker process %d failed: %v %v", k, err, rerr))
			}
			for _, line := range strings.Split(strings.TrimSpace(string(b)), "\n") {
				f := strings.SplitN(line, "|", 5)
				if len(f) < 4 {
					continue
				}
				if strings.HasPrefix(f[0], "chain:") {
					ci, ok := cidxOf[strings.TrimPrefix(f[0], "chain:")+"|"+f[1]]
					if !ok || cresults[ci] == nil || cresults[ci].built == nil || len(cresults[ci].ref) < 2 {
						continue
					}
					cj := cjobs[ci]
					var hs, ds []string
					for k := 0; k < 2; k++ {
						hs = append(hs, cresults[ci].built.wires[k].Hash.Hex())
						ds = append(ds, cresults[ci].ref[k].digest())
					}
					var field, a, b string
					switch {
					case f[2] == "proposer-error":
						field, a, b = "proposal-failed", "", f[3]
					case f[2] != strings.Join(hs, ","):
						field, a, b = "enumerated-block-hash", strings.Join(hs, ","), f[2]
					case f[3] != strings.Join(ds, ","):
						field, a, b = "result-digest", strings.Join(ds, ","), f[3]
					}
					compared++
					if field != "" {
						var nm [][]string
						for _, bl := range cj.blocks[:2] {
							nm = append(nm, strings.Split(seqName(bl), ","))
						}
						cresults[ci].findings = append(cresults[ci].findings, finding{axis: "process", field: field, seqLen: 200, idx: ci,
							what: fmt.Sprintf("the chain [%s] executed in another process of the same binary gives a different %s: %s vs %s", cj.describe(1), field, a, b),
							cid:  caseID{Sub: "chain", Kind: cj.p.Kind, Pre: cj.p.Name, Chain: nm, Seq: []string{chainName(cj.blocks[:2])}, Axis: "process", Field: field, RefValue: a, GotValue: b}})
					}
					continue
				}
				i, ok := idxOf[f[0]+"|"+f[1]]
				if !ok || results[i] == nil || results[i].ref == nil || results[i].pr == nil || results[i].pr.wireF == nil {
					continue
				}
				j := jobs[i]
				names := strings.Split(seqName(j.seq), ",")
				var field, a, b string
				switch {
				case f[2] == "proposer-error":
					field, a, b = "proposal-failed", "", f[3]
				case f[2] != results[i].pr.wireF.Hash.Hex():
					field, a, b = "enumerated-block-hash", results[i].pr.wireF.Hash.Hex(), f[2]
				case f[3] != results[i].ref.digest():
					field, a, b = "result-digest", results[i].ref.digest(), f[3]
				}
				compared++
				if field != "" {
					results[i].findings = append(results[i].findings, finding{axis: "process", field: field, seqLen: len(j.seq), idx: i,
						what: fmt.Sprintf("block [%s] executed in another process of the same binary gives a different %s: %s vs %s", describe(j.p, j.seq), field, a, b),
						cid:  caseID{Sub: "block", Kind: j.p.Kind, Pre: j.p.Name, Seq: names, Axis: "process", Field: field, Block: "enumerated", RefValue: a, GotValue: b}})
				}
			}
		}
		r.Set("worker_processes", len(workers))
		r.Set("cross_process_comparisons", compared)
		r.Require(compared > 0, "no cross-process comparison took place")
	}

	// 5. report: one signature per (axis, field), canonicalised to the shortest failing block
	best := map[string]finding{}
	count := map[string]int{}
	var allFindings []finding
	for _, cr := range results {
		if cr != nil {
			allFindings = append(allFindings, cr.findings...)
		}
	}
	for _, cr := range cresults {
		if cr != nil {
			allFindings = append(allFindings, cr.findings...)
		}
	}
	for _, f := range allFindings {
		k := f.axis + "|" + f.field
		count[k]++
		if b, ok := best[k]; !ok || f.seqLen < b.seqLen || (f.seqLen == b.seqLen && f.idx < b.idx) {
			best[k] = f
		}
	}
	var keys []string
	for k := range best {
		keys = append(keys, k)
	}
	sort.Strings(keys)
	for _, k := range keys {
		f := best[k]
		sig := fmt.Sprintf("C06|block=%s@%s-%s|axis=%s|field=%s", strings.Join(f.cid.Seq, ","), f.cid.Kind, f.cid.Pre, f.axis, f.field)
		r.Violation(sig, fmt.Sprintf("%s [%d enumerated blocks/chains show this axis/field]", f.what, count[k]), f.cid)
	}

	// 6. coverage, vacuity guards
	exhaustive = exhaustive && cdone == int64(len(cjobs))
	if exhaustive {
		r.Exhaustive(true)
	} else {
		r.NotExhaustive(fmt.Sprintf("deadline: %d of %d chains and %d of %d enumerated blocks executed (shortest first)", cdone, len(cjobs), done, len(jobs)))
	}
	var cpn []string
	for _, p := range cpres {
		cpn = append(cpn, p.id())
	}
	r.Set("chain_parent_states", cpn)
	var pn []string
	for _, p := range pres {
		pn = append(pn, p.id())
	}
	r.Set("parent_states", pn)
	r.Set("executions_with_snapshot_still_generating", generatingExecs.Load())
	r.Set("account_reads_answered_not_covered_yet", notCoveredProbes.Load())
	nMain := 0
	for _, t := range alphabet {
		if !t.ChainOnly {
			nMain++
		}
	}
	r.Set("alphabet", nMain)
	r.Set("max_block_len", maxLen)
	r.Set("distinct_app_hashes", len(appHashes))
	r.Set("blocks_validator_set_grew", grew)
	r.Set("blocks_validator_set_shrank", shrank)
	r.Set("blocks_validator_repowered", repowered)
	var sr []string
	for k := range skipReasons {
		sr = append(sr, k)
	}
	sort.Strings(sr)
	r.Set("skip_reasons_seen", sr)
	lenRule := ""
	if maxLen >= 3 {
		lenRule = " (length 3: over the " + fmt.Sprint(len(coreNames)) + "-template core " + strings.Join(coreNames, ",") + ", on the two deployed parent states only)"
	}
	r.Set("rule", "blocks = every sequence of <= "+fmt.Sprint(maxLen)+" transaction templates over the "+fmt.Sprint(nMain)+"-template alphabet (txs.go)"+lenRule+" x parent states "+strings.Join(pn, ", ")+
		"; the enumerated block carries the template transactions in template order on the header the real proposer produced; every block is executed by ApplyBlock on fresh real node stacks under the variants "+
		"{cache configuration} x {repetition} x {warm, cold restart} and once through the proposer path; evaluations = executions of the block under test by BlockExecutor.ApplyBlock (validator_report_evaluations are counted separately); "+
		"distinct_nontrivial = distinct (template sequence, parent state) whose reference execution executed >= 1 transaction successfully or skipped >= 1 transaction (measured from receipts); "+
		"chains = every sequence of "+fmt.Sprint(chainBlocks)+" consecutive blocks, each holding <= 1 transaction of {(empty), "+strings.Join(chainLetterNames[1:], ", ")+"}, on the parent states "+strings.Join(cpn, ", ")+
		" (the +factory parent states: every sequence of 2 blocks over the block letters {"+strings.Join(recreateLetters, " | ")+"}, where 'killA,payA' and 'killA,mk2B' are blocks of TWO transactions that destruct the contract and re-fund / re-create the same address within one block, "+
		"'killA,rvA' and 'killA,oogA' destruct it and then have a reverter contract CALL the address with value and REVERT / run out of gas in a later transaction of the same block, "+
		"payA pays the address directly and fwdA through a forwarder contract (CALL with value, then BALANCE and EXTCODESIZE); thorough additionally every 3-block sequence over {(empty), setB, clrA, readB, killA, mk2B})"+
		" whose multi-purpose contract is part of the GENESIS allocation with non-zero values in slots 1..5 (resident in the snapshot disk layer), built block after block through the real proposer path, executed on fresh nodes under "+
		fmt.Sprint(nChainVariants)+" variants {cache configuration} x {repetition} x {no restart, clean restart between blocks, restart that enables snapshots (snapshot regenerated from the head state)} x "+
		"{snapshot layers as they come, all diff layers merged into the disk layer after every block (Tree.Cap(root,0)) on a long-running node} and compared field by field after EVERY block, "+
		"on the +factory parent states (a CREATE2 factory in the genesis allocation; parent block 1 creates the contract through it) additionally the template mk2B that RE-CREATES the contract at the same address after a self-destruct (its constructor reads slot 1 before anything is written), "+
		"including the contract's account and slots 1..5 read back through BlockChain.State() (field state-read-back); a chain is non-trivial if some block executed a transaction successfully; "+
		"every single block and every chain is additionally executed by a snapshot node whose snapshot is STILL BEING GENERATED (generator held at its first step, empty generation marker: every disk-layer read answers ErrNotCoveredYet; measured before and after each execution); "+
		"validator reports: every permutation of every report of <= 4 of 5 addresses x {absent, power 0, same power, other power} on 5 base sets")
	r.Assume("Go's per-iteration map-order randomisation cannot be enumerated: it is exercised by the repetitions (>= 3 fresh executions per configuration, >= 12 per block) and by separate processes (thorough), not exhausted",
		"TrieCleanNoPrefetch is carried through the enumeration but at this commit nothing in the block path consults it (StateDB.StartPrefetcher is never called): that axis cannot differ by construction",
		"validator reports contain each address at most once (the staking contract's valSets holds each validator once); a report with a duplicated address IS order dependent in calculateValidatorSetUpdates and is excluded",
		"cold restarts are handed the consensus state the stopped node held in memory: persistence of LatestBlockState is C14's subject",
		"blocks are signed by all genesis validators with vote times that are a function of the height; block time is the median of those",
		"the proposer's choice of transaction order (TxPool.Pending iterates a map) is the proposer's freedom, not a result: compared is what every node makes of one given block",
		"memorydb stands in for LevelDB; SnapshotWait=true (snapshot generation finishes before the first block)",
		"snapshot diff layers are never flattened to disk by age in this space (that needs > 128 blocks AND > 4 MB of accumulated diffs, and heights >= 50 make tx_pool.UpdateBlacklist issue HTTP requests): values reach the snapshot's disk layer through the genesis allocation and through restarts that regenerate the snapshot from the head state")
	if exhaustive {
		r.Require(clearThenRead > 0, "no chain cleared a non-zero genesis slot in one block and read it in a later block")
		r.Require(readOK > 0, "template readB never executed successfully in a chain")
		r.Require(recreated > 0, "no chain re-created the contract at the same address after a self-destruct")
		r.Require(generatingExecs.Load() > 0 && notCoveredProbes.Load() > 0, fmt.Sprintf("no block was executed while the snapshot was still being generated (executions with genMarker != nil: %d, account reads answered ErrNotCoveredYet: %d)", generatingExecs.Load(), notCoveredProbes.Load()))
		r.Require(generatingBroken.Load() == 0, fmt.Sprintf("%d executions of a 'snapshot still generating' node found the generation finished or the probe covered", generatingBroken.Load()))
		r.Require(revertedResurrection > 0, "no chain had the contract self-destruct, a later transaction of the same block CALL it with value and revert (receipt failed, address gone afterwards), and a later block touch the address")
		r.Require(recreatedInBlock > 0, "no chain destructed and re-funded/re-created the contract's address within one block and paid it in a later block")
		r.Require(flattenings.Load() > 0, "the snapshot was never flattened to disk (Tree.Cap(root, 0) never succeeded)")
		for _, t := range alphabet {
			if t.ChainOnly {
				continue
			}
			want := t.Want
			switch want {
			case "kind":
				r.Require(seenOutcome[t.Name]["skipped"] && seenOutcome[t.Name]["ok"], "template xferProtB was not both skipped (legacy signer) and executed (galaxias signer)")
				continue
			case "dep":
				want = "ok"
			}
			r.Require(seenOutcome[t.Name][want], fmt.Sprintf("template %s never had its designed outcome %q (seen %v)", t.Name, want, seenOutcome[t.Name]))
		}
		for _, why := range []string{"nonce too low", "nonce too high", "insufficient funds", "gas limit reached", "invalid"} {
			found := false
			for k := range skipReasons {
				if strings.Contains(k, why) {
					found = true
				}
			}
			r.Require(found, "no transaction was skipped for reason: "+why)
		}
		r.Require(grew > 0 && shrank > 0 && repowered > 0, fmt.Sprintf("validator-set updates not exercised by blocks: grew=%d shrank=%d repowered=%d", grew, shrank, repowered))
		r.Require(pDiffers > 0, "the proposer never built a block different from the enumerated one")
		r.Require(len(appHashes) >= 100, fmt.Sprintf("only %d distinct application hashes: the templates do not change state", len(appHashes)))
	}
	r.Finish()
}

// ---------------------------------------------------------------------------------------------
// replay

func replay() {
	var probe struct {
		Sub string `json:"subcheck"`
	}
	if err := r.LoadReplay(&probe); err != nil {
		fatal("cannot load replay:", err)
	}
	if probe.Sub == "validator-report-order" {
		var c vrCase
		r.LoadReplay(&c)
		if replayValidatorReport(c) {
			fmt.Printf("VIOLATION property=C06 replay=%s\n", r.ReplayPath)
			os.Exit(1)
		}
		fmt.Println("no oracle fails on this case")
		os.Exit(0)
	}
	var c caseID
	if err := r.LoadReplay(&c); err != nil {
		fatal("cannot load replay:", err)
	}
	if c.Sub == "chain" {
		if replayChain(c) {
			fmt.Printf("VIOLATION property=C06 replay=%s\n", r.ReplayPath)
			os.Exit(1)
		}
		fmt.Println("no oracle fails on this case")
		os.Exit(0)
	}
	pres := buildPrestates([]string{c.Kind})
	var p *prestate
	for _, q := range pres {
		if q.Name == c.Pre {
			p = q
		}
	}
	if p == nil {
		fatal("unknown parent state", c.Pre)
	}
	var seq []int
	for _, nm := range c.Seq {
		if nm == "(empty)" {
			continue
		}
		found := false
		for i, t := range alphabet {
			if t.Name == nm {
				seq = append(seq, i)
				found = true
			}
		}
		if !found {
			fatal("unknown template", nm)
		}
	}
	fmt.Printf("replaying block [%s]: recorded axis=%s field=%s\n", describe(p, seq), c.Axis, c.Field)
	// thorough variant set (superset), plus the recorded variant
	all := make([]int, 16)
	for i := range all {
		all[i] = i
	}
	var vs []variant
	for _, b := range all {
		for k := 0; k < 3; k++ {
			vs = append(vs, variant{Cfg: cfgFromBits(b), Rep: k})
		}
		if len(p.blocks) > 0 {
			vs = append(vs, variant{Cfg: cfgFromBits(b), Cold: true, Scratch: b == 0 || b == 0b0110})
		}
	}
	vs[0].Scratch = true
	vs = append(vs, variant{Cfg: cfgFromBits(0b0010), Rep: 1, Generating: true}, variant{Cfg: cfgFromBits(0b0111), Rep: 1, Generating: true})
	cr := runCase(p, seq, 0, vs)
	if cr.pr != nil {
		fmt.Printf("  pool verdicts: %v ; proposed block order: %v\n", cr.pr.poolVerdict, cr.pr.pOrder)
	}
	if cr.ref != nil && cr.ref.Err == "" {
		fmt.Printf("  reference: app hash %s, %d receipts, %d skipped, gas %d, reported %v\n", cr.ref.AppHash, len(cr.ref.Receipts), len(cr.ref.Skipped), cr.ref.GasUsed, cr.ref.Reported)
		if c.Axis == "repetition-after-one-second" {
			if w := 1100*time.Millisecond - time.Since(cr.refAt); w > 0 {
				time.Sleep(w)
			}
			o := execute(p, refVariant, cr.pr.wireF)
			if f, a, b := diff(cr.ref, o); f != "" {
				cr.findings = append(cr.findings, finding{axis: c.Axis, field: f, what: fmt.Sprintf("a later execution differs in %s: %s vs %s", f, clip(a), clip(b))})
			}
		}
	}
	for _, f := range cr.findings {
		fmt.Printf("  axis=%s field=%s: %s\n", f.axis, f.field, f.what)
	}
	if len(cr.findings) > 0 {
		fmt.Printf("VIOLATION property=C06 replay=%s\n", r.ReplayPath)
		os.Exit(1)
	}
	fmt.Println("no oracle fails on this case")
	os.Exit(0)
}
