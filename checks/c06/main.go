package main

import (
	"fmt"
	"os"
	"time"

	"github.com/kardiachain/go-kardia/kvm"
	"github.com/kardiachain/go-kardia/lib/common"
	"github.com/kardiachain/go-kardia/lib/crypto"
	"github.com/kardiachain/go-kardia/mainchain/staking"
	"github.com/kardiachain/go-kardia/types"
)

func newWorld(kind string) *world {
	w := &world{kind: kind}
	n, err := boot(cfgFromBits(0), kind)
	if err != nil {
		fmt.Println("MACHINERY-ERROR: boot:", err)
		os.Exit(2)
	}
	defer n.close()
	w.chainID = n.bc.Config().ChainID
	w.X = crypto.CreateAddress(addrA, 0)
	su, _ := staking.NewSmcStakingUtil()
	vu, _ := staking.NewSmcValidatorUtil()
	w.valAbi, w.stakeAbi = vu.Abi, su.Abi
	st, err := n.bc.State()
	if err != nil {
		panic(err)
	}
	for i := range valKeys {
		a, err := su.GetValFromOwner(st, n.bc.CurrentBlock().Header(), n.bc, kvm.Config{}, valAddr(i))
		if err != nil || (a == common.Address{}) {
			panic(fmt.Sprint("validator contract of genesis validator ", i, ": ", a, err))
		}
		w.ValSmc[i] = a
	}
	return w
}

func main() {
	kind := "galaxias"
	w := newWorld(kind)
	n, err := boot(cfgFromBits(0), kind)
	if err != nil {
		panic(err)
	}
	base := map[string]uint64{"A": 0, "B": 0, "V3": 0}
	var prev *wireBlock
	for _, seq := range [][]int{{7, 10}, {0, 1, 2, 3, 4, 5, 6, 8, 9, 10, 11, 12, 15, 16, 17, 18, 13, 14}} {
		txs := buildTxs(w, seq, base)
		for i, tx := range txs {
			if err := n.pool.AddLocal(tx); err != nil {
				fmt.Println("AddLocal", alphabet[seq[i]].Name, err)
			}
		}
		t0 := time.Now()
		block, parts, err := n.propose(prev)
		if err != nil {
			panic(err)
		}
		seen := n.seenCommit(block, parts)
		fmt.Println("propose", time.Since(t0), len(block.Transactions()), block.Header().GasLimit)
		o := n.applyBlock(block, parts, seen)
		fmt.Printf("%+v\n", *o)
		prev = toWire(block, parts, seen)
		n.syncPool()
		base = map[string]uint64{"A": 2, "B": 0, "V3": 0}
	}
	_ = os.Exit
	var _ = types.NewBlock
}
