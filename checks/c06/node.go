package main

// The real node stack (blockchain + staking contracts + tx pool + evidence pool + block operations + block
// executor; no consensus state machine), wired in mainchain/backend.go's order through the PUBLIC
// constructors, once per enumerated execution, with a caller-chosen CacheConfig; the proposer path and the
// receiver path; the observation taken after a block was applied.

import (
	"bytes"
	"crypto/ecdsa"
	"crypto/sha256"
	"encoding/hex"
	"fmt"
	"io"
	"math/big"
	"os"
	"runtime/debug"
	"sort"
	"strings"
	"sync"
	"sync/atomic"
	"time"

	"github.com/gogo/protobuf/proto"

	"github.com/kardiachain/go-kardia/configs"
	"github.com/kardiachain/go-kardia/consensus"
	"github.com/kardiachain/go-kardia/kai/kaidb/memorydb"
	"github.com/kardiachain/go-kardia/kai/rawdb"
	"github.com/kardiachain/go-kardia/kai/state/cstate"
	"github.com/kardiachain/go-kardia/lib/common"
	"github.com/kardiachain/go-kardia/lib/crypto"
	"github.com/kardiachain/go-kardia/lib/log"
	"github.com/kardiachain/go-kardia/lib/rlp"
	"github.com/kardiachain/go-kardia/mainchain/blockchain"
	"github.com/kardiachain/go-kardia/mainchain/genesis"
	"github.com/kardiachain/go-kardia/mainchain/staking"
	stypes "github.com/kardiachain/go-kardia/mainchain/staking/types"
	"github.com/kardiachain/go-kardia/mainchain/tx_pool"
	kproto "github.com/kardiachain/go-kardia/proto/kardiachain/types"
	"github.com/kardiachain/go-kardia/trie"
	"github.com/kardiachain/go-kardia/types"
	"github.com/kardiachain/go-kardia/types/evidence"
)

func mustKey(h string) *ecdsa.PrivateKey {
	k, err := crypto.HexToECDSA(h)
	if err != nil {
		panic(err)
	}
	return k
}

// three genesis validators (different self delegations => different powers and priorities) and two funded users
var valKeys = []*ecdsa.PrivateKey{
	mustKey("8843ebcb1021b00ae9a644db6617f9c6d870e5fd53624cefe374c1d2d710fd06"),
	mustKey("77cfc693f7861a6e1ea817c593c04fbc9b63d4d3146c5753c008cfc67cffca79"),
	mustKey("98de1df1e242afb02bd5dc01fbcacddcc9a4d41df95a66f629139560ca6e4dbb"),
}
var valSelfDelegate = []string{"12500000000000000000000000", "13700000000000000000000000", "15100000000000000000000000"}
var keyA = mustKey("b71c71a67e1177ad4e901695e1b4b9ee17ae16c6668d313eac2f96dbcda3f291")
var keyB = mustKey("49a7b37aa6f6645917e7b807e9d1c00d4fa71f18343b0d4122a4d2df64dd6fee")
var addrA = crypto.PubkeyToAddress(keyA.PublicKey)
var addrB = crypto.PubkeyToAddress(keyB.PublicKey)

func valAddr(i int) common.Address { return crypto.PubkeyToAddress(valKeys[i].PublicKey) }

// ---------------------------------------------------------------------------------------------
// cache configuration axes

type cacheCfg struct {
	Archive    bool `json:"trie_dirty_disabled"` // TrieDirtyDisabled: flush the trie every block, no GC
	Snapshot   bool `json:"snapshot"`            // SnapshotLimit > 0
	Preimages  bool `json:"preimages"`
	NoPrefetch bool `json:"no_prefetch"` // TrieCleanNoPrefetch
}

func (c cacheCfg) String() string {
	b := func(v bool) string {
		if v {
			return "1"
		}
		return "0"
	}
	return "dirtyDisabled=" + b(c.Archive) + ",snapshot=" + b(c.Snapshot) + ",preimages=" + b(c.Preimages) + ",noPrefetch=" + b(c.NoPrefetch)
}

func cfgFromBits(i int) cacheCfg {
	return cacheCfg{Archive: i&1 != 0, Snapshot: i&2 != 0, Preimages: i&4 != 0, NoPrefetch: i&8 != 0}
}

// axesBetween names the configuration axes in which two configurations differ.
func axesBetween(a, b cacheCfg) string {
	var d []string
	if a.Archive != b.Archive {
		d = append(d, "trie-dirty-disabled")
	}
	if a.Snapshot != b.Snapshot {
		d = append(d, "snapshot")
	}
	if a.Preimages != b.Preimages {
		d = append(d, "preimages")
	}
	if a.NoPrefetch != b.NoPrefetch {
		d = append(d, "prefetch")
	}
	if len(d) == 0 {
		return "repetition"
	}
	return strings.Join(d, "+")
}

func (c cacheCfg) real() *blockchain.CacheConfig {
	cc := &blockchain.CacheConfig{
		TrieCleanLimit:      16,
		TrieDirtyLimit:      16,
		TrieTimeLimit:       5 * time.Minute,
		TrieDirtyDisabled:   c.Archive,
		Preimages:           c.Preimages,
		TrieCleanNoPrefetch: c.NoPrefetch,
		SnapshotWait:        true,
	}
	if c.Snapshot {
		cc.SnapshotLimit = 16
	}
	return cc
}

// ---------------------------------------------------------------------------------------------
// genesis

// chainKind: "legacy" = the Galaxias fork is far in the future (the proposer packs the pool blindly, failing
// transactions are skipped by commitBlock); "galaxias" = the fork is block 1 (block 1 applies the fork
// contracts, later blocks are pre-executed by the proposer through newProposalBlock/commitTransactions).
//
// "<kind>+factory": a CREATE2 factory is part of the genesis allocation; the multi-purpose contract is created (and
// after a self-destruct RE-created at the same address) by calling it.
//
// "<kind>+alloc": the multi-purpose contract is part of the GENESIS allocation with non-zero values in every slot
// the templates touch, so those values live in the snapshot's DISK layer from the start (a contract deployed by a
// transaction has its storage in a diff layer).
func makeGenesis(chainKind string) *genesis.Genesis {
	// VerifFullGenesis fills the global configs tables exactly once (sync.Once) and returns a fresh object
	g := consensus.VerifFullGenesis(valAddr(0), []common.Address{addrA, addrB, valAddr(1), valAddr(2)})
	g.Validators = nil
	for i := range valKeys {
		g.Validators = append(g.Validators, &genesis.GenesisValidator{
			Name: fmt.Sprintf("val%d", i+1), Address: valAddr(i).Hex(), CommissionRate: "100000000000000000", MaxRate: "250000000000000000",
			MaxChangeRate: "50000000000000000", SelfDelegate: valSelfDelegate[i], StartWithGenesis: true,
		})
	}
	if strings.HasPrefix(chainKind, "galaxias") {
		one := uint64(1)
		cc := *g.Config
		cc.GalaxiasBlock = &one
		g.Config = &cc
		g.ChainID = "verif-full-galaxias"
	}
	if strings.HasSuffix(chainKind, "+alloc") {
		g.ChainID += "-alloc"
		slot := func(i int64) common.Hash { return common.BigToHash(big.NewInt(i)) }
		g.Alloc[allocContract] = genesis.GenesisAccount{
			Balance: big.NewInt(1000000000000000000),
			Code:    append([]byte{}, contractRuntime...),
			Storage: map[common.Hash]common.Hash{
				slot(1): slot(0x1234), slot(2): slot(0x5eed), slot(3): slot(0x33), slot(4): slot(0x44), slot(5): slot(0x5555),
			},
		}
	}
	if strings.HasSuffix(chainKind, "+factory") {
		g.ChainID += "-factory"
		g.Alloc[factoryAddr] = genesis.GenesisAccount{Balance: big.NewInt(0), Code: append([]byte{}, factoryRuntime...)}
		g.Alloc[forwarderAddr] = genesis.GenesisAccount{Balance: big.NewInt(0), Code: forwarderRuntime(create2Child)}
		g.Alloc[reverterAddr] = genesis.GenesisAccount{Balance: big.NewInt(0), Code: reverterRuntime(create2Child)}
	}
	return g
}

var allocContract = common.HexToAddress("0x00000000000000000000000000000000000c0de6")
var factoryAddr = common.HexToAddress("0x0000000000000000000000000000000000fac706")
var forwarderAddr = common.HexToAddress("0x0000000000000000000000000000000000f06a6d")
var reverterAddr = common.HexToAddress("0x0000000000000000000000000000000000e7e670")

// create2Child is where the factory's CREATE2 (salt 0, init code child2Init) puts the multi-purpose contract.
var create2Child = crypto.CreateAddress2(factoryAddr, [32]byte{}, crypto.Keccak256(child2Init))

// contractAddr is the address of the multi-purpose contract on a chain kind: the genesis allocation's, or the one A's
// first transaction creates.
func contractAddr(kind string) common.Address {
	if strings.HasSuffix(kind, "+alloc") {
		return allocContract
	}
	if strings.HasSuffix(kind, "+factory") {
		return create2Child
	}
	return crypto.CreateAddress(addrA, 0)
}

// ---------------------------------------------------------------------------------------------
// node

type blockStoreSpy struct {
	*blockchain.BlockOperations
	n *node
}

// CommitAndValidateBlockTxs is what BlockExecutor.ApplyBlock calls: record what the application returns to consensus.
func (b *blockStoreSpy) CommitAndValidateBlockTxs(block *types.Block, lc stypes.LastCommitInfo, byz []stypes.Evidence) ([]*types.Validator, common.Hash, error) {
	vals, root, err := b.BlockOperations.CommitAndValidateBlockTxs(block, lc, byz)
	b.n.reported = nil
	for _, v := range vals {
		b.n.reported = append(b.n.reported, fmt.Sprintf("%x:%d", v.Address.Bytes(), v.VotingPower))
	}
	b.n.reportedRoot = root
	b.n.reportedErr = err
	return vals, root, err
}

type node struct {
	cfg   cacheCfg
	kind  string
	db    *memorydb.Database
	bc    *blockchain.BlockChain
	store cstate.Store
	evp   *evidence.Pool
	pool  *tx_pool.TxPool
	bo    *blockchain.BlockOperations
	exec  *cstate.BlockExecutor
	state cstate.LatestBlockState
	gen   *genesis.Genesis

	capEvery   bool // flatten the snapshot to disk after every applied block
	generating bool // the snapshot generation is held: every execution is probed (genMarker != nil, ErrNotCoveredYet)

	mu           sync.Mutex
	txErrs       map[common.Hash]string // "ApplyTransaction failed" records of the last block (BlockOperations' logger)
	reported     []string
	reportedRoot common.Hash
	reportedErr  error
}

func boot(cfg cacheCfg, kind string) (*node, error) { return bootOn(memorydb.New(), cfg, kind) }

// bootOnExisting starts a node on a database that already holds the genesis block WITHOUT handing NewBlockChain
// the genesis document (SetupGenesisBlock then keeps the stored chain configuration and does not re-execute the
// genesis to compare hashes). The consensus state is still made from the genesis document.
func bootOnExisting(db *memorydb.Database, cfg cacheCfg, kind string) (*node, error) {
	return bootWith(db, cfg, kind, false)
}

func bootOn(db *memorydb.Database, cfg cacheCfg, kind string) (*node, error) {
	return bootWith(db, cfg, kind, true)
}

// bootOn wires the stack over db: an empty database (the genesis is executed and committed) or the database of a
// stopped node (a restart: NewBlockChain loads the head, the snapshot journal, ...).
func bootWith(db *memorydb.Database, cfg cacheCfg, kind string, giveGenesis bool) (n *node, err error) {
	defer func() {
		if p := recover(); p != nil {
			err = fmt.Errorf("boot panicked: %v\n%s", p, debug.Stack())
		}
	}()
	n = &node{cfg: cfg, kind: kind, db: db, txErrs: map[common.Hash]string{}}
	n.gen = makeGenesis(kind)
	if giveGenesis {
		n.bc, err = blockchain.NewBlockChain(n.db, cfg.real(), n.gen)
	} else {
		n.bc, err = blockchain.NewBlockChain(n.db, cfg.real(), nil)
	}
	if err != nil {
		return nil, fmt.Errorf("NewBlockChain: %w", err)
	}
	n.store = cstate.NewStore(n.db)
	n.evp, err = evidence.NewPool(n.store, n.db, n.bc)
	if err != nil {
		return nil, fmt.Errorf("evidence.NewPool: %w", err)
	}
	txcfg := tx_pool.DefaultTxPoolConfig
	txcfg.Journal = ""
	txcfg.Broadcast = false
	n.pool = tx_pool.NewTxPool(txcfg, n.bc.Config(), n.bc)
	su, err := sharedStakingUtil()
	if err != nil {
		return nil, err
	}
	// BlockOperations' own logger: the only place where the reason of a skipped transaction is visible
	lg := log.New()
	lg.SetHandler(log.FuncHandler(func(rec *log.Record) error {
		if rec.Msg != "ApplyTransaction failed" {
			return nil
		}
		var h, e string
		for i := 0; i+1 < len(rec.Ctx); i += 2 {
			switch fmt.Sprint(rec.Ctx[i]) {
			case "tx":
				h = fmt.Sprint(rec.Ctx[i+1])
			case "err":
				e = fmt.Sprint(rec.Ctx[i+1])
			}
		}
		n.mu.Lock()
		n.txErrs[common.HexToHash(h)] = e
		n.mu.Unlock()
		return nil
	}))
	n.bo = blockchain.NewBlockOperations(lg, n.bc, n.pool, n.evp, su)
	n.exec = cstate.NewBlockExecutor(n.store, log.New(), n.evp, &blockStoreSpy{BlockOperations: n.bo, n: n})
	n.exec.SetEventBus(nopBus)
	n.state, err = n.store.LoadStateFromDBOrGenesisDoc(n.gen)
	if err != nil {
		return nil, fmt.Errorf("LoadStateFromDBOrGenesisDoc: %w", err)
	}
	return n, nil
}

// The staking utility is an immutable value (parsed ABI, contract address, bytecode): parsed once per process and
// shared by all nodes (parsing it costs more than starting a node on an existing database).
var stakingOnce sync.Once
var stakingUtil *staking.StakingSmcUtil
var stakingErr error

func sharedStakingUtil() (*staking.StakingSmcUtil, error) {
	stakingOnce.Do(func() { stakingUtil, stakingErr = staking.NewSmcStakingUtil() })
	return stakingUtil, stakingErr
}

var nopBus = func() *types.EventBus {
	b := types.NewEventBus()
	if err := b.Start(); err != nil {
		panic(err)
	}
	return b
}()

func (n *node) close() {
	defer func() { recover() }()
	if n == nil {
		return
	}
	if n.pool != nil {
		n.pool.Stop()
	}
	if n.bc != nil {
		n.bc.VerifC06Release()
	}
}

// ---------------------------------------------------------------------------------------------
// blocks on the wire

// wireBlock is what a receiver gets: the block parts (as produced by the proposer's MakePartSet) and the
// commit that decided the block (needed by SaveBlock and as LastCommit of the next block).
type wireBlock struct {
	Height uint64
	Parts  [][]byte // proto-encoded parts, in order
	Header types.PartSetHeader
	Hash   common.Hash
	Seen   *types.Commit
	TxN    int
}

const voteTimeStep = 2 * time.Second

// commitFor makes the +2/3 precommit commit for a block through the real VoteSet: all validators of valset sign.
func commitFor(chainID string, height uint64, id types.BlockID, valset *types.ValidatorSet, ts time.Time) *types.Commit {
	vs := types.NewVoteSet(chainID, height, 0, kproto.PrecommitType, valset)
	for i, v := range valset.Validators {
		var key *ecdsa.PrivateKey
		for k := range valKeys {
			if valAddr(k).Equal(v.Address) {
				key = valKeys[k]
			}
		}
		if key == nil {
			key = extraValidatorKey(v.Address)
		}
		if key == nil {
			continue // a validator whose key the harness does not own never signs (still +2/3 by the genesis validators)
		}
		vote := &types.Vote{ValidatorAddress: v.Address, ValidatorIndex: uint32(i), Height: height, Round: 0, Type: kproto.PrecommitType, BlockID: id, Timestamp: ts}
		pv := types.NewDefaultPrivValidator(key)
		pb := vote.ToProto()
		if err := pv.SignVote(chainID, pb); err != nil {
			panic(err)
		}
		vote.Signature = pb.Signature
		if _, err := vs.AddVote(vote); err != nil {
			panic(fmt.Sprintf("commitFor: AddVote: %v", err))
		}
	}
	return vs.MakeCommit()
}

func extraValidatorKey(a common.Address) *ecdsa.PrivateKey {
	if a.Equal(addrB) {
		return keyB
	}
	if a.Equal(addrA) {
		return keyA
	}
	return nil
}

func toWire(block *types.Block, parts *types.PartSet, seen *types.Commit) *wireBlock {
	w := &wireBlock{Height: block.Height(), Header: parts.Header(), Hash: block.Hash(), Seen: seen, TxN: len(block.Transactions())}
	for i := 0; i < int(parts.Total()); i++ {
		pp, err := parts.GetPart(i).ToProto()
		if err != nil {
			panic(err)
		}
		bz, err := proto.Marshal(pp)
		if err != nil {
			panic(err)
		}
		w.Parts = append(w.Parts, bz)
	}
	return w
}

// fromWire is the receiver's reassembly, transcribed from consensus/state.go addProposalBlockPart:
// part bytes -> PartFromProto -> PartSet.AddPart (proof check) -> reader -> proto.Unmarshal -> BlockFromProto.
func fromWire(w *wireBlock) (*types.Block, *types.PartSet, error) {
	ps := types.NewPartSetFromHeader(w.Header)
	// parts arrive last-first (any order must do)
	for i := len(w.Parts) - 1; i >= 0; i-- {
		pp := new(kproto.Part)
		if err := proto.Unmarshal(w.Parts[i], pp); err != nil {
			return nil, nil, err
		}
		part, err := types.PartFromProto(pp)
		if err != nil {
			return nil, nil, err
		}
		if ok, err := ps.AddPart(part); err != nil || !ok {
			return nil, nil, fmt.Errorf("AddPart(%d): added=%v err=%v", i, ok, err)
		}
	}
	if !ps.IsComplete() {
		return nil, nil, fmt.Errorf("part set incomplete")
	}
	bz, err := io.ReadAll(ps.GetReader())
	if err != nil {
		return nil, nil, err
	}
	pbb := new(kproto.Block)
	if err := proto.Unmarshal(bz, pbb); err != nil {
		return nil, nil, err
	}
	block, err := types.BlockFromProto(pbb, trie.NewStackTrie(nil))
	if err != nil {
		return nil, nil, err
	}
	return block, ps, nil
}

// ---------------------------------------------------------------------------------------------
// observation

type logObs struct {
	Address string   `json:"address"`
	Topics  []string `json:"topics"`
	Data    string   `json:"data"`
}

type receiptObs struct {
	TxHash   string   `json:"tx"`
	Status   uint64   `json:"status"`
	CumGas   uint64   `json:"cumulative_gas"`
	GasUsed  uint64   `json:"gas_used"`
	Contract string   `json:"contract"`
	Bloom    string   `json:"bloom_sha"`
	Logs     []logObs `json:"logs"`
}

type valSetObs struct {
	Vals     []string `json:"validators"` // addr:power:priority in set order
	Proposer string   `json:"proposer"`
	Total    int64    `json:"total_power"`
	Hash     string   `json:"hash"`
}

type obs struct {
	Err           string       `json:"error,omitempty"` // validation / application error or panic
	AppHash       string       `json:"app_hash"`
	StoredAppHash string       `json:"stored_app_hash"`
	ReturnedRoot  string       `json:"root_returned_by_application"`
	ReadBack      string       `json:"contract_state_read_back"` // the contract's account and slots 1..5 read through BlockChain.State()
	BlockInfoSha  string       `json:"block_info_record_sha"`
	GasUsed       uint64       `json:"gas_used"`
	Rewards       string       `json:"rewards"`
	Bloom         string       `json:"bloom_sha"`
	Receipts      []receiptObs `json:"receipts"`
	Skipped       []string     `json:"skipped_txs"` // hashes of block transactions without receipt, in block order
	SkipWhy       []string     `json:"skip_reasons"`
	Reported      []string     `json:"validators_reported_sorted"` // as a set
	ReportedOrder []string     `json:"-"`
	Height        uint64       `json:"height"`
	LastBlockID   string       `json:"last_block_id"`
	LastBlockTime string       `json:"last_block_time"`
	ValsChanged   uint64       `json:"last_height_validators_changed"`
	Validators    valSetObs    `json:"validators"`
	NextVals      valSetObs    `json:"next_validators"`
	LastVals      valSetObs    `json:"last_validators"`
	HeadHash      string       `json:"chain_head"`
	ReadBlockInfo string       `json:"public_read_block_info"`
}

func sha(b []byte) string {
	h := sha256.Sum256(b)
	return hex.EncodeToString(h[:8])
}

func obsValSet(vs *types.ValidatorSet) valSetObs {
	var o valSetObs
	if vs == nil {
		return o
	}
	for _, v := range vs.Validators {
		o.Vals = append(o.Vals, fmt.Sprintf("%x:%d:%d", v.Address.Bytes()[:4], v.VotingPower, v.ProposerPriority))
	}
	if p := vs.GetProposer(); p != nil {
		o.Proposer = fmt.Sprintf("%x", p.Address.Bytes()[:4])
	}
	o.Total = vs.TotalVotingPower()
	o.Hash = vs.Hash().Hex()[:18]
	return o
}

// fields lists (name, value) in a fixed order: the first differing name is the signature's field.
func (o *obs) fields() [][2]string {
	j := func(v interface{}) string { return fmt.Sprintf("%+v", v) }
	var out [][2]string
	out = append(out, [2]string{"error", o.Err})
	out = append(out, [2]string{"app-hash", o.AppHash})
	out = append(out, [2]string{"stored-app-hash", o.StoredAppHash})
	out = append(out, [2]string{"root-returned-by-application", o.ReturnedRoot})
	out = append(out, [2]string{"state-read-back", o.ReadBack})
	out = append(out, [2]string{"skipped-txs", j(o.Skipped)})
	out = append(out, [2]string{"receipt-count", fmt.Sprint(len(o.Receipts))})
	var st, gas, ca, lg, bl []string
	for _, r := range o.Receipts {
		st = append(st, fmt.Sprint(r.Status))
		gas = append(gas, fmt.Sprintf("%d/%d", r.GasUsed, r.CumGas))
		ca = append(ca, r.Contract)
		lg = append(lg, j(r.Logs))
		bl = append(bl, r.Bloom)
	}
	out = append(out, [2]string{"receipt-status", j(st)})
	out = append(out, [2]string{"receipt-gas", j(gas)})
	out = append(out, [2]string{"receipt-contract-address", j(ca)})
	out = append(out, [2]string{"receipt-logs", j(lg)})
	out = append(out, [2]string{"receipt-bloom", j(bl)})
	out = append(out, [2]string{"gas-used", fmt.Sprint(o.GasUsed)})
	out = append(out, [2]string{"logs-bloom", o.Bloom})
	out = append(out, [2]string{"rewards", o.Rewards})
	out = append(out, [2]string{"block-info-record", o.BlockInfoSha})
	out = append(out, [2]string{"validators-reported", j(o.Reported)})
	out = append(out, [2]string{"state-height", fmt.Sprint(o.Height)})
	out = append(out, [2]string{"state-last-block-id", o.LastBlockID})
	out = append(out, [2]string{"state-last-block-time", o.LastBlockTime})
	out = append(out, [2]string{"state-validators-changed-height", fmt.Sprint(o.ValsChanged)})
	out = append(out, [2]string{"state-next-validators", j(o.NextVals)})
	out = append(out, [2]string{"state-validators", j(o.Validators)})
	out = append(out, [2]string{"state-last-validators", j(o.LastVals)})
	out = append(out, [2]string{"chain-head", o.HeadHash})
	out = append(out, [2]string{"public-read-block-info", o.ReadBlockInfo})
	return out
}

func (o *obs) digest() string {
	var b bytes.Buffer
	for _, f := range o.fields() {
		b.WriteString(f[0])
		b.WriteByte('=')
		b.WriteString(f[1])
		b.WriteByte('\n')
	}
	return sha(b.Bytes())
}

// diff returns the first field in which two observations differ ("" if none) and both values.
func diff(a, b *obs) (string, string, string) {
	fa, fb := a.fields(), b.fields()
	for i := range fa {
		if fa[i][1] != fb[i][1] {
			return fa[i][0], fa[i][1], fb[i][1]
		}
	}
	return "", "", ""
}

// ---------------------------------------------------------------------------------------------
// the two paths

// applyBlock is the tail of consensus finalizeCommit: SaveBlock, then BlockExecutor.ApplyBlock; then observe.
func (n *node) applyBlock(block *types.Block, parts *types.PartSet, seen *types.Commit) (o *obs) {
	o = &obs{}
	defer func() {
		if p := recover(); p != nil {
			o.Err = "panic: " + firstLine(fmt.Sprint(p))
		}
	}()
	id := types.BlockID{Hash: block.Hash(), PartsHeader: parts.Header()}
	n.mu.Lock()
	n.txErrs = map[common.Hash]string{}
	n.mu.Unlock()
	n.reported = nil
	if n.generating {
		n.probeGenerating()
	}
	n.bo.SaveBlock(block, parts, seen)
	st, _, err := n.exec.ApplyBlock(n.state, id, block)
	if n.generating {
		n.probeGenerating()
	}
	if err != nil {
		o.Err = "ApplyBlock: " + firstLine(err.Error())
		return o
	}
	n.state = st
	if n.capEvery && n.bc.VerifC06HasSnapshots() {
		// a long-running node whose diff layers are merged into the disk layer (Tree.Cap(root, 0), public API)
		if err := n.bc.VerifC06FlattenSnapshot(st.AppHash); err == nil {
			flattenings.Add(1)
		}
	}
	n.observe(o, block)
	return o
}

var flattenings atomic.Int64

var generatingExecs, notCoveredProbes, generatingBroken atomic.Int64

// an address no template touches: its read goes through to the disk layer
var probeAddr = common.HexToAddress("0x00000000000000000000000000000000dead0c06")

// probeGenerating measures that a "snapshot still generating" node really is in that state: genMarker != nil and an
// account read at the head answers ErrNotCoveredYet.
func (n *node) probeGenerating() {
	g, nc := n.bc.VerifC06SnapshotProbe(probeAddr)
	if g && nc {
		generatingExecs.Add(1)
		notCoveredProbes.Add(1)
	} else {
		generatingBroken.Add(1)
		if os.Getenv("C06_DEBUG") != "" {
			fmt.Println("probe broken:", n.kind, n.cfg, "generating", g, "notCovered", nc, "height", n.bc.CurrentBlock().Height())
		}
	}
}

func (n *node) observe(o *obs, block *types.Block) {
	st := n.state
	h := block.Height()
	o.AppHash = st.AppHash.Hex()
	o.StoredAppHash = rawdb.ReadAppHash(n.db, h).Hex()
	o.ReturnedRoot = n.reportedRoot.Hex()
	o.ReadBack = n.readBack()
	raw := rawdb.VerifC06ReadBlockInfoRLP(n.db, block.Hash(), h)
	o.BlockInfoSha = sha(raw)
	bi := &types.BlockInfo{}
	if err := rlp.DecodeBytes(raw, bi); err != nil {
		o.Err = "stored block info does not decode: " + err.Error()
		return
	}
	o.GasUsed = bi.GasUsed
	if bi.Rewards != nil {
		o.Rewards = bi.Rewards.String()
	}
	o.Bloom = sha(bi.Bloom.Bytes())
	have := map[common.Hash]bool{}
	for _, r := range bi.Receipts {
		ro := receiptObs{TxHash: r.TxHash.Hex(), Status: r.Status, CumGas: r.CumulativeGasUsed, GasUsed: r.GasUsed, Bloom: sha(r.Bloom.Bytes())}
		if (r.ContractAddress != common.Address{}) {
			ro.Contract = r.ContractAddress.Hex()
		}
		for _, l := range r.Logs {
			lo := logObs{Address: l.Address.Hex(), Data: hex.EncodeToString(l.Data)}
			for _, t := range l.Topics {
				lo.Topics = append(lo.Topics, t.Hex())
			}
			ro.Logs = append(ro.Logs, lo)
		}
		o.Receipts = append(o.Receipts, ro)
		have[r.TxHash] = true
	}
	n.mu.Lock()
	for _, tx := range block.Transactions() {
		if !have[tx.Hash()] {
			o.Skipped = append(o.Skipped, tx.Hash().Hex())
			o.SkipWhy = append(o.SkipWhy, n.txErrs[tx.Hash()])
		}
	}
	n.mu.Unlock()
	o.ReportedOrder = append([]string{}, n.reported...)
	o.Reported = append([]string{}, n.reported...)
	sort.Strings(o.Reported)
	o.Height = st.LastBlockHeight
	o.LastBlockID = st.LastBlockID.String()
	o.LastBlockTime = st.LastBlockTime.UTC().Format(time.RFC3339Nano)
	o.ValsChanged = st.LastHeightValidatorsChanged
	o.Validators = obsValSet(st.Validators)
	o.NextVals = obsValSet(st.NextValidators)
	o.LastVals = obsValSet(st.LastValidators)
	o.HeadHash = n.bc.CurrentBlock().Hash().Hex()
	// the public accessor (nil for blocks with a skipped transaction): nil-ness and receipt count must agree too
	if pbi := rawdb.ReadBlockInfo(n.db, block.Hash(), h, n.bc.Config()); pbi == nil {
		o.ReadBlockInfo = "nil"
	} else {
		o.ReadBlockInfo = fmt.Sprintf("receipts=%d gas=%d", len(pbi.Receipts), pbi.GasUsed)
	}
}

// readBack reads the multi-purpose contract through a fresh StateDB of the head (BlockChain.State(): snapshot-backed on
// nodes with snapshots, trie-backed otherwise): what the NEXT block's execution will see.
func (n *node) readBack() string {
	st, err := n.bc.State()
	if err != nil {
		return "State(): " + err.Error()
	}
	x := contractAddr(n.kind)
	out := fmt.Sprintf("exists=%v nonce=%d balance=%s code=%s", st.Exist(x), st.GetNonce(x), st.GetBalance(x), sha(st.GetCode(x)))
	for i := int64(1); i <= 5; i++ {
		v := st.GetState(x, common.BigToHash(big.NewInt(i)))
		out += fmt.Sprintf(" slot%d=%s", i, new(big.Int).SetBytes(v.Bytes()).Text(16))
	}
	if err := st.Error(); err != nil {
		out += " dberr=" + err.Error()
	}
	return out
}

// restart stops the node the way a clean shutdown does (pool stopped, BlockChain.Stop: cached state flushed, snapshot
// journalled) and starts a new node with configuration cfg on the SAME database, handing it the genesis document like
// backend.go does. The consensus state held in memory is carried over (its persistence is C14's subject).
func (n *node) restart(cfg cacheCfg) (*node, error) {
	st := n.state.Copy()
	if n.pool != nil {
		n.pool.Stop()
		n.pool = nil
	}
	n.bc.Stop()
	n.bc.VerifC06Release()
	m, err := bootOn(n.db, cfg, n.kind)
	if err != nil {
		return nil, err
	}
	if m.bc.CurrentBlock().Height() != st.LastBlockHeight {
		h := m.bc.CurrentBlock().Height()
		m.close()
		return nil, fmt.Errorf("restarted node is at height %d, the stopped node was at %d", h, st.LastBlockHeight)
	}
	m.state = st
	m.capEvery = n.capEvery
	return m, nil
}

// receive is the RECEIVER path: reassemble from parts, validate against the node's own state, save, apply.
func (n *node) receive(w *wireBlock) (o *obs) {
	defer func() {
		if p := recover(); p != nil {
			o = &obs{Err: "panic: " + firstLine(fmt.Sprint(p))}
		}
	}()
	block, parts, err := fromWire(w)
	if err != nil {
		return &obs{Err: "reassembly: " + firstLine(err.Error())}
	}
	if block.Hash() != w.Hash {
		return &obs{Err: "reassembly: decoded block has another hash"}
	}
	if err := n.exec.ValidateBlock(n.state, block); err != nil {
		return &obs{Err: "ValidateBlock: " + firstLine(err.Error())}
	}
	return n.applyBlock(block, parts, w.Seen)
}

// lastCommit is the commit a proposer at the next height puts into its block.
func (n *node) lastCommitFor(prev *wireBlock) *types.Commit {
	if prev == nil {
		return types.NewCommit(0, 0, types.BlockID{}, nil)
	}
	return prev.Seen
}

// propose is the PROPOSER path up to the block: pool -> CreateProposalBlock.
func (n *node) propose(prev *wireBlock) (block *types.Block, parts *types.PartSet, err error) {
	defer func() {
		if p := recover(); p != nil {
			err = fmt.Errorf("CreateProposalBlock panicked: %v", firstLine(fmt.Sprint(p)))
		}
	}()
	h := n.state.LastBlockHeight + 1
	proposer := n.state.Validators.GetProposer().Address
	block, parts = n.bo.CreateProposalBlock(h, n.state, proposer, n.lastCommitFor(prev))
	return block, parts, nil
}

// seenCommit signs the block with every validator of the CURRENT set of the node's state.
func (n *node) seenCommit(block *types.Block, parts *types.PartSet) *types.Commit {
	id := types.BlockID{Hash: block.Hash(), PartsHeader: parts.Header()}
	// vote time: strictly increasing with height, a pure function of the height
	ts := n.gen.Timestamp.Add(time.Duration(block.Height()) * voteTimeStep)
	return commitFor(n.state.ChainID, block.Height(), id, n.state.Validators, ts)
}

func (n *node) syncPool() {
	n.pool.VerifC06ResetTo(n.bc.CurrentBlock().Header())
}

func firstLine(s string) string {
	if i := strings.IndexByte(s, '\n'); i >= 0 {
		s = s[:i]
	}
	if len(s) > 240 {
		s = s[:240]
	}
	return s
}

var _ = big.NewInt
var _ = configs.TxGas
