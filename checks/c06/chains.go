package main

// Multi-block CHAINS. Every single-block case executes ONE block on a fixed parent state; an effect that needs a
// block that changes a slot and a LATER block that reads it (e.g. a snapshot diff layer that loses a deletion, so that
// later blocks on snapshot nodes read the stale disk-layer value) is outside that space. Here every sequence of 2
// (thorough: 3) consecutive blocks, each holding <= 1 transaction of the storage-relevant sub-alphabet, is built through
// the real proposer path on the parent states whose contract is part of the GENESIS allocation (its non-zero slots are
// in the snapshot's disk layer from the start), executed by fresh nodes under the cache-configuration variants, with and
// without a clean restart between blocks (also a restart that ENABLES snapshots: the snapshot is then regenerated from
// the head state, which puts transaction-written values into the disk layer), and compared field by field after EVERY
// block, including the contract's slots read back through BlockChain.State().

import (
	"fmt"
	"strings"

	"github.com/kardiachain/go-kardia/lib/common"
	"github.com/kardiachain/go-kardia/trie"
	"github.com/kardiachain/go-kardia/types"
)

// "" is the empty block
var chainLetterNames = []string{"", "setB", "clrA", "readB", "revB", "killA"}

type chainJob struct {
	p      *prestate
	blocks [][]int // one template sequence (length 0 or 1) per block
}

func chainName(blocks [][]int) string {
	var s []string
	for _, b := range blocks {
		s = append(s, seqName(b))
	}
	return strings.Join(s, "/")
}

func (j chainJob) describe(upTo int) string { return chainName(j.blocks[:upTo+1]) + "@" + j.p.id() }

// chainPrestates: the genesis-allocation contract on both chain kinds, and the CREATE2-factory chains (parent block 1
// creates the contract through the factory and calls set). Quick runs the factory chains on the legacy chain only.
func chainPrestates() []*prestate {
	kinds := []string{"legacy+alloc", "galaxias+alloc", "legacy+factory"}
	if r.Thorough() {
		kinds = append(kinds, "galaxias+factory")
	}
	var out []*prestate
	for _, p := range buildPrestates(kinds) {
		if strings.HasSuffix(p.Kind, "+factory") == (p.Name == "deployed") {
			out = append(out, p)
		}
	}
	return out
}

func isFactory(p *prestate) bool { return strings.HasSuffix(p.Kind, "+factory") }

// A chain FAMILY: every sequence of n blocks over a set of block letters; a letter is the template sequence of one block
// ("" = the empty block, "killA,payA" = two transactions in ONE block).
type chainFamily struct {
	n       int
	letters []string
}

// the factory chains' second family: blocks that DESTRUCT the contract and RE-FUND (payA) or RE-CREATE (mk2B, CREATE2 factory)
// the same address within ONE block - the account is then both in the snapshot diff layer's destruct set and in its account
// data - followed by blocks that pay the address directly (payA) and through the forwarder contract (fwdA: CALL with value,
// CallNewAccountGas when the callee does not exist; then BALANCE and EXTCODESIZE of it)
// "killA,rvA" / "killA,oogA": the contract self-destructs and a LATER transaction of the same block has the reverter CALL its
// address with value and then REVERT / run out of gas (the resurrection by the value call is undone; the account must stay
// destructed). clrA is not in this family (the genesis-allocation chains have it).
var recreateLetters = []string{"", "setB", "killA", "mk2B", "payA", "fwdA", "killA,payA", "killA,mk2B", "killA,rvA", "killA,oogA"}

func chainFamiliesFor(p *prestate) []chainFamily {
	switch {
	case !isFactory(p) && r.Thorough():
		return []chainFamily{{3, chainLetterNames}}
	case !isFactory(p):
		return []chainFamily{{2, chainLetterNames}}
	case r.Thorough():
		// 3-block chains without the revert template (budget), 2-block chains over the re-creation letters
		return []chainFamily{{3, []string{"", "setB", "clrA", "readB", "killA", "mk2B"}}, {2, recreateLetters}}
	}
	return []chainFamily{{2, recreateLetters}}
}

func lettersToSeqs(names []string) [][]int {
	var letters [][]int
	for _, nm := range names {
		var seq []int
		for _, one := range strings.Split(nm, ",") {
			if one == "" {
				continue
			}
			found := false
			for i, t := range alphabet {
				if t.Name == one {
					seq = append(seq, i)
					found = true
				}
			}
			if !found {
				fatal("chain alphabet names a template that does not exist:", one)
			}
		}
		letters = append(letters, seq)
	}
	return letters
}

// enumerateChains: all families of every parent state; forceBlocks > 0 overrides the families' lengths (worker processes).
func enumerateChains(pres []*prestate, forceBlocks int) []chainJob {
	var jobs []chainJob
	for _, p := range pres {
		seen := map[string]bool{}
		for _, fam := range chainFamiliesFor(p) {
			n := fam.n
			if forceBlocks > 0 {
				n = forceBlocks
			}
			letters := lettersToSeqs(fam.letters)
			var rec func(cur [][]int)
			rec = func(cur [][]int) {
				if len(cur) == n {
					if nm := chainName(cur); !seen[nm] {
						seen[nm] = true
						jobs = append(jobs, chainJob{p, append([][]int{}, cur...)})
					}
					return
				}
				for _, l := range letters {
					rec(append(cur, l))
				}
			}
			rec(nil)
		}
	}
	return jobs
}

// chainVariant: how a node runs through the chain.
type chainVariant struct {
	Cfg          cacheCfg `json:"cache_config"`
	Rep          int      `json:"repetition"`
	Scratch      bool     `json:"own_genesis"`
	RestartAfter int      `json:"restart_after_block,omitempty"` // k > 0: clean stop and restart after the k-th block of the chain
	// EnableSnap: the node runs WITHOUT snapshots until the restart and with Cfg (snapshots on) afterwards: the snapshot is
	// regenerated from the head state, so everything written so far is in its disk layer
	EnableSnap bool `json:"snapshots_enabled_at_restart,omitempty"`
	// CapEvery: after EVERY block the node applies (parent blocks included) all snapshot diff layers are merged into the disk
	// layer (Tree.Cap(root, 0)): a long-running node whose layers were flattened, with its disk-layer cache staying warm
	CapEvery bool `json:"flatten_snapshot_every_block,omitempty"`
	// Generating: the whole chain is executed while the node's snapshot is still being generated (generator held, nothing covered)
	Generating bool `json:"snapshot_generation_held,omitempty"`
}

func (v chainVariant) String() string {
	s := v.Cfg.String() + fmt.Sprintf(",rep=%d", v.Rep)
	if v.Scratch {
		s += ",own-genesis"
	}
	if v.CapEvery {
		s += ",flatten-every-block"
	}
	if v.Generating {
		s += ",snapshot-still-generating"
	}
	if v.RestartAfter > 0 {
		s += fmt.Sprintf(",restart-after-block-%d", v.RestartAfter)
		if v.EnableSnap {
			s += "-enabling-snapshots"
		}
	}
	return s
}

func (v chainVariant) restartKind() string {
	switch {
	case v.RestartAfter == 0:
		return ""
	case v.EnableSnap:
		return "restart-enabling-snapshot"
	}
	return "restart"
}

var refChainVariant = chainVariant{Cfg: cfgFromBits(0), Scratch: true}

func chainVariantsFor(p *prestate, nBlocks int) []chainVariant {
	c := cfgFromBits
	vs := []chainVariant{refChainVariant, {Cfg: c(0), Rep: 1}, {Cfg: c(0), Rep: 2}, {Cfg: c(0b0010), Generating: true}}
	if r.Quick() {
		if isFactory(p) {
			// {snapshots off (above), snapshots on long-running, flattened to disk after every block (pruning and archive),
			//  flattened + journal and reload before the last block}
			return append(vs,
				chainVariant{Cfg: c(0b0010)},
				chainVariant{Cfg: c(0b0010), CapEvery: true},
				chainVariant{Cfg: c(0b1111), CapEvery: true},
				chainVariant{Cfg: c(0b0110), CapEvery: true, RestartAfter: nBlocks - 1})
		}
		for _, b := range cornerCfgs[1:] {
			vs = append(vs, chainVariant{Cfg: c(b)})
		}
		return append(vs,
			chainVariant{Cfg: c(0b0110), RestartAfter: 1},
			chainVariant{Cfg: c(0b1111), RestartAfter: 1},
			chainVariant{Cfg: c(0b0010), RestartAfter: 1, EnableSnap: true},
			chainVariant{Cfg: c(0b0110), CapEvery: true})
	}
	for b := 1; b < 16; b++ {
		vs = append(vs, chainVariant{Cfg: c(b)})
		if c(b).Snapshot && !c(b).NoPrefetch {
			vs = append(vs, chainVariant{Cfg: c(b), CapEvery: true}) // the prefetch flag is dead configuration: 4 of the 8 snapshot configurations
		}
	}
	for k := 1; k < nBlocks; k++ {
		for _, b := range cornerCfgs {
			vs = append(vs, chainVariant{Cfg: c(b), RestartAfter: k})
		}
		vs = append(vs,
			chainVariant{Cfg: c(0b0010), RestartAfter: k, EnableSnap: true},
			chainVariant{Cfg: c(0b0011), RestartAfter: k, EnableSnap: true},
			chainVariant{Cfg: c(0b0110), RestartAfter: k, CapEvery: true},
			chainVariant{Cfg: c(0b1111), RestartAfter: k, CapEvery: true})
	}
	return vs
}

type builtChain struct {
	wires  []*wireBlock
	obsP   []*obs // the proposer's own observation after each block
	pOrder [][]string
	err    string
}

// buildChain: node P proposes block after block (pool.AddLocal -> CreateProposalBlock), applies each and goes on. If the
// pool/proposer does not produce exactly the enumerated transaction list, the enumerated block is made from P's header.
func buildChain(j chainJob) (bc *builtChain) {
	bc = &builtChain{}
	defer func() {
		if x := recover(); x != nil {
			bc.err = "panic: " + firstLine(fmt.Sprint(x))
		}
	}()
	p := j.p
	n, err := nodeFor(p, fastVariant)
	if err != nil {
		bc.err = "node construction: " + firstLine(err.Error())
		return bc
	}
	defer n.close()
	next := p.base
	prev := p.prev()
	for k, seq := range j.blocks {
		n.syncPool()
		txs, nx := buildTxsNext(p.w, seq, next)
		for _, tx := range txs {
			n.pool.AddLocal(tx) // the verdict shows in the proposed block
		}
		block, parts, err := n.propose(prev)
		if err != nil || block == nil {
			bc.err = fmt.Sprintf("block %d: CreateProposalBlock: %v", k+1, err)
			return bc
		}
		var order []string
		same := len(block.Transactions()) == len(txs)
		for i, tx := range block.Transactions() {
			if same && tx.Hash() != txs[i].Hash() {
				same = false
			}
			order = append(order, tx.Hash().Hex()[:10])
		}
		bc.pOrder = append(bc.pOrder, order)
		if !same {
			fresh, _ := buildTxsNext(p.w, seq, next)
			hdr := block.Header()
			hdr.TxHash, hdr.NumTxs = common.Hash{}, 0
			block = types.NewBlock(hdr, fresh, n.lastCommitFor(prev), nil, trie.NewStackTrie(nil))
			parts = block.MakePartSet(types.BlockPartSizeBytes)
			r.Add("chain_blocks_not_as_proposed", 1)
		}
		seen := n.seenCommit(block, parts)
		w := toWire(block, parts, seen)
		r.Add("evaluations", 1)
		o := n.applyBlock(block, parts, seen)
		bc.wires = append(bc.wires, w)
		bc.obsP = append(bc.obsP, o)
		if o.Err != "" {
			bc.err = fmt.Sprintf("block %d: the proposer cannot apply it: %s", k+1, o.Err)
			return bc
		}
		prev, next = w, nx
	}
	return bc
}

// runChain executes the wire blocks on a fresh node of variant v; one observation per block (stops at the first error).
func runChain(p *prestate, wires []*wireBlock, v chainVariant) (out []*obs) {
	cfg := v.Cfg
	if v.RestartAfter > 0 && v.EnableSnap {
		cfg.Snapshot = false
	}
	n, err := nodeFor(p, variant{Cfg: cfg, Rep: v.Rep, Scratch: v.Scratch, CapEvery: v.CapEvery, Generating: v.Generating})
	if err != nil {
		return []*obs{{Err: "node construction: " + firstLine(err.Error())}}
	}
	defer func() { n.close() }()
	for k, w := range wires {
		r.Add("evaluations", 1)
		o := n.receive(w)
		out = append(out, o)
		if o.Err != "" {
			return out
		}
		if v.RestartAfter == k+1 && k+1 < len(wires) {
			m, err := n.restart(v.Cfg)
			if err != nil {
				out = append(out, &obs{Err: "restart: " + firstLine(err.Error())})
				return out
			}
			n.close()
			n = m
		}
	}
	return out
}

func obsAt(os []*obs, k int) *obs {
	if k < len(os) {
		return os[k]
	}
	return &obs{Err: "not reached: an earlier block failed"}
}

// localiseChain confirms a difference at block k between the reference run and variant v and names the axis.
func localiseChain(p *prestate, wires []*wireBlock, ref []*obs, v chainVariant, got []*obs, k int) (axis, field, a, b string) {
	field, a, b = diff(obsAt(ref, k), obsAt(got, k))
	pre := wires[:k+1]
	for i := 0; i < confirmRuns; i++ {
		if f, x, y := diff(obsAt(ref, k), obsAt(runChain(p, pre, refChainVariant), k)); f != "" {
			return "repetition", f, x, y
		}
	}
	vv := v
	if vv.RestartAfter > k {
		vv.RestartAfter = 0 // the restart lies behind the failing block
	}
	for i := 0; i < confirmRuns; i++ {
		if f, x, y := diff(obsAt(got, k), obsAt(runChain(p, pre, vv), k)); f != "" {
			return "repetition", f, x, y
		}
	}
	differs := func(w chainVariant) bool {
		f, _, _ := diff(obsAt(ref, k), obsAt(runChain(p, pre, w), k))
		return f != ""
	}
	rk := vv.restartKind()
	if vv.Cfg == refChainVariant.Cfg {
		if rk != "" {
			return rk, field, a, b
		}
		if !vv.Scratch {
			return "start-on-existing-genesis-db", field, a, b
		}
		return "repetition", field, a, b
	}
	// the restart alone (reference configuration; for the snapshot-enabling restart: snapshots only)
	if rk == "restart" && !vv.CapEvery && differs(chainVariant{Cfg: refChainVariant.Cfg, RestartAfter: vv.RestartAfter}) {
		return rk, field, a, b
	}
	names := []string{"trie-dirty-disabled", "snapshot", "preimages", "prefetch"}
	var set, guilty []string
	for bit := 0; bit < 4; bit++ {
		if cfgFromBits(1<<bit) == maskCfg(vv.Cfg, bit) {
			set = append(set, names[bit])
		}
	}
	if len(set) > 1 {
		for bit := 0; bit < 4; bit++ {
			if cfgFromBits(1<<bit) != maskCfg(vv.Cfg, bit) {
				continue
			}
			if differs(chainVariant{Cfg: cfgFromBits(1 << bit), RestartAfter: vv.RestartAfter, EnableSnap: vv.EnableSnap, CapEvery: vv.CapEvery, Generating: vv.Generating}) {
				guilty = append(guilty, names[bit])
			}
		}
	}
	if len(guilty) == 0 {
		guilty = set
	}
	axis = strings.Join(guilty, "+")
	if vv.Generating && !differs(chainVariant{Cfg: vv.Cfg}) {
		axis += "+snapshot-still-generating" // the same configuration with the finished snapshot agrees with the reference
	}
	if vv.CapEvery && !differs(chainVariant{Cfg: vv.Cfg, RestartAfter: vv.RestartAfter, EnableSnap: vv.EnableSnap}) {
		axis += "+flatten-every-block" // the same variant without the flattening agrees with the reference: it is needed
	}
	if rk != "" && !differs(chainVariant{Cfg: vv.Cfg, CapEvery: vv.CapEvery}) {
		axis += "+" + rk // the same configuration without the restart agrees with the reference: the restart is needed
	}
	return axis, field, a, b
}

type chainResult struct {
	ref      []*obs
	built    *builtChain
	findings []finding
}

func runChainCase(j chainJob, idx int, variants []chainVariant) *chainResult {
	cr := &chainResult{}
	var names [][]string
	for _, b := range j.blocks {
		names = append(names, strings.Split(seqName(b), ","))
	}
	mk := func(k int, axis, field, what string, v *chainVariant, a, b string) {
		cr.findings = append(cr.findings, finding{axis: axis, field: field, what: what, seqLen: 100 * (k + 1), idx: idx,
			cid: caseID{Sub: "chain", Kind: j.p.Kind, Pre: j.p.Name, Chain: names[:k+1], Seq: []string{chainName(j.blocks[:k+1])}, Axis: axis, Field: field,
				ChainVariant: v, Block: fmt.Sprintf("block %d of the chain", k+1), RefValue: clip(a), GotValue: clip(b)}})
	}
	bc := buildChain(j)
	cr.built = bc
	if bc.err != "" {
		mk(len(bc.wires), "proposer-path", "proposal-failed", "the proposer path fails for chain "+j.describe(len(j.blocks)-1)+": "+bc.err, nil, "", bc.err)
		return cr
	}
	for i, v := range variants {
		v := v
		got := runChain(j.p, bc.wires, v)
		if i == 0 {
			cr.ref = got
			for k := range bc.wires {
				if o := obsAt(got, k); o.Err != "" {
					mk(k, "receiver-path", "block-rejected", fmt.Sprintf("a fresh node rejects block %d of chain [%s]: %s", k+1, j.describe(k), o.Err), &v, "", o.Err)
					return cr
				}
			}
			continue
		}
		for k := range bc.wires {
			if f, _, _ := diff(obsAt(cr.ref, k), obsAt(got, k)); f != "" {
				axis, field, a, b := localiseChain(j.p, bc.wires, cr.ref, v, got, k)
				mk(k, axis, field, fmt.Sprintf("the chain of blocks [%s] executed on two fresh nodes gives different %s after block %d (axis %s; variant %s): %s vs %s",
					j.describe(k), field, k+1, axis, v, clip(a), clip(b)), &v, a, b)
				if field != "state-read-back" {
					break // later blocks of this variant run on a different parent state
				}
				// only what the node READS BACK differs, the roots still agree: the nodes stay on one chain, so go on and
				// see what the later blocks make of it
			}
		}
	}
	// proposer vs receiver, block by block
	for k := range bc.wires {
		if f, a, b := diff(bc.obsP[k], obsAt(cr.ref, k)); f != "" {
			axis := "proposer-vs-receiver"
			for i := 0; i < confirmRuns && axis != "repetition"; i++ {
				b2 := buildChain(chainJob{j.p, j.blocks[:k+1]})
				if b2.err != "" || len(b2.wires) != k+1 {
					continue
				}
				if f2, _, _ := diff(b2.obsP[k], obsAt(runChain(j.p, b2.wires, refChainVariant), k)); f2 == "" {
					axis = "repetition"
				}
			}
			mk(k, axis, f, fmt.Sprintf("the proposer of the chain [%s] and a validator that received the blocks differ in %s after block %d: %s vs %s", j.describe(k), f, k+1, clip(a), clip(b)), nil, a, b)
			break
		}
	}
	return cr
}

// slot1Of extracts slot 1 from a read-back string.
func slot1Of(o *obs) string {
	for _, f := range strings.Fields(o.ReadBack) {
		if strings.HasPrefix(f, "slot1=") {
			return strings.TrimPrefix(f, "slot1=")
		}
	}
	return "?"
}

// replayChain re-executes a stored chain case under the thorough variant set.
func replayChain(c caseID) bool {
	var p *prestate
	for _, q := range buildPrestates([]string{c.Kind}) {
		if q.Name == c.Pre {
			p = q
		}
	}
	if p == nil {
		fatal("unknown parent state", c.Kind, c.Pre)
	}
	var blocks [][]int
	for _, b := range c.Chain {
		var seq []int
		for _, nm := range b {
			if nm == "(empty)" {
				continue
			}
			found := false
			for i, t := range alphabet {
				if t.Name == nm {
					seq = append(seq, i)
					found = true
				}
			}
			if !found {
				fatal("unknown template", nm)
			}
		}
		blocks = append(blocks, seq)
	}
	j := chainJob{p, blocks}
	fmt.Printf("replaying chain [%s]: recorded axis=%s field=%s\n", j.describe(len(blocks)-1), c.Axis, c.Field)
	vs := []chainVariant{refChainVariant, {Cfg: cfgFromBits(0), Rep: 1}, {Cfg: cfgFromBits(0), Rep: 2}}
	for b := 1; b < 16; b++ {
		vs = append(vs, chainVariant{Cfg: cfgFromBits(b)})
	}
	for k := 1; k <= len(blocks); k++ {
		for _, b := range cornerCfgs {
			vs = append(vs, chainVariant{Cfg: cfgFromBits(b), RestartAfter: k})
		}
		vs = append(vs, chainVariant{Cfg: cfgFromBits(0b0010), RestartAfter: k, EnableSnap: true}, chainVariant{Cfg: cfgFromBits(0b0011), RestartAfter: k, EnableSnap: true})
	}
	for b := 1; b < 16; b++ {
		if cfgFromBits(b).Snapshot {
			vs = append(vs, chainVariant{Cfg: cfgFromBits(b), CapEvery: true})
		}
	}
	for k := 1; k < len(blocks); k++ {
		vs = append(vs, chainVariant{Cfg: cfgFromBits(0b0110), RestartAfter: k, CapEvery: true}, chainVariant{Cfg: cfgFromBits(0b1111), RestartAfter: k, CapEvery: true})
	}
	vs = append(vs, chainVariant{Cfg: cfgFromBits(0b0010), Generating: true})
	if c.ChainVariant != nil {
		vs = append(vs, *c.ChainVariant)
	}
	cr := runChainCase(j, 0, vs)
	for k, o := range cr.ref {
		fmt.Printf("  reference after block %d: app hash %s, %d receipts, read back: %s\n", k+1, o.AppHash, len(o.Receipts), o.ReadBack)
	}
	for _, f := range cr.findings {
		fmt.Printf("  axis=%s field=%s: %s\n", f.axis, f.field, f.what)
	}
	return len(cr.findings) > 0
}
