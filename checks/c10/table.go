package main

// The explicit per-opcode binding table: for every byte value, whether KVM's two jump tables
// (v1 = pre-Galaxias, v2 = post-Galaxias; kvm/instruction_set.go) define it, which reference fork
// of go-ethereum v1.9.15 the entry follows, and how the checker treats it.
//
// Read from kvm/instruction_set.go (newV1InstructionSet / newV2InstructionSet) and
// core/vm/jump_table.go + eips.go of the reference:
//
//   - v1 = the reference's Constantinople/Petersburg table, with byte 0x44 = GASLIMIT and byte 0x45 undefined
//     (kvm/opcodes.go: the 0x40 range is numbered by iota without DIFFICULTY), PLUS 0x47 SELFBALANCE (constantGas GasFastStep = the EIP-1884 entry of the Istanbul table).
//   - v2 = v1 PLUS 0x46 CHAINID (enable1344 = the EIP-1344 entry of the Istanbul table).
//   - SSTORE uses the legacy (Frontier/Petersburg) gas function gasSStore, not EIP-2200; SLOAD /
//     BALANCE / EXTCODEHASH / CALL constant gas are KVM's own numbers (configs/params.go), i.e. gas
//     is NOT bound to any reference fork and never compared.
//
// The reference is therefore run under Petersburg rules with ExtraEips {1884} (v1) or {1884, 1344}
// (v2): exactly "Istanbul's entry for SELFBALANCE / CHAINID, Petersburg otherwise".
type fork int

const (
	fNone         fork = iota // undefined in KVM and in the reference configuration used
	fPetersburg               // follows the reference's Petersburg (Constantinople) entry
	fIstanbul1884             // follows the Istanbul entry introduced by EIP-1884 (SELFBALANCE)
	fIstanbul1344             // follows the Istanbul entry introduced by EIP-1344 (CHAINID), v2 only
	fDiffers                  // legitimately differs (KVM undefined, reference defined): never compared
)

func (f fork) String() string {
	return [...]string{"none", "petersburg", "istanbul(eip-1884)", "istanbul(eip-1344)", "differs"}[f]
}

type cmpMode int

const (
	cmpValue   cmpMode = iota // results compared with the reference
	cmpNoCrash                // executed for the always-oracles only; a program that fetches it is not value-compared
)

type opInfo struct {
	name    string
	inV1    bool // defined in KVM's pre-Galaxias table
	inV2    bool // defined in KVM's post-Galaxias table
	ref     fork
	mode    cmpMode
	note    string
	pops    int
	pushes  int
	defined bool // defined in at least one KVM table
}

var opTable [256]opInfo

func def(b int, name string, pops, pushes int) {
	opTable[b] = opInfo{name: name, inV1: true, inV2: true, ref: fPetersburg, mode: cmpValue, pops: pops, pushes: pushes, defined: true}
}

func initTable() {
	for i := range opTable {
		opTable[i] = opInfo{name: "UNDEF_" + hex2(byte(i)), ref: fNone, mode: cmpValue}
	}
	def(0x00, "STOP", 0, 0)
	for i, n := range []string{"ADD", "MUL", "SUB", "DIV", "SDIV", "MOD", "SMOD"} {
		def(0x01+i, n, 2, 1)
	}
	def(0x08, "ADDMOD", 3, 1)
	def(0x09, "MULMOD", 3, 1)
	def(0x0a, "EXP", 2, 1)
	def(0x0b, "SIGNEXTEND", 2, 1)
	for i, n := range []string{"LT", "GT", "SLT", "SGT", "EQ"} {
		def(0x10+i, n, 2, 1)
	}
	def(0x15, "ISZERO", 1, 1)
	def(0x16, "AND", 2, 1)
	def(0x17, "OR", 2, 1)
	def(0x18, "XOR", 2, 1)
	def(0x19, "NOT", 1, 1)
	def(0x1a, "BYTE", 2, 1)
	def(0x1b, "SHL", 2, 1)
	def(0x1c, "SHR", 2, 1)
	def(0x1d, "SAR", 2, 1)
	def(0x20, "SHA3", 2, 1)
	def(0x30, "ADDRESS", 0, 1)
	def(0x31, "BALANCE", 1, 1)
	def(0x32, "ORIGIN", 0, 1)
	def(0x33, "CALLER", 0, 1)
	def(0x34, "CALLVALUE", 0, 1)
	def(0x35, "CALLDATALOAD", 1, 1)
	def(0x36, "CALLDATASIZE", 0, 1)
	def(0x37, "CALLDATACOPY", 3, 0)
	def(0x38, "CODESIZE", 0, 1)
	def(0x39, "CODECOPY", 3, 0)
	def(0x3a, "GASPRICE", 0, 1)
	def(0x3b, "EXTCODESIZE", 1, 1)
	def(0x3c, "EXTCODECOPY", 4, 0)
	def(0x3d, "RETURNDATASIZE", 0, 1)
	def(0x3e, "RETURNDATACOPY", 3, 0)
	def(0x3f, "EXTCODEHASH", 1, 1)
	def(0x40, "BLOCKHASH", 1, 1)
	def(0x41, "COINBASE", 0, 1)
	def(0x42, "TIMESTAMP", 0, 1)
	def(0x43, "NUMBER", 0, 1)
	// 0x44 / 0x45: kvm/opcodes.go numbers the block operations by iota without DIFFICULTY, so KVM's
	// GASLIMIT is byte 0x44 and byte 0x45 has no entry; the reference has DIFFICULTY = 0x44 and
	// GASLIMIT = 0x45. Both bytes legitimately differ and are never value-compared.
	opTable[0x44] = opInfo{name: "GASLIMIT@0x44", inV1: true, inV2: true, ref: fDiffers, mode: cmpNoCrash, pushes: 1, defined: true,
		note: "GASLIMIT in KVM (opcodes.go iota without DIFFICULTY), DIFFICULTY in the reference: excluded from value comparison"}
	opTable[0x45] = opInfo{name: "OP_0x45", ref: fDiffers, mode: cmpNoCrash, pushes: 1,
		note: "undefined in KVM, GASLIMIT in the reference: excluded from value comparison"}
	opTable[0x46] = opInfo{name: "CHAINID", inV1: false, inV2: true, ref: fIstanbul1344, mode: cmpValue, pushes: 1, defined: true,
		note: "post-Galaxias only (enable1344); reference: Petersburg + EIP-1344 for v2, plain Petersburg (undefined) for v1"}
	opTable[0x47] = opInfo{name: "SELFBALANCE", inV1: true, inV2: true, ref: fIstanbul1884, mode: cmpValue, pushes: 1, defined: true,
		note: "present in both KVM tables; reference: Petersburg + EIP-1884 entry"}
	def(0x50, "POP", 1, 0)
	def(0x51, "MLOAD", 1, 1)
	def(0x52, "MSTORE", 2, 0)
	def(0x53, "MSTORE8", 2, 0)
	def(0x54, "SLOAD", 1, 1)
	def(0x55, "SSTORE", 2, 0)
	def(0x56, "JUMP", 1, 0)
	def(0x57, "JUMPI", 2, 0)
	def(0x58, "PC", 0, 1)
	def(0x59, "MSIZE", 0, 1)
	def(0x5a, "GAS", 0, 1)
	opTable[0x5a].mode = cmpNoCrash
	opTable[0x5a].note = "value depends on gas costs, which legitimately differ: excluded from value comparison"
	def(0x5b, "JUMPDEST", 0, 0)
	for i := 0; i < 32; i++ {
		def(0x60+i, "PUSH"+itoa(i+1), 0, 1)
	}
	for i := 0; i < 16; i++ {
		def(0x80+i, "DUP"+itoa(i+1), i+1, i+2)
		def(0x90+i, "SWAP"+itoa(i+1), i+2, i+2)
	}
	for i := 0; i < 5; i++ {
		def(0xa0+i, "LOG"+itoa(i), 2+i, 0)
	}
	def(0xf0, "CREATE", 3, 1)
	def(0xf1, "CALL", 7, 1)
	def(0xf2, "CALLCODE", 7, 1)
	def(0xf3, "RETURN", 2, 0)
	def(0xf4, "DELEGATECALL", 6, 1)
	def(0xf5, "CREATE2", 4, 1)
	def(0xfa, "STATICCALL", 6, 1)
	def(0xfd, "REVERT", 2, 0)
	opTable[0xfe].name = "INVALID"
	def(0xff, "SELFDESTRUCT", 1, 0)
}

func hex2(b byte) string {
	const h = "0123456789abcdef"
	return string([]byte{h[b>>4], h[b&15]})
}

func itoa(i int) string {
	if i < 10 {
		return string([]byte{byte('0' + i)})
	}
	return string([]byte{byte('0' + i/10), byte('0' + i%10)})
}

// kvmDefines tells whether the table says KVM instruction set iset (0 = v1, 1 = v2) defines opcode b.
func kvmDefines(iset int, b byte) bool {
	if iset == 0 {
		return opTable[b].inV1
	}
	return opTable[b].inV2
}

// refDefines tells whether the reference configuration used for iset defines opcode b.
func refDefines(iset int, b byte) bool {
	switch opTable[b].ref {
	case fPetersburg, fIstanbul1884:
		return true
	case fIstanbul1344:
		return iset == 1
	case fDiffers:
		return true
	}
	return false
}
