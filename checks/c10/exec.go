package main

import (
	"bytes"
	"fmt"
	"math/big"
	"runtime/debug"
	"sort"
	"strconv"
	"strings"
	"time"

	// the code under test
	"github.com/kardiachain/go-kardia/configs"
	"github.com/kardiachain/go-kardia/kai/kaidb/memorydb"
	kstate "github.com/kardiachain/go-kardia/kai/state"
	"github.com/kardiachain/go-kardia/kvm"
	kcommon "github.com/kardiachain/go-kardia/lib/common"
	kcrypto "github.com/kardiachain/go-kardia/lib/crypto"
	mkvm "github.com/kardiachain/go-kardia/mainchain/kvm"

	// the reference
	gcommon "github.com/ethereum/go-ethereum/common"
	"github.com/ethereum/go-ethereum/core/rawdb"
	gstate "github.com/ethereum/go-ethereum/core/state"
	gvm "github.com/ethereum/go-ethereum/core/vm"
	gparams "github.com/ethereum/go-ethereum/params"
)

// ---------------------------------------------------------------------------------------------
// A case = everything needed to execute once on either side.

type extraAcct struct {
	Addr    string      `json:"addr"`
	Code    string      `json:"code"`
	Storage [][2]string `json:"storage,omitempty"`
}

type Case struct {
	Family     string      `json:"family"`
	Name       string      `json:"name"`
	ISet       int         `json:"iset"` // 0 = v1 (pre-Galaxias), 1 = v2 (post-Galaxias)
	Code       string      `json:"code"`
	Input      string      `json:"input"`
	Gas        uint64      `json:"gas"`
	Value      uint64      `json:"value"`
	Extra      []extraAcct `json:"extra,omitempty"`
	PreludeEnd int         `json:"prelude_end"`
	StepBound  uint64      `json:"step_bound"`
	Expect     []string    `json:"expect,omitempty"` // absolute expectations (wrappers), see checkExpect
	NilChainID bool        `json:"nil_chain_id,omitempty"`
	Create     bool        `json:"create,omitempty"`
	To         string      `json:"to,omitempty"`
	Probe      []string    `json:"probe,omitempty"`
}

type prog struct {
	family     string
	name       string
	code       []byte
	input      []byte
	gas        uint64
	value      uint64
	extra      []account
	preludeEnd int
	stepBound  uint64
	expect     []string
	tinyGas    bool
	wantPre    bool
	record     bool                       // record per-step states (divergence locator)
	nilChainID bool                       // run KVM under a chain config whose ChainID is nil (always-oracles only, no reference run)
	create     bool                       // code is init code: top-level KVM.Create instead of KVM.Call
	toAddr     *addr20                    // top-level call goes to this address instead of the main contract (transaction-style call to a precompile)
	probe      []addr20                   // additional addresses whose account state is part of the compared / expected post-state
	capKey     string                     // key of the per-family cap on processed violating cases (default: family)
	onKVM      func(iset int, k *outcome) // optional per-family observer of the first KVM outcome (vacuity counters)
}

func (p *prog) toCase(iset int) Case {
	c := Case{Family: p.family, Name: p.name, ISet: iset, NilChainID: p.nilChainID, Create: p.create, Code: fmt.Sprintf("%x", p.code), Input: fmt.Sprintf("%x", p.input), Gas: p.gas,
		Value: p.value, PreludeEnd: p.preludeEnd, StepBound: p.stepBound, Expect: p.expect}
	if p.toAddr != nil {
		c.To = fmt.Sprintf("%x", p.toAddr[:])
	}
	for _, a := range p.probe {
		c.Probe = append(c.Probe, fmt.Sprintf("%x", a[:]))
	}
	for _, e := range p.extra {
		ea := extraAcct{Addr: fmt.Sprintf("%x", e.addr[:]), Code: fmt.Sprintf("%x", e.code)}
		for _, kv := range e.storage {
			ea.Storage = append(ea.Storage, [2]string{fmt.Sprintf("%x", kv[0][:]), fmt.Sprintf("%x", kv[1][:])})
		}
		c.Extra = append(c.Extra, ea)
	}
	return c
}

// ---------------------------------------------------------------------------------------------
// Trace summary, filled by the tracers of both sides with the same rules.

type slotKey struct {
	a addr20
	k word32
}

type traceSum struct {
	count           *[256]uint64 // executed (dispatched) opcodes, worker-local accumulation
	steps           uint64
	maxDepth        int
	oog             bool // some frame failed with an out-of-gas class error (incl. gas overflow, code-store OOG)
	plainOOG        bool // ... with out-of-gas or code-store out-of-gas proper (depends on the gas schedule)
	uovf            bool // ... with the uint64 gas / memory-size overflow error (an arithmetic fact, independent of the gas supplied)
	excluded        bool // an opcode with cmpNoCrash was fetched (0x44, 0x45, GAS)
	precompile      bool // a CALL-family op addressed 0x01..0x09
	bigCode         bool // a CREATE frame returned more than 24576 bytes (MaxCodeSize differs: 39231 vs 24576)
	pastPrelude     bool // an instruction at pc >= preludeEnd of the top frame was dispatched
	preludeEnd      uint64
	stepBound       uint64
	overBound       bool
	slots           []slotKey
	addrs           []addr20
	lastAddr        addr20
	ops             [4]uint64  // bitmap of opcodes dispatched in this run
	saw46           bool       // opcode 0x46 was fetched (its reference configuration depends on the instruction set)
	sawCodeStoreOOG bool       // KVM side only: a nested CREATE frame ended with ErrCodeStoreOutOfGas
	sawMaxCode      bool       // KVM side only: ... with ErrMaxCodeSizeExceeded
	lastOp          byte       // last opcode handed to the tracer (for panics: the instruction being executed)
	rec             *[]stepRec // when non-nil: per-step record for the divergence locator (only on re-runs of violating cases)
}

// stepRec is the machine state right before one instruction is executed (gas excluded).
type stepRec struct {
	depth int
	pc    uint64
	op    byte
	h     uint64 // FNV-1a over the stack words (32-byte big endian each) and the memory
}

func fnv(h uint64, b []byte) uint64 {
	for _, x := range b {
		h ^= uint64(x)
		h *= 1099511628211
	}
	return h
}

const fnvInit = 14695981039346656037

const refMaxCodeSize = 24576

var kvmMaxCodeSize = uint64(configs.MaxCodeSize)

const createDataGas = 200

func (t *traceSum) noteAddr(a addr20) {
	if a == t.lastAddr {
		return
	}
	t.lastAddr = a
	for _, x := range t.addrs {
		if x == a {
			return
		}
	}
	if len(t.addrs) < 64 {
		t.addrs = append(t.addrs, a)
	}
}

func (t *traceSum) noteSlot(a addr20, k word32) {
	for _, x := range t.slots {
		if x.a == a && x.k == k {
			return
		}
	}
	if len(t.slots) < 64 {
		t.slots = append(t.slots, slotKey{a, k})
	}
}

// create2Addr computes the EIP-1014 address with the checker's own arithmetic (shared by both tracers).
func create2Addr(creator addr20, salt word32, init []byte) addr20 {
	h := kcrypto.Keccak256(init)
	return addr20(kcrypto.CreateAddress2(kcommon.Address(creator), salt, h))
}

func isPrecompileAddr(a addr20) bool {
	for i := 0; i < 19; i++ {
		if a[i] != 0 {
			return false
		}
	}
	return a[19] >= 1 && a[19] <= 9
}

// ---------------------------------------------------------------------------------------------
// Observation of one execution.

type logRec struct {
	addr   addr20
	topics []word32
	data   []byte
}

type prober interface {
	probeAddr(buf []byte, a addr20) []byte // appends a rendering of the account
	probeSlot(a addr20, k word32) word32
}

type outcome struct {
	panicMsg string
	status   int // 0 success, 1 revert, 2 failure
	errKind  string
	ret      []byte
	gasLeft  uint64
	logs     []logRec
	tr       traceSum
	st       prober
	pre      func() prober // a fresh copy of the pre-state (only for programs with absolute state expectations)
}

const (
	stOK = iota
	stRevert
	stFail
)

var statusName = []string{"success", "revert", "failure"}

func logsString(ls []logRec) string {
	var sb strings.Builder
	for _, l := range ls {
		fmt.Fprintf(&sb, "[%x", l.addr[:])
		for _, t := range l.topics {
			fmt.Fprintf(&sb, " %x", t[:])
		}
		fmt.Fprintf(&sb, " | %x]", l.data)
	}
	return sb.String()
}

// fixed probe addresses: the two accounts every execution touches. Everything else is probed when a
// trace of either side noted it: every address that executed code, every CALL/CALLCODE/DELEGATECALL/
// STATICCALL target, every SELFDESTRUCT beneficiary, every CREATE/CREATE2 result address, and every
// (address, key) an SSTORE was dispatched for.
var fixedProbe []addr20

func initProbe() {
	fixedProbe = []addr20{addrOrigin, addrMain}
}

const hexdigits = "0123456789abcdef"

func appendHex(buf []byte, b []byte) []byte {
	for _, x := range b {
		buf = append(buf, hexdigits[x>>4], hexdigits[x&15])
	}
	return buf
}

// stateDigest renders the probed part of the post-state: accounts (existence, balance, nonce, code hash,
// code size, self-destructed flag) and storage slots, over the fixed set plus what either trace touched.
func stateDigest(st prober, addrs []addr20, slots []slotKey) (acct string, stor string) {
	as := make([]addr20, 0, len(fixedProbe)+len(addrs))
	as = append(as, fixedProbe...)
	for _, a := range addrs {
		dup := false
		for _, x := range as {
			if x == a {
				dup = true
				break
			}
		}
		if !dup {
			as = append(as, a)
		}
	}
	if len(as) > 2 {
		sort.Slice(as, func(i, j int) bool { return bytes.Compare(as[i][:], as[j][:]) < 0 })
	}
	buf := make([]byte, 0, 128*len(as))
	for _, a := range as {
		buf = st.probeAddr(buf, a)
		buf = append(buf, '\n')
	}
	acct = string(buf)
	if len(slots) == 0 {
		return acct, ""
	}
	ss := make([]slotKey, 0, len(slots))
	for _, s := range slots {
		dup := false
		for _, x := range ss {
			if x == s {
				dup = true
				break
			}
		}
		if !dup {
			ss = append(ss, s)
		}
	}
	sort.Slice(ss, func(i, j int) bool {
		if c := bytes.Compare(ss[i].a[:], ss[j].a[:]); c != 0 {
			return c < 0
		}
		return bytes.Compare(ss[i].k[:], ss[j].k[:]) < 0
	})
	buf = buf[:0]
	for _, s := range ss {
		v := st.probeSlot(s.a, s.k)
		buf = appendHex(buf, s.a[:])
		buf = append(buf, '[')
		buf = appendHex(buf, s.k[:])
		buf = append(buf, "]="...)
		buf = appendHex(buf, v[:])
		buf = append(buf, '\n')
	}
	return acct, string(buf)
}

func renderAcct(buf []byte, a addr20, exist bool, bal *big.Int, nonce uint64, codeHash []byte, codeSize int, dead bool) []byte {
	buf = appendHex(buf, a[:])
	if !exist {
		return append(buf, ": absent"...)
	}
	buf = append(buf, ": bal="...)
	buf = bal.Append(buf, 10)
	buf = append(buf, " nonce="...)
	buf = strconv.AppendUint(buf, nonce, 10)
	buf = append(buf, " codehash="...)
	buf = appendHex(buf, codeHash[:6])
	buf = append(buf, " codesize="...)
	buf = strconv.AppendInt(buf, int64(codeSize), 10)
	if dead {
		buf = append(buf, " selfdestructed"...)
	}
	return buf
}

func getHashWord(n uint64) word32 {
	var w word32
	copy(w[:], kcrypto.Keccak256([]byte(fmt.Sprintf("block-%d", n))))
	return w
}

// ---------------------------------------------------------------------------------------------
// KVM side

type kworld struct {
	db   kstate.Database
	root kcommon.Hash
}

func newKWorld() *kworld {
	db := kstate.NewDatabase(memorydb.New())
	s, err := kstate.New(kcommon.Hash{}, db, nil)
	if err != nil {
		panic(err)
	}
	for _, a := range baseAccounts() {
		ka := kcommon.Address(a.addr)
		s.CreateAccount(ka)
		s.SetBalance(ka, new(big.Int).SetUint64(a.balance))
		s.SetNonce(ka, a.nonce)
		if len(a.code) > 0 {
			s.SetCode(ka, a.code)
		}
		for _, kv := range a.storage {
			s.SetState(ka, kcommon.Hash(kv[0]), kcommon.Hash(kv[1]))
		}
	}
	root, err := s.Commit(false)
	if err != nil {
		panic(err)
	}
	return &kworld{db: db, root: root}
}

type kprober struct{ s *kstate.StateDB }

func (p kprober) probeAddr(buf []byte, a addr20) []byte {
	ka := kcommon.Address(a)
	if !p.s.Exist(ka) {
		return renderAcct(buf, a, false, nil, 0, nil, 0, false)
	}
	h := p.s.GetCodeHash(ka)
	return renderAcct(buf, a, true, p.s.GetBalance(ka), p.s.GetNonce(ka), h[:], p.s.GetCodeSize(ka), p.s.HasSuicided(ka))
}
func (p kprober) probeSlot(a addr20, k word32) word32 {
	return word32(p.s.GetState(kcommon.Address(a), kcommon.Hash(k)))
}

type ktracer struct {
	t   *traceSum
	s   *kstate.StateDB
	env *kvm.KVM
}

func kNote(t *traceSum, err error) {
	t.oog = true
	if err == kvm.ErrGasUintOverflow {
		t.uovf = true
	} else {
		t.plainOOG = true
	}
}

func gNote(t *traceSum, err error) {
	t.oog = true
	if err == gvm.ErrGasUintOverflow {
		t.uovf = true
	} else {
		t.plainOOG = true
	}
}

func kIsOOG(err error) bool {
	return err == kvm.ErrOutOfGas || err == kvm.ErrGasUintOverflow || err == kvm.ErrCodeStoreOutOfGas
}

func (k *ktracer) CaptureStart(env *kvm.KVM, from kcommon.Address, to kcommon.Address, create bool, input []byte, gas uint64, value *big.Int) {
}
func (k *ktracer) CaptureEnter(typ kvm.OpCode, from kcommon.Address, to kcommon.Address, input []byte, gas uint64, value *big.Int) {
}
func (k *ktracer) CaptureExit(output []byte, gasUsed uint64, err error) {
	if err != nil && kIsOOG(err) {
		kNote(k.t, err)
	}
	switch err {
	case kvm.ErrCodeStoreOutOfGas:
		k.t.sawCodeStoreOOG = true
	case kvm.ErrMaxCodeSizeExceeded:
		k.t.sawMaxCode = true
	}
}
func (k *ktracer) CaptureEnd(output []byte, gasUsed uint64, d time.Duration, err error) {
	if err != nil && kIsOOG(err) {
		kNote(k.t, err)
	}
}
func (k *ktracer) CaptureFault(pc uint64, op kvm.OpCode, gas, cost uint64, scope *kvm.ScopeContext, depth int, err error) {
	if kIsOOG(err) {
		kNote(k.t, err)
	}
}
func (k *ktracer) CaptureState(pc uint64, op kvm.OpCode, gas, cost uint64, scope *kvm.ScopeContext, rData []byte, depth int, err error) {
	t := k.t
	b := byte(op)
	t.lastOp = b
	if opTable[b].mode == cmpNoCrash {
		t.excluded = true
	}
	if b == 0x46 {
		t.saw46 = true
	}
	if err != nil {
		if kIsOOG(err) {
			kNote(t, err)
		}
		return
	}
	t.steps++
	if t.steps > t.stepBound {
		if !t.overBound {
			t.overBound = true
			k.env.Cancel()
		}
		return
	}
	t.count[b]++
	t.ops[b>>6] |= 1 << (b & 63)
	if depth > t.maxDepth {
		t.maxDepth = depth
	}
	if t.rec != nil && len(*t.rec) < 100000 {
		h := uint64(fnvInit)
		for i := range scope.Stack.Data() {
			w := scope.Stack.Data()[i].Bytes32()
			h = fnv(h, w[:])
		}
		h = fnv(h, scope.Memory.Data())
		*t.rec = append(*t.rec, stepRec{depth, pc, b, h})
	}
	self := addr20(scope.Contract.Address())
	t.noteAddr(self)
	if depth == 1 && pc >= t.preludeEnd {
		t.pastPrelude = true
	}
	switch b {
	case 0x55: // SSTORE
		t.noteSlot(self, word32(scope.Stack.Back(0).Bytes32()))
	case 0xf1, 0xf2, 0xf4, 0xfa:
		a := addr20(scope.Stack.Back(1).Bytes20())
		if isPrecompileAddr(a) {
			t.precompile = true
		}
		t.noteAddr(a)
		t.lastAddr = self
	case 0xff:
		t.noteAddr(addr20(scope.Stack.Back(0).Bytes20()))
		t.lastAddr = self
	case 0xf0: // CREATE: result address = f(creator, creator's nonce)
		t.noteAddr(addr20(kcrypto.CreateAddress(kcommon.Address(self), k.s.GetNonce(kcommon.Address(self)))))
		t.lastAddr = self
	case 0xf5: // CREATE2: result address = f(creator, salt, init code)
		off, sz := scope.Stack.Back(1), scope.Stack.Back(2)
		init := scope.Memory.GetCopy(int64(off.Uint64()), int64(sz.Uint64()))
		t.noteAddr(create2Addr(self, word32(scope.Stack.Back(3).Bytes32()), init))
		t.lastAddr = self
	case 0xf3: // RETURN
		if len(scope.Contract.Code) > 0 && k.s.GetCodeSize(scope.Contract.Address()) == 0 { // a CREATE frame returns its runtime code
			sz := scope.Stack.Back(1)
			switch n := sz.Uint64(); {
			case !sz.IsUint64():
				t.bigCode = true
			case n > kvmMaxCodeSize:
				// larger than BOTH limits: both sides reject the deposit whatever the gas - comparable
			case n > refMaxCodeSize:
				t.bigCode = true // between the two limits: legitimately different
			case gas-cost < n*createDataGas:
				t.oog, t.plainOOG = true, true
			}
		}
	}
}

var kChainCfg [2]*configs.ChainConfig
var kChainCfgNilID [2]*configs.ChainConfig

func initChainCfgs() {
	zero := uint64(0)
	kChainCfg[0] = &configs.ChainConfig{ChainID: big.NewInt(chainID), GalaxiasBlock: nil}
	kChainCfg[1] = &configs.ChainConfig{ChainID: big.NewInt(chainID), GalaxiasBlock: &zero}
	kChainCfgNilID[0] = &configs.ChainConfig{GalaxiasBlock: nil}
	kChainCfgNilID[1] = &configs.ChainConfig{GalaxiasBlock: &zero}
	gChainCfg = &gparams.ChainConfig{ChainID: big.NewInt(chainID), HomesteadBlock: new(big.Int), EIP150Block: new(big.Int), EIP155Block: new(big.Int),
		EIP158Block: new(big.Int), ByzantiumBlock: new(big.Int), ConstantinopleBlock: new(big.Int), PetersburgBlock: new(big.Int)}
}

func classifyK(err error) (int, string) {
	switch {
	case err == nil:
		return stOK, ""
	case err == kvm.ErrExecutionReverted:
		return stRevert, "revert"
	}
	switch err.(type) {
	case *kvm.ErrStackUnderflow:
		return stFail, "stack-underflow"
	case *kvm.ErrStackOverflow:
		return stFail, "stack-overflow"
	case *kvm.ErrInvalidOpCode:
		return stFail, "invalid-opcode"
	}
	switch err {
	case kvm.ErrOutOfGas, kvm.ErrGasUintOverflow, kvm.ErrCodeStoreOutOfGas:
		return stFail, "out-of-gas"
	case kvm.ErrInvalidJump:
		return stFail, "invalid-jump"
	case kvm.ErrWriteProtection:
		return stFail, "write-protection"
	case kvm.ErrReturnDataOutOfBounds:
		return stFail, "returndata-oob"
	case kvm.ErrDepth:
		return stFail, "depth"
	case kvm.ErrInsufficientBalance:
		return stFail, "insufficient-balance"
	case kvm.ErrContractAddressCollision:
		return stFail, "collision"
	case kvm.ErrMaxCodeSizeExceeded:
		return stFail, "max-code-size"
	}
	return stFail, "other:" + err.Error()
}

func runKVM(w *kworld, p *prog, iset int, count *[256]uint64) (out outcome) {
	out.tr.count = count
	if p.record {
		out.tr.rec = new([]stepRec)
	}
	out.tr.preludeEnd = uint64(p.preludeEnd)
	out.tr.stepBound = p.stepBound
	defer func() {
		if r := recover(); r != nil {
			st := string(debug.Stack())
			out.panicMsg = fmt.Sprintf("%v\n%s", r, trimStack(st))
		}
	}()
	mkState := func() *kstate.StateDB {
		s, err := kstate.New(w.root, w.db, nil)
		if err != nil {
			panic("harness: " + err.Error())
		}
		for _, e := range p.extra {
			ka := kcommon.Address(e.addr)
			s.CreateAccount(ka)
			s.SetNonce(ka, 1)
			s.SetBalance(ka, new(big.Int).SetUint64(e.balance))
			s.SetCode(ka, e.code)
			for _, kv := range e.storage {
				s.SetState(ka, kcommon.Hash(kv[0]), kcommon.Hash(kv[1]))
			}
		}
		if !p.create {
			s.SetCode(kcommon.Address(addrMain), p.code)
		}
		return s
	}
	s := mkState()
	main := kcommon.Address(addrMain)
	if p.toAddr != nil {
		main = kcommon.Address(*p.toAddr)
	}
	for _, a := range p.probe {
		out.tr.noteAddr(a)
	}
	out.st = kprober{s}
	if p.wantPre {
		out.pre = func() prober { return kprober{mkState()} }
	}
	tr := &ktracer{t: &out.tr, s: s}
	ctx := kvm.BlockContext{
		CanTransfer: mkvm.CanTransfer,
		Transfer:    mkvm.Transfer,
		GetHash:     func(n uint64) kcommon.Hash { return kcommon.Hash(getHashWord(n)) },
		Coinbase:    kcommon.Address(addrCoinbase),
		GasLimit:    blockGasLim,
		BlockHeight: big.NewInt(blockNumber),
		Time:        big.NewInt(blockTime),
	}
	cfg := kChainCfg[iset]
	if p.nilChainID {
		cfg = kChainCfgNilID[iset]
	}
	env := kvm.NewKVM(ctx, kvm.TxContext{Origin: kcommon.Address(addrOrigin), GasPrice: big.NewInt(gasPrice)}, s, cfg, kvm.Config{Debug: true, Tracer: tr})
	tr.env = env
	var (
		ret  []byte
		left uint64
		err  error
	)
	if p.create {
		out.tr.noteAddr(addr20(kcrypto.CreateAddress(kcommon.Address(addrOrigin), s.GetNonce(kcommon.Address(addrOrigin)))))
		ret, _, left, err = env.Create(kvm.AccountRef(kcommon.Address(addrOrigin)), p.code, p.gas, new(big.Int).SetUint64(p.value))
	} else {
		ret, left, err = env.Call(kvm.AccountRef(kcommon.Address(addrOrigin)), main, p.input, p.gas, new(big.Int).SetUint64(p.value))
	}
	out.status, out.errKind = classifyK(err)
	if out.errKind == "out-of-gas" {
		kNote(&out.tr, err)
	}
	out.ret = append([]byte{}, ret...)
	out.gasLeft = left
	for _, l := range s.Logs() {
		lr := logRec{addr: addr20(l.Address), data: append([]byte{}, l.Data...)}
		for _, t := range l.Topics {
			lr.topics = append(lr.topics, word32(t))
		}
		out.logs = append(out.logs, lr)
	}
	return
}

func trimStack(s string) string {
	lines := strings.Split(s, "\n")
	var keep []string
	for _, l := range lines {
		if strings.Contains(l, "go-kardia/") || strings.Contains(l, "/kvm/") || strings.Contains(l, "/kai/state/") || strings.Contains(l, "uint256") {
			l = strings.TrimSpace(l)
			if i := strings.Index(l, " +0x"); i > 0 {
				l = l[:i]
			}
			if !strings.Contains(l, ".go:") { // function line: drop the (run-dependent) argument values
				if k := strings.LastIndex(l, "("); k > 0 && !strings.HasPrefix(l[k:], "(*") {
					l = l[:k]
				}
			}
			keep = append(keep, l)
		}
		if len(keep) >= 14 {
			break
		}
	}
	return strings.Join(keep, " | ")
}

// panicSite extracts the innermost function of the repository on the panicking stack, e.g. "kvm.opMstore8".
func panicSite(msg string) string {
	for _, part := range strings.Split(msg, " | ") {
		if i := strings.Index(part, "go-kardia/"); i >= 0 && !strings.Contains(part, ".go:") {
			s := part[i+len("go-kardia/"):]
			if j := strings.Index(s, "("); j > 0 {
				// keep a method's receiver "(*Memory)" but cut the argument list
				if k := strings.LastIndex(s, "("); k > 0 && !strings.HasPrefix(s[k:], "(*") {
					s = s[:k]
				}
			}
			return s
		}
	}
	return "unknown"
}

// ---------------------------------------------------------------------------------------------
// Reference side (go-ethereum v1.9.15)

var gChainCfg *gparams.ChainConfig

type gworld struct {
	db   gstate.Database
	root gcommon.Hash
	// The reference EVM object is reused across runs of one worker (its construction copies two 16 KiB
	// jump tables); only the StateDB and the tracer's sink are swapped. It is rebuilt after a cancel.
	evm [2]*gvm.EVM
	trc [2]*gtracer
}

func newGWorld() *gworld {
	db := gstate.NewDatabase(rawdb.NewMemoryDatabase())
	s, err := gstate.New(gcommon.Hash{}, db, nil)
	if err != nil {
		panic(err)
	}
	for _, a := range baseAccounts() {
		ga := gcommon.Address(a.addr)
		s.CreateAccount(ga)
		s.SetBalance(ga, new(big.Int).SetUint64(a.balance))
		s.SetNonce(ga, a.nonce)
		if len(a.code) > 0 {
			s.SetCode(ga, a.code)
		}
		for _, kv := range a.storage {
			s.SetState(ga, gcommon.Hash(kv[0]), gcommon.Hash(kv[1]))
		}
	}
	root, err := s.Commit(false)
	if err != nil {
		panic(err)
	}
	return &gworld{db: db, root: root}
}

type gprober struct{ s *gstate.StateDB }

func (p gprober) probeAddr(buf []byte, a addr20) []byte {
	ga := gcommon.Address(a)
	if !p.s.Exist(ga) {
		return renderAcct(buf, a, false, nil, 0, nil, 0, false)
	}
	h := p.s.GetCodeHash(ga)
	return renderAcct(buf, a, true, p.s.GetBalance(ga), p.s.GetNonce(ga), h[:], p.s.GetCodeSize(ga), p.s.HasSuicided(ga))
}
func (p gprober) probeSlot(a addr20, k word32) word32 {
	return word32(p.s.GetState(gcommon.Address(a), gcommon.Hash(k)))
}

type gtracer struct {
	t *traceSum
	s *gstate.StateDB
}

func gIsOOG(err error) bool {
	return err == gvm.ErrOutOfGas || err == gvm.ErrGasUintOverflow || err == gvm.ErrCodeStoreOutOfGas
}

func (g *gtracer) CaptureStart(from gcommon.Address, to gcommon.Address, create bool, input []byte, gas uint64, value *big.Int) error {
	return nil
}
func (g *gtracer) CaptureEnd(output []byte, gasUsed uint64, d time.Duration, err error) error {
	if err != nil && gIsOOG(err) {
		gNote(g.t, err)
	}
	return nil
}
func (g *gtracer) CaptureFault(env *gvm.EVM, pc uint64, op gvm.OpCode, gas, cost uint64, memory *gvm.Memory, stack *gvm.Stack, rStack *gvm.ReturnStack, contract *gvm.Contract, depth int, err error) error {
	if gIsOOG(err) {
		gNote(g.t, err)
	}
	return nil
}

func bigAddr(b *big.Int) (a addr20) {
	bs := b.Bytes()
	if len(bs) > 20 {
		bs = bs[len(bs)-20:]
	}
	copy(a[20-len(bs):], bs)
	return
}

func (g *gtracer) CaptureState(env *gvm.EVM, pc uint64, op gvm.OpCode, gas, cost uint64, memory *gvm.Memory, stack *gvm.Stack, rStack *gvm.ReturnStack, contract *gvm.Contract, depth int, err error) error {
	t := g.t
	b := byte(op)
	t.lastOp = b
	if opTable[b].mode == cmpNoCrash {
		t.excluded = true
	}
	if b == 0x46 {
		t.saw46 = true
	}
	if err != nil {
		if gIsOOG(err) {
			gNote(t, err)
		}
		return nil
	}
	t.steps++
	if t.steps > t.stepBound {
		if !t.overBound {
			t.overBound = true
			env.Cancel()
		}
		return nil
	}
	t.count[b]++
	t.ops[b>>6] |= 1 << (b & 63)
	if depth > t.maxDepth {
		t.maxDepth = depth
	}
	if t.rec != nil && len(*t.rec) < 100000 {
		h := uint64(fnvInit)
		for _, x := range stack.Data() {
			w := wordOfBig(x)
			h = fnv(h, w[:])
		}
		h = fnv(h, memory.Data())
		*t.rec = append(*t.rec, stepRec{depth, pc, b, h})
	}
	self := addr20(contract.Address())
	t.noteAddr(self)
	if depth == 1 && pc >= t.preludeEnd {
		t.pastPrelude = true
	}
	switch b {
	case 0x55:
		t.noteSlot(self, wordOfBig(stack.Back(0)))
	case 0xf1, 0xf2, 0xf4, 0xfa:
		a := bigAddr(stack.Back(1))
		if isPrecompileAddr(a) {
			t.precompile = true
		}
		t.noteAddr(a)
		t.lastAddr = self
	case 0xff:
		t.noteAddr(bigAddr(stack.Back(0)))
		t.lastAddr = self
	case 0xf0:
		t.noteAddr(addr20(kcrypto.CreateAddress(kcommon.Address(self), g.s.GetNonce(gcommon.Address(self)))))
		t.lastAddr = self
	case 0xf5:
		off, sz := stack.Back(1), stack.Back(2)
		init := memory.GetCopy(off.Int64(), sz.Int64())
		t.noteAddr(create2Addr(self, wordOfBig(stack.Back(3)), init))
		t.lastAddr = self
	case 0xf3:
		if len(contract.Code) > 0 && g.s.GetCodeSize(contract.Address()) == 0 { // a CREATE frame returns its runtime code
			sz := stack.Back(1)
			switch n := sz.Uint64(); {
			case !sz.IsUint64():
				t.bigCode = true
			case n > kvmMaxCodeSize:
				// larger than BOTH limits: both sides reject the deposit whatever the gas - comparable
			case n > refMaxCodeSize:
				t.bigCode = true // between the two limits: legitimately different
			case gas-cost < n*createDataGas:
				t.oog, t.plainOOG = true, true
			}
		}
	}
	return nil
}

func classifyG(err error) (int, string) {
	switch {
	case err == nil:
		return stOK, ""
	case err == gvm.ErrExecutionReverted:
		return stRevert, "revert"
	}
	switch err.(type) {
	case *gvm.ErrStackUnderflow:
		return stFail, "stack-underflow"
	case *gvm.ErrStackOverflow:
		return stFail, "stack-overflow"
	case *gvm.ErrInvalidOpCode:
		return stFail, "invalid-opcode"
	}
	switch err {
	case gvm.ErrOutOfGas, gvm.ErrGasUintOverflow, gvm.ErrCodeStoreOutOfGas:
		return stFail, "out-of-gas"
	case gvm.ErrInvalidJump:
		return stFail, "invalid-jump"
	case gvm.ErrWriteProtection:
		return stFail, "write-protection"
	case gvm.ErrReturnDataOutOfBounds:
		return stFail, "returndata-oob"
	case gvm.ErrDepth:
		return stFail, "depth"
	case gvm.ErrInsufficientBalance:
		return stFail, "insufficient-balance"
	case gvm.ErrContractAddressCollision:
		return stFail, "collision"
	case gvm.ErrMaxCodeSizeExceeded:
		return stFail, "max-code-size"
	}
	return stFail, "other:" + err.Error()
}

func gCanTransfer(db gvm.StateDB, addr gcommon.Address, amount *big.Int) bool {
	return db.GetBalance(addr).Cmp(amount) >= 0
}

func gTransfer(db gvm.StateDB, sender, recipient gcommon.Address, amount *big.Int) {
	db.SubBalance(sender, amount)
	db.AddBalance(recipient, amount)
}

var refEips = [2][]int{{1884}, {1884, 1344}}

// runRef executes on the reference. A panic of the reference is a harness problem, reported as such.
func runRef(w *gworld, p *prog, iset int, count *[256]uint64) (out outcome) {
	out.tr.count = count
	if p.record {
		out.tr.rec = new([]stepRec)
	}
	out.tr.preludeEnd = uint64(p.preludeEnd)
	out.tr.stepBound = p.stepBound
	defer func() {
		if r := recover(); r != nil {
			out.panicMsg = fmt.Sprintf("reference panicked: %v", r)
		}
		if out.tr.overBound || out.panicMsg != "" {
			w.evm[iset] = nil
		}
	}()
	s, err := gstate.New(w.root, w.db, nil)
	if err != nil {
		panic("harness: " + err.Error())
	}
	for _, e := range p.extra {
		ga := gcommon.Address(e.addr)
		s.CreateAccount(ga)
		s.SetNonce(ga, 1)
		s.SetBalance(ga, new(big.Int).SetUint64(e.balance))
		s.SetCode(ga, e.code)
		for _, kv := range e.storage {
			s.SetState(ga, gcommon.Hash(kv[0]), gcommon.Hash(kv[1]))
		}
	}
	main := gcommon.Address(addrMain)
	if p.toAddr != nil {
		main = gcommon.Address(*p.toAddr)
	}
	for _, a := range p.probe {
		out.tr.noteAddr(a)
	}
	if !p.create {
		s.SetCode(gcommon.Address(addrMain), p.code)
	}
	out.st = gprober{s}
	if w.evm[iset] == nil {
		tr := &gtracer{}
		ctx := gvm.Context{
			CanTransfer: gCanTransfer,
			Transfer:    gTransfer,
			GetHash:     func(n uint64) gcommon.Hash { return gcommon.Hash(getHashWord(n)) },
			Origin:      gcommon.Address(addrOrigin),
			GasPrice:    big.NewInt(gasPrice),
			Coinbase:    gcommon.Address(addrCoinbase),
			GasLimit:    blockGasLim,
			BlockNumber: big.NewInt(blockNumber),
			Time:        big.NewInt(blockTime),
			Difficulty:  big.NewInt(131072),
		}
		w.evm[iset] = gvm.NewEVM(ctx, s, gChainCfg, gvm.Config{Debug: true, Tracer: tr, ExtraEips: append([]int{}, refEips[iset]...)})
		w.trc[iset] = tr
	}
	env := w.evm[iset]
	env.StateDB = s
	w.trc[iset].t, w.trc[iset].s = &out.tr, s
	var (
		ret  []byte
		left uint64
	)
	if p.create {
		out.tr.noteAddr(addr20(kcrypto.CreateAddress(kcommon.Address(addrOrigin), s.GetNonce(gcommon.Address(addrOrigin)))))
		ret, _, left, err = env.Create(gvm.AccountRef(gcommon.Address(addrOrigin)), p.code, p.gas, new(big.Int).SetUint64(p.value))
	} else {
		ret, left, err = env.Call(gvm.AccountRef(gcommon.Address(addrOrigin)), main, p.input, p.gas, new(big.Int).SetUint64(p.value))
	}
	out.status, out.errKind = classifyG(err)
	if out.errKind == "out-of-gas" {
		gNote(&out.tr, err)
	}
	out.ret = append([]byte{}, ret...)
	out.gasLeft = left
	for _, l := range s.Logs() {
		lr := logRec{addr: addr20(l.Address), data: append([]byte{}, l.Data...)}
		for _, t := range l.Topics {
			lr.topics = append(lr.topics, word32(t))
		}
		out.logs = append(out.logs, lr)
	}
	return
}
