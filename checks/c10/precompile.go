package main

import (
	"encoding/hex"
	"fmt"
	"strings"
	"sync/atomic"

	"github.com/kardiachain/go-kardia/kvm"
	kcommon "github.com/kardiachain/go-kardia/lib/common"

	"verif/mc/par"
)

// ---------------------------------------------------------------------------------------------
// family precompile: value-bearing and value-less CALL / CALLCODE to every address 0x01..0x09 (0x01..0x08 are
// precompiles on both sides, 0x09 is an ordinary absent account under Petersburg rules), for
//
//	value    {0, 1, 7}
//	gas      {0, just below the precompile's price (minus the 2300 stipend when value > 0), 500000, 501000}
//	input    {empty, a valid input, an input the precompile rejects (bn256 add / mul / pairing), an input whose
//	         price is unpayable (modexp)}
//
// The program copies its call data to memory, makes the call and returns [flag, BALANCE(self), BALANCE(target),
// EXTCODEHASH(target), EXTCODESIZE(target), RETURNDATASIZE, first output word]. Plus transaction-style
// top-level calls with value straight to the address.
//
// Absolute oracle (needs no gas schedule): a FAILED call frame leaves no state change - both balances as
// before, the target account still absent, nothing in the return-data buffer - and consumes the gas it was
// given: the same failing call with 1000 more gas leaves exactly 1000 less (operand-limited, so the 63/64 rule
// does not interfere), a failed top-level call leaves 0. A successful CALL moved exactly `value`. These hold
// whether the frame failed for gas or for its input, so they are evaluated even when the out-of-gas flag is set;
// the differential oracle applies as usual to the runs in which no frame ran out of gas (successes, input errors).

type pcInput struct {
	name    string
	data    []byte
	rejects bool // the precompile returns an error for this input
}

func mustHex(s string) []byte {
	b, err := hex.DecodeString(strings.ReplaceAll(s, " ", ""))
	if err != nil {
		panic(err)
	}
	return b
}

func pad32(hexs string) string { return strings.Repeat("0", 64-len(hexs)) + hexs }

func pcInputs(a int) []pcInput {
	empty := pcInput{name: "empty"}
	w32 := pcInput{name: "32 bytes", data: mustHex(pad32("0123456789abcdef"))}
	switch a {
	case 1:
		return []pcInput{empty, {name: "valid signature", data: mustHex("456e9aea5e197a1f1af7a3e85a3212fa4049a3ba34c2289b4c860fc0b0c64ef3" + pad32("1c") +
			"9242685bf161793cc25603c231bc2f568eb630ea16aa137d2664ac8038825608" + "4f8ae3bd7535248d0bd448298cc2e2071e56992d0774dc340c368ae950852ada")},
			{name: "garbage signature", data: mustHex(strings.Repeat("ff", 128))}}
	case 2, 3, 4, 9:
		return []pcInput{empty, w32}
	case 5:
		return []pcInput{empty, {name: "3^5 mod 7", data: mustHex(pad32("1") + pad32("1") + pad32("1") + "030507")},
			{name: "unpayable lengths", data: mustHex(pad32("ffffffffffffffff") + pad32("ffffffffffffffff") + pad32("ffffffffffffffff"))}}
	case 6:
		return []pcInput{empty, {name: "(1,2)+(1,2)", data: mustHex(pad32("1") + pad32("2") + pad32("1") + pad32("2"))},
			{name: "point not on curve", data: mustHex(pad32("1") + pad32("3") + pad32("1") + pad32("2")), rejects: true}}
	case 7:
		return []pcInput{empty, {name: "(1,2)*2", data: mustHex(pad32("1") + pad32("2") + pad32("2"))},
			{name: "point not on curve", data: mustHex(pad32("1") + pad32("3") + pad32("2")), rejects: true}}
	case 8:
		return []pcInput{empty, {name: "length not a multiple of 192", data: mustHex(pad32("1")), rejects: true},
			{name: "192 bytes, point not on curve", data: mustHex(pad32("1") + pad32("3") + strings.Repeat("00", 128)), rejects: true}}
	}
	panic("pcInputs")
}

func pcAddr(a int) addr20 {
	var x addr20
	x[19] = byte(a)
	return x
}

// pcPrice asks the code under test for the price (the reference uses the same Byzantium numbers; a run in
// which the precompile itself runs out of gas is never value-compared, so a price difference cannot cause a
// false alarm - it would only move which runs are compared).
func pcPrice(a int, in []byte) uint64 {
	p, ok := kvm.PrecompiledContractsV0[kcommon.Address(pcAddr(a))]
	if !ok {
		return 0
	}
	return p.RequiredGas(in)
}

func pcProgram(kind string, a int, value, gas uint64) []byte {
	c := asm("CALLDATASIZE", "PUSH1 00", "PUSH1 00", "CALLDATACOPY")
	c = cat(c, asm("PUSH1 40", "PUSH2 0200", "CALLDATASIZE", "PUSH1 00"), pushU(value), pushU(uint64(a)), []byte{0x62, byte(gas >> 16), byte(gas >> 8), byte(gas)}, asm(kind))
	c = cat(c, asm("PUSH2 0300", "MSTORE", "ADDRESS", "BALANCE", "PUSH2 0320", "MSTORE"))
	c = cat(c, pushU(uint64(a)), asm("BALANCE", "PUSH2 0340", "MSTORE"))
	c = cat(c, pushU(uint64(a)), asm("EXTCODEHASH", "PUSH2 0360", "MSTORE"))
	c = cat(c, pushU(uint64(a)), asm("EXTCODESIZE", "PUSH2 0380", "MSTORE"))
	c = cat(c, asm("RETURNDATASIZE", "PUSH2 03a0", "MSTORE", "PUSH2 0200", "MLOAD", "PUSH2 03c0", "MSTORE", "PUSH1 e0", "PUSH2 0300", "RETURN"))
	return c
}

var nPcFailGasValue, nPcFailInputValue, nPcOKValue, nPcTopFail [2]int64

func runPrecompiles() {
	type spec struct {
		a     int
		in    pcInput
		value uint64
		kind  string
	}
	var specs []spec
	for a := 1; a <= 9; a++ {
		for _, in := range pcInputs(a) {
			for _, v := range []uint64{0, 1, 7} {
				for _, k := range []string{"CALL", "CALLCODE", "TOP"} {
					specs = append(specs, spec{a, in, v, k})
				}
			}
		}
	}
	const mainBalance = 1000
	var nprog int64
	par.Each(len(specs), func(i int) {
		c := getCtx()
		defer putCtx(c)
		sp := specs[i]
		price := pcPrice(sp.a, sp.in.data)
		stipend := uint64(0)
		if sp.value > 0 {
			stipend = 2300
		}
		below := uint64(0)
		if price > stipend+1 {
			below = price - stipend - 1
		}
		if below > 400000 {
			below = 400000
		}
		target := pcAddr(sp.a)
		class := "wrapper=precompile-" + strings.ToLower(sp.kind) // the target address is named in the violation text
		if sp.kind == "TOP" {
			// transaction-style call straight to the address
			for _, g := range []uint64{below + stipend, 500000} { // (no stipend at the top level: give exactly price-1)
				if g == below+stipend && price == 0 {
					continue
				}
				gg := g
				if g != 500000 {
					gg = price - 1
					if gg > 400000 {
						gg = 400000
					}
				}
				p := &prog{family: "precompile", name: fmt.Sprintf("precompile/top-level call to 0x%02x, value %d, gas %d, input %s", sp.a, sp.value, gg, sp.in.name),
					code: []byte{0x00}, input: sp.in.data, gas: gg, value: sp.value, toAddr: &target, probe: []addr20{target}, stepBound: stepBoundFor(gg),
					expect: []string{"always:iffail:nochange", "always:iffail:gasleft=0"}, wantPre: true, capKey: class}
				p.onKVM = func(iset int, k *outcome) {
					if k.status == stFail && sp.value > 0 {
						atomic.AddInt64(&nPcTopFail[iset], 1)
					}
				}
				atomic.AddInt64(&nprog, 1)
				atomic.AddInt64(&nPrograms, 1)
				runProgram(c, p, func(iset int, f finding) (string, *prog) { return class, nil })
			}
			return
		}
		var (
			failedAt500k [2]bool
			leftAt500k   [2]uint64
		)
		for _, g := range []uint64{0, below, 500000, 501000} {
			g := g
			if g == below && below == 0 {
				continue
			}
			exp := []string{"always:status=success",
				fmt.Sprintf("always:ifok:0=0:1=%x", mainBalance), "always:ifok:0=0:2=0", "always:ifok:0=0:3=0", "always:ifok:0=0:4=0", "always:ifok:0=0:5=0",
				"always:ifok:0=0:nochange"}
			if sp.kind == "CALL" {
				exp = append(exp, fmt.Sprintf("always:ifok:0=1:1=%x", mainBalance-sp.value), fmt.Sprintf("always:ifok:0=1:2=%x", sp.value))
			} else {
				exp = append(exp, fmt.Sprintf("always:ifok:0=1:1=%x", mainBalance), "always:ifok:0=1:2=0")
			}
			if sp.in.rejects {
				exp = append(exp, "always:ret32[0]=0") // rejected for its input, or out of gas: the call fails either way
			}
			if g == 501000 {
				for is := 0; is < 2; is++ {
					if failedAt500k[is] {
						exp = append(exp, fmt.Sprintf("always:ifok:0=0:gasleft-v%d=%d", is+1, leftAt500k[is]-1000))
					}
				}
			}
			p := &prog{family: "precompile", name: fmt.Sprintf("precompile/%s to 0x%02x, value %d, gas %d (price %d), input %s", sp.kind, sp.a, sp.value, g, price, sp.in.name),
				code: pcProgram(sp.kind, sp.a, sp.value, g), input: sp.in.data, gas: 3000000, value: 0, probe: []addr20{target}, stepBound: 200000,
				expect: exp, wantPre: true, capKey: class}
			p.onKVM = func(iset int, k *outcome) {
				if k.status != stOK || len(k.ret) < 32 {
					return
				}
				failed := k.ret[31] == 0
				if g == 500000 {
					failedAt500k[iset], leftAt500k[iset] = failed, k.gasLeft
				}
				if sp.kind != "CALL" || sp.value == 0 || sp.a == 9 {
					return
				}
				switch {
				case !failed:
					atomic.AddInt64(&nPcOKValue[iset], 1)
				case sp.in.rejects && g >= 500000:
					atomic.AddInt64(&nPcFailInputValue[iset], 1)
				case g < 500000:
					atomic.AddInt64(&nPcFailGasValue[iset], 1)
				}
			}
			atomic.AddInt64(&nprog, 1)
			atomic.AddInt64(&nPrograms, 1)
			if runProgram(c, p, func(iset int, f finding) (string, *prog) { return classFor(c, p, iset, f, class), nil }) {
				atomic.AddInt64(&nDistinctNontrivial, 1)
			}
		}
	})
	r.Add("precompile_programs", nprog)
	cov := map[string]int64{}
	for s := 0; s < 2; s++ {
		cov[isetName[s]+"_value_call_failed_for_gas"] = nPcFailGasValue[s]
		cov[isetName[s]+"_value_call_failed_for_input"] = nPcFailInputValue[s]
		cov[isetName[s]+"_value_call_succeeded"] = nPcOKValue[s]
		cov[isetName[s]+"_value_top_level_call_failed"] = nPcTopFail[s]
		r.Require(nPcFailGasValue[s] > 0 && nPcFailInputValue[s] > 0 && nPcOKValue[s] > 0 && nPcTopFail[s] > 0,
			fmt.Sprintf("precompile: %s did not exercise a value-bearing call that failed for gas (%d), failed for its input (%d), succeeded (%d) and a failed top-level call (%d)",
				isetName[s], nPcFailGasValue[s], nPcFailInputValue[s], nPcOKValue[s], nPcTopFail[s]))
	}
	r.Set("precompile_kvm_outcomes", cov)
}
