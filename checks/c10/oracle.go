package main

import (
	"bytes"
	"fmt"
	"os"
	"sort"
	"strings"
	"sync"
	"sync/atomic"
)

// finding = one oracle failure of one execution (before canonicalisation into a signature).
type finding struct {
	kind   string // oracle id
	detail string
	site   string // for panics: first repository frame
}

// wctx is the per-worker context: own databases and opcode counters.
type wctx struct {
	kw      *kworld
	gw      *gworld
	kCount  [2][256]uint64
	rCount  [2][256]uint64
	scratch [256]uint64
}

var (
	ctxMu   sync.Mutex
	allCtx  []*wctx
	ctxPool = sync.Pool{}
)

func getCtx() *wctx {
	if c, ok := ctxPool.Get().(*wctx); ok && c != nil {
		return c
	}
	c := &wctx{kw: newKWorld(), gw: newGWorld()}
	ctxMu.Lock()
	allCtx = append(allCtx, c)
	ctxMu.Unlock()
	return c
}

func putCtx(c *wctx) { ctxPool.Put(c) }

// informational counters (atomic)
var (
	nExec, nCompared, nSkipOOG, nSkipExcluded, nSkipBigCode, nSkipPrecompTiny int64
	nKindMismatchInfo, nRefReused, nGasEqual, nGasDiffer                      int64
	nStatus                                                                   [3]int64
	nKvmOOG, nRefOOG                                                          int64
)

type evalResult struct {
	findings   []finding
	compared   bool // differential oracle was applied
	nontrivial bool // dispatched >= 1 instruction past the prelude on KVM
	k          *outcome
	ref        *outcome
}

func sameTrace(a, b *traceSum) bool {
	if a.steps != b.steps || a.maxDepth != b.maxDepth || a.oog != b.oog || a.excluded != b.excluded || a.precompile != b.precompile ||
		a.bigCode != b.bigCode || a.pastPrelude != b.pastPrelude || a.overBound != b.overBound || a.ops != b.ops ||
		len(a.slots) != len(b.slots) || len(a.addrs) != len(b.addrs) {
		return false
	}
	for i := range a.slots {
		if a.slots[i] != b.slots[i] {
			return false
		}
	}
	for i := range a.addrs {
		if a.addrs[i] != b.addrs[i] {
			return false
		}
	}
	return true
}

func sameLogs(a, b []logRec) bool {
	if len(a) != len(b) {
		return false
	}
	for i := range a {
		if a[i].addr != b[i].addr || !bytes.Equal(a[i].data, b[i].data) || len(a[i].topics) != len(b[i].topics) {
			return false
		}
		for j := range a[i].topics {
			if a[i].topics[j] != b[i].topics[j] {
				return false
			}
		}
	}
	return true
}

func short(b []byte) string {
	if len(b) > 96 {
		return fmt.Sprintf("%x..(%d bytes)", b[:96], len(b))
	}
	return fmt.Sprintf("%x", b)
}

func firstDiff(a, b []byte) string {
	n := len(a)
	if len(b) < n {
		n = len(b)
	}
	for i := 0; i < n; i++ {
		if a[i] != b[i] {
			lo := i &^ 31
			hi := lo + 32
			ha, hb := hi, hi
			if ha > len(a) {
				ha = len(a)
			}
			if hb > len(b) {
				hb = len(b)
			}
			return fmt.Sprintf("first difference at byte %d: kvm[%d:%d]=%x ref=%x", i, lo, ha, a[lo:ha], b[lo:hb])
		}
	}
	return fmt.Sprintf("lengths %d vs %d", len(a), len(b))
}

func diffLines(a, b string) string {
	la, lb := strings.Split(a, "\n"), strings.Split(b, "\n")
	for i := 0; i < len(la) && i < len(lb); i++ {
		if la[i] != lb[i] {
			return fmt.Sprintf("kvm{%s} ref{%s}", la[i], lb[i])
		}
	}
	return fmt.Sprintf("%d vs %d lines", len(la), len(lb))
}

// evalOne runs program p under instruction set iset: KVM twice (determinism), the reference once
// (or reuses refHint), applies the always-oracles, the differential oracle and the absolute
// expectations of wrapper programs.
func evalOne(c *wctx, p *prog, iset int, refHint *outcome) evalResult {
	var res evalResult
	add := func(kind, detail string) { res.findings = append(res.findings, finding{kind: kind, detail: detail}) }

	k1 := runKVM(c.kw, p, iset, &c.kCount[iset])
	k2 := runKVM(c.kw, p, iset, &c.scratch)
	atomic.AddInt64(&nExec, 2)
	res.k = &k1
	res.nontrivial = k1.tr.pastPrelude

	// ---- ALWAYS oracles -------------------------------------------------------------------------
	for _, k := range []*outcome{&k1, &k2} {
		if k.panicMsg != "" {
			res.findings = append(res.findings, finding{kind: "panic", detail: k.panicMsg, site: panicSite(k.panicMsg)})
			return res
		}
	}
	if k1.tr.overBound {
		add("termination", fmt.Sprintf("more than %d instructions dispatched with %d gas: execution is not bounded by gas", p.stepBound, p.gas))
		return res
	}
	if k1.gasLeft > p.gas {
		add("gas-bound", fmt.Sprintf("leftover gas %d > supplied gas %d", k1.gasLeft, p.gas))
	}
	if k1.tr.maxDepth > 1025 {
		add("depth-limit", fmt.Sprintf("a frame executed at depth %d (> 1025 = top frame + 1024 nested calls)", k1.tr.maxDepth))
	}
	// determinism: two runs on fresh states are identical
	{
		a1, s1 := stateDigest(k1.st, k1.tr.addrs, k1.tr.slots)
		a2, s2 := stateDigest(k2.st, k2.tr.addrs, k2.tr.slots)
		switch {
		case k1.status != k2.status || k1.errKind != k2.errKind:
			add("determinism", fmt.Sprintf("run 1 %s/%s, run 2 %s/%s", statusName[k1.status], k1.errKind, statusName[k2.status], k2.errKind))
		case !bytes.Equal(k1.ret, k2.ret):
			add("determinism", "return data differs between two runs: "+firstDiff(k1.ret, k2.ret))
		case k1.gasLeft != k2.gasLeft:
			add("determinism", fmt.Sprintf("leftover gas %d vs %d", k1.gasLeft, k2.gasLeft))
		case !sameLogs(k1.logs, k2.logs):
			add("determinism", "logs differ between two runs")
		case a1 != a2 || s1 != s2:
			add("determinism", "post-state differs between two runs: "+diffLines(a1+s1, a2+s2))
		case !sameTrace(&k1.tr, &k2.tr):
			add("determinism", "executed instruction trace differs between two runs")
		}
	}
	atomic.AddInt64(&nStatus[k1.status], 1)
	if k1.tr.oog {
		atomic.AddInt64(&nKvmOOG, 1)
	}

	// ---- absolute expectations (wrapper programs) -----------------------------------------------
	checkExpect(p, iset, &k1, add)
	if p.onKVM != nil {
		p.onKVM(iset, &k1)
	}

	// ---- DIFFERENTIAL ---------------------------------------------------------------------------
	if p.nilChainID {
		return res
	}
	var ref outcome
	if refHint != nil {
		ref = *refHint
		atomic.AddInt64(&nRefReused, 1)
		// the opcode counters of the reused run are attributed to this instruction set as well
		for w := 0; w < 4; w++ {
			for b := 0; b < 64; b++ {
				if ref.tr.ops[w]&(1<<uint(b)) != 0 {
					c.rCount[iset][w*64+b]++
				}
			}
		}
	} else {
		ref = runRef(c.gw, p, iset, &c.rCount[iset])
		atomic.AddInt64(&nExec, 1)
	}
	res.ref = &ref
	if ref.panicMsg != "" {
		add("harness-reference-panic", ref.panicMsg)
		return res
	}
	if ref.tr.oog {
		atomic.AddInt64(&nRefOOG, 1)
	}
	switch {
	case k1.tr.uovf != ref.tr.uovf && !k1.tr.plainOOG && !ref.tr.plainOOG:
		// the uint64-overflow error does not depend on the gas schedule: a program in which exactly one side reports it
		// (and neither ran out of gas proper) is a difference, not an out-of-gas run to be skipped
		side := "the reference"
		if k1.tr.uovf {
			side = "KVM"
		}
		add("differential", fmt.Sprintf("only %s fails a frame with the gas / memory-size uint64 overflow error (KVM: %s, reference: %s)", side, statusName[k1.status], statusName[ref.status]))
		return res
	case k1.tr.oog || ref.tr.oog:
		atomic.AddInt64(&nSkipOOG, 1)
		return res
	case k1.tr.excluded || ref.tr.excluded:
		atomic.AddInt64(&nSkipExcluded, 1)
		return res
	case k1.tr.bigCode || ref.tr.bigCode:
		atomic.AddInt64(&nSkipBigCode, 1)
		return res
	case (k1.tr.precompile || ref.tr.precompile) && p.tinyGas:
		atomic.AddInt64(&nSkipPrecompTiny, 1)
		return res
	case ref.tr.overBound:
		return res
	}
	res.compared = true
	atomic.AddInt64(&nCompared, 1)
	if k1.gasLeft == ref.gasLeft {
		atomic.AddInt64(&nGasEqual, 1)
	} else {
		atomic.AddInt64(&nGasDiffer, 1)
	}
	if k1.status != ref.status {
		add("diff-status", fmt.Sprintf("kvm %s(%s) vs reference %s(%s)", statusName[k1.status], k1.errKind, statusName[ref.status], ref.errKind))
		return res
	}
	if k1.errKind != ref.errKind {
		atomic.AddInt64(&nKindMismatchInfo, 1) // informational only: both fail, with different Go error values
	}
	if k1.status != stFail && !bytes.Equal(k1.ret, ref.ret) {
		add("diff-return", firstDiff(k1.ret, ref.ret))
	}
	if !sameLogs(k1.logs, ref.logs) {
		add("diff-logs", fmt.Sprintf("kvm %s vs reference %s", logsString(k1.logs), logsString(ref.logs)))
	}
	addrs := append(append([]addr20{}, k1.tr.addrs...), ref.tr.addrs...)
	slots := append(append([]slotKey{}, k1.tr.slots...), ref.tr.slots...)
	ka, ks := stateDigest(k1.st, addrs, slots)
	ga, gs := stateDigest(ref.st, addrs, slots)
	if ks != gs {
		add("diff-storage", diffLines(ks, gs))
	}
	if ka != ga {
		add("diff-accounts", diffLines(ka, ga))
	}
	return res
}

// checkExpect evaluates the absolute expectations of a wrapper program on the KVM outcome.
// An expectation prefixed "always:" holds even when a frame ran out of gas; the others only
// when no frame did.
func checkNoChange(k *outcome, add func(kind, detail string)) {
	pa, ps := stateDigest(k.pre(), k.tr.addrs, k.tr.slots)
	a, s := stateDigest(k.st, k.tr.addrs, k.tr.slots)
	if len(k.logs) != 0 {
		add("expect-nochange", "a log survived: "+logsString(k.logs))
	} else if a != pa {
		add("expect-nochange", "account state changed: "+diffLines(a, pa))
	} else if s != ps {
		add("expect-nochange", "storage changed: "+diffLines(s, ps))
	}
}

func checkExpect(p *prog, iset int, k *outcome, add func(kind, detail string)) {
	if len(p.expect) == 0 {
		return
	}
	for _, e := range p.expect {
		always := strings.HasPrefix(e, "always:")
		e = strings.TrimPrefix(e, "always:")
		if k.tr.oog && !always {
			continue
		}
		switch {
		case strings.HasPrefix(e, "status="):
			if statusName[k.status] != e[len("status="):] {
				add("expect-status", fmt.Sprintf("expected %s, got %s(%s)", e[len("status="):], statusName[k.status], k.errKind))
			}
		case strings.HasPrefix(e, "ret32["):
			var idx int
			var hexv string
			fmt.Sscanf(e, "ret32[%d]=%s", &idx, &hexv)
			want := wordOfHex(hexv)
			if len(k.ret) < 32*(idx+1) || !bytes.Equal(k.ret[32*idx:32*idx+32], want[:]) {
				add("expect-return", fmt.Sprintf("expected word %d of the return data = 0x%s, got %s", idx, hexv, short(k.ret)))
			}
		case e == "nochange":
			checkNoChange(k, add)
		case strings.HasPrefix(e, "iffail:"):
			// "iffail:nochange" / "iffail:gasleft=<n>": only when the top-level call failed (not reverted)
			if k.status != stFail {
				break
			}
			switch rest := e[len("iffail:"):]; {
			case rest == "nochange":
				checkNoChange(k, add)
			case strings.HasPrefix(rest, "gasleft="):
				var n uint64
				fmt.Sscanf(rest, "gasleft=%d", &n)
				if k.gasLeft != n {
					add("expect-gas-consumed", fmt.Sprintf("a failed frame consumes the gas it was given: expected %d gas left, got %d", n, k.gasLeft))
				}
			}
		case e == "changed":
			pa, ps := stateDigest(k.pre(), k.tr.addrs, k.tr.slots)
			a, s := stateDigest(k.st, k.tr.addrs, k.tr.slots)
			if a == pa && s == ps && len(k.logs) == 0 {
				add("harness-control", "control wrapper: the state-changing action had no effect")
			}
		case strings.HasPrefix(e, "ifok:"):
			// "ifok:<j>=<a>|<b>": if the top frame succeeded and returned word j, it is one of the listed values.
			// "ifok:<i>=<v>:<j>=<a>|<b>": the same, only when word i equals v.
			if k.status != stOK {
				break
			}
			parts := strings.Split(e[len("ifok:"):], ":")
			word := func(i int) ([]byte, bool) {
				if len(k.ret) < 32*(i+1) {
					return nil, false
				}
				return k.ret[32*i : 32*i+32], true
			}
			parse := func(s string) (int, []word32) {
				var idx int
				eq := strings.Index(s, "=")
				fmt.Sscanf(s[:eq], "%d", &idx)
				var vals []word32
				for _, h := range strings.Split(s[eq+1:], "|") {
					vals = append(vals, wordOfHex(h))
				}
				return idx, vals
			}
			holds := func(s string) (bool, bool) {
				idx, vals := parse(s)
				w, ok := word(idx)
				if !ok {
					return false, false
				}
				for _, v := range vals {
					if bytes.Equal(w, v[:]) {
						return true, true
					}
				}
				return false, true
			}
			if len(parts) == 2 {
				if h, ok := holds(parts[0]); !ok || !h {
					break
				}
			}
			last := parts[len(parts)-1]
			if last == "nochange" {
				checkNoChange(k, add)
				break
			}
			if strings.HasPrefix(last, "gasleft-v") {
				// "gasleft-v1=<n>": leftover gas of the top-level call under that instruction set
				var is int
				var n uint64
				fmt.Sscanf(last, "gasleft-v%d=%d", &is, &n)
				if is-1 == iset && k.gasLeft != n {
					add("expect-gas-consumed", fmt.Sprintf("a failed frame consumes the gas it was given: expected %d gas left (the same failing call with 1000 gas less left 1000 more), got %d", n, k.gasLeft))
				}
				break
			}
			if h, ok := holds(last); ok && !h {
				add("expect-return", fmt.Sprintf("expected %s, got %s", e, short(k.ret)))
			}
		case strings.HasPrefix(e, "maxdepth="):
			var d int
			fmt.Sscanf(e, "maxdepth=%d", &d)
			if k.tr.maxDepth != d {
				add("expect-depth", fmt.Sprintf("expected deepest frame at depth %d, observed %d", d, k.tr.maxDepth))
			}
		default:
			panic("unknown expectation " + e)
		}
	}
}

// evalBoth evaluates p under both instruction sets; the reference run of v2 is reused for v1 when
// neither side fetched opcode 0x46 (the only opcode whose reference configuration depends on the set).
func evalBoth(c *wctx, p *prog) [2]evalResult {
	var out [2]evalResult
	out[1] = evalOne(c, p, 1, nil)
	var hint *outcome
	if out[1].ref != nil && out[1].ref.panicMsg == "" && !out[1].ref.tr.saw46 {
		hint = out[1].ref
	}
	out[0] = evalOne(c, p, 0, hint)
	return out
}

// ---------------------------------------------------------------------------------------------
// Divergence locator: re-runs a violating case on both sides with per-step recording and names the
// instruction after whose execution the two machines first differ (stack, memory or control flow).
// Returns "" when the instruction traces are identical (the difference is in frame-exit / state
// handling) or cannot be attributed.
func culprit(c *wctx, p *prog, iset int) string {
	q := *p
	q.record = true
	k := runKVM(c.kw, &q, iset, &c.scratch)
	g := runRef(c.gw, &q, iset, &c.scratch)
	if k.panicMsg != "" {
		return opTable[k.tr.lastOp].name
	}
	if k.tr.rec == nil || g.tr.rec == nil || g.panicMsg != "" {
		return ""
	}
	a, b := *k.tr.rec, *g.tr.rec
	n := len(a)
	if len(b) < n {
		n = len(b)
	}
	for i := 0; i < n; i++ {
		if a[i] != b[i] {
			if i == 0 {
				return ""
			}
			prev := a[i-1]
			if a[i].depth == b[i].depth && a[i].pc == b[i].pc && a[i].op == b[i].op {
				return opTable[prev.op].name // same instruction, different machine state: the previous instruction produced it
			}
			// control flow diverged. If exactly one side dispatched the instruction that follows prev
			// sequentially, the other side refused it before dispatch (stack / write-protection / gas check).
			nextPC := prev.pc + 1
			if prev.op >= 0x60 && prev.op <= 0x7f {
				nextPC += uint64(prev.op-0x60) + 1
			}
			ka := a[i].depth == prev.depth && a[i].pc == nextPC
			gb := b[i].depth == prev.depth && b[i].pc == nextPC
			switch {
			case ka && !gb:
				return opTable[a[i].op].name
			case gb && !ka:
				return opTable[b[i].op].name
			}
			return opTable[prev.op].name
		}
	}
	if len(a) != len(b) && n > 0 {
		return opTable[a[n-1].op].name
	}
	return ""
}

// ---------------------------------------------------------------------------------------------
// Signatures

var isetName = []string{"v1", "v2"}

func opsKey(names []string) string {
	set := map[string]bool{}
	for _, n := range names {
		set[n] = true
	}
	var nonPush, push []string
	for n := range set {
		if strings.HasPrefix(n, "PUSH") {
			push = append(push, n)
		} else {
			nonPush = append(nonPush, n)
		}
	}
	if len(nonPush) == 0 {
		nonPush = push
	}
	sort.Strings(nonPush)
	return strings.Join(nonPush, "+")
}

func tokenOpNames(ts []int) []string {
	var s []string
	for _, t := range ts {
		n := tokens[t].name
		if tokens[t].isPush {
			n = "PUSH"
		}
		s = append(s, n)
	}
	return s
}

// sigBody is the signature without the instruction-set part: "<class>|oracle=<kind>[@site]".
func sigBody(class string, f finding) string {
	kind := f.kind
	if strings.HasPrefix(kind, "diff-") {
		kind = "differential" // which observable differs (status / return / logs / storage / accounts) is in the text
	}
	s := fmt.Sprintf("%s|oracle=%s", class, kind)
	if f.kind == "panic" {
		s += "@" + f.site
	}
	return s
}

func sigFor(isets string, body string) string {
	return fmt.Sprintf("C10|iset=%s|%s", isets, body)
}

// Findings are collected during the run and turned into violations at the end, so that the same
// input class failing under both instruction sets gives ONE signature (iset=v1+v2).
type pendingViol struct {
	isets [2]bool
	what  string
	cs    Case
	count int
}

var (
	pendMu    sync.Mutex
	pending   = map[string]*pendingViol{}
	nViolCase int64
)

const maxViolCases = 4000

func hasKind(fs []finding, kind string) *finding {
	for i := range fs {
		if fs[i].kind == kind {
			return &fs[i]
		}
	}
	return nil
}

// reportFinding records finding f of (p, iset) under the given input class. The first time a
// (class, oracle, iset) is seen the case is re-executed 5 times and must reproduce every time
// (otherwise: harness nondeterminism, exit 3).
func reportFinding(p *prog, iset int, class string, f finding) {
	body := sigBody(class, f)
	what := fmt.Sprintf("%s [%s %q, %s, gas %d, input %d bytes]: %s", f.kind, p.family, p.name, isetName[iset], p.gas, len(p.input), f.detail)
	pendMu.Lock()
	pv := pending[body]
	first := pv == nil || !pv.isets[iset]
	if pv == nil {
		pv = &pendingViol{what: what, cs: p.toCase(iset)}
		pending[body] = pv
	}
	pv.isets[iset] = true
	pv.count++
	pendMu.Unlock()
	if !first {
		return
	}
	c := getCtx()
	defer putCtx(c)
	for i := 0; i < 5; i++ {
		res := evalOne(c, p, iset, nil)
		g := hasKind(res.findings, f.kind)
		if g == nil || (f.kind == "panic" && g.site != f.site) {
			fmt.Printf("MACHINERY-ERROR property=C10 irreproducible violation sig=%q on re-execution %d (%s %q)\n", sigFor(isetName[iset], body), i+1, p.family, p.name)
			os.Exit(3)
		}
	}
}

// flushFindings emits the collected violations.
func flushFindings() {
	var keys []string
	for k := range pending {
		keys = append(keys, k)
	}
	sort.Strings(keys)
	for _, k := range keys {
		pv := pending[k]
		is := "v1+v2"
		if !pv.isets[0] {
			is = "v2"
		} else if !pv.isets[1] {
			is = "v1"
		}
		for i := 0; i < pv.count; i++ {
			r.Violation(sigFor(is, k), pv.what, pv.cs)
		}
	}
}
