package main

import (
	"fmt"
	"sync/atomic"

	"verif/mc/par"
)

// ---------------------------------------------------------------------------------------------
// family createret: what a CREATE / CREATE2 leaves behind in its caller, for every way the creation can end:
// the pushed address, the return-data buffer (RETURNDATASIZE, RETURNDATACOPY of everything, RETURNDATACOPY
// of one byte) for init-code shapes
//
//	small      returns a 5-byte runtime code (deposit succeeds)
//	empty      returns 0 bytes, stop = STOPs (empty code deposited)
//	deposit1k  returns 1000 bytes = 200 000 gas of deposit: the gas given to the creating frame is swept across
//	           the thresholds of all gas schedules (v1, v2, reference; CREATE and CREATE2), so that both
//	           "contract creation code storage out of gas" and success are executed on every side
//	over30k    returns 30000 bytes: above the reference's MaxCodeSize, below KVM's, not affordable here
//	over40k    returns 40000 bytes: above both limits -> "max code size exceeded" on both sides
//	revert32   REVERTs with 32 bytes, revert0 = REVERTs with nothing, fault = INVALID
//
// in two placements: in a frame X that the top frame CALLs with the gas under test (top returns
// [flag, X's words]), and directly in the top frame.
//
// Absolute oracle, independent of every gas schedule (EIP-211): after a creation that did not REVERT the
// return-data buffer is EMPTY - whether it succeeded, ran out of gas, was refused for its size or for its
// deposit gas. So RETURNDATASIZE is 0 (or the revert payload's length for the reverting shapes, or 0 if the init
// code ran out of gas before reverting), a 1-byte RETURNDATACOPY fails the frame, and the pushed address is 0
// for every shape that cannot succeed. Plus the differential oracle wherever no frame ran out of gas (now
// including over40k: a deposit refused on both sides for its size is not a gas matter).

type crShape struct {
	name       string
	init       []byte
	revertLen  int  // > 0: the init code REVERTs with this many bytes
	neverAddr  bool // the creation cannot succeed under any gas: pushed address is 0
	isDeposit  bool
	mustRevert bool
}

func crShapes() []crShape {
	return []crShape{
		{name: "small", init: asm("PUSH5 6007600055", "PUSH1 00", "MSTORE", "PUSH1 05", "PUSH1 1b", "RETURN")},
		{name: "empty", init: asm("PUSH1 00", "PUSH1 00", "RETURN")},
		{name: "stop", init: asm("STOP")},
		{name: "deposit1k", init: asm("PUSH2 03e8", "PUSH1 00", "RETURN"), isDeposit: true},
		{name: "over30k", init: asm("PUSH2 7530", "PUSH1 00", "RETURN"), neverAddr: true},
		{name: "over40k", init: asm("PUSH2 9c40", "PUSH1 00", "RETURN"), neverAddr: true},
		{name: "revert32", init: asm("PUSH1 ab", "PUSH1 00", "MSTORE", "PUSH1 20", "PUSH1 00", "REVERT"), revertLen: 32, neverAddr: true},
		{name: "revert0", init: asm("PUSH1 00", "PUSH1 00", "REVERT"), neverAddr: true},
		{name: "fault", init: asm("INVALID"), neverAddr: true},
	}
}

// crFrame is the code of the creating frame: mem[0..32) = init code, CREATE/CREATE2, then the tail.
//
//	tail "size":  return [address, RETURNDATASIZE]
//	tail "copy1": RETURNDATACOPY(mem 0, data 0, 1 byte); return mem[0..32)
//	tail "copyall": RETURNDATACOPY(mem 0x60, data 0, RETURNDATASIZE bytes); return [address, first copied word, RETURNDATASIZE]
func crFrame(sh crShape, create2 bool, tail string) []byte {
	init32 := append(append([]byte{}, sh.init...), make([]byte, 32-len(sh.init))...)
	c := cat([]byte{0x7f}, init32, asm("PUSH1 00", "MSTORE"))
	if create2 {
		c = cat(c, asm("PUSH1 07"), pushU(uint64(len(sh.init))), asm("PUSH1 00", "PUSH1 00", "CREATE2"))
	} else {
		c = cat(c, pushU(uint64(len(sh.init))), asm("PUSH1 00", "PUSH1 00", "CREATE"))
	}
	switch tail {
	case "size":
		c = cat(c, asm("PUSH1 00", "MSTORE", "RETURNDATASIZE", "PUSH1 20", "MSTORE", "PUSH1 40", "PUSH1 00", "RETURN"))
	case "copy1":
		c = cat(c, asm("POP", "PUSH1 01", "PUSH1 00", "PUSH1 00", "RETURNDATACOPY", "PUSH1 20", "PUSH1 00", "RETURN"))
	case "copyall":
		c = cat(c, asm("PUSH1 40", "MSTORE", "RETURNDATASIZE", "PUSH1 00", "PUSH1 60", "RETURNDATACOPY",
			"RETURNDATASIZE", "PUSH1 80", "MSTORE", "PUSH1 60", "PUSH1 40", "RETURN"))
	default:
		panic("crFrame tail")
	}
	return c
}

var (
	nCrCodeStoreOOG, nCrMaxCode, nCrDepositOK [2][2]int64 // [iset][create2]
)

func runCreateRet() {
	type spec struct {
		sh      crShape
		create2 bool
		tail    string
		gas     uint64
		nested  bool
	}
	var specs []spec
	for _, sh := range crShapes() {
		gases := []uint64{60000, 100000, 400000, 2900000}
		if sh.isDeposit {
			// thresholds: about 232k-236k (v2 / reference) and 264k-268k (v1 charges CREATE's 32000 twice)
			for g := uint64(229000); g <= 273000; g += 64 {
				gases = append(gases, g)
			}
		}
		for _, c2 := range []bool{false, true} {
			for _, tail := range []string{"size", "copy1", "copyall"} {
				for _, g := range gases {
					for _, nested := range []bool{true, false} {
						specs = append(specs, spec{sh, c2, tail, g, nested})
					}
				}
			}
		}
	}
	zero := "0"
	done := par.For(int64(len(specs)), 16, r.Expired, func(i int64) {
		c := getCtx()
		defer putCtx(c)
		sp := specs[i]
		frame := crFrame(sp.sh, sp.create2, sp.tail)
		opName := "CREATE"
		c2i := 0
		if sp.create2 {
			opName, c2i = "CREATE2", 1
		}
		// the return-data length the creation may leave behind
		rds := zero
		if sp.sh.revertLen > 0 {
			rds = fmt.Sprintf("0|%x", sp.sh.revertLen)
		}
		var (
			code   []byte
			extra  []account
			gas    uint64
			expect []string
			off    int // index of the frame's first word in the top frame's return data
		)
		if sp.nested {
			code = cat(callTo("CALL", addrX, sp.gas, 0x20, 0x60), asm("PUSH1 00", "MSTORE", "PUSH1 80", "PUSH1 00", "RETURN"))
			extra = []account{{addr: addrX, code: frame, balance: 10}}
			gas = 3000000
			off = 1
			expect = []string{"always:status=success"}
		} else {
			code = frame
			gas = sp.gas
		}
		cond := func(j int, vals string) string {
			if sp.nested {
				return fmt.Sprintf("always:ifok:0=1:%d=%s", off+j, vals)
			}
			return fmt.Sprintf("always:ifok:%d=%s", j, vals)
		}
		switch sp.tail {
		case "size":
			expect = append(expect, cond(1, rds))
			if sp.sh.neverAddr {
				expect = append(expect, cond(0, zero))
			}
		case "copy1":
			if sp.sh.revertLen == 0 {
				// copying one byte out of an empty buffer fails the frame (as does running out of gas)
				if sp.nested {
					expect = append(expect, "always:ret32[0]=0")
				} else {
					expect = append(expect, "always:status=failure")
				}
			}
		case "copyall":
			expect = append(expect, cond(2, rds))
			if sp.sh.neverAddr {
				expect = append(expect, cond(0, zero))
			}
			if sp.sh.revertLen == 0 {
				expect = append(expect, cond(1, zero))
			}
		}
		place := "in the top frame"
		if sp.nested {
			place = "in a called frame"
		}
		name := fmt.Sprintf("createret/%s init=%s then %s, %s with %d gas", opName, sp.sh.name, sp.tail, place, sp.gas)
		w := mkWrapper(name, code, extra, gas, nil, stepBoundFor(gas), expect...)
		w.p.family = "createret"
		w.p.capKey = "createret-" + sp.sh.name
		w.p.onKVM = func(iset int, k *outcome) {
			if k.tr.sawCodeStoreOOG {
				atomic.AddInt64(&nCrCodeStoreOOG[iset][c2i], 1)
			}
			if k.tr.sawMaxCode {
				atomic.AddInt64(&nCrMaxCode[iset][c2i], 1)
			}
			if sp.sh.isDeposit && sp.tail == "size" && k.status == stOK && len(k.ret) >= 32*(off+1) {
				nz := false
				for _, b := range k.ret[32*off : 32*off+32] {
					nz = nz || b != 0
				}
				if nz && (!sp.nested || k.ret[31] == 1) {
					atomic.AddInt64(&nCrDepositOK[iset][c2i], 1)
				}
			}
		}
		atomic.AddInt64(&nPrograms, 1)
		class := "wrapper=createret-" + sp.sh.name
		if runProgram(c, w.p, func(iset int, f finding) (string, *prog) { return classFor(c, w.p, iset, f, class), nil }) {
			atomic.AddInt64(&nDistinctNontrivial, 1)
		}
	})
	r.Add("createret_programs", done)
	if done < int64(len(specs)) {
		r.NotExhaustive(fmt.Sprintf("deadline: create-return scenarios completed %d of %d", done, len(specs)))
		return
	}
	cov := map[string]int64{}
	for s := 0; s < 2; s++ {
		for k, n := range []string{"CREATE", "CREATE2"} {
			cov[fmt.Sprintf("%s_%s_code_store_out_of_gas", isetName[s], n)] = nCrCodeStoreOOG[s][k]
			cov[fmt.Sprintf("%s_%s_max_code_size_exceeded", isetName[s], n)] = nCrMaxCode[s][k]
			cov[fmt.Sprintf("%s_%s_deposit1k_succeeded", isetName[s], n)] = nCrDepositOK[s][k]
			r.Require(nCrCodeStoreOOG[s][k] > 0 && nCrMaxCode[s][k] > 0 && nCrDepositOK[s][k] > 0,
				fmt.Sprintf("createret: %s %s did not exercise code-store-out-of-gas (%d), max-code-size (%d) and a successful 1000-byte deposit (%d)",
					isetName[s], n, nCrCodeStoreOOG[s][k], nCrMaxCode[s][k], nCrDepositOK[s][k]))
		}
	}
	r.Set("createret_kvm_outcomes", cov)
}
