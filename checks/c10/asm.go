package main

import (
	"encoding/hex"
	"math/big"
	"strings"
)

// ---------------------------------------------------------------------------------------------
// Fixed world: addresses, pre-state, block context. Identical on both sides.

type addr20 [20]byte
type word32 [32]byte

func mkAddr(hexs string) (a addr20) {
	b, err := hex.DecodeString(hexs)
	if err != nil || len(b) > 20 {
		panic("bad address " + hexs)
	}
	copy(a[20-len(b):], b)
	return
}

func wordOfBig(b *big.Int) (w word32) {
	bs := b.Bytes()
	copy(w[32-len(bs):], bs)
	return
}

func wordOfU64(v uint64) word32 { return wordOfBig(new(big.Int).SetUint64(v)) }

func wordOfHex(h string) word32 {
	b, ok := new(big.Int).SetString(h, 16)
	if !ok {
		panic("bad hex " + h)
	}
	return wordOfBig(b)
}

var (
	addrOrigin   = mkAddr("0a11ce")
	addrMain     = mkAddr("c0de0001")
	addrT        = mkAddr("7a290001") // storage-bearing contract that writes, logs and returns
	addrT2       = mkAddr("7a290002") // storage-bearing view contract
	addrCoinbase = mkAddr("c01ba5e0")
	addrW        = mkAddr("3a3a0001") // wrapper helper contracts
	addrX        = mkAddr("3a3a0002")
	addrBenef    = mkAddr("be9ef1c1")
)

const (
	blockNumber = 300
	blockTime   = 1600000000
	blockGasLim = 50000000
	gasPrice    = 7
	chainID     = 24
)

type account struct {
	addr    addr20
	balance uint64
	nonce   uint64
	code    []byte
	storage [][2]word32
}

var (
	two255 = new(big.Int).Lsh(big.NewInt(1), 255)
	max256 = new(big.Int).Sub(new(big.Int).Lsh(big.NewInt(1), 256), big.NewInt(1))
)

var codeT, codeT2, initCode32, memPattern32 []byte

func initWorld() {
	// code of T: mem[0]=sload(0); sstore(1, calldatasize); log0(0,32); return(0,32)
	codeT = asm("PUSH1 00", "SLOAD", "PUSH1 00", "MSTORE", "CALLDATASIZE", "PUSH1 01", "SSTORE",
		"PUSH1 20", "PUSH1 00", "LOG0", "PUSH1 20", "PUSH1 00", "RETURN")

	// code of T2: return sload(calldataload(0)) ++ caller ++ callvalue
	codeT2 = asm("PUSH1 00", "CALLDATALOAD", "SLOAD", "PUSH1 00", "MSTORE", "CALLER", "PUSH1 20", "MSTORE",
		"CALLVALUE", "PUSH1 40", "MSTORE", "PUSH1 60", "PUSH1 00", "RETURN")

	// 32-byte init code placed in memory by the prelude: sstore(1,0x2a); log0(0,0); return a 5-byte runtime
	// "PUSH1 07 PUSH1 00 SSTORE".
	c := asm("PUSH1 2a", "PUSH1 01", "SSTORE", "PUSH1 00", "PUSH1 00", "LOG0",
		"PUSH5 6007600055", "PUSH1 00", "MSTORE", "PUSH1 05", "PUSH1 1b", "RETURN")
	if len(c) > 32 {
		panic("init code too long")
	}
	initCode32 = append(c, make([]byte, 32-len(c))...)
	memPattern32 = make([]byte, 32)
	for i := range memPattern32 {
		memPattern32[i] = byte(0xa0 + i)
	}
}

func baseAccounts() []account {
	return []account{
		{addr: addrOrigin, balance: 1000000000000000000, nonce: 5},
		{addr: addrMain, balance: 1000, nonce: 1, storage: [][2]word32{
			{wordOfU64(0), wordOfHex("aaaa")}, {wordOfU64(1), wordOfU64(1)}, {wordOfU64(2), wordOfBig(max256)}, {wordOfU64(32), wordOfHex("20202020")}}},
		{addr: addrT, balance: 7, nonce: 1, code: codeT, storage: [][2]word32{
			{wordOfU64(0), wordOfHex("dead00000000000000000000000000000000000000000000000000000000beef")}, {wordOfU64(1), wordOfU64(1)}, {wordOfU64(2), wordOfBig(max256)}}},
		{addr: addrT2, balance: 0, nonce: 1, code: codeT2, storage: [][2]word32{
			{wordOfU64(0), wordOfHex("1234")}, {wordOfU64(1), wordOfU64(1)}, {wordOfU64(32), wordOfHex("5678")}}},
	}
}

// ---------------------------------------------------------------------------------------------
// Mini assembler: "NAME" or "PUSHn hexdata".

var opByName = map[string]byte{}

func initAsm() {
	for i := range opTable {
		if opTable[i].defined || i == 0xfe {
			opByName[opTable[i].name] = byte(i)
		}
	}
	opByName["OP_0x45"] = 0x45
}

func asm(ins ...string) []byte {
	var out []byte
	for _, s := range ins {
		f := strings.Fields(s)
		b, ok := opByName[f[0]]
		if !ok {
			panic("asm: unknown mnemonic " + f[0])
		}
		out = append(out, b)
		if b >= 0x60 && b <= 0x7f {
			n := int(b-0x60) + 1
			if len(f) != 2 {
				panic("asm: push needs data: " + s)
			}
			d, err := hex.DecodeString(f[1])
			if err != nil || len(d) > n {
				panic("asm: bad push data: " + s)
			}
			out = append(out, make([]byte, n-len(d))...)
			out = append(out, d...)
		} else if len(f) != 1 {
			panic("asm: stray operand: " + s)
		}
	}
	return out
}

// pushBig emits the shortest PUSH of v.
func pushBig(v *big.Int) []byte {
	b := v.Bytes()
	if len(b) == 0 {
		b = []byte{0}
	}
	return append([]byte{byte(0x60 + len(b) - 1)}, b...)
}

func pushU(v uint64) []byte { return pushBig(new(big.Int).SetUint64(v)) }

func pushAddr(a addr20) []byte { return append([]byte{0x73}, a[:]...) }

// ---------------------------------------------------------------------------------------------
// Tokens of the enumerated programs.

type token struct {
	name    string
	code    []byte // fixed-length encoding; for the jumpdest token the 2 data bytes are patched
	isPush  bool
	jd      bool // PUSH2 <address of the postlude JUMPDEST>
	reduced bool // member of the reduced alphabet used by the quick tier at the longest length
}

var tokens []token

// operand values of the PUSH tokens (besides the valid jumpdest and the contract addresses)
var operandVals = []*big.Int{big.NewInt(0), big.NewInt(1), big.NewInt(2), big.NewInt(31), big.NewInt(32), big.NewInt(33),
	big.NewInt(255), big.NewInt(256), two255, max256}
var operandNames = []string{"0", "1", "2", "31", "32", "33", "255", "256", "2^255", "2^256-1"}

func initTokens() {
	// opcode tokens: every opcode that KVM defines, except PUSHn (operand tokens below), with
	// DUP/SWAP represented by 1, 2 and 16 (all 32 of them are swept by the single-token family).
	// The reduced alphabet (longest length of the quick tier) drops the nullary environment opcodes (they
	// only push a constant; all their pairs are covered at length <= 2) and keeps one representative of
	// DUPn / SWAPn / LOGn / CREATE* / CALL-CALLCODE.
	dropped := map[string]bool{"ORIGIN": true, "CALLER": true, "CALLVALUE": true, "CALLDATASIZE": true, "CODESIZE": true, "GASPRICE": true,
		"RETURNDATASIZE": true, "COINBASE": true, "TIMESTAMP": true, "NUMBER": true, "GASLIMIT@0x44": true, "OP_0x45": true, "CHAINID": true,
		"SELFBALANCE": true, "PC": true, "GAS": true, "INVALID": true, "DUP16": true, "SWAP2": true, "SWAP16": true,
		"LOG0": true, "LOG2": true, "LOG3": true, "LOG4": true, "CALLCODE": true, "CREATE2": true}
	reducedOps := map[string]bool{}
	for b := 0; b < 256; b++ {
		if n := opTable[b].name; !dropped[n] {
			reducedOps[n] = true
		}
	}
	for b := 0; b < 256; b++ {
		oi := opTable[b]
		if !(oi.defined || b == 0x45 || b == 0xfe) {
			continue
		}
		if b >= 0x60 && b <= 0x7f {
			continue
		}
		if b >= 0x80 && b <= 0x9f {
			k := b & 15
			if k != 0 && k != 1 && k != 15 {
				continue
			}
		}
		tokens = append(tokens, token{name: oi.name, code: []byte{byte(b)}, reduced: reducedOps[oi.name]})
	}
	reducedOperands := map[string]bool{"0": true, "1": true, "32": true, "33": true, "256": true, "2^255": true, "2^256-1": true}
	for i, v := range operandVals {
		tokens = append(tokens, token{name: "PUSH(" + operandNames[i] + ")", code: pushBig(v), isPush: true, reduced: reducedOperands[operandNames[i]]})
	}
	tokens = append(tokens, token{name: "PUSH(jumpdest)", code: []byte{0x61, 0, 0}, isPush: true, jd: true, reduced: true})
	tokens = append(tokens, token{name: "PUSH(T)", code: pushAddr(addrT), isPush: true, reduced: true})
	tokens = append(tokens, token{name: "PUSH(T2)", code: pushAddr(addrT2), isPush: true})
}

// ---------------------------------------------------------------------------------------------
// Wrapping: prelude + body + postlude.
//
//	pc 0: PUSH1 0x5b            -> byte 1 is a JUMPDEST byte inside push data (target "jump into push data")
//	      mem[0..32)  = pattern, mem[32..64) = init code
//	      32 boundary operands pushed (top of stack first: 0, 32, 32, 0, 2, 1, 0, 31, 33, 255, 256, 2^255, 2^256-1, T, ...)
//	body
//	JUMPDEST                    -> the only valid jump destination of the program
//	postlude: stores RETURNDATASIZE, MSIZE and the top 3 stack words at 0x200.., returns mem[0..0x2a0)
//
// Jump operands 0 and 2 are non-JUMPDEST opcodes (invalid), 1 is the JUMPDEST byte in push data.

const preludeStackItems = 32

var preludeCode []byte
var postludeCode []byte

func initWrap() {
	var p []byte
	p = append(p, 0x60, 0x5b)
	p = append(p, 0x7f)
	p = append(p, memPattern32...)
	p = append(p, asm("PUSH1 00", "MSTORE")...)
	p = append(p, 0x7f)
	p = append(p, initCode32...)
	p = append(p, asm("PUSH1 20", "MSTORE")...)
	// desired stack, top first
	top := []*big.Int{big.NewInt(0), big.NewInt(32), big.NewInt(32), big.NewInt(0), big.NewInt(2), big.NewInt(1), big.NewInt(0),
		big.NewInt(31), big.NewInt(33), big.NewInt(255), big.NewInt(256), two255, max256, new(big.Int).SetBytes(addrT[:]),
		big.NewInt(1), big.NewInt(2)}
	var seq []*big.Int
	for len(seq) < preludeStackItems-1 { // the initial PUSH1 0x5b is item #32 (bottom)
		seq = append(seq, top...)
	}
	seq = seq[:preludeStackItems-1]
	for i := len(seq) - 1; i >= 0; i-- {
		p = append(p, pushBig(seq[i])...)
	}
	preludeCode = p

	postludeCode = asm("JUMPDEST", "MSIZE", "RETURNDATASIZE",
		"PUSH2 0200", "MSTORE", "PUSH2 0220", "MSTORE", "PUSH2 0240", "MSTORE", "PUSH2 0260", "MSTORE", "PUSH2 0280", "MSTORE",
		"PUSH2 02a0", "PUSH1 00", "RETURN")
}

// wrap assembles prelude ++ body ++ postlude, patching the jumpdest operands (given as offsets into
// body of the 2 data bytes). Returns the code and the pc at which the body starts.
func wrap(body []byte, jdPatch []int) ([]byte, int) {
	code := make([]byte, 0, len(preludeCode)+len(body)+len(postludeCode))
	code = append(code, preludeCode...)
	start := len(code)
	code = append(code, body...)
	jd := len(code)
	code = append(code, postludeCode...)
	for _, off := range jdPatch {
		code[start+off] = byte(jd >> 8)
		code[start+off+1] = byte(jd)
	}
	return code, start
}

func wrapTokens(ts []int) ([]byte, int) {
	var body []byte
	var patch []int
	for _, t := range ts {
		tk := &tokens[t]
		if tk.jd {
			patch = append(patch, len(body)+1)
		}
		body = append(body, tk.code...)
	}
	return wrap(body, patch)
}

func tokenNames(ts []int) string {
	var s []string
	for _, t := range ts {
		s = append(s, tokens[t].name)
	}
	return strings.Join(s, " ")
}

// decodeOps lists the opcode names of a raw code string (linear sweep, push data skipped).
func decodeOps(code []byte) []string {
	var out []string
	for pc := 0; pc < len(code); pc++ {
		b := code[pc]
		out = append(out, opTable[b].name)
		if b >= 0x60 && b <= 0x7f {
			pc += int(b-0x60) + 1
		}
	}
	return out
}

// setup runs the initialisers in dependency order.
func setup() {
	initTable()
	initAsm()
	initWorld()
	initTokens()
	initWrap()
}
