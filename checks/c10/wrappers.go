package main

import (
	"fmt"
	"strings"
	"sync/atomic"

	"verif/mc/par"
)

// State-changing actions: each is a code snippet that performs one state-changing instruction with
// sensible operands and leaves the stack as it found it.
type action struct {
	name string
	code []byte
}

func cat(parts ...[]byte) []byte {
	var out []byte
	for _, p := range parts {
		out = append(out, p...)
	}
	return out
}

func actions() []action {
	putInit := cat([]byte{0x7f}, initCode32, asm("PUSH1 00", "MSTORE")) // mem[0..32) = init code
	var as []action
	as = append(as, action{"SSTORE", asm("PUSH1 77", "PUSH1 05", "SSTORE")})
	as = append(as, action{"LOG0", asm("PUSH1 20", "PUSH1 00", "LOG0")})
	as = append(as, action{"LOG1", asm("PUSH1 01", "PUSH1 20", "PUSH1 00", "LOG1")})
	as = append(as, action{"LOG2", asm("PUSH1 02", "PUSH1 01", "PUSH1 20", "PUSH1 00", "LOG2")})
	as = append(as, action{"LOG3", asm("PUSH1 03", "PUSH1 02", "PUSH1 01", "PUSH1 20", "PUSH1 00", "LOG3")})
	as = append(as, action{"LOG4", asm("PUSH1 04", "PUSH1 03", "PUSH1 02", "PUSH1 01", "PUSH1 20", "PUSH1 00", "LOG4")})
	as = append(as, action{"CREATE", cat(putInit, asm("PUSH1 20", "PUSH1 00", "PUSH1 00", "CREATE", "POP"))})
	as = append(as, action{"CREATE2", cat(putInit, asm("PUSH1 09", "PUSH1 20", "PUSH1 00", "PUSH1 00", "CREATE2", "POP"))})
	as = append(as, action{"SELFDESTRUCT", cat(pushAddr(addrBenef), asm("SELFDESTRUCT"))})
	as = append(as, action{"CALLVALUE1", cat(asm("PUSH1 00", "PUSH1 00", "PUSH1 00", "PUSH1 00", "PUSH1 01"), pushAddr(addrBenef), asm("PUSH1 00", "CALL", "POP"))})
	return as
}

// callTo emits <kind>(gas, addr, [value 0], in = mem[0..0), out = mem[outOff..outOff+outSize)) leaving the success flag on the stack.
func callTo(kind string, a addr20, gas uint64, outOff, outSize uint64) []byte {
	b := cat(pushU(outSize), pushU(outOff), asm("PUSH1 00", "PUSH1 00"))
	if kind == "CALL" || kind == "CALLCODE" {
		b = cat(b, asm("PUSH1 00"))
	}
	return cat(b, pushAddr(a), pushU(gas), asm(kind))
}

var retFlag = func() []byte { return asm("PUSH1 00", "MSTORE", "PUSH1 20", "PUSH1 00", "RETURN") } // return the word on top of the stack

type wrapperProg struct {
	p     *prog
	class string
}

func mkWrapper(name string, code []byte, extra []account, gas uint64, input []byte, stepBound uint64, expect ...string) wrapperProg {
	p := &prog{family: "wrap", name: name, code: code, input: input, gas: gas, value: 0, extra: extra, preludeEnd: 0, stepBound: stepBound, expect: expect}
	for _, e := range expect {
		if strings.Contains(e, "change") {
			p.wantPre = true
		}
	}
	// signature class: the wrapper kind; the state-changing action is named in the violation text
	kind := name
	if i := strings.Index(kind, "/"); i >= 0 {
		kind = kind[:i]
	}
	p.capKey = "wrapper=" + kind
	return wrapperProg{p, "wrapper=" + kind}
}

func buildWrappers() []wrapperProg {
	var out []wrapperProg
	const g = 3000000
	const sb = 200000
	one := "0000000000000000000000000000000000000000000000000000000000000001"
	zero := "0"
	for _, a := range actions() {
		ok := cat(a.code, asm("STOP"))
		rev := cat(a.code, asm("PUSH1 00", "PUSH1 00", "REVERT"))
		bad := cat(a.code, asm("INVALID"))
		W := func(code []byte) account { return account{addr: addrW, code: code, balance: 10} }

		// control: a plain CALL of the action really changes state
		out = append(out, mkWrapper("control-call/"+a.name, cat(callTo("CALL", addrW, 1000000, 0, 0), retFlag()), []account{W(ok)}, g, nil, sb,
			"status=success", "ret32[0]="+one, "changed"))
		// STATICCALL of the action must fail and change nothing
		out = append(out, mkWrapper("static/"+a.name, cat(callTo("STATICCALL", addrW, 1000000, 0, 0), retFlag()), []account{W(ok)}, g, nil, sb,
			"status=success", "ret32[0]="+zero, "nochange"))
		// STATICCALL -> X -CALL-> W: the read-only flag is inherited by nested frames
		xCall := cat(callTo("CALL", addrW, 500000, 0, 0), retFlag())
		out = append(out, mkWrapper("static-nested-call/"+a.name,
			cat(callTo("STATICCALL", addrX, 1000000, 0x20, 0x20), asm("PUSH1 00", "MSTORE", "PUSH1 40", "PUSH1 00", "RETURN")),
			[]account{W(ok), {addr: addrX, code: xCall, balance: 10}}, g, nil, sb,
			"status=success", "ret32[0]="+one, "ret32[1]="+zero, "nochange"))
		// STATICCALL -> X -DELEGATECALL-> W
		xDeleg := cat(callTo("DELEGATECALL", addrW, 500000, 0, 0), retFlag())
		out = append(out, mkWrapper("static-nested-delegatecall/"+a.name,
			cat(callTo("STATICCALL", addrX, 1000000, 0x20, 0x20), asm("PUSH1 00", "MSTORE", "PUSH1 40", "PUSH1 00", "RETURN")),
			[]account{W(ok), {addr: addrX, code: xDeleg, balance: 10}}, g, nil, sb,
			"status=success", "ret32[0]="+one, "ret32[1]="+zero, "nochange"))
		// the action in a frame that then REVERTs / fails (SELFDESTRUCT halts its frame, so it cannot be followed by REVERT)
		halts := a.name == "SELFDESTRUCT"
		for _, kind := range []string{"CALL", "CALLCODE", "DELEGATECALL"} {
			if halts {
				break
			}
			out = append(out, mkWrapper("reverting-"+strings.ToLower(kind)+"/"+a.name, cat(callTo(kind, addrW, 1000000, 0, 0), retFlag()), []account{W(rev)}, g, nil, sb,
				"status=success", "ret32[0]="+zero, "nochange"))
			out = append(out, mkWrapper("failing-"+strings.ToLower(kind)+"/"+a.name, cat(callTo(kind, addrW, 1000000, 0, 0), retFlag()), []account{W(bad)}, g, nil, sb,
				"status=success", "ret32[0]="+zero, "nochange"))
		}
		// inner frame succeeds, the outer one reverts: the inner changes must vanish as well
		xRev := cat(callTo("CALL", addrW, 500000, 0, 0), asm("POP", "PUSH1 00", "PUSH1 00", "REVERT"))
		out = append(out, mkWrapper("nested-revert/"+a.name, cat(callTo("CALL", addrX, 1000000, 0, 0), retFlag()),
			[]account{W(ok), {addr: addrX, code: xRev, balance: 10}}, g, nil, sb,
			"status=success", "ret32[0]="+zero, "nochange"))
		xBad := cat(callTo("CALL", addrW, 500000, 0, 0), asm("POP", "INVALID"))
		out = append(out, mkWrapper("nested-fail/"+a.name, cat(callTo("CALL", addrX, 1000000, 0, 0), retFlag()),
			[]account{W(ok), {addr: addrX, code: xBad, balance: 10}}, g, nil, sb,
			"status=success", "ret32[0]="+zero, "nochange"))
		// the top-level frame itself reverts / fails
		if !halts {
			out = append(out, mkWrapper("top-revert/"+a.name, rev, nil, g, nil, sb, "status=revert", "nochange"))
			out = append(out, mkWrapper("top-fail/"+a.name, bad, nil, g, nil, sb, "status=failure", "nochange"))
		}
		// a CREATE whose init code performs the action and then reverts: code = stub ++ padding ++ init code at offset 64
		if !halts {
			stub := cat(pushU(uint64(len(rev))), asm("PUSH1 40", "PUSH1 00", "CODECOPY"),
				pushU(uint64(len(rev))), asm("PUSH1 00", "PUSH1 00", "CREATE"), retFlag())
			body := cat(stub, make([]byte, 64-len(stub)), rev)
			out = append(out, mkWrapper("reverting-create/"+a.name, body, nil, g, nil, sb, "status=success", "ret32[0]="+zero))
		}

		// self-recursion to the depth limit, the action at the bottom
		out = append(out, recursive(a))
	}

	// stack limit
	pushes := func(n int) []byte {
		var b []byte
		for i := 0; i < n; i++ {
			b = append(b, 0x60, 0x01)
		}
		return b
	}
	st := func(name string, code []byte, status string) {
		out = append(out, mkWrapper("stack/"+name, code, nil, g, nil, sb, "status="+status))
	}
	st("1023-push", cat(pushes(1023), asm("STOP")), "success")
	st("1024-push", cat(pushes(1024), asm("STOP")), "success")
	st("1025-push", cat(pushes(1025), asm("STOP")), "failure")
	st("1026-push", cat(pushes(1026), asm("STOP")), "failure")
	st("1023-push-dup1", cat(pushes(1023), asm("DUP1", "STOP")), "success")
	st("1024-push-dup1", cat(pushes(1024), asm("DUP1", "STOP")), "failure")
	st("1024-push-dup16", cat(pushes(1024), asm("DUP16", "STOP")), "failure")
	st("1024-push-swap16", cat(pushes(1024), asm("SWAP16", "STOP")), "success")
	st("1024-push-address", cat(pushes(1024), asm("ADDRESS", "STOP")), "failure")
	st("1024-push-pc", cat(pushes(1024), asm("PC", "STOP")), "failure")
	st("1024-push-msize", cat(pushes(1024), asm("MSIZE", "STOP")), "failure")
	st("1024-push-pop-push", cat(pushes(1024), asm("POP", "PUSH1 01", "STOP")), "success")
	st("1024-push-add-push", cat(pushes(1024), asm("ADD", "PUSH1 01", "STOP")), "success")
	st("1024-push-iszero", cat(pushes(1024), asm("ISZERO", "STOP")), "success")
	st("1024-push-mload", cat(pushes(1024), asm("MLOAD", "STOP")), "success")
	st("1024-push-push32", cat(pushes(1024), []byte{0x7f}, make([]byte, 32), asm("STOP")), "failure")
	st("1024-push-create-args", cat(pushes(1021), asm("PUSH1 00", "PUSH1 00", "PUSH1 00", "CREATE", "STOP")), "success")
	st("1024-push-call", cat(pushes(1017), callTo("CALL", addrT2, 100000, 0, 0), asm("STOP")), "success")

	// loops
	out = append(out, mkWrapper("loop/infinite", asm("JUMPDEST", "PUSH1 00", "JUMP"), nil, 300000, nil, 400000, "always:status=failure"))
	out = append(out, mkWrapper("loop/infinite-jumpi", asm("JUMPDEST", "PUSH1 01", "PUSH1 00", "JUMPI"), nil, 300000, nil, 400000, "always:status=failure"))
	out = append(out, mkWrapper("loop/countdown-1000", asm("PUSH2 03e8", "JUMPDEST", "PUSH1 01", "SWAP1", "SUB", "DUP1", "PUSH1 03", "JUMPI",
		"PUSH1 00", "MSTORE", "PUSH1 20", "PUSH1 00", "RETURN"), nil, g, nil, sb, "status=success", "ret32[0]="+zero))
	out = append(out, mkWrapper("loop/memory-growth", asm("PUSH1 00", "JUMPDEST", "PUSH2 0400", "ADD", "DUP1", "DUP1", "MSTORE", "PUSH1 02", "JUMP"), nil, g, nil, sb, "always:status=failure"))
	out = append(out, mkWrapper("loop/self-call-unbounded-gas", cat(callTo("CALL", addrMain, 0xffffffffffff, 0, 0), asm("STOP")), nil, 3000000, nil, 400000, "always:status=success"))
	return out
}

// recursive builds the self-recursive program with action a at the deepest frame.
//
//	d := calldata[0..32); mem[0] = d+1
//	ok := CALL(gas = 2^256-1 (=> all but 1/64), self, 0, mem[0..32), mem[32..64))
//	if ok goto done
//	<action>; mem[32] = d
//	done: return mem[32..64)
//
// The top frame has depth 0 by this count; with enough gas the deepest frame is the one whose CALL is
// refused by the depth limit: d = 1024 (KVM's own depth counter shows 1025 there).
func recursive(a action) wrapperProg {
	head := cat(asm("PUSH1 00", "CALLDATALOAD", "PUSH1 01", "ADD", "PUSH1 00", "MSTORE",
		"PUSH1 20", "PUSH1 20", "PUSH1 20", "PUSH1 00", "PUSH1 00", "ADDRESS"), pushBig(max256), asm("CALL"))
	tailFail := cat(a.code, asm("PUSH1 00", "CALLDATALOAD", "PUSH1 20", "MSTORE"))
	// head ++ PUSH2 done ++ JUMPI ++ tailFail ++ JUMPDEST ++ return
	done := len(head) + 4 + len(tailFail)
	code := cat(head, []byte{0x61, byte(done >> 8), byte(done)}, asm("JUMPI"), tailFail, asm("JUMPDEST", "PUSH1 20", "PUSH1 20", "RETURN"))
	exp := []string{"status=success", "maxdepth=1025"}
	if a.name != "SELFDESTRUCT" {
		exp = append(exp, "ret32[0]=400")
	}
	return mkWrapper("recursion-1024/"+a.name, code, nil, 10000000000000, make([]byte, 32), 2000000, exp...)
}

func runWrappers() {
	ws := buildWrappers()
	var n int64
	par.Each(len(ws), func(i int) {
		c := getCtx()
		defer putCtx(c)
		w := ws[i]
		atomic.AddInt64(&nPrograms, 1)
		if runProgram(c, w.p, func(iset int, f finding) (string, *prog) { return classFor(c, w.p, iset, f, w.class), nil }) {
			atomic.AddInt64(&nDistinctNontrivial, 1)
		}
		atomic.AddInt64(&n, 1)
	})
	r.Add("wrapper_programs", n)
	r.Set("wrapper_families", fmt.Sprintf("%d programs: control-call, static, static-nested-call, static-nested-delegatecall, reverting-/failing-{call,callcode,delegatecall}, "+
		"nested-revert, nested-fail, top-revert, top-fail, reverting-create, recursion-1024 (each x 10 state-changing actions), stack/*, loop/*", len(ws)))
}

// ---------------------------------------------------------------------------------------------
// family frames: every "frame shape". From the top frame a chain of n <= 3 frames is entered by
// k_1..k_n in {STATICCALL, CALL, DELEGATECALL, CALLCODE}; the innermost frame performs the state-changing
// action. At most one frame of the chain (position 0 = top frame .. n = the action frame) first performs a
// read-only SIBLING call and lets it return before it proceeds: sibling kind in the same four, target in
// {trivial, storage-reading, one that itself makes a nested STATICCALL}, outcome in {returns, reverts, fails}.
//
// Absolute oracle: the action is write-protected iff some k_i is STATICCALL (the flag is inherited by every
// descendant and is NOT lifted by anything a sibling does): then the top frame returns word 0 and no state
// changed; otherwise the action takes effect (word 1, state changed). Plus the differential oracle.

var (
	addrF       = [3]addr20{mkAddr("f4a30001"), mkAddr("f4a30002"), mkAddr("f4a30003")}
	addrSib     [3][3]addr20 // [target][outcome]
	addrSibLeaf = mkAddr("51b100ff")
)

var callKinds = []string{"STATICCALL", "CALL", "DELEGATECALL", "CALLCODE"}
var sibTargets = []string{"trivial", "storage", "nested"}
var sibOutcomes = []string{"returns", "reverts", "fails"}

type frameSpec struct {
	n       int8
	kinds   [3]int8
	sibPos  int8 // -1: no sibling
	sibKind int8
	sibTgt  int8
	sibOut  int8
	action  int8
}

func sibAccount(tgt, out int) account {
	var body []byte
	switch tgt {
	case 0:
	case 1:
		body = asm("PUSH1 00", "SLOAD", "PUSH1 00", "MSTORE", "PUSH1 01", "SLOAD", "POP")
	case 2:
		body = cat(callTo("STATICCALL", addrSibLeaf, 5000, 0, 0), asm("POP"))
	}
	var end []byte
	switch out {
	case 0:
		end = asm("PUSH1 20", "PUSH1 00", "RETURN")
	case 1:
		end = asm("PUSH1 20", "PUSH1 00", "REVERT")
	case 2:
		end = asm("INVALID")
	}
	ac := account{addr: addrSib[tgt][out], code: cat(body, end), balance: 10}
	if tgt == 1 {
		ac.storage = [][2]word32{{wordOfU64(0), wordOfHex("51b1")}, {wordOfU64(1), wordOfU64(7)}}
	}
	return ac
}

func buildFrameSpecs(nActions int, quick bool) []frameSpec {
	for t := 0; t < 3; t++ {
		for o := 0; o < 3; o++ {
			addrSib[t][o] = mkAddr(fmt.Sprintf("51b1%02x%02x", t+1, o+1))
		}
	}
	var out []frameSpec
	for n := 1; n <= 3; n++ {
		total := 1
		for i := 0; i < n; i++ {
			total *= 4
		}
		for x := 0; x < total; x++ {
			var ks [3]int8
			y := x
			for i := 0; i < n; i++ {
				ks[i] = int8(y % 4)
				y /= 4
			}
			for a := 0; a < nActions; a++ {
				if n == 3 && quick && a != 0 {
					continue // quick tier: chains of three frames only with the first action (SSTORE)
				}
				out = append(out, frameSpec{n: int8(n), kinds: ks, sibPos: -1, action: int8(a)})
				for pos := 0; pos <= n; pos++ {
					for sk := 0; sk < 4; sk++ {
						for st := 0; st < 3; st++ {
							for so := 0; so < 3; so++ {
								out = append(out, frameSpec{n: int8(n), kinds: ks, sibPos: int8(pos), sibKind: int8(sk), sibTgt: int8(st), sibOut: int8(so), action: int8(a)})
							}
						}
					}
				}
			}
		}
	}
	return out
}

func frameProg(fs frameSpec, acts []action) wrapperProg {
	a := acts[fs.action]
	n := int(fs.n)
	gasFor := []uint64{2000000, 1000000, 400000}
	var extra []account
	frameCode := func(i int) []byte {
		var c []byte
		if int(fs.sibPos) == i {
			c = cat(c, callTo(callKinds[fs.sibKind], addrSib[fs.sibTgt][fs.sibOut], 30000, 0x40, 0x20), asm("POP"))
		}
		if i < n {
			c = cat(c, callTo(callKinds[fs.kinds[i]], addrF[i], gasFor[i], 0, 0x20), asm("POP", "PUSH1 20", "PUSH1 00", "RETURN"))
		} else {
			c = cat(c, a.code, asm("PUSH1 01", "PUSH1 00", "MSTORE", "PUSH1 20", "PUSH1 00", "RETURN"))
		}
		return c
	}
	for i := 1; i <= n; i++ {
		extra = append(extra, account{addr: addrF[i-1], code: frameCode(i), balance: 10})
	}
	static := false
	var ks []string
	for i := 0; i < n; i++ {
		ks = append(ks, callKinds[fs.kinds[i]])
		if fs.kinds[i] == 0 {
			static = true
		}
	}
	kind := "frames-nosibling"
	sib := "no sibling"
	if fs.sibPos >= 0 {
		extra = append(extra, sibAccount(int(fs.sibTgt), int(fs.sibOut)))
		if fs.sibTgt == 2 {
			extra = append(extra, account{addr: addrSibLeaf, code: asm("STOP"), balance: 10})
		}
		kind = "frames-sibling-" + strings.ToLower(callKinds[fs.sibKind])
		sib = fmt.Sprintf("frame %d first %ss a %s contract that %s", fs.sibPos, callKinds[fs.sibKind], sibTargets[fs.sibTgt], sibOutcomes[fs.sibOut])
	}
	name := fmt.Sprintf("%s/top>%s: %s; then %s in the innermost frame", kind, strings.Join(ks, ">"), sib, a.name)
	one := "0000000000000000000000000000000000000000000000000000000000000001"
	var exp []string
	if static {
		exp = []string{"status=success", "ret32[0]=0", "nochange"}
	} else {
		exp = []string{"status=success", "changed"}
		if a.name != "SELFDESTRUCT" {
			exp = append(exp, "ret32[0]="+one)
		}
	}
	return mkWrapper(name, frameCode(0), extra, 3000000, nil, 200000, exp...)
}

func runFrames() {
	acts := actions()
	specs := buildFrameSpecs(len(acts), r.Quick())
	done := par.For(int64(len(specs)), 32, r.Expired, func(i int64) {
		c := getCtx()
		defer putCtx(c)
		w := frameProg(specs[i], acts)
		atomic.AddInt64(&nPrograms, 1)
		if runProgram(c, w.p, func(iset int, f finding) (string, *prog) { return classFor(c, w.p, iset, f, w.class), nil }) {
			atomic.AddInt64(&nDistinctNontrivial, 1)
		}
	})
	r.Add("frame_shape_programs", done)
	r.Set("frame_shapes", "chains of n<=3 frames over {STATICCALL,CALL,DELEGATECALL,CALLCODE} x {no sibling | one frame (position 0..n) first makes a sibling call: 4 kinds x {trivial,storage,nested-STATICCALL} x {returns,reverts,fails}} x 10 actions (quick: n=3 with SSTORE only)")
	if done < int64(len(specs)) {
		r.NotExhaustive(fmt.Sprintf("deadline: frame shapes completed %d of %d", done, len(specs)))
	}
}
