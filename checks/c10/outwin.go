package main

import (
	"fmt"
	"strings"
	"sync/atomic"

	kcrypto "github.com/kardiachain/go-kardia/lib/crypto"

	"verif/mc/par"
)

// ---------------------------------------------------------------------------------------------
// family outwin: the OUTPUT WINDOW of a call (retOffset / retSize memory of the caller). For all four call
// opcodes x callee outcome {returns a 32-byte payload, reverts with it, reverts with nothing, faults, runs out
// of gas} x retSize {0, 16 (shorter), 32 (equal), 64 (longer)} the window (96 bytes at 0x100) is pre-filled
// with a marker; afterwards the caller reads it through MEMORY: tail "words" returns [flag, the three window
// words via MLOAD, SHA3 of the window, RETURNDATASIZE], tail "direct" RETURNs the window itself.
//
// Absolute oracle: the window holds min(retSize, 32) payload bytes followed by untouched marker bytes after a
// callee that RETURNed or REVERTed with the payload, and is untouched after a fault / out of gas / empty
// revert; flag 1 only for the returning callee. Plus the differential oracle (not for the out-of-gas callee).

func runOutWin() {
	payload := make([]byte, 32)
	for i := range payload {
		payload[i] = byte(0x11 + i)
	}
	marker := make([]byte, 96)
	for i := range marker {
		marker[i] = 0xee
	}
	put := cat([]byte{0x7f}, payload, asm("PUSH1 00", "MSTORE"))
	callees := []struct {
		name   string
		code   []byte
		gas    uint64
		flag   int
		copies bool
		rdsHex string
		always bool
	}{
		{"returns the payload", cat(put, asm("PUSH1 20", "PUSH1 00", "RETURN")), 100000, 1, true, "20", false},
		{"reverts with the payload", cat(put, asm("PUSH1 20", "PUSH1 00", "REVERT")), 100000, 0, true, "20", false},
		{"reverts with nothing", cat(put, asm("PUSH1 00", "PUSH1 00", "REVERT")), 100000, 0, false, "0", false},
		{"faults", cat(put, asm("INVALID")), 100000, 0, false, "0", false},
		{"runs out of gas", cat(put, asm("JUMPDEST", "PUSH1 24", "JUMP")), 3000, 0, false, "0", true},
	}
	type spec struct{ kind, callee, size, tail int }
	var specs []spec
	sizes := []uint64{0, 16, 32, 64}
	for k := range callKinds {
		for c := range callees {
			for s := range sizes {
				for t := 0; t < 2; t++ {
					specs = append(specs, spec{k, c, s, t})
				}
			}
		}
	}
	var n int64
	par.Each(len(specs), func(i int) {
		c := getCtx()
		defer putCtx(c)
		sp := specs[i]
		ce := callees[sp.callee]
		size := sizes[sp.size]
		code := []byte{}
		for w := 0; w < 3; w++ {
			code = cat(code, []byte{0x7f}, marker[:32], []byte{0x61, 0x01, byte(0x20 * w), 0x52})
		}
		code = cat(code, callTo(callKinds[sp.kind], addrW, ce.gas, 0x100, size))
		window := append([]byte{}, marker...)
		if ce.copies {
			n := int(size)
			if n > 32 {
				n = 32
			}
			copy(window, payload[:n])
		}
		pre := ""
		if ce.always {
			pre = "always:"
		}
		var exp []string
		if sp.tail == 0 {
			code = cat(code, asm("PUSH1 00", "MSTORE"))
			for w := 0; w < 3; w++ {
				code = cat(code, []byte{0x61, 0x01, byte(0x20 * w), 0x51, 0x60, byte(0x20 + 0x20*w), 0x52})
			}
			code = cat(code, asm("PUSH1 60", "PUSH2 0100", "SHA3", "PUSH1 80", "MSTORE", "RETURNDATASIZE", "PUSH1 a0", "MSTORE", "PUSH1 c0", "PUSH1 00", "RETURN"))
			exp = []string{pre + "status=success", fmt.Sprintf("%sret32[0]=%x", pre, ce.flag)}
			for w := 0; w < 3; w++ {
				exp = append(exp, fmt.Sprintf("%sret32[%d]=%x", pre, 1+w, window[32*w:32*w+32]))
			}
			exp = append(exp, fmt.Sprintf("%sret32[4]=%x", pre, kcrypto.Keccak256(window)), fmt.Sprintf("%sret32[5]=%s", pre, ce.rdsHex))
		} else {
			code = cat(code, asm("POP", "PUSH1 60", "PUSH2 0100", "RETURN"))
			exp = []string{pre + "status=success"}
			for w := 0; w < 3; w++ {
				exp = append(exp, fmt.Sprintf("%sret32[%d]=%x", pre, w, window[32*w:32*w+32]))
			}
		}
		tail := []string{"window read by MLOAD and SHA3", "window RETURNed directly"}[sp.tail]
		name := fmt.Sprintf("outwin-%s/%s a callee that %s, retSize %d, %s", strings.ToLower(callKinds[sp.kind]), callKinds[sp.kind], ce.name, size, tail)
		w := mkWrapper(name, code, []account{{addr: addrW, code: ce.code, balance: 10}}, 3000000, nil, 200000, exp...)
		w.p.family = "outwin"
		atomic.AddInt64(&nPrograms, 1)
		atomic.AddInt64(&n, 1)
		if runProgram(c, w.p, func(iset int, f finding) (string, *prog) { return classFor(c, w.p, iset, f, w.class), nil }) {
			atomic.AddInt64(&nDistinctNontrivial, 1)
		}
	})
	r.Add("outwin_programs", n)
}
