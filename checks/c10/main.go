// C10 — KVM executes bytecode with reference EVM semantics and never crashes.
//
// Engine E3 (small-scope exhaustive enumeration), differential against go-ethereum v1.9.15 core/vm.
// See DESIGN.md section 4 / C10 and table.go for the per-opcode fork binding.
//
// Families (all executed on the real kvm.KVM over a real kai/state.StateDB, both instruction sets):
//
//	seq     every sequence of <= L tokens, wrapped by a prelude (memory + 32 boundary operands) and a
//	        postlude (returns memory[0..512) ++ RETURNDATASIZE ++ MSIZE ++ top 3 stack words)
//	single  every byte value 0x00..0xff as a one-opcode body of a wrapped program
//	sweep   operand sweeps for every opcode over a 21-value boundary domain (all tuples for arity <= 2,
//	        a 9-value domain for arity 3, all one- and two-position variations for arity >= 4)
//	raw     every 1- and 2-byte string as unwrapped code
//	frames  every frame shape: chains of <= 3 frames over the 4 call kinds, one optional sibling call, 10 actions
//	codeid  code identity: 2-3 contracts that all jump in one transaction, layouts enumerated against each other
//	createret  CREATE/CREATE2 x init-code shapes (deposit refused for gas / size, revert, fault) x what the caller then sees
//	precompile  CALL/CALLCODE/top-level call to 0x01..0x09 x value x gas x input: a failed frame changes nothing, consumes its gas
//	outwin  the output window of the 4 call opcodes after return / revert / fault / out of gas, read back from memory
//	wrap    state-changing tokens inside STATICCALL / reverting / failing / nested-reverting frames and at
//	        the bottom of a self-recursion to the depth limit; stack-limit programs; loops
package main

import (
	"encoding/hex"
	"encoding/json"
	"fmt"
	"math/big"
	"math/bits"
	"os"
	"runtime/debug"
	"runtime/pprof"
	"sort"
	"strings"
	"sync"
	"sync/atomic"
	"time"

	"verif/mc/par"
	"verif/mc/report"
)

var r *report.Run

const (
	gasAmple   = 3000000
	gasTinySeq = 230
	gasTinyRaw = 5
	gasRawBig  = 100000
)

var inputs [][]byte
var inputNames = []string{"empty", "32B", "36B"}

func initInputs() {
	in32 := make([]byte, 32)
	for i := range in32 {
		in32[i] = byte(i + 1)
	}
	in36, _ := hex.DecodeString("a9059cbb" + strings.Repeat("00", 31) + "2a")
	inputs = [][]byte{nil, in32, in36}
}

type combo struct {
	in   int
	tiny bool
}

var allCombos = []combo{{2, false}, {0, false}, {1, false}, {2, true}, {0, true}, {1, true}}
var rawCombos = allCombos

// ---------------------------------------------------------------------------------------------
// per-program bookkeeping shared by all families

var (
	nPrograms, nDistinctNontrivial int64
)

// runProgram evaluates one program (already assembled) under both instruction sets and reports.
// classOf canonicalises the failing input into the signature's input class; it may re-run smaller
// programs (minimisation) and return a replacement program to store as the replay case.
func runProgram(c *wctx, p *prog, classOf func(iset int, f finding) (string, *prog)) (nontrivialCompared bool) {
	res := evalBoth(c, p)
	for iset := 0; iset < 2; iset++ {
		if res[iset].compared && res[iset].nontrivial {
			nontrivialCompared = true
		}
		for _, f := range res[iset].findings {
			if beyondCap(p, iset, f.kind) {
				// enough evidence for this input family and oracle; keep counting but do not minimise / locate / confirm further cases
				r.Add("violating_runs_beyond_cap:"+f.kind, 1)
				continue
			}
			class, q := classOf(iset, f)
			if q == nil {
				q = p
			}
			reportFinding(q, iset, class, f)
		}
	}
	if nontrivialCompared && wantSample(p.family) {
		k, g := res[1].k, res[1].ref
		r.Sample(map[string]interface{}{"family": p.family, "program": p.name, "iset": "v2", "gas": p.gas, "input_bytes": len(p.input),
			"kvm_status": statusName[k.status], "ref_status": statusName[g.status], "kvm_return_tail": fmt.Sprintf("%x", tail(k.ret, 96)),
			"ref_return_tail": fmt.Sprintf("%x", tail(g.ret, 96)), "kvm_gas_left": k.gasLeft, "ref_gas_left": g.gasLeft, "instructions": k.tr.steps})
	}
	return
}

var (
	sampleMu  sync.Mutex
	sampleFam = map[string]bool{}
)

// wantSample keeps one sample per family.
func wantSample(fam string) bool {
	sampleMu.Lock()
	defer sampleMu.Unlock()
	if sampleFam[fam] || len(sampleFam) >= 6 {
		return false
	}
	sampleFam[fam] = true
	return true
}

// beyondCap bounds the number of violating cases that are minimised / located / confirmed: maxViolPerKey per
// (input family key, oracle kind, instruction set), so that a flood of one kind cannot hide another family's
// signature, and maxViolCases in total.
var (
	capMu    sync.Mutex
	capCount = map[string]int{}
)

const maxViolPerKey = 40

func beyondCap(p *prog, iset int, kind string) bool {
	key := p.capKey
	if key == "" {
		key = p.family
	}
	key = fmt.Sprintf("%s|%s|%d", key, kind, iset)
	capMu.Lock()
	capCount[key]++
	n := capCount[key]
	capMu.Unlock()
	if n > maxViolPerKey {
		return true
	}
	return atomic.AddInt64(&nViolCase, 1) > maxViolCases
}

// classFor names the input class of a finding: the instruction the divergence locator blames
// ("op=SDIV"), else the fallback class (the opcode set of the minimised program).
func classFor(c *wctx, p *prog, iset int, f finding, fallback string) string {
	if strings.HasPrefix(f.kind, "diff-") || f.kind == "panic" {
		if op := culprit(c, p, iset); op != "" {
			return "op=" + op
		}
	}
	return fallback
}

func tail(b []byte, n int) []byte {
	if len(b) > n {
		return b[len(b)-n:]
	}
	return b
}

// stepBoundFor is the logical termination bound: every non-halting instruction costs >= 1 gas and every
// frame (entered by an instruction that costs >= 32 gas) ends with at most one free halting instruction,
// so an execution with g gas dispatches fewer than g + g/32 + 4096 instructions.
func stepBoundFor(g uint64) uint64 { return g + g/32 + 4096 }

// ---------------------------------------------------------------------------------------------
// family seq: token sequences

func seqProg(ts []int, cb combo) *prog {
	code, start := wrapTokens(ts)
	p := &prog{family: "seq", name: tokenNames(ts), code: code, input: inputs[cb.in], gas: gasAmple, value: 5, preludeEnd: start, tinyGas: cb.tiny}
	if cb.tiny {
		p.gas = gasTinySeq
	}
	p.stepBound = stepBoundFor(p.gas)
	return p
}

// minimiseSeq greedily deletes tokens while the finding kind persists under the same (iset, combo).
func minimiseSeq(c *wctx, ts []int, cb combo, iset int, kind string) []int {
	cur := append([]int{}, ts...)
	for changed := true; changed && len(cur) > 1; {
		changed = false
		for i := 0; i < len(cur); i++ {
			cand := append(append([]int{}, cur[:i]...), cur[i+1:]...)
			res := evalOne(c, seqProg(cand, cb), iset, nil)
			if hasKind(res.findings, kind) != nil {
				cur = cand
				changed = true
				break
			}
		}
	}
	return cur
}

func runSeq(c *wctx, ts []int, combos []combo) {
	atomic.AddInt64(&nPrograms, 1)
	nt := false
	for _, cb := range combos {
		cb := cb
		p := seqProg(ts, cb)
		if runProgram(c, p, func(iset int, f finding) (string, *prog) {
			m := minimiseSeq(c, ts, cb, iset, f.kind)
			q := seqProg(m, cb)
			return classFor(c, q, iset, f, "ops="+opsKey(tokenOpNames(m))), q
		}) {
			nt = true
		}
	}
	if nt {
		atomic.AddInt64(&nDistinctNontrivial, 1)
	}
}

func gcd(a, b int64) int64 {
	for b != 0 {
		a, b = b, a%b
	}
	return a
}

func mulmod(a, b, m int64) int64 {
	hi, lo := bits.Mul64(uint64(a), uint64(b))
	_, rem := bits.Div64(hi%uint64(m), lo, uint64(m))
	return int64(rem)
}

// enumerate all sequences of exactly n tokens over alphabet alpha (token indices)
func enumSeq(n int, alpha []int, combos []combo, label string) {
	total := int64(1)
	for i := 0; i < n; i++ {
		total *= int64(len(alpha))
	}
	// Indices are visited in a fixed stride order (a bijection of [0,total)), so that a deadline-capped
	// run has covered a spread of first/last tokens instead of only the programs that start with STOP.
	stride := int64(1)
	if total > 1000 {
		stride = 2147483629 % total // prime, coprime to every alphabet size used here
		for gcd(stride, total) != 1 {
			stride++
		}
	}
	done := par.For(total, 64, r.Expired, func(idx int64) {
		c := getCtx()
		defer putCtx(c)
		ts := make([]int, n)
		x := mulmod(idx, stride, total)
		for i := n - 1; i >= 0; i-- {
			ts[i] = alpha[x%int64(len(alpha))]
			x /= int64(len(alpha))
		}
		runSeq(c, ts, combos)
	})
	r.Add("seq_programs_len"+fmt.Sprint(n), done)
	if done < total {
		r.NotExhaustive(fmt.Sprintf("deadline: %s completed %d of %d programs", label, done, total))
	}
}

// ---------------------------------------------------------------------------------------------
// family single: every byte value as a one-opcode body (push data = following postlude bytes)

func runSingles() {
	par.For(256, 1, nil, func(i int64) {
		c := getCtx()
		defer putCtx(c)
		atomic.AddInt64(&nPrograms, 1)
		nt := false
		for _, cb := range allCombos {
			code, start := wrap([]byte{byte(i)}, nil)
			p := &prog{family: "single", name: opTable[i].name, code: code, input: inputs[cb.in], gas: gasAmple, value: 5, preludeEnd: start, tinyGas: cb.tiny}
			if cb.tiny {
				p.gas = gasTinySeq
			}
			p.stepBound = stepBoundFor(p.gas)
			if runProgram(c, p, func(iset int, f finding) (string, *prog) { return classFor(c, p, iset, f, "ops="+opTable[i].name), nil }) {
				nt = true
			}
		}
		if nt {
			atomic.AddInt64(&nDistinctNontrivial, 1)
		}
	})
	r.Add("single_programs", 256)

	// stackdump: DUP1..16 / SWAP1..16 over 20 pairwise distinct stack words, the top 20 words returned
	var n int64
	par.Each(32, func(i int) {
		c := getCtx()
		defer putCtx(c)
		op := byte(0x80 + i)
		var code []byte
		for v := 0; v < 20; v++ {
			code = append(code, 0x60, byte(0x41+v))
		}
		start := len(code)
		code = append(code, op)
		for w := 0; w < 20; w++ {
			code = append(code, 0x61, byte((32*w)>>8), byte(32*w), 0x52)
		}
		code = append(code, asm("PUSH2 0280", "PUSH1 00", "RETURN")...)
		var exp []string
		k := int(op&15) + 1
		if op < 0x90 { // DUPk: new top = k-th word from the top
			exp = []string{"status=success", fmt.Sprintf("ret32[0]=%x", 0x54-(k-1)), fmt.Sprintf("ret32[1]=%x", 0x54), fmt.Sprintf("ret32[%d]=%x", k, 0x54-(k-1))}
		} else { // SWAPk: top <-> (k+1)-th
			exp = []string{"status=success", fmt.Sprintf("ret32[0]=%x", 0x54-k), fmt.Sprintf("ret32[%d]=%x", k, 0x54)}
		}
		p := &prog{family: "stackdump", name: opTable[op].name, code: code, gas: gasAmple, preludeEnd: start, stepBound: stepBoundFor(gasAmple), expect: exp}
		atomic.AddInt64(&nPrograms, 1)
		if runProgram(c, p, func(iset int, f finding) (string, *prog) {
			return classFor(c, p, iset, f, "ops="+opTable[op].name), nil
		}) {
			atomic.AddInt64(&nDistinctNontrivial, 1)
		}
		atomic.AddInt64(&n, 1)
	})
	r.Add("stackdump_programs", n)
}

// ---------------------------------------------------------------------------------------------
// family sweep: operand sweeps

func pow2(n uint) *big.Int             { return new(big.Int).Lsh(big.NewInt(1), n) }
func sub(a *big.Int, b int64) *big.Int { return new(big.Int).Sub(a, big.NewInt(b)) }

var sweepVals, sweepVals3, sweepValsWide []*big.Int

func initSweep() {
	sweepVals = []*big.Int{big.NewInt(0), big.NewInt(1), big.NewInt(2), big.NewInt(31), big.NewInt(32), big.NewInt(33), big.NewInt(255), big.NewInt(256),
		big.NewInt(0x10000), big.NewInt(0xa0000), pow2(31), sub(pow2(32), 1), pow2(32), big.NewInt(0x1FFFFFFFE0), big.NewInt(0x1FFFFFFFE1),
		sub(pow2(63), 1), pow2(63), sub(pow2(64), 32), sub(pow2(64), 1), pow2(64), two255, max256}
	sweepVals3 = []*big.Int{big.NewInt(0), big.NewInt(1), big.NewInt(2), big.NewInt(32), big.NewInt(33), big.NewInt(255), sub(pow2(64), 1), pow2(64), two255, max256}
	sweepValsWide = []*big.Int{big.NewInt(0), big.NewInt(1), big.NewInt(32), pow2(32), sub(pow2(64), 1), max256, new(big.Int).SetBytes(addrT[:]), new(big.Int).SetBytes(addrT2[:])}
}

func bigName(v *big.Int) string {
	if v.BitLen() <= 20 {
		return v.String()
	}
	return "0x" + v.Text(16)
}

// sweepBody pushes operands (operand[0] ends on top of the stack) and executes op.
func sweepBody(op byte, operands []*big.Int) []byte {
	var b []byte
	for i := len(operands) - 1; i >= 0; i-- {
		b = append(b, pushBig(operands[i])...)
	}
	return append(b, op)
}

// defaults per arity>=4 opcode (top of stack first)
func wideDefaults(op byte) []*big.Int {
	z, w := big.NewInt(0), big.NewInt(32)
	t := new(big.Int).SetBytes(addrT[:])
	g := big.NewInt(100000)
	switch op {
	case 0x3c: // EXTCODECOPY addr, mem, code, len
		return []*big.Int{t, z, z, w}
	case 0xa2:
		return []*big.Int{z, w, big.NewInt(1), big.NewInt(2)}
	case 0xa3:
		return []*big.Int{z, w, big.NewInt(1), big.NewInt(2), big.NewInt(3)}
	case 0xa4:
		return []*big.Int{z, w, big.NewInt(1), big.NewInt(2), big.NewInt(3), big.NewInt(4)}
	case 0xf1, 0xf2: // gas addr value in insz out outsz
		return []*big.Int{g, t, z, z, w, big.NewInt(64), w}
	case 0xf4, 0xfa:
		return []*big.Int{g, t, z, w, big.NewInt(64), w}
	case 0xf5: // value off size salt
		return []*big.Int{z, w, w, big.NewInt(1)}
	}
	return nil
}

type sweepCase struct {
	op       byte
	operands []*big.Int
}

func buildSweep() []sweepCase {
	var out []sweepCase
	for b := 0; b < 256; b++ {
		oi := opTable[b]
		if !oi.defined || (b >= 0x60 && b <= 0x9f) {
			continue
		}
		switch {
		case oi.pops == 1:
			for _, v := range sweepVals {
				out = append(out, sweepCase{byte(b), []*big.Int{v}})
			}
		case oi.pops == 2:
			for _, v := range sweepVals {
				for _, w := range sweepVals {
					out = append(out, sweepCase{byte(b), []*big.Int{v, w}})
				}
			}
		case oi.pops == 3:
			for _, v := range sweepVals3 {
				for _, w := range sweepVals3 {
					for _, x := range sweepVals3 {
						out = append(out, sweepCase{byte(b), []*big.Int{v, w, x}})
					}
				}
			}
		case oi.pops >= 4:
			d := wideDefaults(byte(b))
			if d == nil {
				panic("no defaults for " + oi.name)
			}
			out = append(out, sweepCase{byte(b), d})
			for i := 0; i < len(d); i++ {
				for _, v := range sweepValsWide {
					o := append([]*big.Int{}, d...)
					o[i] = v
					out = append(out, sweepCase{byte(b), o})
					for j := i + 1; j < len(d); j++ {
						for _, w := range sweepValsWide {
							o2 := append([]*big.Int{}, o...)
							o2[j] = w
							out = append(out, sweepCase{byte(b), o2})
						}
					}
				}
			}
		}
	}
	return out
}

func runSweep() {
	cases := buildSweep()
	combos := []combo{{2, false}}
	done := par.For(int64(len(cases)), 16, r.Expired, func(i int64) {
		c := getCtx()
		defer putCtx(c)
		sc := cases[i]
		var names []string
		for _, o := range sc.operands {
			names = append(names, bigName(o))
		}
		atomic.AddInt64(&nPrograms, 1)
		nt := false
		for _, cb := range combos {
			code, start := wrap(sweepBody(sc.op, sc.operands), nil)
			p := &prog{family: "sweep", name: opTable[sc.op].name + "(" + strings.Join(names, ",") + ")", code: code, input: inputs[cb.in], gas: gasAmple, value: 5,
				preludeEnd: start, tinyGas: cb.tiny}
			p.stepBound = stepBoundFor(p.gas)
			if runProgram(c, p, func(iset int, f finding) (string, *prog) {
				return classFor(c, p, iset, f, "ops="+opTable[sc.op].name), nil
			}) {
				nt = true
			}
		}
		if nt {
			atomic.AddInt64(&nDistinctNontrivial, 1)
		}
	})
	r.Add("sweep_programs", done)
	if done < int64(len(cases)) {
		r.NotExhaustive(fmt.Sprintf("deadline: operand sweep completed %d of %d", done, len(cases)))
	}
}

// ---------------------------------------------------------------------------------------------
// family raw: every 1- and 2-byte string as code

func runRaw() {
	total := int64(256 + 65536)
	done := par.For(total, 128, r.Expired, func(i int64) {
		c := getCtx()
		defer putCtx(c)
		var code []byte
		if i < 256 {
			code = []byte{byte(i)}
		} else {
			j := i - 256
			code = []byte{byte(j >> 8), byte(j)}
		}
		atomic.AddInt64(&nPrograms, 1)
		nt := false
		for _, cb := range rawCombos {
			p := &prog{family: "raw", name: fmt.Sprintf("%x", code), code: code, input: inputs[cb.in], gas: gasRawBig, value: 5, preludeEnd: 0, tinyGas: cb.tiny}
			if cb.tiny {
				p.gas = gasTinyRaw
			}
			p.stepBound = stepBoundFor(p.gas)
			if runProgram(c, p, func(iset int, f finding) (string, *prog) {
				return classFor(c, p, iset, f, "raw-ops="+opsKey(decodeOps(code))), nil
			}) {
				nt = true
			}
		}
		if nt {
			atomic.AddInt64(&nDistinctNontrivial, 1)
		}
	})
	r.Add("raw_programs", done)
	if done < total {
		r.NotExhaustive(fmt.Sprintf("deadline: raw codes completed %d of %d", done, total))
	}
}

// ---------------------------------------------------------------------------------------------
// family create: raw strings as INIT code through KVM.Create / EVM.Create (top-level contract creation).
// thorough: every 1- and 2-byte string; quick: every 1-byte string and every 2-byte string whose first
// byte is one of six nullary pushers (so that the second opcode has an operand).

func runCreateTop() {
	var codes [][]byte
	for i := 0; i < 256; i++ {
		codes = append(codes, []byte{byte(i)})
	}
	if r.Quick() {
		for _, f := range []byte{0x60, 0x5b, 0x30, 0x36, 0x58, 0x59} {
			for i := 0; i < 256; i++ {
				codes = append(codes, []byte{f, byte(i)})
			}
		}
	} else {
		for i := 0; i < 65536; i++ {
			codes = append(codes, []byte{byte(i >> 8), byte(i)})
		}
	}
	done := par.For(int64(len(codes)), 64, r.Expired, func(i int64) {
		c := getCtx()
		defer putCtx(c)
		code := codes[i]
		atomic.AddInt64(&nPrograms, 1)
		nt := false
		for _, tiny := range []bool{false, true} {
			p := &prog{family: "create", name: fmt.Sprintf("%x", code), code: code, gas: gasRawBig, value: 5, create: true, tinyGas: tiny}
			if tiny {
				p.gas = gasTinyRaw
			}
			p.stepBound = stepBoundFor(p.gas)
			if runProgram(c, p, func(iset int, f finding) (string, *prog) {
				return classFor(c, p, iset, f, "create-ops="+opsKey(decodeOps(code))), nil
			}) {
				nt = true
			}
		}
		if nt {
			atomic.AddInt64(&nDistinctNontrivial, 1)
		}
	})
	r.Add("create_programs", done)
	if done < int64(len(codes)) {
		r.NotExhaustive(fmt.Sprintf("deadline: top-level creations completed %d of %d", done, len(codes)))
	}
}

// ---------------------------------------------------------------------------------------------
// family cfg: the chain-id opcode under a chain config without ChainID (configs.ChainConfig.Rules
// explicitly supports a nil ChainID). Always-oracles only.

func runCfg() {
	c := getCtx()
	defer putCtx(c)
	wrapped, start := wrap([]byte{0x46}, nil)
	for _, p := range []*prog{
		{family: "cfg-nil-chainid", name: "raw 46", code: []byte{0x46}, gas: gasRawBig, stepBound: stepBoundFor(gasRawBig), nilChainID: true},
		{family: "cfg-nil-chainid", name: "CHAINID", code: wrapped, preludeEnd: start, input: inputs[2], gas: gasAmple, value: 5, stepBound: stepBoundFor(gasAmple), nilChainID: true},
	} {
		p := p
		atomic.AddInt64(&nPrograms, 1)
		runProgram(c, p, func(iset int, f finding) (string, *prog) { return "cfg=nil-chainid|op=" + opTable[0x46].name, nil })
	}
	r.Add("cfg_programs", 2)
}

// ---------------------------------------------------------------------------------------------
// table self-check: the binding table must agree with what both implementations actually define

func checkTableBinding() {
	c := getCtx()
	defer putCtx(c)
	for iset := 0; iset < 2; iset++ {
		for b := 0; b < 256; b++ {
			p := &prog{family: "raw", name: hex2(byte(b)), code: []byte{byte(b)}, gas: gasRawBig, stepBound: stepBoundFor(gasRawBig)}
			k := runKVM(c.kw, p, iset, &c.scratch)
			g := runRef(c.gw, p, iset, &c.scratch)
			kdef := k.errKind != "invalid-opcode"
			gdef := g.errKind != "invalid-opcode"
			if k.panicMsg != "" {
				continue // reported by the raw family
			}
			if kdef != kvmDefines(iset, byte(b)) {
				stable := true
				for i := 0; i < 5; i++ {
					k2 := runKVM(c.kw, p, iset, &c.scratch)
					if (k2.errKind != "invalid-opcode") != kdef {
						stable = false
					}
				}
				if !stable {
					r.Vacuous(fmt.Sprintf("definedness of opcode 0x%02x is not stable across runs", b))
					continue
				}
				body := fmt.Sprintf("op=%s|oracle=table-binding", opTable[b].name)
				pendMu.Lock()
				if pending[body] == nil {
					pending[body] = &pendingViol{cs: p.toCase(iset), what: fmt.Sprintf("opcode 0x%02x: the binding table says defined-in-KVM-%s=%v, the real jump table says %v",
						b, isetName[iset], kvmDefines(iset, byte(b)), kdef)}
				}
				pending[body].isets[iset] = true
				pending[body].count++
				pendMu.Unlock()
			}
			if gdef != refDefines(iset, byte(b)) {
				r.Vacuous(fmt.Sprintf("reference configuration for %s defines 0x%02x = %v, table says %v", isetName[iset], b, gdef, refDefines(iset, byte(b))))
			}
		}
	}
}

// ---------------------------------------------------------------------------------------------

func alphabet(reducedOnly bool) []int {
	var a []int
	for i, t := range tokens {
		if !reducedOnly || t.reduced {
			a = append(a, i)
		}
	}
	return a
}

type replayOut struct {
	Status  string `json:"status"`
	Err     string `json:"err"`
	Ret     string `json:"ret"`
	GasLeft uint64 `json:"gas_left"`
	Logs    string `json:"logs"`
	Steps   uint64 `json:"steps"`
	OOG     bool   `json:"out_of_gas_somewhere"`
}

func doReplay() {
	var cs Case
	if err := r.LoadReplay(&cs); err != nil {
		fmt.Println("MACHINERY-ERROR: cannot load replay:", err)
		r.Vacuous("replay file unreadable")
		r.Finish()
	}
	code, _ := hex.DecodeString(cs.Code)
	in, _ := hex.DecodeString(cs.Input)
	p := &prog{family: cs.Family, name: cs.Name, code: code, input: in, gas: cs.Gas, value: cs.Value, preludeEnd: cs.PreludeEnd, stepBound: cs.StepBound, expect: cs.Expect}
	p.tinyGas = cs.Gas == gasTinySeq || cs.Gas == gasTinyRaw
	p.nilChainID = cs.NilChainID
	p.create = cs.Create
	if cs.To != "" {
		a := mkAddr(cs.To)
		p.toAddr = &a
	}
	for _, h := range cs.Probe {
		p.probe = append(p.probe, mkAddr(h))
	}
	for _, e := range cs.Expect {
		if strings.Contains(e, "change") {
			p.wantPre = true
		}
	}
	for _, e := range cs.Extra {
		c, _ := hex.DecodeString(e.Code)
		ac := account{addr: mkAddr(e.Addr), code: c, balance: 10}
		for _, kv := range e.Storage {
			ac.storage = append(ac.storage, [2]word32{wordOfHex(kv[0]), wordOfHex(kv[1])})
		}
		p.extra = append(p.extra, ac)
	}
	c := getCtx()
	res := evalOne(c, p, cs.ISet, nil)
	fmt.Printf("replay %s %q iset=%s gas=%d input=%d bytes code=%s\n", cs.Family, cs.Name, isetName[cs.ISet], cs.Gas, len(in), cs.Code)
	show := func(tag string, o *outcome) {
		if o == nil {
			return
		}
		if o.panicMsg != "" {
			fmt.Printf("  %s: PANIC %s\n", tag, o.panicMsg)
			return
		}
		fmt.Printf("  %s: %s(%s) gasLeft=%d steps=%d oog=%v ret=%s logs=%s\n", tag, statusName[o.status], o.errKind, o.gasLeft, o.tr.steps, o.tr.oog, short(o.ret), logsString(o.logs))
	}
	show("kvm", res.k)
	show("ref", res.ref)
	fmt.Printf("  differential applied: %v\n", res.compared)
	// the stored signature is kept when the oracle it names still fails
	var stored struct {
		Signature string `json:"signature"`
	}
	if b, err := os.ReadFile(r.ReplayPath); err == nil {
		json.Unmarshal(b, &stored)
	}
	for _, f := range res.findings {
		sig := sigFor(isetName[cs.ISet], sigBody("replay", f))
		if strings.HasSuffix(stored.Signature, sigBody("", f)) {
			sig = stored.Signature
		}
		r.Violation(sig, f.kind+": "+f.detail, cs)
		fmt.Printf("  STILL VIOLATES: %s: %s\n", f.kind, f.detail)
	}
	if len(res.findings) == 0 {
		fmt.Println("  no oracle fails on this case now")
	}
	pprof.StopCPUProfile()
	flushFindings()
	r.Finish()
}

func main() {
	r = report.New("C10", "exploration")
	// the executions produce a lot of short-lived garbage over a tiny live heap
	debug.SetGCPercent(2000)
	debug.SetMemoryLimit(3 << 30)
	setup()
	initInputs()
	initProbe()
	initChainCfgs()
	initSweep()
	if r.ReplayPath != "" {
		doReplay()
		return
	}
	if r.Quick() {
		rawCombos = []combo{{2, false}, {0, false}, {2, true}}
		r.SetDeadline(52 * time.Second)
	} else {
		r.SetDeadline(13 * time.Minute)
	}
	full := alphabet(false)
	red := alphabet(true)

	if pf := os.Getenv("C10_PROF"); pf != "" {
		f, _ := os.Create(pf)
		pprof.StartCPUProfile(f)
		defer pprof.StopCPUProfile()
	}
	phase := func(name string, f func()) {
		t0 := time.Now()
		f()
		fmt.Fprintf(os.Stderr, "phase %-10s %6.1fs  (exec so far %d)\n", name, time.Since(t0).Seconds(), atomic.LoadInt64(&nExec))
	}
	phase("table", checkTableBinding)
	phase("cfg", runCfg)
	phase("wrappers", runWrappers)
	phase("frames", runFrames)
	phase("codeid", runCodeID)
	phase("createret", runCreateRet)
	phase("precompile", runPrecompiles)
	phase("outwin", runOutWin)
	phase("singles", runSingles)
	phase("sweep", runSweep)
	phase("create", runCreateTop)
	one := []combo{{2, false}}
	phase("seq1", func() { enumSeq(1, full, allCombos, "seq len 1") })
	phase("seq2", func() { enumSeq(2, full, allCombos, "seq len 2") })
	maxLen := 3
	if r.Quick() {
		phase("seq3", func() { enumSeq(3, red, one, "seq len 3 (reduced alphabet)") })
		r.Set("seq_len3_alphabet", len(red))
		phase("raw", runRaw)
	} else {
		phase("seq3", func() { enumSeq(3, full, allCombos, "seq len 3") })
		r.Set("seq_len3_alphabet", len(full))
		phase("raw", runRaw)
		if !r.Expired() {
			maxLen = 4
			phase("seq4", func() { enumSeq(4, full, one, "seq len 4") })
		}
	}
	r.Set("seq_max_len", maxLen)
	r.Set("alphabet_size", len(full))
	var names []string
	for _, t := range tokens {
		names = append(names, t.name)
	}
	r.Set("alphabet", strings.Join(names, " "))

	// ---- merge worker counters, vacuity guards ---------------------------------------------------
	var kCount, rCount [2][256]uint64
	for _, c := range allCtx {
		for s := 0; s < 2; s++ {
			for b := 0; b < 256; b++ {
				kCount[s][b] += c.kCount[s][b]
				rCount[s][b] += c.rCount[s][b]
			}
		}
	}
	perOp := map[string]interface{}{}
	var missing []string
	for b := 0; b < 256; b++ {
		oi := opTable[b]
		if !oi.defined {
			continue
		}
		perOp[oi.name] = map[string]uint64{"kvm_v1": kCount[0][b], "kvm_v2": kCount[1][b], "ref_for_v1": rCount[0][b], "ref_for_v2": rCount[1][b]}
		for s := 0; s < 2; s++ {
			if kvmDefines(s, byte(b)) && (kCount[s][b] == 0 || (oi.mode == cmpValue && rCount[s][b] == 0)) {
				missing = append(missing, fmt.Sprintf("%s/%s", oi.name, isetName[s]))
			}
		}
	}
	sort.Strings(missing)
	r.Set("per_opcode_dispatch_counts", perOp)
	r.Require(len(missing) == 0, "opcodes of the compared table never dispatched on both sides: "+strings.Join(missing, ","))
	tbl := map[string]string{}
	for b := 0; b < 256; b++ {
		oi := opTable[b]
		if oi.defined || oi.ref == fDiffers {
			m := "value"
			if oi.mode == cmpNoCrash {
				m = "no-crash-only"
			}
			tbl[fmt.Sprintf("0x%02x %s", b, oi.name)] = fmt.Sprintf("v1=%v v2=%v ref=%s compare=%s", oi.inV1, oi.inV2, oi.ref, m)
		}
	}
	r.Set("opcode_binding_table", tbl)

	r.Add("evaluations", atomic.LoadInt64(&nExec))
	r.Add("programs", atomic.LoadInt64(&nPrograms))
	r.Add("distinct_nontrivial", atomic.LoadInt64(&nDistinctNontrivial))
	r.Add("runs_compared_with_reference", atomic.LoadInt64(&nCompared))
	r.Add("runs_not_compared_out_of_gas", atomic.LoadInt64(&nSkipOOG))
	r.Add("runs_not_compared_excluded_opcode", atomic.LoadInt64(&nSkipExcluded))
	r.Add("runs_not_compared_code_size_param", atomic.LoadInt64(&nSkipBigCode))
	r.Add("runs_not_compared_precompile_tiny_gas", atomic.LoadInt64(&nSkipPrecompTiny))
	r.Add("reference_runs_reused_for_v1", atomic.LoadInt64(&nRefReused))
	r.Add("info_compared_runs_same_leftover_gas", atomic.LoadInt64(&nGasEqual))
	r.Add("info_compared_runs_different_leftover_gas", atomic.LoadInt64(&nGasDiffer))
	r.Add("info_failure_kind_differs_both_fail", atomic.LoadInt64(&nKindMismatchInfo))
	r.Add("kvm_runs_success", atomic.LoadInt64(&nStatus[0]))
	r.Add("kvm_runs_revert", atomic.LoadInt64(&nStatus[1]))
	r.Add("kvm_runs_failure", atomic.LoadInt64(&nStatus[2]))
	r.Set("rule", "E3: every token sequence of length <= seq_max_len over the listed alphabet (longest length: see seq_len3_alphabet / cap_reached), wrapped by a fixed prelude/postlude; "+
		"every byte as single-opcode body; DUP/SWAP over 20 distinct words; operand sweeps per opcode (36B input, ample gas); every 1- and 2-byte raw code; raw strings as init code of a top-level creation; the wrapper programs; every frame shape (chains of <= 3 frames over the 4 call kinds x one optional sibling call x 10 state-changing actions, see frame_shapes); "+
		"the code-identity scenarios (2-3 contracts that all JUMP in one transaction, layouts enumerated so that at each jump-target offset the other program has a JUMPDEST / another opcode / PUSH data 0x5b / other PUSH data / "+
		"its end nearby / its end far before / a truncated PUSH, jump before or after the call, 4 call kinds, same code at two addresses, self-call; own absolute model plus differential, see codeid_scenarios); "+
		"the create-return scenarios (CREATE / CREATE2 x 9 init-code shapes {small, empty, stop, 1000-byte deposit with the frame's gas swept across every schedule's code-store threshold, 30000 and 40000 bytes, revert with / without data, fault} "+
		"x {RETURNDATASIZE, RETURNDATACOPY of 1 byte, RETURNDATACOPY of everything} x {in a called frame, in the top frame}; absolute oracle: the return-data buffer is empty after every creation that did not revert, see createret_kvm_outcomes); "+
		"the precompile scenarios (CALL / CALLCODE / transaction-style top-level call to each address 0x01..0x09 x value {0,1,7} x gas {0, just below the price, 500000, 501000} x inputs {empty, valid, rejected, unpayable}, "+
		"returning flag, both balances, EXTCODEHASH / EXTCODESIZE of the target, RETURNDATASIZE; absolute oracle: a failed frame changes no state and consumes the gas it was given, a successful CALL moves exactly the value, see precompile_kvm_outcomes); "+
		"the output-window scenarios (4 call opcodes x callee {returns / reverts with a 32-byte payload, reverts empty, faults, out of gas} x retSize {0,16,32,64}, window pre-filled with a marker and read back through MLOAD / SHA3 / RETURN). "+
		"Token sequences of length <= 2, single bodies and (thorough) length 3 and raw codes run under call data {empty,32B,36B} x gas {tiny,ample}; quick: length 3 under (36B, ample), raw codes under {(36B,ample),(empty,ample),(36B,tiny)}; thorough length 4 under (36B, ample). Everything under both instruction sets. "+
		"evaluations = executions on KVM plus on the reference. A program is distinct by construction (unique code bytes) and counted non-trivial when, for at least one (input, gas, instruction set), "+
		"KVM dispatched >= 1 instruction past the prelude AND no frame on either side ran out of gas or fetched an excluded opcode, so the differential oracle was applied.")
	r.Assume("go-ethereum v1.9.15 core/vm + core/state under Petersburg rules with EIP-1884 (v1, v2) and EIP-1344 (v2) enabled is the reference semantics (binding table in the evidence)",
		"gas costs, GAS, bytes 0x44 and 0x45 (KVM: GASLIMIT and undefined; reference: DIFFICULTY and GASLIMIT), refund counter and MaxCodeSize (39231 vs 24576: only a creation returning between the two limits is excluded) legitimately differ and are never compared; a run is value-compared only if no frame on either side failed with an out-of-gas class error",
		"block context (coinbase, time, number, gas limit, gas price, origin, block hashes, chain id) is pinned equal on both sides",
		"precompile calls (addresses 1..9) are value-compared only under ample gas (their gas failure is invisible to the reference's tracer)",
		"failure kinds are compared as success / revert / failure (the weakest reading of 'error class'); finer mismatches are only counted",
		"post-state comparison covers storage slots written by either side plus fixed slots, and balance/nonce/code/existence of a fixed address set plus every address touched by either side")
	r.Require(atomic.LoadInt64(&nCompared) > 1000, "fewer than 1000 runs were compared with the reference")
	r.Require(atomic.LoadInt64(&nStatus[0]) > 0 && atomic.LoadInt64(&nStatus[1]) > 0 && atomic.LoadInt64(&nStatus[2]) > 0, "not all of success/revert/failure were observed")
	r.Require(atomic.LoadInt64(&nKvmOOG) > 0 && atomic.LoadInt64(&nRefOOG) > 0, "no out-of-gas execution observed")
	r.Exhaustive(true) // stays false if any family reported a cap
	pprof.StopCPUProfile()
	flushFindings()
	r.Finish()
}
