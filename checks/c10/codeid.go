package main

import (
	"fmt"
	"strings"
	"sync/atomic"

	"verif/mc/par"
)

// ---------------------------------------------------------------------------------------------
// family codeid ("code identity"): everything the VM caches per code hash or derives per contract
// (the JUMPDEST analysis of kvm/contract.go: Contract.jumpdests keyed by Contract.CodeHash and shared by
// all frames of a transaction, Contract.analysis, Contract.Code / CodeAddr) must belong to the code a frame
// really executes. Programs of several contracts therefore BOTH jump in one transaction, and their layouts
// are enumerated so that at each jump-target offset the other program has every kind of content.
//
// Program layout (all programs share the two slot offsets):
//
//	0 ..        prefix: [self-call guard] [calls, if "call before jump"] then  PUSH1 <slot> JUMP
//	            or, for a program that does not jump: marker, calls, RETURN
//	ciS1        slot 1: content kind c1, followed by its continuation: marker [calls, if "call after jump"] RETURN
//	ciS2        slot 2: content kind c2, followed by its continuation (or the code ends before / at it)
//
// slot content kinds: J = JUMPDEST (the only valid target), O = another opcode (PC), D5b = the byte 0x5b as
// PUSH1 data, Dxx = the byte 0x01 as PUSH1 data; slot 2 only: ENDnear = code ends 4 bytes before the slot,
// ENDfar = code ends 48 bytes before the slot (the slot lies beyond the padded analysis bitmap of this
// program), TR5b = code ends with a truncated PUSH2 whose only data byte 0x5b sits at the slot, TR32 = code
// ends with a PUSH32 without data right before the slot.
//
// Every frame returns 5 words: own marker (0xa0 no jump, 0xa1 / 0xa2 continuation of slot 1 / 2 reached),
// flag and first returned word of its first call, flag and first returned word of its second call.
// Non-static frames also SSTORE the marker (slot 0x10+marker), so storage shows which continuations ran.
//
// Absolute oracle (own model, independent of the reference): a jump succeeds iff the jumping program itself
// has kind J at the slot; a frame whose jump fails fails as a whole. Plus the differential oracle, the
// always-oracles (no panic, determinism, gas bound).

const (
	ciS1     = 104
	ciS2     = 248
	ciEndFar = 200
)

const (
	ciJ = iota
	ciO
	ciD5b
	ciDxx
	ciEndNearK
	ciEndFarK
	ciTR5b
	ciTR32
)

var ciKindName = []string{"J", "O", "D5b", "Dxx", "ENDnear", "ENDfar", "TR5b", "TR32"}

var (
	addrCI = [3]addr20{mkAddr("c1d00001"), mkAddr("c1d00002"), mkAddr("c1d00003")}
)

type ciCall struct {
	kind   int // index into callKinds
	to     addr20
	inSize uint64
}

type ciProg struct {
	c1, c2  int
	tj      int  // 0: no jump, 1: jump to slot 1, 2: jump to slot 2
	callPos int  // 1: calls before the jump (or inline when tj == 0), 2: calls in the continuation after the jump
	static  bool // frame runs write-protected: no SSTORE marker
	guard   bool // self-call guard: the calls are skipped when CALLDATASIZE != 0
	calls   []ciCall
}

func (p ciProg) desc() string {
	j := "no jump"
	if p.tj > 0 {
		j = fmt.Sprintf("jumps to slot %d", p.tj)
		if len(p.calls) > 0 {
			j += map[int]string{1: " after its call", 2: " before its call"}[p.callPos]
		}
	}
	return fmt.Sprintf("[%s|%s %s]", ciKindName[p.c1], ciKindName[p.c2], j)
}

func ciMarker(v byte, static bool) []byte {
	m := []byte{0x60, v, 0x60, 0x00, 0x52} // mem[0] = v
	if !static {
		m = append(m, 0x60, v, 0x60, 0x10+(v&0x0f), 0x55) // sstore(0x10+low nibble, v)
	}
	return m
}

func ciCallSeq(calls []ciCall) []byte {
	var b []byte
	for i, c := range calls {
		out := uint64(0x40 + 0x40*i)
		b = cat(b, pushU(0x20), pushU(out), []byte{0x60, byte(c.inSize), 0x60, 0x00})
		k := callKinds[c.kind]
		if k == "CALL" || k == "CALLCODE" {
			b = append(b, 0x60, 0x00)
		}
		b = cat(b, pushAddr(c.to), []byte{0x62, 0x03, 0x0d, 0x40}, asm(k)) // gas 200000
		b = cat(b, pushU(out-0x20), asm("MSTORE"))
	}
	return b
}

var ciFinish = []byte{0x60, 0xa0, 0x60, 0x00, 0xf3}

func (p ciProg) code() []byte {
	var c []byte
	callsHere := func() []byte { return ciCallSeq(p.calls) }
	guarded := func(b []byte) []byte {
		if !p.guard || len(b) == 0 {
			return b
		}
		// CALLDATASIZE PUSH2 <skip> JUMPI <calls> JUMPDEST
		skip := len(c) + 5 + len(b)
		return cat([]byte{0x36, 0x61, byte(skip >> 8), byte(skip), 0x57}, b, []byte{0x5b})
	}
	if p.tj == 0 {
		c = cat(c, ciMarker(0xa0, p.static))
		c = cat(c, guarded(callsHere()))
		c = cat(c, ciFinish)
	} else {
		if p.callPos == 1 {
			c = cat(c, guarded(callsHere()))
		}
		slot := ciS1
		if p.tj == 2 {
			slot = ciS2
		}
		c = append(c, 0x60, byte(slot), 0x56)
	}
	if len(c) > ciS1-1 {
		panic("codeid: prefix too long")
	}
	slotBytes := func(kind int) (before byte, at []byte) {
		switch kind {
		case ciJ:
			return 0x00, []byte{0x5b}
		case ciO:
			return 0x00, []byte{0x58, 0x50}
		case ciD5b:
			return 0x60, []byte{0x5b}
		case ciDxx:
			return 0x60, []byte{0x01}
		}
		panic("codeid: slot kind")
	}
	cont := func(slot int) []byte {
		b := ciMarker(0xa0+byte(slot), p.static)
		if p.callPos == 2 && p.tj == slot {
			save := c
			c = append(append([]byte{}, c...), b...) // so that the guard's skip offset is computed at the right position
			g := guarded(callsHere())
			c = save
			b = cat(b, g)
		}
		return cat(b, ciFinish)
	}
	// slot 1
	c = append(c, make([]byte, ciS1-1-len(c))...)
	before, at := slotBytes(p.c1)
	c = append(c, before)
	c = append(c, at...)
	c = append(c, cont(1)...)
	if len(c) > ciEndFar {
		panic("codeid: slot 1 continuation too long")
	}
	// slot 2
	switch p.c2 {
	case ciEndFarK:
		return append(c, make([]byte, ciEndFar-len(c))...)
	case ciEndNearK:
		return append(c, make([]byte, ciS2-4-len(c))...)
	case ciTR5b:
		c = append(c, make([]byte, ciS2-1-len(c))...)
		return append(c, 0x61, 0x5b)
	case ciTR32:
		c = append(c, make([]byte, ciS2-1-len(c))...)
		return append(c, 0x7f)
	}
	c = append(c, make([]byte, ciS2-1-len(c))...)
	before, at = slotBytes(p.c2)
	c = append(c, before)
	c = append(c, at...)
	return append(c, cont(2)...)
}

// ---- the checker's own model -------------------------------------------------------------------

type ciResult struct {
	ok    bool
	words [5]uint64
}

func (p ciProg) jumpValid() bool {
	switch p.tj {
	case 1:
		return p.c1 == ciJ
	case 2:
		return p.c2 == ciJ
	}
	return true
}

// ciEval models one frame. callee(i) evaluates the frame entered by the i-th call; skipCalls models the
// self-call guard (CALLDATASIZE != 0).
func (p ciProg) eval(callee func(i int) ciResult, skipCalls bool) ciResult {
	var r ciResult
	doCalls := func() {
		if skipCalls && p.guard {
			return
		}
		for i := range p.calls {
			cr := callee(i)
			if cr.ok {
				r.words[1+2*i] = 1
				r.words[2+2*i] = cr.words[0]
			}
		}
	}
	if p.tj == 0 {
		r.words[0] = 0xa0
		doCalls()
		r.ok = true
		return r
	}
	if p.callPos == 1 {
		doCalls()
	}
	if !p.jumpValid() {
		return ciResult{}
	}
	r.words[0] = 0xa0 + uint64(p.tj)
	if p.callPos == 2 {
		doCalls()
	}
	r.ok = true
	return r
}

func ciExpect(res ciResult) []string {
	if !res.ok {
		return []string{"status=failure"}
	}
	exp := []string{"status=success"}
	for i, w := range res.words {
		exp = append(exp, fmt.Sprintf("ret32[%d]=%x", i, w))
	}
	return exp
}

// ---- enumeration --------------------------------------------------------------------------------

type ciLayout struct{ c1, c2 int }

func ciLayouts(c1s, c2s []int) []ciLayout {
	var out []ciLayout
	for _, a := range c1s {
		for _, b := range c2s {
			out = append(out, ciLayout{a, b})
		}
	}
	return out
}

// variants of a calling program: no jump (calls inline), or jump to slot 1/2 with the calls before / after.
func ciCallerVariants(ls []ciLayout, bothOrders bool) []ciProg {
	var out []ciProg
	for _, l := range ls {
		out = append(out, ciProg{c1: l.c1, c2: l.c2, tj: 0, callPos: 1})
		for tj := 1; tj <= 2; tj++ {
			out = append(out, ciProg{c1: l.c1, c2: l.c2, tj: tj, callPos: 1})
			if bothOrders {
				out = append(out, ciProg{c1: l.c1, c2: l.c2, tj: tj, callPos: 2})
			}
		}
	}
	return out
}

func ciLeafVariants(ls []ciLayout) []ciProg {
	var out []ciProg
	for _, l := range ls {
		for tj := 0; tj <= 2; tj++ {
			out = append(out, ciProg{c1: l.c1, c2: l.c2, tj: tj, callPos: 1})
		}
	}
	return out
}

type ciScenario struct {
	kind    string // pair | chain | twice | self
	a, b, c int    // indices into the variant lists of the scenario kind
	k1, k2  int    // call kinds
	same    bool   // twice: second callee has the same code as the first (at another address)
}

type ciSpace struct {
	pairOuter, pairInner             []ciProg
	chainOuter, chainMid, chainInner []ciProg
	twiceOuter, twiceInner           []ciProg
	selfProgs                        []ciProg
	scen                             []ciScenario
}

func buildCodeID(quick bool) *ciSpace {
	all1 := []int{ciJ, ciO, ciD5b, ciDxx}
	all2 := []int{ciJ, ciO, ciD5b, ciDxx, ciEndNearK, ciEndFarK, ciTR5b, ciTR32}
	full := ciLayouts(all1, all2)
	small := []ciLayout{{ciJ, ciJ}, {ciD5b, ciJ}, {ciJ, ciEndFarK}}
	mid := ciLayouts([]int{ciJ, ciD5b, ciDxx}, []int{ciJ, ciD5b, ciEndFarK, ciTR5b})
	s := &ciSpace{}
	// pair: outer x inner x 4 call kinds, full layouts on both sides
	s.pairOuter = ciCallerVariants(full, true)
	s.pairInner = ciLeafVariants(full)
	for a := range s.pairOuter {
		for b := range s.pairInner {
			for k := 0; k < 4; k++ {
				s.scen = append(s.scen, ciScenario{kind: "pair", a: a, b: b, k1: k})
			}
		}
	}
	// chain: three frames, 16 kind pairs
	cl := small
	if !quick {
		cl = mid
	}
	s.chainOuter = ciCallerVariants(cl, false)
	s.chainMid = ciCallerVariants(cl, false)
	s.chainInner = ciLeafVariants(cl)
	for a := range s.chainOuter {
		for b := range s.chainMid {
			for c := range s.chainInner {
				for k := 0; k < 16; k++ {
					s.scen = append(s.scen, ciScenario{kind: "chain", a: a, b: b, c: c, k1: k % 4, k2: k / 4})
				}
			}
		}
	}
	// twice: the outer program calls two contracts one after the other (same code at two addresses, or different code)
	s.twiceOuter = ciCallerVariants(small, !quick)
	s.twiceInner = ciLeafVariants(cl)
	for a := range s.twiceOuter {
		for b := range s.twiceInner {
			for k := 0; k < 16; k++ {
				s.scen = append(s.scen, ciScenario{kind: "twice", a: a, b: b, c: b, k1: k % 4, k2: k / 4, same: true})
				for c := range s.twiceInner {
					if c != b {
						s.scen = append(s.scen, ciScenario{kind: "twice", a: a, b: b, c: c, k1: k % 4, k2: k / 4})
					}
				}
			}
		}
	}
	// self: a contract calls itself (guarded by CALLDATASIZE) through each call kind
	s.selfProgs = ciCallerVariants(full, true)
	for a := range s.selfProgs {
		for k := 0; k < 4; k++ {
			s.scen = append(s.scen, ciScenario{kind: "self", a: a, k1: k})
		}
	}
	return s
}

func (s *ciSpace) prog(sc ciScenario) wrapperProg {
	var (
		top   ciProg
		extra []account
		model ciResult
		name  string
	)
	acct := func(a addr20, p ciProg) account { return account{addr: a, code: p.code(), balance: 10} }
	switch sc.kind {
	case "pair":
		in := s.pairInner[sc.b]
		in.static = sc.k1 == 0
		top = s.pairOuter[sc.a]
		top.calls = []ciCall{{kind: sc.k1, to: addrCI[0]}}
		extra = []account{acct(addrCI[0], in)}
		model = top.eval(func(int) ciResult { return in.eval(nil, false) }, false)
		name = fmt.Sprintf("codeid-pair/outer%s %s inner%s", top.desc(), callKinds[sc.k1], in.desc())
	case "chain":
		in := s.chainInner[sc.c]
		in.static = sc.k1 == 0 || sc.k2 == 0
		md := s.chainMid[sc.b]
		md.static = sc.k1 == 0
		md.calls = []ciCall{{kind: sc.k2, to: addrCI[1]}}
		top = s.chainOuter[sc.a]
		top.calls = []ciCall{{kind: sc.k1, to: addrCI[0]}}
		extra = []account{acct(addrCI[0], md), acct(addrCI[1], in)}
		model = top.eval(func(int) ciResult {
			return md.eval(func(int) ciResult { return in.eval(nil, false) }, false)
		}, false)
		name = fmt.Sprintf("codeid-chain/outer%s %s mid%s %s inner%s", top.desc(), callKinds[sc.k1], md.desc(), callKinds[sc.k2], in.desc())
	case "twice":
		i1 := s.twiceInner[sc.b]
		i2 := s.twiceInner[sc.c]
		i1.static = sc.k1 == 0
		i2.static = sc.k2 == 0
		if sc.same {
			// identical code at two addresses: both must then be free of SSTORE if either runs write-protected
			st := i1.static || i2.static
			i1.static, i2.static = st, st
		}
		top = s.twiceOuter[sc.a]
		top.calls = []ciCall{{kind: sc.k1, to: addrCI[0]}, {kind: sc.k2, to: addrCI[1]}}
		extra = []account{acct(addrCI[0], i1), acct(addrCI[1], i2)}
		model = top.eval(func(i int) ciResult {
			if i == 0 {
				return i1.eval(nil, false)
			}
			return i2.eval(nil, false)
		}, false)
		rel := "different code"
		if sc.same {
			rel = "the same code at another address"
		}
		name = fmt.Sprintf("codeid-twice/outer%s %s first%s then %s second%s (%s)", top.desc(), callKinds[sc.k1], i1.desc(), callKinds[sc.k2], i2.desc(), rel)
	case "self":
		top = s.selfProgs[sc.a]
		top.static = true // the same code also runs as callee, possibly write-protected
		top.guard = true
		top.calls = []ciCall{{kind: sc.k1, to: addrMain, inSize: 1}}
		model = top.eval(func(int) ciResult { return top.eval(nil, true) }, false)
		name = fmt.Sprintf("codeid-self/%s %ss itself", top.desc(), callKinds[sc.k1])
	}
	return mkWrapper(name, top.code(), extra, 3000000, nil, 200000, ciExpect(model)...)
}

func runCodeID() {
	s := buildCodeID(r.Quick())
	counts := map[string]int{}
	for _, sc := range s.scen {
		counts[sc.kind]++
	}
	done := par.For(int64(len(s.scen)), 64, r.Expired, func(i int64) {
		c := getCtx()
		defer putCtx(c)
		w := s.prog(s.scen[i])
		w.p.family = "codeid"
		atomic.AddInt64(&nPrograms, 1)
		if runProgram(c, w.p, func(iset int, f finding) (string, *prog) { return classFor(c, w.p, iset, f, w.class), nil }) {
			atomic.AddInt64(&nDistinctNontrivial, 1)
		}
	})
	r.Add("codeid_programs", done)
	var parts []string
	for _, k := range []string{"pair", "chain", "twice", "self"} {
		parts = append(parts, fmt.Sprintf("%s=%d", k, counts[k]))
	}
	r.Set("codeid_scenarios", strings.Join(parts, " ")+": programs of 2-3 contracts that all JUMP in one transaction; slot kinds {J,O,D5b,Dxx} x {J,O,D5b,Dxx,ENDnear,ENDfar,TR5b,TR32}; "+
		"jump {none, slot 1, slot 2} x {before, after the call}; call kinds {STATICCALL,CALL,DELEGATECALL,CALLCODE}; same code at two addresses; self-call")
	if done < int64(len(s.scen)) {
		r.NotExhaustive(fmt.Sprintf("deadline: code-identity scenarios completed %d of %d", done, len(s.scen)))
	}
}
